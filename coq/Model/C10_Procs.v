(* C10, round 6: the remaining fragment producers (definitions only; proofs in
   Proofs/C10_ProcFacts.v).

     layout/processors.py  _MergedProcessor (the chain, with the composed
                           source_to_display it hands to every processor and the
                           exceptions a processor can raise), HighlightSearchProcessor /
                           HighlightIncrementalSearchProcessor, HighlightMatchingBracketProcessor,
                           DisplayMultipleCursors, TabsProcessor, ShowLeading/
                           ShowTrailingWhiteSpaceProcessor, AfterInput, ShowArg,
                           ConditionalProcessor, DynamicProcessor; the round 3/4 processors
                           (Model/C10_Producers.v) at any place of the chain
     layout/margins.py     NumberedMargin, ScrollbarMargin, PromptMargin (create_margin) and
                           Window.render_margin (FormattedTextControl(fragments))
     layout/menus.py       MultiColumnCompletionMenuControl.create_content: one row

   What comes from other objects (Document: selection / bracket positions /
   cursor; re: case-insensitive matches; float arithmetic of the scrollbar) is
   part of the case; everything that builds style strings and texts is here. *)
From Coq Require Import ZArith List Bool.
From PTK Require Import Lib.Sx Lib.Py Gen.C10_DisplayMappings Model.C10_Screen Model.C10_Producers
     Model.C10_Wire Model.C10_Print.
Import ListNotations.
Open Scope Z_scope.

Definition S_MBC : list Z := [32;99;108;97;115;115;58;109;97;116;99;104;105;110;103;45;98;114;97;99;107;101;116;46;99;117;114;115;111;114;32].  (* ' class:matching-bracket.cursor ' *)
Definition S_MBO : list Z := [32;99;108;97;115;115;58;109;97;116;99;104;105;110;103;45;98;114;97;99;107;101;116;46;111;116;104;101;114;32].  (* ' class:matching-bracket.other ' *)
Definition S_MULTI : list Z := [32;99;108;97;115;115;58;109;117;108;116;105;112;108;101;45;99;117;114;115;111;114;115].  (* ' class:multiple-cursors' *)
Definition S_CLASS : list Z := [32;99;108;97;115;115;58].  (* ' class:' *)
Definition S_SEARCH : list Z := [115;101;97;114;99;104].  (* 'search' *)
Definition S_SEARCH_CUR : list Z := [115;101;97;114;99;104;46;99;117;114;114;101;110;116].  (* 'search.current' *)
Definition S_INCSEARCH : list Z := [105;110;99;115;101;97;114;99;104].  (* 'incsearch' *)
Definition S_INCSEARCH_CUR : list Z := [105;110;99;115;101;97;114;99;104;46;99;117;114;114;101;110;116].  (* 'incsearch.current' *)
Definition S_ARG : list Z := [99;108;97;115;115;58;112;114;111;109;112;116;46;97;114;103].  (* 'class:prompt.arg' *)
Definition S_ARG_TEXT : list Z := [99;108;97;115;115;58;112;114;111;109;112;116;46;97;114;103;46;116;101;120;116].  (* 'class:prompt.arg.text' *)
Definition T_ARG_OPEN : list Z := [40;97;114;103;58;32].  (* '(arg: ' *)
Definition T_ARG_CLOSE : list Z := [41;32].  (* ') ' *)
Definition S_LINENO : list Z := [99;108;97;115;115;58;108;105;110;101;45;110;117;109;98;101;114].  (* 'class:line-number' *)
Definition S_LINENO_CUR : list Z := [99;108;97;115;115;58;108;105;110;101;45;110;117;109;98;101;114;46;99;117;114;114;101;110;116].  (* 'class:line-number.current' *)
Definition S_TILDE : list Z := [99;108;97;115;115;58;116;105;108;100;101].  (* 'class:tilde' *)
Definition T_TILDE : list Z := [126;10].  (* '~\n' *)
Definition S_SB : list Z := [99;108;97;115;115;58;115;99;114;111;108;108;98;97;114].  (* 'class:scrollbar' *)
Definition S_SB_ARROW : list Z := [99;108;97;115;115;58;115;99;114;111;108;108;98;97;114;46;97;114;114;111;119].  (* 'class:scrollbar.arrow' *)
Definition S_SB_BG : list Z := [99;108;97;115;115;58;115;99;114;111;108;108;98;97;114;46;98;97;99;107;103;114;111;117;110;100].  (* 'class:scrollbar.background' *)
Definition S_SB_BG_START : list Z := [99;108;97;115;115;58;115;99;114;111;108;108;98;97;114;46;98;97;99;107;103;114;111;117;110;100;44;115;99;114;111;108;108;98;97;114;46;115;116;97;114;116].  (* 'class:scrollbar.background,scrollbar.start' *)
Definition S_SB_BTN : list Z := [99;108;97;115;115;58;115;99;114;111;108;108;98;97;114;46;98;117;116;116;111;110].  (* 'class:scrollbar.button' *)
Definition S_SB_BTN_END : list Z := [99;108;97;115;115;58;115;99;114;111;108;108;98;97;114;46;98;117;116;116;111;110;44;115;99;114;111;108;108;98;97;114;46;101;110;100].  (* 'class:scrollbar.button,scrollbar.end' *)
Definition S_COMPLETION : list Z := [99;108;97;115;115;58;99;111;109;112;108;101;116;105;111;110].  (* 'class:completion' *)
Definition S_CMENU : list Z := [99;108;97;115;115;58;99;111;109;112;108;101;116;105;111;110;45;109;101;110;117].  (* 'class:completion-menu' *)

(* ---------------------------------------------------------------- helpers *)

(* source_to_display: None = the call raises (KeyError of TabsProcessor's position_mappings) *)
Definition s2d_t := Z -> option Z.
Definition s2d_id : s2d_t := fun i => Some i.
Definition s2d_comp (f g : s2d_t) : s2d_t := fun i => match f i with Some j => g j | None => None end.

(* formatted_text.utils.fragment_list_len / fragment_list_to_text: marked fragments do not count *)
Definition flen (fs : list frag) : Z :=
  fold_right (fun (f : frag) a => (if contains ZWE_MARK (fst f) then 0 else len (snd f)) + a) 0 fs.
Definition ftext (fs : list frag) : list Z :=
  flat_map (fun f : frag => if contains ZWE_MARK (fst f) then [] else snd f) fs.

(* re.finditer(re.escape(pat), s): non-overlapping literal matches, leftmost first; pat <> "" *)
Fixpoint find_lit (pat s : list Z) (i : Z) (skip : nat) : list (Z * Z) :=
  match s with
  | [] => []
  | _ :: r =>
      match skip with
      | S k => find_lit pat r (i + 1) k
      | O => if startswith s pat
             then (i, i + len pat) :: find_lit pat r (i + 1) (Nat.pred (length pat))
             else find_lit pat r (i + 1) O
      end
  end.

(* for i in range(a, b): fragments[i] = (fragments[i][0] + suffix, fragments[i][1]) *)
Fixpoint restyle_sfx (i : Z) (suffix : list Z) (fs : list frag) : list frag :=
  match fs with
  | [] => []
  | f :: r => if i =? 0 then (fst f ++ suffix, snd f) :: r else f :: restyle_sfx (i - 1) suffix r
  end.
Fixpoint restyle_range (n : nat) (i : Z) (suffix : list Z) (fs : list frag) : list frag :=
  match n with
  | O => fs
  | S k => restyle_range k (i + 1) suffix (restyle_sfx i suffix fs)
  end.

(* _ExplodedList.__setitem__(i, value): self[slice(i, i + 1)] = explode_text_fragments([value])
   - a text of several characters becomes several elements, an empty text removes the element,
   and i = -1 gives slice(-1, 0), which INSERTS in front of the last element (as coded) *)
Definition py_setitem (e : list frag) (i : Z) (v : frag) : list frag :=
  let n := len e in
  let a := adj_index n i in
  let b := Z.max a (adj_index n (i + 1)) in
  firstn (Z.to_nat a) e ++ explode [v] ++ skipn (Z.to_nat b) e.

(* str.rjust(width) *)
Definition rjust (s : list Z) (width : Z) : list Z := str_mul [32] (width - len s) ++ s.

(* ---------------------------------------------------------------- processors *)

Inductive proc2 :=
| QBase (p : processor)         (* Identity, Password, BeforeInput, AppendAutoSuggestion, HighlightSelection *)
| QSearch (inc : bool) (text : list Z) (given : option (list (Z * list (Z * Z))))
          (cur_row cur_col : Z) (done : bool)
     (* Highlight(Incremental)SearchProcessor: search text, the matches per line when
        IGNORECASE is set (from re; None = case sensitive, computed here), the cursor, app.is_done *)
| QBracket (positions : list (Z * Z)) (cur_col : Z) (done : bool)
     (* HighlightMatchingBracketProcessor: _get_positions_to_highlight(document), cursor_position_col *)
| QMulti (active : bool) (rel : list (Z * list Z))
     (* DisplayMultipleCursors: vi_insert_multiple_mode(), per line the p - start_pos of the cursors on it *)
| QTabs (tabstop : Z) (c1 c2 style : list Z)
| QLeading (style ch : list Z)
| QTrailing (style ch : list Z)
| QAfter (style : list Z) (fs : list frag) (last : Z)   (* AfterInput; last = line_count - 1 *)
| QCond (b : bool) (q : proc2)                          (* ConditionalProcessor(q, filter) with filter() = b *)
| QDyn (b : bool) (q : proc2).                          (* DynamicProcessor: get_processor() = q if b else None *)

(* ShowArg._get_text_fragments; ShowArg() = BeforeInput(that) *)
Definition show_arg_frags (arg : option (list Z)) : list frag :=
  match arg with
  | None => []
  | Some a => [(S_ARG, T_ARG_OPEN); (S_ARG_TEXT, a); (S_ARG, T_ARG_CLOSE)]
  end.

Definition search_suffix (cls : list Z) : list Z := S_CLASS ++ cls ++ [32].

Definition search_apply (inc : bool) (matches : list (Z * Z)) (cc : option Z) (e : list frag) : list frag :=
  fold_left (fun (e : list frag) (m : Z * Z) =>
               let on_cursor := match cc with
                                | Some c => (fst m <=? c) && (c <? snd m)
                                | None => false
                                end in
               let cls := if on_cursor then (if inc then S_INCSEARCH_CUR else S_SEARCH_CUR)
                          else (if inc then S_INCSEARCH else S_SEARCH) in
               restyle_range (Z.to_nat (snd m - fst m)) (fst m) (search_suffix cls) e)
            matches e.

(* TabsProcessor loop: (pos, result, position_mappings) *)
Fixpoint tabs_loop (tabstop : Z) (c1 c2 style : list Z) (e : list frag) (i pos : Z)
         (acc : list frag) (pm : list (Z * Z)) : list frag * list (Z * Z) * Z :=
  match e with
  | [] => (acc, pm, pos)
  | f :: r =>
      let pm' := pm ++ [(i, pos)] in
      if str_eqb (snd f) [9] then
        let count0 := tabstop - pos mod tabstop in
        let count := if count0 =? 0 then tabstop else count0 in
        tabs_loop tabstop c1 c2 style r (i + 1) (pos + count)
                  (acc ++ [(style, c1); (style, str_mul c2 (count - 1))]) pm'
      else tabs_loop tabstop c1 c2 style r (i + 1) (pos + 1) (acc ++ [f]) pm'
  end.

(* ShowLeadingWhiteSpaceProcessor: for i in range(len(fragments)) - the length is read once,
   while fragments[i] = t changes it when get_char() is not exactly one character *)
Fixpoint lead_idx (n : nat) (i : Z) (t : frag) (e : list frag) : option (list frag) :=
  match n with
  | O => Some e
  | S k =>
      match index e i with
      | None => None                                    (* IndexError *)
      | Some f => if str_eqb (snd f) [32] then lead_idx k (i + 1) t (py_setitem e i t) else Some e
      end
  end.
(* ShowTrailingWhiteSpaceProcessor walks backwards: replacements do not move what is still to visit *)
Fixpoint count_sp (r : list frag) : nat :=
  match r with
  | f :: r' => if str_eqb (snd f) [32] then S (count_sp r') else O
  | [] => O
  end.
Definition trail_apply (t : frag) (e : list frag) : list frag :=
  let k := count_sp (rev e) in
  firstn (length e - k) e ++ flat_map (fun _ => explode [t]) (seq 0 k).

Definition endswith_sp (s : list Z) : bool := match rev s with 32 :: _ => true | _ => false end.

(* one processor: Some (fragments, transformation.source_to_display) or None = it raises *)
Fixpoint apply_q (q : proc2) (lineno : Z) (s2d : s2d_t) (fs : list frag) : option (list frag * s2d_t) :=
  match q with
  | QBase (PBeforeInput st b) =>
      Some (apply_proc (PBeforeInput st b) lineno fs,
            if lineno =? 0 then (fun i => Some (i + flen (with_style st b))) else s2d_id)
  | QBase (PSelect sel) =>
      match sel lineno with
      | None => Some (fs, s2d_id)
      | Some (a, b) =>
          match s2d a, s2d b with
          | Some a', Some b' => Some (apply_proc (PSelect (fun _ => Some (a', b'))) lineno fs, s2d_id)
          | _, _ => None
          end
      end
  | QBase p => Some (apply_proc p lineno fs, s2d_id)
  | QSearch inc text given cur_row cur_col done =>
      if nonempty text && negb done then
        let line_text := ftext fs in
        let e := explode fs in
        let matches := match given with
                       | Some tab => match assoc tab lineno with Some m => m | None => [] end
                       | None => find_lit text line_text 0 O
                       end in
        if cur_row =? lineno then
          match s2d cur_col with
          | Some c => Some (search_apply inc matches (Some c) e, s2d_id)
          | None => None
          end
        else Some (search_apply inc matches None e, s2d_id)
      else Some (fs, s2d_id)
  | QBracket positions cur_col done =>
      if done then Some (fs, s2d_id) else
      let step := fun (acc : option (list frag)) (rc : Z * Z) =>
        match acc with
        | None => None
        | Some fs1 =>
            if fst rc =? lineno then
              match s2d (snd rc) with
              | None => None
              | Some col =>
                  let e := explode fs1 in
                  match index e col with
                  | None => None                                   (* IndexError *)
                  | Some f => Some (py_setitem e col (fst f ++ (if col =? cur_col then S_MBC else S_MBO), snd f))
                  end
              end
            else Some fs1
        end in
      match fold_left step positions (Some fs) with
      | Some r => Some (r, s2d_id)
      | None => None
      end
  | QMulti active rel =>
      if active then
        let e := explode fs in
        let step := fun (acc : option (list frag)) (p : Z) =>
          match acc with
          | None => None
          | Some e1 =>
              match s2d p with
              | None => None
              | Some column =>
                  match index e1 column with
                  | None => Some (e1 ++ [(S_MULTI, [32])])         (* except IndexError *)
                  | Some f => Some (py_setitem e1 column (fst f ++ S_MULTI, snd f))
                  end
              end
          end in
        match fold_left step (match assoc rel lineno with Some l => l | None => [] end) (Some e) with
        | Some r => Some (r, s2d_id)
        | None => None
        end
      else Some (fs, s2d_id)
  | QTabs tabstop c1 c2 style =>
      (* pos % 0 raises at the first tab *)
      if (tabstop =? 0) && existsb (fun f : frag => str_eqb (snd f) [9]) (explode fs) then None
      else
        let e := explode fs in
        let r := tabs_loop tabstop c1 c2 style e 0 0 [] [] in
        let pos := snd r in
        let pm := snd (fst r) ++ [(len e, pos); (len e + 1, pos + 1)] in
        Some (fst (fst r), fun i => assoc pm i)
  | QLeading style ch =>
      if negb (len fs =? 0) && startswith (ftext fs) [32]
      then match lead_idx (length (explode fs)) 0 (style, ch) (explode fs) with
           | Some r => Some (r, s2d_id)
           | None => None
           end
      else Some (fs, s2d_id)
  | QTrailing style ch =>
      if match rev fs with f :: _ => endswith_sp (snd f) | [] => false end
      then Some (trail_apply (style, ch) (explode fs), s2d_id)
      else Some (fs, s2d_id)
  | QAfter st b last =>
      Some (if lineno =? last then fs ++ with_style st b else fs, s2d_id)
  | QCond b q' => if b then apply_q q' lineno s2d fs else Some (fs, s2d_id)
  | QDyn b q' => if b then apply_q q' lineno s2d fs else Some (fs, s2d_id)
  end.

(* _MergedProcessor.apply_transformation: every processor receives the composition of the
   source_to_display functions of its predecessors *)
Fixpoint apply_qs (qs : list proc2) (lineno : Z) (s2d : s2d_t) (tr : s2d_t) (fs : list frag)
  : option (list frag * s2d_t) :=
  match qs with
  | [] => Some (fs, tr)
  | q :: r =>
      match apply_q q lineno s2d fs with
      | Some (fs', t) => apply_qs r lineno (s2d_comp s2d t) (s2d_comp tr t) fs'
      | None => None
      end
  end.
(* _create_get_processed_line_func.transform: (fragments, transformation.source_to_display) *)
Definition processed_line (lexstyle : list Z) (qs : list proc2) (lineno : Z) (line : list Z)
  : option (list frag * s2d_t) :=
  apply_qs qs lineno s2d_id s2d_id [(lexstyle, line)].

Fixpoint mapi_opt {T U} (f : Z -> T -> option U) (i : Z) (l : list T) : option (list U) :=
  match l with
  | [] => Some []
  | x :: r => match f i x, mapi_opt f (i + 1) r with
              | Some y, Some ys => Some (y :: ys)
              | _, _ => None
              end
  end.

(* BufferControl(lexer=SimpleLexer(style), input_processors=qs).create_content: all lines;
   None = some line raises *)
Definition buffer_lines2 (lexstyle : list Z) (qs : list proc2) (text : list Z) : option (list (list frag)) :=
  mapi_opt (fun i line => match processed_line lexstyle qs i line with
                          | Some r => Some (fst r ++ [([], [32])])
                          | None => None
                          end) 0 (split_on 10 text).

(* create_content also evaluates translate_rowcol(cursor row, cursor col) =
   get_processed_line(row).source_to_display(col), which can raise as well *)
Definition buffer_content (lexstyle : list Z) (qs : list proc2) (text : list Z) (cur_row cur_col : Z)
  : option (list (list frag)) :=
  match index (split_on 10 text) cur_row with
  | Some line =>
      match processed_line lexstyle qs cur_row line with
      | Some r => match snd r cur_col with
                  | Some _ => buffer_lines2 lexstyle qs text
                  | None => None
                  end
      | None => None
      end
  | None => None
  end.

(* ---------------------------------------------------------------- margins *)

Definition opt_Z_eqb (a b : option Z) : bool :=
  match a, b with
  | Some x, Some y => x =? y
  | None, None => true
  | _, _ => false
  end.

(* NumberedMargin.create_margin loop; `lineno` is rebound in relative mode before
   `last_lineno = lineno` (as coded) *)
Fixpoint numbered_loop (relative : bool) (width current : Z) (displayed : list (option Z))
         (last : option Z) (acc : list frag) : list frag :=
  match displayed with
  | [] => acc
  | lineno :: r =>
      let '(acc1, last1) :=
        if negb (opt_Z_eqb lineno last) then
          match lineno with
          | None => (acc, lineno)
          | Some n =>
              if n =? current then
                (acc ++ [(S_LINENO_CUR, if relative then dec (n + 1) else rjust (dec (n + 1) ++ [32]) width)], lineno)
              else
                let n' := if relative then Z.abs (n - current) - 1 else n in
                (acc ++ [(S_LINENO, rjust (dec (n' + 1) ++ [32]) width)], Some n')
          end
        else (acc, lineno) in
      numbered_loop relative width current r last1 (acc1 ++ [([], [10])])
  end.
(* while y < window_height: append tilde; y = len(displayed) - 1 after the loop *)
Definition numbered_margin (relative tildes : bool) (width current : Z) (displayed : list (option Z))
           (window_height : Z) : list frag :=
  numbered_loop relative width current displayed None []
  ++ (if tildes then flat_map (fun _ => [(S_TILDE, T_TILDE)])
                              (seq 0 (Z.to_nat (window_height - (len displayed - 1))))
      else []).

(* ScrollbarMargin.create_margin after the float arithmetic (scrollbar_top, scrollbar_height) *)
Definition scrollbar_margin (arrows : bool) (up down : list Z) (window_height top height : Z) : list frag :=
  let wh := if arrows then window_height - 2 else window_height in
  let is_btn := fun row => (top <=? row) && (row <=? top + height) in
  (if arrows then [(S_SB_ARROW, up); (S_SB, [10])] else [])
  ++ flat_map (fun n => let i := Z.of_nat n in
                        [(if is_btn i then (if negb (is_btn (i + 1)) then S_SB_BTN_END else S_SB_BTN)
                          else (if is_btn (i + 1) then S_SB_BG_START else S_SB_BG), [32]); ([], [10])])
              (seq 0 (Z.to_nat wh))
  ++ (if arrows then [(S_SB_ARROW, down)] else []).

(* PromptMargin.create_margin: prompt and continuation fragments are application supplied *)
Definition prompt_margin (prompt : list frag) (conts : list (list frag)) : list frag :=
  prompt ++ flat_map (fun c => ([], [10]) :: c) conts.

(* Window.render_margin: FormattedTextControl(fragments).create_content -> lines *)
Definition margin_lines (fs : list frag) : list (list frag) := ftc_lines [] fs.

(* ---------------------------------------------------------------- multi-column menu, one row *)

(* a completion of the row: (display, style, selected_style, is_current); None = fill value *)
Definition mc_item := option (list frag * list Z * list Z * bool).

Definition mc_row (wc : Z -> Z) (row : list mc_item) (scroll visible column_width : Z)
           (left right middle : bool) : list frag :=
  let shown := slice_to (slice_from row scroll) visible in
  with_style S_CMENU
    ((if left then [(S_SB, if middle then [60] else [32])]
      else if right then [([], [32])] else [])
     ++ flat_map (fun it : mc_item =>
                    match it with
                    | Some (disp, cst, sst, cur) => menu_item wc cst sst disp cur column_width false
                    | None => [(S_COMPLETION, str_mul [32] column_width)]
                    end) shown
     ++ (if left || right then [(S_COMPLETION, [32])] else [])
     ++ (if right then [(S_SB, if middle then [62] else [32])]
         else if left then [(S_COMPLETION, [32])] else [])).

(* ---------------------------------------------------------------- _copy_body with vertical scroll *)

(* copy(): y = -vertical_scroll_2; lineno = vertical_scroll; while y < height and lineno < line_count *)
Definition copy_body_v (wc : Z -> Z) (g : cfg) (pfx : option (Z -> Z -> list frag)) (lines : list (list frag))
           (vs vs2 : Z) (s : screen) : screen :=
  let dz := copy_lines wc g pfx (skipn (Z.to_nat vs) lines) vs (- vs2) (sdata s) (szwe s) in
  mkscreen (fst dz) (snd dz) (Z.max (sheight s) (g_ypos g + g_height g)).

Fixpoint run_steps_v (wc : Z -> Z) (sty : list Z -> styinfo) (g : cfg) (pfx : option (Z -> Z -> list frag))
         (vs vs2 : Z) (steps : list rstep) (prev : option screen) (x y : Z) (last : option (list Z))
         (vis : option bool) : list sx :=
  match steps with
  | [] => []
  | st :: r =>
      let scr0 := copy_body_v wc g pfx (st_lines st) vs vs2 blank_screen in
      let scr := match st_app st with Some a => append_style wc a scr0 | None => scr0 end in
      let ri := mkrin (st_cols st) (st_rows st) (if st_useprev st then prev else None) (st_done st)
                      (st_full st) (st_pw st) (st_curx st) (st_cury st) (st_show st) in
      let s := output_screen_diff wc sty (st_cols st) scr ri (mkrs x y last vis [] false) in
      L [enc_rect wc (sdata scr) (g_ypos g + g_height g + 1) (g_xpos g + g_width g + 4);
         enc_zwe (szwe scr);
         A (sheight scr);
         L (map enc_tok (rev (rout s)));
         L [A (rx s); A (ry s); sx_opt sx_str (rlast s); sx_bool (roof s)]]
      :: run_steps_v wc sty g pfx vs vs2 r (Some scr) (rx s) (ry s) (rlast s) (rvis s)
  end.

(* ---------------------------------------------------------------- run_C10q *)

Definition dec_zz (s : sx) : option (Z * Z) := match s with L [A a; A b] => Some (a, b) | _ => None end.
Definition dec_zzs (s : sx) : option (list (Z * Z)) := match s with L l => map_opt dec_zz l | _ => None end.
Definition dec_zs (s : sx) : option (list Z) := as_str s.

Definition dec_given (g : sx) : option (list (Z * list (Z * Z))) :=
  match g with
  | L rows => map_opt (fun row => match row with
                                  | L [A l; ms] => match dec_zzs ms with Some m => Some (l, m) | None => None end
                                  | _ => None
                                  end) rows
  | _ => None
  end.
Definition dec_rel (rows : list sx) : option (list (Z * list Z)) :=
  map_opt (fun row => match row with
                      | L [A l; cs] => match dec_zs cs with Some c => Some (l, c) | None => None end
                      | _ => None
                      end) rows.
Definition nz (z : Z) : bool := negb (z =? 0).

Fixpoint dec_q (fuel : nat) (s : sx) : option proc2 :=
  match fuel with
  | O => None
  | S k =>
      match s with
      | L (A tag :: args) =>
          if tag <? 5 then match dec_proc s with Some p => Some (QBase p) | None => None end
          else if tag =? 5 then
            match args with
            | [A inc; tx; gv; A r; A c; A d] =>
                match as_str tx, as_opt dec_given gv with
                | Some tx', Some gv' => Some (QSearch (nz inc) tx' gv' r c (nz d))
                | _, _ => None
                end
            | _ => None
            end
          else if tag =? 6 then
            match args with
            | [ps; A c; A d] => match dec_zzs ps with Some ps' => Some (QBracket ps' c (nz d)) | None => None end
            | _ => None
            end
          else if tag =? 7 then
            match args with
            | [A a; L rows] => match dec_rel rows with Some rel => Some (QMulti (nz a) rel) | None => None end
            | _ => None
            end
          else if tag =? 8 then
            match args with
            | [A ts; c1; c2; st] =>
                match as_str c1, as_str c2, as_str st with
                | Some a, Some b, Some c => Some (QTabs ts a b c)
                | _, _, _ => None
                end
            | _ => None
            end
          else if (tag =? 9) || (tag =? 10) then
            match args with
            | [st; ch] =>
                match as_str st, as_str ch with
                | Some a, Some b => Some (if tag =? 9 then QLeading a b else QTrailing a b)
                | _, _ => None
                end
            | _ => None
            end
          else if tag =? 11 then
            match args with
            | [st; fs; A last] =>
                match as_str st, dec_frags fs with Some a, Some b => Some (QAfter a b last) | _, _ => None end
            | _ => None
            end
          else if tag =? 12 then
            match args with
            | [ar] => match as_opt as_str ar with
                      | Some a => Some (QBase (PBeforeInput [] (show_arg_frags a)))
                      | None => None
                      end
            | _ => None
            end
          else if (tag =? 13) || (tag =? 14) then
            match args with
            | [A b; q] => match dec_q k q with
                          | Some q' => Some (if tag =? 13 then QCond (nz b) q' else QDyn (nz b) q')
                          | None => None
                          end
            | _ => None
            end
          else None
      | _ => None
      end
  end.

Definition dec_optZ (s : sx) : option (option Z) := as_opt as_Z s.
Definition dec_mc_item (s : sx) : option mc_item :=
  match s with
  | L [] => Some None
  | L [d; cs; ss; cur] =>
      match dec_frags d, as_str cs, as_str ss, as_bool cur with
      | Some d', Some cs', Some ss', Some cur' => Some (Some (d', cs', ss', cur'))
      | _, _, _, _ => None
      end
  | _ => None
  end.

Definition EXC : sx := L [A (-7)].      (* the real code raises (IndexError / KeyError / ZeroDivisionError) *)

(* kinds: 12 BufferControl lines through the full chain; 13 numbered margin; 14 scrollbar margin;
   15 prompt margin; 16 multi-column menu row; 17 find_lit *)
Definition run_C10q (c : sx) : sx :=
  match c with
  | L [A 12; st; L qs; tx; A crow; A ccol; _] =>
      match as_str st, map_opt (dec_q 8) qs, as_str tx with
      | Some st', Some qs', Some tx' =>
          match buffer_content st' qs' tx' crow ccol with Some ls => enc_lines ls | None => EXC end
      | _, _, _ => bad_case
      end
  | L [A 13; rel; til; A w; A cur; L disp; A wh] =>
      match as_bool rel, as_bool til, map_opt dec_optZ disp with
      | Some r, Some t, Some d => enc_lines (margin_lines (numbered_margin r t w cur d wh))
      | _, _, _ => bad_case
      end
  | L [A 14; ar; up; dn; A wh; A top; A h; _] =>
      match as_bool ar, as_str up, as_str dn with
      | Some a, Some u, Some d => enc_lines (margin_lines (scrollbar_margin a u d wh top h))
      | _, _, _ => bad_case
      end
  | L [A 15; p; L cs] =>
      match dec_frags p, map_opt dec_frags cs with
      | Some p', Some cs' => enc_lines (margin_lines (prompt_margin p' cs'))
      | _, _ => bad_case
      end
  | L [A 16; wt; L row; A scroll; A vis; A cw; lf; rt; mid; _] =>
      match dec_wctab wt, map_opt dec_mc_item row, as_bool lf, as_bool rt, as_bool mid with
      | Some wt', Some row', Some l, Some r, Some m =>
          enc_frags (mc_row (wc_of wt') row' scroll vis cw l r m)
      | _, _, _, _, _ => bad_case
      end
  | L [A 17; pat; s] =>
      match as_str pat, as_str s with
      | Some p, Some s' => L (map (fun m : Z * Z => L [A (fst m); A (snd m)]) (find_lit p s' 0 O))
      | _, _ => bad_case
      end
  | L [A 3; wt; stt; L [w; h; x; y; b; hs; al; A vs; A vs2]; pf; L steps] =>   (* kind 3 with vertical_scroll / vertical_scroll_2 *)
      match dec_wctab wt, dec_stytab stt, dec_cfg (L [w; h; x; y; b; hs; al]), dec_pfx pf, map_opt dec_step steps with
      | Some wt', Some stt', Some g, Some pfx, Some steps' =>
          if vs <? 0 then bad_case
          else L (run_steps_v (wc_of wt') (sty_of stt') g pfx vs vs2 steps' None 0 0 None None)
      | _, _, _, _, _ => bad_case
      end
  | _ => run_C10pr c
  end.
