(* C19 - the SGR encoder of output/vt100.py (_EscapeCodeCache.__missing__,
   _color_name_to_rgb, _colors_to_code) and the decoder of
   formatted_text/ansi.py (_select_graphic_rendition, _create_style_string,
   and the CSI part of ANSI._parse_corot), as coded.  Definitions only. *)
From Coq Require Import ZArith List Bool String.
From PTK Require Import Lib.Py Lib.C19_Str Gen.C19_Palette Model.C19_Palette Model.C19_Style.
Import ListNotations.
Open Scope Z_scope.

(* ---- encoder ----------------------------------------------------------- *)

(* _color_name_to_rgb: int(color, 16) then shifts and masks; None = ValueError *)
Definition color_name_to_rgb (color : str) : option rgb :=
  match py_int16 color with
  | None => None
  | Some v => Some ((v / 65536) mod 256, (v / 256) mod 256, v mod 256)
  end.

(* the inner get(color, bg); colour depth is 1, 4, 8 or 24 (anything else is
   treated as the 8-bit `else` branch, as in the code).  Returns the codes
   and the new value of the nonlocal fg_ansi. *)
Definition get_codes (depth : Z) (fg_color bg_color : str) (color : str) (bg : bool) (fg_ansi : str)
  : list Z * str :=
  let table := if bg then bg_ansi_colors else fg_ansi_colors in
  if is_nil color || (depth =? 1) then ([], fg_ansi)
  else match assoc color table with
  | Some c => ([c], fg_ansi)
  | None =>
    match color_name_to_rgb color with
    | None => ([], fg_ansi)
    | Some (r, g, b) =>
        if depth =? 4 then
          if bg then
            let exclude := if negb (str_eqb fg_color bg_color) then [fg_ansi] else [] in
            ([fst (get16 true r g b exclude)], fg_ansi)
          else
            let cn := get16 false r g b [] in ([fst cn], snd cn)
        else if depth =? 24 then ([(if bg then 48 else 38); 2; r; g; b], fg_ansi)
        else ([(if bg then 48 else 38); 5; color256 r g b], fg_ansi)
    end
  end.

Definition colors_to_code (depth : Z) (fg_color bg_color : str) : list Z :=
  let '(c1, fa) := get_codes depth fg_color bg_color fg_color false [] in
  let '(c2, _) := get_codes depth fg_color bg_color bg_color true fa in
  c1 ++ c2.

Definition truthy (b : option bool) : bool := match b with Some true => true | _ => false end.
Definition or_empty (s : option str) : str := match s with Some x => x | None => [] end.

(* the integer codes after the leading "0" *)
Definition sgr_codes (depth : Z) (a : attrs) : list Z :=
  colors_to_code depth (or_empty (a_color a)) (or_empty (a_bgcolor a))
  ++ (if truthy (a_bold a) then [1] else [])
  ++ (if truthy (a_italic a) then [3] else [])
  ++ (if truthy (a_blink a) then [5] else [])
  ++ (if truthy (a_underline a) then [4] else [])
  ++ (if truthy (a_reverse a) then [7] else [])
  ++ (if truthy (a_hidden a) then [8] else [])
  ++ (if truthy (a_strike a) then [9] else []).

Definition ESC : Z := 27.

(* "\x1b[0;" + ";".join(parts) + "m"  or  "\x1b[0m" *)
Definition render_codes (codes : list Z) : str :=
  match codes with
  | [] => [ESC; 91; 48; 109]
  | _ => [ESC; 91; 48; 59] ++ join [59] (map str_of_int codes) ++ [109]
  end.

Definition escape_code (depth : Z) (a : attrs) : str := render_codes (sgr_codes depth a).

(* ---- decoder ----------------------------------------------------------- *)

Record sgr_state : Type := mkS {
  d_color : option str;
  d_bgcolor : option str;
  d_bold : bool;
  d_underline : bool;
  d_strike : bool;
  d_italic : bool;
  d_blink : bool;
  d_reverse : bool;
  d_hidden : bool
}.

Definition RESET : sgr_state := mkS None None false false false false false false false.

Definition st_color v s := mkS v (d_bgcolor s) (d_bold s) (d_underline s) (d_strike s) (d_italic s) (d_blink s) (d_reverse s) (d_hidden s).
Definition st_bgcolor v s := mkS (d_color s) v (d_bold s) (d_underline s) (d_strike s) (d_italic s) (d_blink s) (d_reverse s) (d_hidden s).
Definition st_bold v s := mkS (d_color s) (d_bgcolor s) v (d_underline s) (d_strike s) (d_italic s) (d_blink s) (d_reverse s) (d_hidden s).
Definition st_underline v s := mkS (d_color s) (d_bgcolor s) (d_bold s) v (d_strike s) (d_italic s) (d_blink s) (d_reverse s) (d_hidden s).
Definition st_strike v s := mkS (d_color s) (d_bgcolor s) (d_bold s) (d_underline s) v (d_italic s) (d_blink s) (d_reverse s) (d_hidden s).
Definition st_italic v s := mkS (d_color s) (d_bgcolor s) (d_bold s) (d_underline s) (d_strike s) v (d_blink s) (d_reverse s) (d_hidden s).
Definition st_blink v s := mkS (d_color s) (d_bgcolor s) (d_bold s) (d_underline s) (d_strike s) (d_italic s) v (d_reverse s) (d_hidden s).
Definition st_reverse v s := mkS (d_color s) (d_bgcolor s) (d_bold s) (d_underline s) (d_strike s) (d_italic s) (d_blink s) v (d_hidden s).
Definition st_hidden v s := mkS (d_color s) (d_bgcolor s) (d_bold s) (d_underline s) (d_strike s) (d_italic s) (d_blink s) (d_reverse s) v.

(* f"#{r:02x}{g:02x}{b:02x}" *)
Definition color_str (r g b : Z) : str := 35 :: hex02 r ++ hex02 g ++ hex02 b.

(* the `while attrs: attr = attrs.pop()` loop over the reversed list, i.e.
   left to right over the parameters *)
Fixpoint sgr_loop (l : list Z) (s : sgr_state) {struct l} : sgr_state :=
  match l with
  | [] => s
  | attr :: rest =>
      match assocZ attr ansi_fg_inv with
      | Some n => sgr_loop rest (st_color (Some n) s)
      | None =>
      match assocZ attr ansi_bg_inv with
      | Some n => sgr_loop rest (st_bgcolor (Some n) s)
      | None =>
        if attr =? 1 then sgr_loop rest (st_bold true s)
        else if attr =? 3 then sgr_loop rest (st_italic true s)
        else if attr =? 4 then sgr_loop rest (st_underline true s)
        else if attr =? 5 then sgr_loop rest (st_blink true s)
        else if attr =? 6 then sgr_loop rest (st_blink true s)
        else if attr =? 7 then sgr_loop rest (st_reverse true s)
        else if attr =? 8 then sgr_loop rest (st_hidden true s)
        else if attr =? 9 then sgr_loop rest (st_strike true s)
        else if attr =? 22 then sgr_loop rest (st_bold false s)
        else if attr =? 23 then sgr_loop rest (st_italic false s)
        else if attr =? 24 then sgr_loop rest (st_underline false s)
        else if attr =? 25 then sgr_loop rest (st_blink false s)
        else if attr =? 27 then sgr_loop rest (st_reverse false s)
        else if attr =? 28 then sgr_loop rest (st_hidden false s)
        else if attr =? 29 then sgr_loop rest (st_strike false s)
        else if attr =? 0 then sgr_loop rest RESET
        else if (attr =? 38) || (attr =? 48) then
          match rest with
          | n :: ((_ :: _) as rest2) =>         (* len(attrs) > 1 *)
              if n =? 5 then                     (* and len(attrs) >= 1 *)
                match rest2 with
                | m :: rest3 =>
                    if attr =? 38 then sgr_loop rest3 (st_color (assocZ m ansi_256_hex) s)
                    else sgr_loop rest3 (st_bgcolor (assocZ m ansi_256_hex) s)
                | [] => s
                end
              else if n =? 2 then
                match rest2 with
                | r :: g :: b :: rest3 =>        (* len(attrs) >= 3 *)
                    if attr =? 38 then sgr_loop rest3 (st_color (Some (color_str r g b)) s)
                    else sgr_loop rest3 (st_bgcolor (Some (color_str r g b)) s)
                | _ => sgr_loop rest2 s
                end
              else sgr_loop rest2 s
          | _ => sgr_loop rest s
          end
        else sgr_loop rest s
      end end
  end.

(* _select_graphic_rendition(attrs) *)
Definition select_graphic_rendition (params : list Z) (s : sgr_state) : sgr_state :=
  match params with
  | [] => sgr_loop [0] s
  | _ => sgr_loop params s
  end.

(* _create_style_string() *)
Definition nonempty_opt (o : option str) : option str :=
  match o with Some ((_ :: _) as x) => Some x | _ => None end.

Definition create_style_string (s : sgr_state) : str :=
  join [32]
    ((match nonempty_opt (d_color s) with Some c => [c] | None => [] end)
     ++ (match nonempty_opt (d_bgcolor s) with Some c => [s_bg ++ c] | None => [] end)
     ++ (if d_bold s then [s_bold] else [])
     ++ (if d_underline s then [s_underline] else [])
     ++ (if d_strike s then [s_strike] else [])
     ++ (if d_italic s then [s_italic] else [])
     ++ (if d_blink s then [s_blink] else [])
     ++ (if d_reverse s then [s_reverse] else [])
     ++ (if d_hidden s then [s_hidden] else [])).

(* (CSI numbers: csi_number, Lib/C19_Str.v)  ANSI._parse_corot restricted to text without \001 (ZeroWidthEscape
   brackets are C18's subject): ground characters, ESC [, \x9b, CSI
   parameters, final bytes m and C.  Result: the fragment list, or None when
   the text contains \001. *)
Inductive pstate : Type :=
| Ground
| GotEsc
| InCsi (current : str) (params : list Z).

Definition fragment : Type := (str * str)%type.

Fixpoint repeat_frag (f : fragment) (n : nat) : list fragment :=
  match n with O => [] | S k => f :: repeat_frag f k end.

Fixpoint parse_loop (text : str) (ps : pstate) (st : sgr_state) (style : str)
         (acc : list fragment) : option (list fragment) :=
  match text with
  | [] => Some (rev acc)
  | c :: r =>
      match ps with
      | Ground =>
          if c =? 1 then None
          else if c =? ESC then parse_loop r GotEsc st style acc
          else if c =? 155 then parse_loop r (InCsi [] []) st style acc
          else parse_loop r Ground st style ((style, [c]) :: acc)
      | GotEsc =>
          if c =? 91 then parse_loop r (InCsi [] []) st style acc
          else parse_loop r Ground st style acc
      | InCsi current params =>
          if is_digit c then parse_loop r (InCsi (current ++ [c]) params) st style acc
          else
            let params' := params ++ [csi_number current] in
            if c =? 59 then parse_loop r (InCsi [] params') st style acc
            else if c =? 109 then
              let st' := select_graphic_rendition params' st in
              parse_loop r Ground st' (create_style_string st') acc
            else if c =? 67 then
              let n := match params' with p :: _ => p | [] => 0 end in
              parse_loop r Ground st style (repeat_frag (style, [32]) (Z.to_nat n) ++ acc)
            else parse_loop r Ground st style acc
      end
  end.

Definition ansi_fragments (text : str) : option (list fragment) :=
  parse_loop text Ground RESET [] [].

(* Style([]).get_attrs_for_style_str(style of the last fragment of ANSI(seq + "x")) *)
Definition decode_seq (seq : str) : res attrs :=
  match ansi_fragments (seq ++ [120]) with
  | Some fs =>
      match rev fs with
      | (style, _) :: _ => get_attrs [] style DEFAULT_ATTRS
      | [] => Err 3
      end
  | None => Err 3
  end.
