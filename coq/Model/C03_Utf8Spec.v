(* C03 - declarative UTF-8 (RFC 3629 / Unicode table 3-7) with Python's
   "surrogateescape" convention, as the specification the incremental decoder
   of Model/C03_Vt100Input.v ([step]/[dec]) is proved against in
   Proofs/C03_Utf8.v.  Definitions only.

   - [encode1 cp] is THE encoding of a Unicode scalar value (shortest form by
     construction; surrogates U+D800..U+DFFF are not scalar values);
   - [Utf8Dec bs text pend]: [text]/[pend] is the incremental decoding of the
     byte string [bs]: greedily, where a well-formed sequence starts it is
     decoded; where the remaining bytes can still be completed to a well-formed
     sequence they are kept ([pend]); any other byte b is escaped to U+DC00+b.
     CPython (unicodeobject.c, "Truncated surrogate code in range D800-DFFF")
     additionally keeps ED A0..BF when the data ends there, although no
     completion is well formed: clause [Inc_surrogate]. *)
From Coq Require Import ZArith List Bool.
From PTK Require Import Model.C03_Vt100Input.
Import ListNotations.
Open Scope Z_scope.

Definition is_byte (b : Z) : bool := (0 <=? b) && (b <=? 255).

Definition scalar (cp : Z) : bool :=
  ((0 <=? cp) && (cp <? 55296)) || ((57344 <=? cp) && (cp <=? 1114111)).

Definition encode1 (cp : Z) : list Z :=
  if cp <? 128 then [cp]
  else if cp <? 2048 then [192 + cp / 64; 128 + cp mod 64]
  else if cp <? 65536 then [224 + cp / 4096; 128 + (cp / 64) mod 64; 128 + cp mod 64]
  else [240 + cp / 262144; 128 + (cp / 4096) mod 64; 128 + (cp / 64) mod 64; 128 + cp mod 64].

Definition encode (t : list Z) : list Z := flat_map encode1 t.

(* surrogateescape: U+DC80..U+DCFF stand for the raw bytes 80..FF *)
Definition is_esc (cp : Z) : bool := (56448 <=? cp) && (cp <=? 56575).
Definition encode_se1 (cp : Z) : list Z := if is_esc cp then [cp - 56320] else encode1 cp.
Definition encode_se (t : list Z) : list Z := flat_map encode_se1 t.

(* a well-formed sequence starts here *)
Definition StartsWF (bs : list Z) : Prop :=
  exists cp rest, scalar cp = true /\ bs = encode1 cp ++ rest.

(* more bytes are needed *)
Inductive Incomplete (bs : list Z) : Prop :=
| Inc_prefix cp ext : scalar cp = true -> bs <> [] -> ext <> [] -> bs ++ ext = encode1 cp -> Incomplete bs
| Inc_surrogate b2 : bs = [237; b2] -> 160 <= b2 <= 191 -> Incomplete bs.

Inductive Utf8Dec : list Z -> list Z -> list Z -> Prop :=
| UD_nil : Utf8Dec [] [] []
| UD_char cp rest t p :
    scalar cp = true -> Utf8Dec rest t p -> Utf8Dec (encode1 cp ++ rest) (cp :: t) p
| UD_pend bs : Incomplete bs -> Utf8Dec bs [] bs
| UD_esc b rest t p :
    ~ StartsWF (b :: rest) -> ~ Incomplete (b :: rest) -> Utf8Dec rest t p ->
    Utf8Dec (b :: rest) (esc b :: t) p.

(* the incremental use: successive reads, the undecoded tail prepended to the next *)
Fixpoint dec_reads (pend : list Z) (reads : list (list Z)) : list Z * list Z :=
  match reads with
  | [] => ([], pend)
  | r :: rest =>
      let d := dec (pend ++ r) in
      let x := dec_reads (dpend d) rest in
      (dout d ++ fst x, snd x)
  end.
