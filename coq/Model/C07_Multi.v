(* C07 - several buffers, focus changes and text changes outside a dispatch.

   An Application has many Buffers but ONE KeyProcessor.  What
   KeyProcessor._call_handler does about undo (key_processor.py):

       event = KeyPressEvent(..., is_repeat=(handler == self._previous_handler))
       if handler.save_before(event):
           event.app.current_buffer.save_to_undo_stack()     # the FOCUSED buffer, at dispatch time
       handler.call(event); self._fix_vi_cursor_position(event)
       self._previous_handler = handler                      # per key processor, NOT per buffer

   The handler may then edit any buffer (search: do_incremental_search /
   accept_search run apply_search on the TARGET buffer while the search buffer
   is focused), reset one (stop_search: search_buffer.reset()) and move the
   focus (start_search, stop_search, focus_next, a mouse click).  The focus
   may also be moved by application code between two dispatches
   (Layout.focus), and a buffer's text may change outside any dispatch: the
   asynchronous completer (Buffer._async_completer: insert_text of the common
   prefix, go_to_completion for select_first), validation/accept handlers,
   application code.  Neither touches _previous_handler nor takes a snapshot.

   State: a family of buffers (each one a [ust] of Model/C07_Undo.v) indexed by
   Z, the index of the focused buffer, the identity of the previous handler.
   Binding identity is an abstract number: [is_repeat] compares Binding OBJECTS
   (Binding defines no __eq__), and a registry that rebuilds its Binding
   objects (ConditionalKeyBindings._update_cache after a version change; the
   per-focus ConditionalKeyBindings _CombinedRegistry creates for the page
   navigation bindings) yields a NEW identity with the SAME row - the harness
   numbers the objects it meets and ships the rows of those that are not in
   the regenerated table.

   Events:
     MKey h n effs foc'   dispatch of binding h: snapshot decision and the
                          handler's n undo()/redo() calls on the focused buffer
                          ([kbody] of Model/C07_Keys.v), then the handler's
                          other effects, in order - [FxSet i t c]: buffer i is
                          left holding (t, c), [FxReset i t c]: Buffer.reset -,
                          then the focus is foc'
     MUndoKey h n nav     an undo key (computed: n undo() calls + Vi cursor fix)
     MFocus i             Layout.focus by application code, between dispatches
     MRedo i              direct Buffer.redo() on buffer i
     MAsync i t c         buffer i changed to (t, c) outside any dispatch
     MCpr                 a cursor position report (no _call_handler)
     MNewPrompt i t c f   the next prompt on the same session: PromptSession.prompt()
                          resets buffer i (its default buffer) to the new document
                          - both stacks emptied - and Application.reset() ->
                          KeyProcessor.reset() forgets the previous handler; the
                          other buffers keep text and stacks; the focus stays where
                          it is unless the focused control is not focusable (f is
                          the focus afterwards)
   Definitions only; proofs are in Proofs/C07_MultiFacts.v. *)
From Coq Require Import ZArith List Bool.
From PTK Require Import Lib.Sx Lib.Py Model.C07_Undo Model.C07_Keys.
Import ListNotations.
Open Scope Z_scope.

Definition bufs : Type := Z -> ust.

Definition upd (bs : bufs) (i : Z) (b : ust) : bufs :=
  fun j => if j =? i then b else bs j.

Inductive fx :=
| FxSet (i : Z) (t : str) (c : Z)
| FxReset (i : Z) (t : str) (c : Z).

Definition fx_apply (bs : bufs) (e : fx) : bufs :=
  match e with
  | FxSet i t c => upd bs i (set_state (bs i) t c)
  | FxReset i t c => upd bs i (ustep (bs i) (Reset t c))
  end.

Record mst := mkmst { mbufs : bufs; mfoc : Z; mprev : option Z }.

Inductive mev :=
| MKey (h n : Z) (effs : list fx) (foc' : Z)
| MUndoKey (h n : Z) (nav : bool)
| MFocus (i : Z)
| MRedo (i : Z)
| MAsync (i : Z) (t : str) (c : Z)
| MCpr
| MNewPrompt (i : Z) (t : str) (c : Z) (foc' : Z).

(* the key processor's view: the focused buffer and the previous handler *)
Definition foc_kst (s : mst) : kst := mkkst (mbufs s (mfoc s)) (mprev s).

Definition mstep (tbl : list row) (s : mst) (e : mev) : mst :=
  match e with
  | MKey h n effs foc' =>
      let b := kbody tbl (foc_kst s) h n in
      mkmst (fold_left fx_apply effs (upd (mbufs s) (mfoc s) b)) foc' (Some h)
  | MUndoKey h n nav =>
      let b := kbody tbl (foc_kst s) h n in
      mkmst (upd (mbufs s) (mfoc s) (set_state b (utext b) (fix_vi_cursor nav b)))
            (mfoc s) (Some h)
  | MFocus i => mkmst (mbufs s) i (mprev s)
  | MRedo i => mkmst (upd (mbufs s) i (redo (mbufs s i))) (mfoc s) (mprev s)
  | MAsync i t c => mkmst (upd (mbufs s) i (set_state (mbufs s i) t c)) (mfoc s) (mprev s)
  | MCpr => s
  | MNewPrompt i t c f' => mkmst (upd (mbufs s) i (ustep (mbufs s i) (Reset t c))) f' None
  end.

Definition mrun (tbl : list row) (s : mst) (evs : list mev) : mst :=
  fold_left (mstep tbl) evs s.

(* ---- what ONE buffer sees of a session: a buffer-level operation list ---- *)

Definition dispatch_ops (tbl : list row) (prev : option Z) (b : ust) (h n : Z) : list uop :=
  let act := r_act (lookup tbl h) in
  Cmd (save_before tbl prev h) (utext b) (ucur b)
    :: (if act =? 1 then repeat Undo (Z.to_nat n)
        else if act =? 2 then repeat Redo (Z.to_nat n) else []).

Definition fx_proj (i : Z) (e : fx) : list uop :=
  match e with
  | FxSet j t c => if j =? i then [Cmd false t c] else []
  | FxReset j t c => if j =? i then [Reset t c] else []
  end.

Definition mproj (tbl : list row) (i : Z) (s : mst) (e : mev) : list uop :=
  match e with
  | MKey h n effs _ =>
      (if mfoc s =? i then dispatch_ops tbl (mprev s) (mbufs s i) h n else [])
        ++ flat_map (fx_proj i) effs
  | MUndoKey h n nav =>
      if mfoc s =? i then
        let b := kbody tbl (foc_kst s) h n in
        dispatch_ops tbl (mprev s) (mbufs s i) h n ++ [Cmd false (utext b) (fix_vi_cursor nav b)]
      else []
  | MFocus _ => []
  | MRedo j => if j =? i then [Redo] else []
  | MAsync j t c => if j =? i then [Cmd false t c] else []
  | MCpr => []
  | MNewPrompt j t c _ => if j =? i then [Reset t c] else []
  end.

Fixpoint mproj_all (tbl : list row) (i : Z) (s : mst) (evs : list mev) : list uop :=
  match evs with
  | [] => []
  | e :: r => mproj tbl i s e ++ mproj_all tbl i (mstep tbl s e) r
  end.

(* ---- per-buffer history with ONE entry per command ---- *)

Definition resets (i : Z) (e : fx) : bool :=
  match e with FxReset j _ _ => j =? i | FxSet _ _ _ => false end.

(* History of buffer i: the (text, cursor) it had when each earlier command -
   a dispatch (whichever buffer had the focus), a direct redo(), a change from
   outside - began; restarted when the buffer is reset.  A focus change and a
   terminal report are not commands. *)
Definition mhist_step (s : mst) (e : mev) (hist : Z -> list snap) : Z -> list snap :=
  match e with
  | MKey _ _ effs _ =>
      fun i => if existsb (resets i) effs then [] else here (mbufs s i) :: hist i
  | MUndoKey _ _ _ | MRedo _ | MAsync _ _ _ => fun i => here (mbufs s i) :: hist i
  | MFocus _ | MCpr => hist
  | MNewPrompt j _ _ _ => fun i => if j =? i then [] else hist i
  end.

Definition mgstep (tbl : list row) (g : mst * (Z -> list snap)) (e : mev) : mst * (Z -> list snap) :=
  (mstep tbl (fst g) e, mhist_step (fst g) e (snd g)).

Definition mgrun (tbl : list row) (s : mst) (evs : list mev) : mst * (Z -> list snap) :=
  fold_left (mgstep tbl) evs (s, fun _ => []).

(* ---- well-formed events ---- *)
Definition fx_ok (e : fx) : Prop :=
  match e with FxSet _ t c | FxReset _ t c => 0 <= c <= len t end.

Definition mev_ok (e : mev) : Prop :=
  match e with
  | MKey _ n effs _ => 0 <= n /\ Forall fx_ok effs
  | MUndoKey _ n _ => 0 <= n
  | MAsync _ t c | MNewPrompt _ t c _ => 0 <= c <= len t
  | MFocus _ | MRedo _ | MCpr => True
  end.

(* ---- the discipline under which repeated undo reaches every buffer's start
   text (Proofs/C07_MultiFacts.v: multi_reaches_start) ---- *)

(* an effect that changes a buffer's text finds a snapshot on that buffer *)
Definition fx_safe (bs : bufs) (e : fx) : Prop :=
  match e with
  | FxSet j t _ => t = utext (bs j) \/ ustack (bs j) <> []
  | FxReset _ _ _ => True
  end.

Fixpoint fxs_safe (bs : bufs) (effs : list fx) : Prop :=
  match effs with
  | [] => True
  | e :: r => fx_safe bs e /\ fxs_safe (fx_apply bs e) r
  end.

Definition disciplined (tbl : list row) (s : mst) (e : mev) : Prop :=
  match e with
  | MKey h n effs foc' =>
      (* a plain handler behind a binding that snapshots *)
      r_act (lookup tbl h) = 0 /\ r_cls (lookup tbl h) <> 0 /\
      (* an if_no_repeat handler (typed character, backspace, delete) neither
         moves the focus nor resets the buffer it types into *)
      (r_cls (lookup tbl h) = 2 -> foc' = mfoc s /\ existsb (resets (mfoc s)) effs = false) /\
      (* after the snapshot decision, every text-changing effect hits a buffer
         that has a snapshot (true of the focused buffer: focused_effect_safe) *)
      fxs_safe (upd (mbufs s) (mfoc s) (kbody tbl (foc_kst s) h n)) effs
  | MUndoKey h _ _ => r_act (lookup tbl h) = 1 /\ r_cls (lookup tbl h) = 0
  | MFocus i =>
      (* application code moves the focus: harmless unless the previous
         dispatch was an if_no_repeat binding and the target has no snapshot *)
      forall h, mprev s = Some h -> r_cls (lookup tbl h) = 2 -> ustack (mbufs s i) <> []
  | MAsync i t _ => t = utext (mbufs s i) \/ ustack (mbufs s i) <> []
  | MRedo _ | MCpr | MNewPrompt _ _ _ _ => True
  end.

Fixpoint all_disciplined (tbl : list row) (s : mst) (evs : list mev) : Prop :=
  match evs with
  | [] => True
  | e :: r => disciplined tbl s e /\ all_disciplined tbl (mstep tbl s e) r
  end.

(* ---- wire format ---- *)

(* buffers 0 .. length l - 1 hold the documents of l; every other index an
   empty fresh buffer (never addressed: the decoder checks the indices) *)
Definition mk_bufs (l : list (str * Z)) : bufs :=
  fun j => if j <? 0 then fresh [] 0
           else match nth_error l (Z.to_nat j) with
                | Some (t, c) => fresh t c
                | None => fresh [] 0
                end.

Definition mfresh (l : list (str * Z)) (foc : Z) : mst := mkmst (mk_bufs l) foc None.

Definition dec_doc (x : sx) : option (str * Z) :=
  match x with
  | L [t; A c] =>
      match as_str t with
      | Some t' => if (0 <=? c) && (c <=? len t') then Some (t', c) else None
      | None => None
      end
  | _ => None
  end.

Definition idx_ok (nb i : Z) : bool := (0 <=? i) && (i <? nb).

Definition dec_fx (nb : Z) (x : sx) : option fx :=
  match x with
  | L [A k; A i; t; A c] =>
      match as_str t with
      | Some t' =>
          if idx_ok nb i && (0 <=? c) && (c <=? len t') then
            if k =? 0 then Some (FxSet i t' c)
            else if k =? 1 then Some (FxReset i t' c) else None
          else None
      | None => None
      end
  | _ => None
  end.

Definition dec_mev (tbl : list row) (nb : Z) (x : sx) : option mev :=
  match x with
  | L [A 1; A h; A n; L effs; A foc'] =>
      match map_opt (dec_fx nb) effs with
      | Some effs' =>
          if (0 <=? n) && (0 <=? h) && (h <? len tbl) && idx_ok nb foc'
          then Some (MKey h n effs' foc') else None
      | None => None
      end
  | L [A 3; A h; A arg; nav] =>
      match dec_kev tbl (L [A 3; A h; A arg; nav]) with
      | Some (UndoKey h' n' nv) => Some (MUndoKey h' n' nv)
      | _ => None
      end
  | L [A 6; A i] => if idx_ok nb i then Some (MFocus i) else None
  | L [A 2; A i] => if idx_ok nb i then Some (MRedo i) else None
  | L [A 7; A i; t; A c] =>
      match as_str t with
      | Some t' => if idx_ok nb i && (0 <=? c) && (c <=? len t') then Some (MAsync i t' c) else None
      | None => None
      end
  | L [A 4] => Some MCpr
  | L [A 5; A i; t; A c; A f'] =>
      match as_str t with
      | Some t' => if idx_ok nb i && idx_ok nb f' && (0 <=? c) && (c <=? len t') then Some (MNewPrompt i t' c f') else None
      | None => None
      end
  | _ => None
  end.

Fixpoint zrange (k : nat) (from : Z) : list Z :=
  match k with O => [] | S k' => from :: zrange k' (from + 1) end.

(* per event: (snapshot decision, focus, state of every buffer) *)
Fixpoint run_mevs (tbl : list row) (nb : nat) (s : mst) (evs : list mev) : list sx :=
  match evs with
  | [] => []
  | e :: r =>
      let s' := mstep tbl s e in
      let sv := match e with
                | MKey h _ _ _ | MUndoKey h _ _ => save_before tbl (mprev s) h
                | _ => false
                end in
      L [sx_bool sv; A (mfoc s'); L (map (fun j => enc_ust (mbufs s' j)) (zrange nb 0))]
        :: run_mevs tbl nb s' r
  end.

Definition dec_row (x : sx) : option row :=
  match x with
  | L [A c; A a; A r] =>
      if ((c =? 0) || (c =? 1) || (c =? 2)) && ((a =? 0) || (a =? 1) || (a =? 2))
         && (negb (c =? 2) || (a =? 0)) && (0 <=? r)
      then Some (c, a, r) else None
  | _ => None
  end.

(* multi-buffer case body = ((doc ...) focus (extra row ...) (event ...)); the
   table is the regenerated one followed by the rows of the Binding objects
   the session met that are not in it (rebuilt objects) *)
Definition run_C07_multi (tbl : list row) (docs : list sx) (foc : Z) (extra : list sx) (evs : list sx) : sx :=
  match map_opt dec_doc docs, map_opt dec_row extra with
  | Some docs', Some extra' =>
      let nb := len docs' in
      let tbl' := tbl ++ extra' in
      match map_opt (dec_mev tbl' nb) evs with
      | Some evs' =>
          if idx_ok nb foc then L (run_mevs tbl' (length docs') (mfresh docs' foc) evs')
          else bad_case
      | None => bad_case
      end
  | _, _ => bad_case
  end.
