(* C10: the code that turns displayed text into the fragment lines that
   Window._copy_body receives (definitions only; proofs in
   Proofs/C10_ProducerFacts.v).

     formatted_text/base.py    to_formatted_text(str) / (.., style=..)
     formatted_text/utils.py   split_lines
     layout/controls.py        FormattedTextControl.create_content (lines),
                               BufferControl.create_content get_line:
                               SimpleLexer -> merged input processors -> + ("", " ")
     layout/processors.py      PasswordProcessor, BeforeInput (the prompt message
                               in front of line 0), no processor
     layout/menus.py           _get_menu_item_fragments, _trim_formatted_text
   explode_text_fragments and fragment_list_width are in Model/C10_Screen.v. *)
From Coq Require Import ZArith List Bool.
From PTK Require Import Lib.Sx Lib.Py Gen.C10_DisplayMappings Model.C10_Screen.
Import ListNotations.
Open Scope Z_scope.

Definition nonempty (s : list Z) : bool := match s with [] => false | _ => true end.

(* to_formatted_text("...") *)
Definition ft_of_str (s : list Z) : list frag := [([], s)].
(* to_formatted_text(fragments, style=style): style + " " + item_style *)
Definition with_style (style : list Z) (fs : list frag) : list frag :=
  if nonempty style then map (fun f : frag => (style ++ 32 :: fst f, snd f)) fs else fs.

(* split_lines: the loop body for one fragment, over string.split("\n") *)
Fixpoint add_parts (style : list Z) (parts : list (list Z)) (line : list frag) (acc : list (list frag))
  : list frag * list (list frag) :=
  match parts with
  | [] => (line, acc)
  | [last] => (line ++ [(style, last)], acc)
  | p :: r => add_parts style r [] (acc ++ [if nonempty p then line ++ [(style, p)] else line])
  end.
Definition split_lines (fs : list frag) : list (list frag) :=
  let la := fold_left (fun (la : list frag * list (list frag)) (f : frag) =>
                         add_parts (fst f) (split_on 10 (snd f)) (fst la) (snd la)) fs ([], []) in
  snd la ++ [fst la].

(* FormattedTextControl(text, style).create_content: get_line(i) = lines[i] *)
Definition ftc_lines (style : list Z) (fs : list frag) : list (list frag) :=
  split_lines (with_style style fs).

Inductive processor :=
| PIdentity
| PPassword (ch : list Z)                              (* PasswordProcessor(char) *)
| PBeforeInput (style : list Z) (fs : list frag)       (* BeforeInput(text, style) *)
| PAppend (style : list Z) (text : list Z) (last : Z)  (* AppendAutoSuggestion: suggestion text after the last line *)
| PSelect (sel : Z -> option (Z * Z)).                 (* HighlightSelectionProcessor; sel = document.selection_range_at_line *)

(* " class:selected " *)
Definition S_SELECTED : list Z := [32;99;108;97;115;115;58;115;101;108;101;99;116;101;100;32].

Fixpoint restyle_at (i : Z) (suffix : list Z) (fs : list frag) : list frag :=
  match fs with
  | [] => []
  | f :: r => if i =? 0 then (fst f ++ suffix, snd f) :: r else f :: restyle_at (i - 1) suffix r
  end.
(* for i in range(from_, to): len(fragments) is re-read in every iteration *)
Fixpoint select_loop (n : nat) (i : Z) (fs : list frag) : list frag :=
  match n with
  | O => fs
  | S k => let fs' := if i <? len fs then restyle_at i S_SELECTED fs
                      else if i =? len fs then fs ++ [(S_SELECTED, [32])] else fs in
           select_loop k (i + 1) fs'
  end.

Definition apply_proc (p : processor) (lineno : Z) (fs : list frag) : list frag :=
  match p with
  | PIdentity => fs
  | PPassword ch => map (fun f : frag => (fst f, str_mul ch (len (snd f)))) fs
  | PBeforeInput st b => if lineno =? 0 then with_style st b ++ fs else fs
  | PAppend st tx last => if lineno =? last then fs ++ [(st, tx)] else fs
  | PSelect sel =>
      match sel lineno with
      | None => fs
      | Some (from, to) =>
          let e := explode fs in
          if (from =? 0) && (to =? 0) && (len e =? 0) then [(S_SELECTED, [32])]
          else select_loop (Z.to_nat (to - from)) from e
      end
  end.
(* merge_processors: in order *)
Definition apply_procs (ps : list processor) (lineno : Z) (fs : list frag) : list frag :=
  fold_left (fun fs p => apply_proc p lineno fs) ps fs.

Fixpoint mapi {T U} (f : Z -> T -> U) (i : Z) (l : list T) : list U :=
  match l with [] => [] | x :: r => f i x :: mapi f (i + 1) r end.

(* BufferControl(lexer=SimpleLexer(style), input_processors=ps).create_content: all lines *)
Definition buffer_lines (lexstyle : list Z) (ps : list processor) (text : list Z) : list (list frag) :=
  mapi (fun i line => apply_procs ps i [(lexstyle, line)] ++ [([], [32])]) 0 (split_on 10 text).

(* "class:completion-menu.completion" / "...completion.current" *)
Definition S_MENU : list Z :=
  [99;108;97;115;115;58;99;111;109;112;108;101;116;105;111;110;45;109;101;110;117;46;99;111;109;112;108;101;116;105;111;110].
Definition S_MENU_CUR : list Z := S_MENU ++ [46;99;117;114;114;101;110;116].
Definition DOTS : list Z := [46; 46; 46].

Section Menu.
  Variable wc : Z -> Z.

  Fixpoint trim_loop (l : list frag) (rem : Z) (acc : list frag) : list frag * Z :=
    match l with
    | [] => (acc, rem)
    | f :: r => let w := cwidth wc (snd f) in
                if w <=? rem then trim_loop r (rem - w) (acc ++ [f]) else (acc, rem)
    end.

  (* _trim_formatted_text *)
  Definition trim_ft (fs : list frag) (max_width : Z) : list frag * Z :=
    let width := fragment_list_width wc fs in
    if width >? max_width then
      let rr := trim_loop (explode fs) (max_width - 3) [] in
      (fst rr ++ [([], DOTS)], max_width - snd rr)
    else (fs, width).

  (* _get_menu_item_fragments(completion, is_current, width, space_after) *)
  Definition menu_item (cstyle selstyle : list Z) (display : list frag) (is_current : bool)
             (width : Z) (space_after : bool) : list frag :=
    let style_str := if is_current then S_MENU_CUR ++ 32 :: (cstyle ++ 32 :: selstyle)
                     else S_MENU ++ 32 :: cstyle in
    let tt := trim_ft display (if space_after then width - 2 else width - 1) in
    with_style style_str ([([], [32])] ++ fst tt ++ [([], str_mul [32] (width - 1 - snd tt))]).
End Menu.

(* "class:completion-menu.meta.completion" / "...current" *)
Definition S_META : list Z :=
  [99;108;97;115;115;58;99;111;109;112;108;101;116;105;111;110;45;109;101;110;117;46;109;101;116;97;46;99;111;109;112;108;101;116;105;111;110].
Definition S_META_CUR : list Z := S_META ++ [46;99;117;114;114;101;110;116].

(* CompletionsMenuControl._get_menu_item_meta_fragments *)
Definition menu_meta (wc : Z -> Z) (meta : list frag) (is_current : bool) (width : Z) : list frag :=
  let tt := trim_ft wc meta (width - 2) in
  with_style (if is_current then S_META_CUR else S_META)
             ([([], [32])] ++ fst tt ++ [([], str_mul [32] (width - 1 - snd tt))]).

(* shortcuts/prompt.py _split_multiline_prompt, over reversed(explode(prompt)) *)
Definition is_nl (f : frag) : bool := str_eqb (snd f) [10].
Fixpoint until_nl (l : list frag) : list frag * list frag :=    (* (before the first NL, after it) *)
  match l with
  | [] => ([], [])
  | f :: r => if is_nl f then ([], r) else let p := until_nl r in (f :: fst p, snd p)
  end.
Definition prompt_has_before (fs : list frag) : bool := existsb (fun f : frag => mem_Z 10 (snd f)) fs.
Definition prompt_first_input_line (fs : list frag) : list frag := rev (fst (until_nl (rev (explode fs)))).
Definition prompt_before (fs : list frag) : list frag := rev (snd (until_nl (rev (explode fs)))).

(* "class:prompt" / "class:prompt-continuation" *)
Definition S_PROMPT : list Z := [99;108;97;115;115;58;112;114;111;109;112;116].
Definition S_PROMPT_CONT : list Z := S_PROMPT ++ [45;99;111;110;116;105;110;117;97;116;105;111;110].

(* PromptSession: message -> to_formatted_text(message, style="class:prompt");
   lines above the input: FormattedTextControl(before);
   Window get_line_prefix = _get_line_prefix: first_input_line on (0, 0), else the
   continuation (application supplied fragments `cont`, or spaces) *)
Definition session_prompt (message : list frag) : list frag := with_style S_PROMPT message.
Definition session_prefix (message cont : list frag) (lineno wrapc : Z) : list frag :=
  if (lineno =? 0) && (wrapc =? 0) then prompt_first_input_line (session_prompt message)
  else with_style S_PROMPT_CONT cont.
Definition session_before_lines (message : list frag) : list (list frag) :=
  ftc_lines [] (prompt_before (session_prompt message)).

(* ---------------------------------------------------------------- run_C10p *)

Definition dec_proc (s : sx) : option processor :=
  match s with
  | L [A 0] => Some PIdentity
  | L [A 1; ch] => match as_str ch with Some c => Some (PPassword c) | None => None end
  | L [A 2; st; fs] => match as_str st, dec_frags fs with
                       | Some st', Some fs' => Some (PBeforeInput st' fs')
                       | _, _ => None
                       end
  | L [A 3; st; tx; A last] => match as_str st, as_str tx with
                               | Some st', Some tx' => Some (PAppend st' tx' last)
                               | _, _ => None
                               end
  | L [A 4; L rs] =>
      match map_opt (fun r => match r with L [A l; A a; A b] => Some (l, (a, b)) | _ => None end) rs with
      | Some tab => Some (PSelect (fun l => assoc tab l))
      | None => None
      end
  | _ => None
  end.
Definition enc_frag (f : frag) : sx := L [sx_str (fst f); sx_str (snd f)].
Definition enc_frags (fs : list frag) : sx := L (map enc_frag fs).
Definition enc_lines (ls : list (list frag)) : sx := L (map enc_frags ls).

(* kinds: 4 FormattedTextControl lines; 5 BufferControl lines; 6 menu item; 7 explode *)
Definition run_C10p (c : sx) : sx :=
  match c with
  | L [A 4; st; fs] =>
      match as_str st, dec_frags fs with
      | Some st', Some fs' => enc_lines (ftc_lines st' fs')
      | _, _ => bad_case
      end
  | L [A 5; st; L ps; tx] | L [A 5; st; L ps; tx; _] =>    (* optional 5th element: the selection the harness built *)
      match as_str st, map_opt dec_proc ps, as_str tx with
      | Some st', Some ps', Some tx' => enc_lines (buffer_lines st' ps' tx')
      | _, _, _ => bad_case
      end
  | L [A 6; wt; cst; sst; disp; cur; A w; sp] =>
      match dec_wctab wt, as_str cst, as_str sst, dec_frags disp, as_bool cur, as_bool sp with
      | Some wt', Some cst', Some sst', Some d', Some cur', Some sp' =>
          enc_frags (menu_item (wc_of wt') cst' sst' d' cur' w sp')
      | _, _, _, _, _, _ => bad_case
      end
  | L [A 7; fs] =>
      match dec_frags fs with Some fs' => enc_frags (explode fs') | None => bad_case end
  | L [A 9; fs] =>         (* _split_multiline_prompt *)
      match dec_frags fs with
      | Some fs' => L [sx_bool (prompt_has_before fs'); enc_frags (prompt_before fs'); enc_frags (prompt_first_input_line fs')]
      | None => bad_case
      end
  | L [A 10; wt; meta; cur; A w] =>     (* _get_menu_item_meta_fragments *)
      match dec_wctab wt, dec_frags meta, as_bool cur with
      | Some wt', Some m', Some cur' => enc_frags (menu_meta (wc_of wt') m' cur' w)
      | _, _, _ => bad_case
      end
  | _ => run_C10 c
  end.
