(* C18 - a grammar-level (big-step) tokeniser of ANSI input, independent of the
   coroutine's modes: the SPECIFICATION of what ANSI(s) shows.  Definitions
   only; Proofs/C18_AnsiStrip.v proves that the character-at-a-time machine of
   Model/C18_Ansi.v emits exactly [ansi_strip s] and [ansi_zero_width s], and
   the harness compares both with the real ANSI(s) (case kind 9). *)
From Coq Require Import ZArith List Bool.
From PTK Require Import Lib.Sx Lib.Py Model.C18_Fragments Model.C18_Ansi.
Import ListNotations.
Open Scope Z_scope.

(* ---------------------------------------------------------------------- *)
(* The grammar *)

Inductive token :=
| TChar (c : Z)                               (* an ordinary character *)
| TEsc2 (x : Z)                               (* ESC x, x not '[': a two-character escape *)
| TCsi (eight : bool) (ps : str) (fin : Z)    (* ESC [ ps fin  /  \x9b ps fin; ps over 0-9 and ';' *)
| TZw (body : str)                            (* \001 body \002 *)
| TTail (rawtail : str).                      (* an unterminated sequence: the rest of the input *)

Definition pch (c : Z) : bool := is_ascii_digit c || (c =? 59).

Fixpoint span (p : Z -> bool) (s : str) : str * str :=
  match s with
  | [] => ([], [])
  | c :: r => if p c then (let q := span p r in (c :: fst q, snd q)) else ([], s)
  end.

Fixpoint break_at (c : Z) (s : str) : option (str * str) :=
  match s with
  | [] => None
  | x :: r => if x =? c then Some ([], r)
              else match break_at c r with
                   | Some (a, b) => Some (x :: a, b)
                   | None => None
                   end
  end.

Definition csi_intro (eight : bool) : str := if eight then [CSI8] else [ESC; 91].

Definition raw (t : token) : str :=
  match t with
  | TChar c => [c]
  | TEsc2 x => [ESC; x]
  | TCsi e ps fin => csi_intro e ++ ps ++ [fin]
  | TZw b => SOH :: b ++ [STX]
  | TTail r => r
  end.

(* min(int(field.lstrip("0")[:5] or 0), 9999) *)
Definition conv (field : str) : Z :=
  Z.min (ascii_value (slice_to (lstrip_by (fun c => c =? 48) field) 5) 0) 9999.

(* the first parameter of a parameter string: the digits before the first ';' *)
Definition first_param (ps : str) : Z := conv (fst (span is_ascii_digit ps)).

(* what a token shows: itself, n spaces for `CSI n C`, nothing otherwise *)
Definition vis (t : token) : str :=
  match t with
  | TChar c => [c]
  | TCsi _ ps fin => if fin =? 67 then repeat SP (Z.to_nat (first_param ps)) else []
  | _ => []
  end.

(* its zero-width payload *)
Definition zwp (t : token) : list str := match t with TZw b => [b] | _ => [] end.

Fixpoint tokenize (fuel : nat) (s : str) : list token :=
  match fuel with
  | O => []
  | S f =>
      match s with
      | [] => []
      | c :: r =>
          if c =? SOH then
            match break_at STX r with
            | Some (b, r') => TZw b :: tokenize f r'
            | None => [TTail s]
            end
          else if c =? ESC then
            match r with
            | [] => [TTail s]
            | x :: r1 =>
                if x =? 91 then
                  let q := span pch r1 in
                  match snd q with
                  | [] => [TTail s]
                  | fin :: r2 => TCsi false (fst q) fin :: tokenize f r2
                  end
                else TEsc2 x :: tokenize f r1
            end
          else if c =? CSI8 then
            let q := span pch r in
            match snd q with
            | [] => [TTail s]
            | fin :: r2 => TCsi true (fst q) fin :: tokenize f r2
            end
          else TChar c :: tokenize f r
      end
  end.

Definition tokens (s : str) : list token := tokenize (length s) s.

(* the input with its sequences removed *)
Definition ansi_strip (s : str) : str := concat (map vis (tokens s)).
Definition ansi_zero_width (s : str) : list str := concat (map zwp (tokens s)).

(* zero-width payloads of a fragment list *)
Fixpoint zw_payloads (frs : list frag) : list str :=
  match frs with
  | [] => []
  | f :: r => (if is_zwe (fstyle f) then [ftext f] else []) ++ zw_payloads r
  end.

