(* C07 - undo/redo.  Model of prompt_toolkit.buffer.Buffer's undo machinery
   (buffer.py: save_to_undo_stack, undo, redo), statement by statement.

   State: the buffer's text and cursor and its two stacks of (text, cursor)
   snapshots.  Python appends/pops at the END of a list; here the HEAD of a
   Coq list is the top of the stack (the wire format prints bottom -> top, as
   Python's repr does).

   Operations: [Cmd save t c] is one command as seen from the undo machinery:
   KeyProcessor._call_handler first calls save_to_undo_stack() iff the
   binding's save_before(event) is true ([save]), then the handler does
   ANYTHING to the buffer - the payload (t, c) is the text and cursor it
   leaves behind.  [Undo] and [Redo] are Buffer.undo() / Buffer.redo().
   [Reset t c] is Buffer.reset(Document(t, c)): what PromptSession.prompt() does
   to its default buffer at the start of every prompt (and validate_and_handle
   after accepting): the text and cursor of the new document, and
       self._undo_stack = []; self._redo_stack = []
   A new editing session starts there.
   Definitions only; proofs are in Proofs/C07_UndoFacts.v. *)
From Coq Require Import ZArith List Bool.
From PTK Require Import Lib.Sx Lib.Py.
Import ListNotations.
Open Scope Z_scope.

Definition snap : Type := (str * Z)%type.

Record ust := mkust {
  utext : str;
  ucur : Z;
  ustack : list snap;      (* Buffer._undo_stack, head = top (last element) *)
  rstack : list snap;      (* Buffer._redo_stack, head = top *)
  ubad : bool              (* a Document(text, pos) constructor assertion fired *)
}.

Inductive uop :=
| Cmd (save : bool) (t : str) (c : Z)
| Undo
| Redo
| Reset (t : str) (c : Z).

(* A fresh Buffer / Buffer.reset(document): empty stacks. *)
Definition fresh (t : str) (c : Z) : ust := mkust t c [] [] false.

(* def save_to_undo_stack(self, clear_redo_stack=True):
       if self._undo_stack and self._undo_stack[-1][0] == self.text:
           self._undo_stack[-1] = (self._undo_stack[-1][0], self.cursor_position)
       else:
           self._undo_stack.append((self.text, self.cursor_position))
       if clear_redo_stack:
           self._redo_stack = []                                            *)
Definition save_to_undo_stack (s : ust) (clear_redo : bool) : ust :=
  let st' :=
    match ustack s with
    | (t, _) :: r =>
        if str_eqb t (utext s) then (t, ucur s) :: r
        else (utext s, ucur s) :: ustack s
    | [] => [(utext s, ucur s)]
    end in
  mkust (utext s) (ucur s) st' (if clear_redo then [] else rstack s) (ubad s).

(* self.document = Document(text, cursor_position=pos):
   Document.__init__ asserts pos <= len(text); the setter then stores the text
   and max(0, pos).  When the assertion fires the exception leaves the buffer
   as it is at that point; [ubad] records it. *)
Definition set_document (s : ust) (t : str) (pos : Z) : ust :=
  if len t <? pos then mkust (utext s) (ucur s) (ustack s) (rstack s) true
  else mkust t (Z.max 0 pos) (ustack s) (rstack s) (ubad s).

(* def undo(self):
       while self._undo_stack:
           text, pos = self._undo_stack.pop()
           if text != self.text:
               self._redo_stack.append((self.text, self.cursor_position))
               self.document = Document(text, cursor_position=pos)
               break
   The loop is structural in the stack. *)
Fixpoint undo_loop (s : ust) (stack : list snap) : ust :=
  match stack with
  | [] => mkust (utext s) (ucur s) [] (rstack s) (ubad s)
  | (t, pos) :: r =>
      if str_eqb t (utext s) then undo_loop s r
      else set_document
             (mkust (utext s) (ucur s) r ((utext s, ucur s) :: rstack s) (ubad s))
             t pos
  end.

Definition undo (s : ust) : ust := undo_loop s (ustack s).

(* def redo(self):
       if self._redo_stack:
           self.save_to_undo_stack(clear_redo_stack=False)
           text, pos = self._redo_stack.pop()
           self.document = Document(text, cursor_position=pos)             *)
Definition redo (s : ust) : ust :=
  match rstack s with
  | [] => s
  | _ :: _ =>
      let s1 := save_to_undo_stack s false in
      match rstack s1 with
      | (t, pos) :: r =>
          set_document (mkust (utext s1) (ucur s1) (ustack s1) r (ubad s1)) t pos
      | [] => s1
      end
  end.

(* The handler's effect: whatever it did, the buffer now holds (t, c).  (Every
   path that changes a Buffer's text/cursor ends in _set_text /
   _set_cursor_position; the stacks are touched by nothing else.) *)
Definition set_state (s : ust) (t : str) (c : Z) : ust :=
  mkust t c (ustack s) (rstack s) (ubad s).

Definition ustep (s : ust) (o : uop) : ust :=
  match o with
  | Cmd save t c =>
      set_state (if save then save_to_undo_stack s true else s) t c
  | Undo => undo s
  | Redo => redo s
  | Reset t c => mkust t c [] [] (ubad s)
  end.

Definition urun (s : ust) (ops : list uop) : ust := fold_left ustep ops s.

(* Ghost history: the (text, cursor) the buffer had at every command boundary
   strictly before the current one, newest first. *)
Definition here (s : ust) : snap := (utext s, ucur s).

(* Buffer.reset starts a new session: its ghost history starts empty. *)
Definition gstep (g : ust * list snap) (o : uop) : ust * list snap :=
  (ustep (fst g) o, match o with Reset _ _ => [] | _ => here (fst g) :: snd g end).

(* the text the current session started with: the document of the last reset *)
Definition session_start (t : str) (ops : list uop) : str :=
  fold_left (fun acc o => match o with Reset t' _ => t' | _ => acc end) ops t.

Definition grun (s : ust) (ops : list uop) : ust * list snap :=
  fold_left gstep ops (s, []).

(* [k] consecutive undos; the (text, cursor) reached by each one that changed
   anything, first landing first. *)
Fixpoint undo_landings (s : ust) (k : nat) : list snap :=
  match k with
  | O => []
  | S k' =>
      let s' := undo s in
      if str_eqb (utext s') (utext s) then undo_landings s' k'
      else here s' :: undo_landings s' k'
  end.

Fixpoint iter_op (o : uop) (k : nat) (s : ust) : ust :=
  match k with O => s | S k' => iter_op o k' (ustep s o) end.

(* ---- well-formedness (what the real Buffer guarantees of itself) ---- *)
Definition snap_ok (e : snap) : Prop := 0 <= snd e <= len (fst e).
Definition op_ok (o : uop) : Prop :=
  match o with Cmd _ t c | Reset t c => 0 <= c <= len t | _ => True end.
Definition wf (s : ust) : Prop :=
  snap_ok (here s) /\ Forall snap_ok (ustack s) /\ Forall snap_ok (rstack s) /\ ubad s = false.

(* ---- wire format ---- *)
Definition enc_snap (e : snap) : sx := L [sx_str (fst e); A (snd e)].
Definition enc_ust (s : ust) : sx :=
  L [sx_bool (ubad s); sx_str (utext s); A (ucur s);
     L (map enc_snap (rev (ustack s))); L (map enc_snap (rev (rstack s)))].

Definition dec_uop (x : sx) : option uop :=
  match x with
  | L [A 1; sv; t; A c] =>
      match as_bool sv, as_str t with
      | Some b, Some t' => if (0 <=? c) && (c <=? len t') then Some (Cmd b t' c) else None
      | _, _ => None
      end
  | L [A 2] => Some Undo
  | L [A 3] => Some Redo
  | L [A 4; t; A c] =>
      match as_str t with
      | Some t' => if (0 <=? c) && (c <=? len t') then Some (Reset t' c) else None
      | None => None
      end
  | _ => None
  end.

Fixpoint run_uops (s : ust) (ops : list uop) : list sx :=
  match ops with
  | [] => []
  | o :: r => let s' := ustep s o in enc_ust s' :: run_uops s' r
  end.

(* buffer-level case = (0 text cursor (op ...)); result = state after each op *)
Definition run_C07_buffer (t : sx) (cur : Z) (ops : list sx) : sx :=
  match as_str t, map_opt dec_uop ops with
  | Some t', Some ops' =>
      if (0 <=? cur) && (cur <=? len t') then L (run_uops (fresh t' cur) ops')
      else bad_case
  | _, _ => bad_case
  end.
