(* C07 - editing sessions over computed texts, second part: kills, yanks and
   the single-dispatch Vi operators, computed by C09's model.

   Model/C07_Edit.v computes typed characters, backspace, delete and cursor
   keys with C01's edit model.  Here a command may also name a command of
   Model/C09_Kill.v (kill-line, kill-word, unix-word-rubout,
   backward-kill-word, unix-line-discard, yank, yank-pop; Vi x X D dd yy p P):
   its effect is C09_Kill.exec on the text the buffer holds, with the kill
   ring / document_before_paste / named registers C09's state carries, the
   numeric argument as dispatched and is_repeat as THIS key-processor model
   computes it (previous handler = same binding), followed by
   _fix_vi_cursor_position (C09_Kill.fix_vi_cursor).  [E2Esc] is the Vi Escape
   binding (vi._back_to_navigation: one step left inside the line when leaving
   insert mode; then navigation mode).

   The C09 state rides along ([ec]); after EVERY command its buffer is
   re-synchronised with the undo machinery's buffer through C09_Kill.upd - what
   Buffer._text_changed / _cursor_position_changed do: a change clears
   document_before_paste (and the selection).  So undo()/redo() and the
   commands of Model/C07_Edit.v interleave with kills and yanks as in the code.
   A computed buffer that is not a valid Document (cursor outside the text:
   Document.__init__ asserts) leaves the buffer as it was. *)
From Coq Require Import ZArith List Bool.
From PTK Require Import Lib.Sx Lib.Py Model.Document Model.BufferEdit Model.C07_Undo Model.C07_Keys Model.C07_Edit.
From PTK Require Model.C09_Kill.
Import ListNotations.
Open Scope Z_scope.

Record est := mkest { ek : kst; ec : C09_Kill.st }.

Inductive ecmd2 :=
| E2Old (c : ecmd)
| E2Kill (h : Z) (c : C09_Kill.cmd) (arg : Z)
| E2Esc (h : Z).

Definition valid_buf (b : buf) : bool := (0 <=? bcur b) && (bcur b <=? len (btext b)).

Definition with_vi (s : C09_Kill.st) (v : bool) : C09_Kill.st :=
  C09_Kill.mkst (C09_Kill.sb s) (C09_Kill.ssel s) (C09_Kill.sring s) (C09_Kill.sdbp s)
                (C09_Kill.sprev s) (C09_Kill.sregs s) v.

(* the C09 state a handler would produce, before the validity check *)
Definition handler2 (e : est) (c : ecmd2) : option C09_Kill.st :=
  match c with
  | E2Old _ => None
  | E2Kill h k arg =>
      let '(code, s1) := C09_Kill.exec (ec e) k arg (is_repeat (kprev (ek e)) h) in
      if code =? 0 then Some (C09_Kill.fix_vi_cursor s1) else None
  | E2Esc h =>
      let s0 := ec e in
      let s1 := if C09_Kill.svi s0 then s0 else snd (C09_Kill.vi_escape (C09_Kill.ok s0)) in
      Some (C09_Kill.fix_vi_cursor (with_vi s1 true))
  end.

Definition to_kev2 (tbl : list row) (e : est) (c : ecmd2) : kev :=
  match c with
  | E2Old c0 => to_kev tbl (ek e) c0
  | E2Kill h _ _ | E2Esc h =>
      match handler2 e c with
      | Some s' =>
          if valid_buf (C09_Kill.sb s') then Key h 0 (btext (C09_Kill.sb s')) (bcur (C09_Kill.sb s'))
          else Key h 0 (utext (kbuf (ek e))) (ucur (kbuf (ek e)))
      | None => Key h 0 (utext (kbuf (ek e))) (ucur (kbuf (ek e)))
      end
  end.

Definition estep2 (tbl : list row) (e : est) (c : ecmd2) : est :=
  let k' := kstep tbl (ek e) (to_kev2 tbl e c) in
  let c1 := match handler2 e c with
            | Some s' => if valid_buf (C09_Kill.sb s') then s' else ec e
            | None => ec e
            end in
  (* Buffer._text_changed / _cursor_position_changed *)
  mkest k' (C09_Kill.upd c1 (as_buf (kbuf k'))).

Definition e2run (tbl : list row) (e : est) (cs : list ecmd2) : est := fold_left (estep2 tbl) cs e.

Fixpoint e2compile (tbl : list row) (e : est) (cs : list ecmd2) : list kev :=
  match cs with
  | [] => []
  | c :: r => to_kev2 tbl e c :: e2compile tbl (estep2 tbl e c) r
  end.

Definition e2fresh (t : str) (c : Z) : est :=
  mkest (kfresh t c) (C09_Kill.mkst (mkbuf t c) None [] None 0 [] false).

(* ---- wire format ---- *)
Definition plain_binding (tbl : list row) (h : Z) : bool :=
  (0 <=? h) && (h <? len tbl) && (r_act (lookup tbl h) =? 0) && negb (r_cls (lookup tbl h) =? 0).

(* the C09 commands this model uses (one dispatch each) *)
Definition kill_cmd_ok (k : C09_Kill.cmd) : bool :=
  match k with
  | C09_Kill.KillLine | C09_Kill.KillWordMd | C09_Kill.CtrlW | C09_Kill.MetaBackspace
  | C09_Kill.CtrlU | C09_Kill.YankCy | C09_Kill.YankPop
  | C09_Kill.ViX | C09_Kill.ViBigX | C09_Kill.ViD | C09_Kill.ViDD | C09_Kill.ViYY
  | C09_Kill.ViP | C09_Kill.ViBigP => true
  | _ => false
  end.

Definition dec_ecmd2 (tbl : list row) (x : sx) : option ecmd2 :=
  match x with
  | L [A 8; A h; k; A arg] =>
      match C09_Kill.dec_cmd k with
      | Some (k', _) => if plain_binding tbl h && kill_cmd_ok k' then Some (E2Kill h k' arg) else None
      | None => None
      end
  | L [A 9; A h] => if plain_binding tbl h then Some (E2Esc h) else None
  | _ => match dec_ecmd tbl x with Some c => Some (E2Old c) | None => None end
  end.

Fixpoint run_ecmds2 (tbl : list row) (e : est) (cs : list ecmd2) : list sx :=
  match cs with
  | [] => []
  | c :: r =>
      let e' := estep2 tbl e c in
      let sv := match c with
                | E2Old (EEdit h _) | E2Old (EUndoKey h _) | E2Kill h _ _ | E2Esc h => save_before tbl (kprev (ek e)) h
                | _ => false
                end in
      L [sx_bool sv; enc_ust (kbuf (ek e'))] :: run_ecmds2 tbl e' r
  end.

Definition run_C07_edit2 (tbl : list row) (t : sx) (cur : Z) (cs : list sx) : sx :=
  match as_str t, map_opt (dec_ecmd2 tbl) cs with
  | Some t', Some cs' =>
      if (0 <=? cur) && (cur <=? len t') then L (run_ecmds2 tbl (e2fresh t' cur) cs')
      else bad_case
  | _, _ => bad_case
  end.
