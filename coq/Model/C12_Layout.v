(* C12 - nested HSplit/VSplit: what every container reports to its parent and
   where write_to_screen draws every child (two-dimensional write positions).

   Model of (as coded in /repo, layout/containers.py):
     HSplit.preferred_width / preferred_height, VSplit.preferred_width /
     preferred_height (the latter first divides the widths and asks every
     child for its height AT ITS DIVIDED WIDTH),
     HSplit.write_to_screen / VSplit.write_to_screen: the WritePosition
     (xpos, ypos, width, height) handed to every entry of _all_children, to
     the remaining-space window and to the window_too_small container,
     recursively through nested splits, in drawing order.
   Leaves are containers reporting a fixed (width, height) requirement.
   The division itself is [divide] of Model/C12_Divide.v.

   Also: the _all_children cache when `split.align` / `split.padding` are
   assigned after construction (they are not part of the cache key).

   Definitions only. *)
From Coq Require Import ZArith List Bool.
From PTK Require Import Lib.Sx Model.C12_Divide.
Import ListNotations.
Open Scope Z_scope.

Inductive tree :=
| Leaf (id : Z) (wd hd : dim)
| Node (orient align : Z) (pad : dim) (kids : list tree)    (* orient 0 = HSplit, 1 = VSplit *)
| WLeaf (id : Z) (wd : dim) (len : Z)     (* a wrapping leaf: len cells of text, height = ceil(len / width) *)
| Over (ow oh : option dim) (t : tree).   (* the split t constructed with width= / height= *)

(* what a wrapping leaf reports as its height when it is offered [width]
   columns: Dimension(preferred=ceil(len / max(1, width))) *)
Definition wrap_height (len width : Z) : ctor_res :=
  let w := Z.max 1 width in dimension None None None (Some ((len + w - 1) / w)).

(* what a preferred_* call gives: a Dimension, a divide loop out of fuel,
   or an exception (a Dimension constructor raised) *)
Inductive rep := RDim (d : dim) | RFuel | RErr.

Definition rep_of (c : ctor_res) : rep :=
  match c with COk d => RDim d | _ => RErr end.

Fixpoint collect_rep (l : list rep) : list dim + rep :=
  match l with
  | [] => inl []
  | RDim d :: r => match collect_rep r with inl ds => inl (d :: ds) | inr e => inr e end
  | e :: _ => inr e
  end.

(* number of alignment windows before the first child *)
Definition lead (align : Z) : nat := if (align =? 1) || (align =? 2) then 1%nat else 0%nat.
Definition trail (align : Z) : bool := (align =? 1) || (align =? 0).

(* index in _all_children of the idx-th child (children non-empty) *)
Definition kid_entry (align : Z) (idx : nat) : nat := (lead align + 2 * idx)%nat.

(* preferred_width(max_available_width) *)
Fixpoint pw (t : tree) : rep :=
  match t with
  | Leaf _ wd _ => RDim wd
  | Node o al pad kids =>
      match collect_rep (map pw kids) with
      | inr e => e
      | inl ds =>
          if o =? 0 then
            match ds with
            | [] => rep_of (dimension None None None None)       (* `else: return Dimension()` *)
            | _ => rep_of (max_layout_dimensions ds)
            end
          else rep_of (sum_layout_dimensions (all_children al pad ds))
      end
  | WLeaf _ wd _ => RDim wd
  | Over ow _ t' =>                      (* `if self.width is not None: return to_dimension(self.width)` *)
      match ow with Some d => RDim d | None => pw t' end
  end.

(* [c.preferred_height(s, ..) for s, c in zip(sizes, children)] restricted to
   the real children: the idx-th child is entry kid_entry of _all_children *)
Definition ph_kids (phk : tree -> Z -> rep) (al : Z) (sizes : list Z) : list tree -> nat -> list rep :=
  fix go (ks : list tree) (idx : nat) : list rep :=
    match ks with
    | [] => []
    | k :: r => phk k (nth (kid_entry al idx) sizes 0) :: go r (S idx)
    end.

(* preferred_height(width, max_available_height) *)
Fixpoint ph (fuel : nat) (t : tree) (width : Z) : rep :=
  match t with
  | Leaf _ _ hd => RDim hd
  | Node o al pad kids =>
      if o =? 0 then
        match collect_rep (map (fun k => ph fuel k width) kids) with
        | inr e => e
        | inl ds => rep_of (sum_layout_dimensions (all_children al pad ds))
        end
      else
        match collect_rep (map pw kids) with
        | inr e => e
        | inl wds =>
            match divide fuel false (all_children al pad wds) width with
            | TooSmall => rep_of (dimension None None None None)
            | Sizes sizes =>
                (* the padding / alignment Windows report Dimension() as their height *)
                match collect_rep (ph_kids (ph fuel) al sizes kids O) with
                | inr e => e
                | inl hds => rep_of (max_layout_dimensions (all_children al flex hds))
                end
            | OutOfFuel => RFuel
            | _ => RErr
            end
        end
  | WLeaf _ _ len => rep_of (wrap_height len width)
  | Over _ oh t' =>                      (* `if self.height is not None: return to_dimension(self.height)` *)
      match oh with Some d => RDim d | None => ph fuel t' width end
  end.

(* ------------------------------------------------------------------ *)
(* write_to_screen *)

(* kind: >= 0 the id of a leaf, -1 padding window, -2 alignment window,
   -3 remaining-space window, -4 the window_too_small container *)
Record rect := mkrect { rk : Z; rx : Z; ry : Z; rw : Z; rh : Z }.

(* the WritePosition of the piece [pos, pos + s) along the split axis of the
   region (x, y, w, h) *)
Definition piece (o : Z) (kind x y w h pos s : Z) : rect :=
  if o =? 0 then mkrect kind x pos w s else mkrect kind pos y s h.

Definition axis_start (o x y : Z) : Z := if o =? 0 then y else x.
Definition axis_avail (o w h : Z) : Z := if o =? 0 then h else w.

(* the e-th entry of _all_children: `ypos += s` / `xpos += s` for the entries before it *)
Definition entry_rect (o : Z) (kind x y w h : Z) (sizes : list Z) (e : nat) : rect :=
  piece o kind x y w h (axis_start o x y + zsum (firstn e sizes)) (nth e sizes 0).

(* `for s, c in zip(sizes, self._all_children): c.write_to_screen(...)`, the
   part from the first real child to the last one (children and the padding
   windows between them); zip stops where the sizes end *)
Definition write_kids (wr : tree -> Z -> Z -> Z -> Z -> list rect + Z)
           (o al x y w h : Z) (sizes : list Z) : list tree -> nat -> list rect + Z :=
  fix go (ks : list tree) (idx : nat) : list rect + Z :=
    match ks with
    | [] => inl []
    | k :: r =>
        let e := kid_entry al idx in
        if Nat.ltb e (length sizes) then
          let rc := entry_rect o 0 x y w h sizes e in
          match wr k (rx rc) (ry rc) (rw rc) (rh rc) with
          | inr c => inr c
          | inl rk_ =>
              match go r (S idx) with
              | inr c => inr c
              | inl rr =>
                  inl (rk_
                       ++ (match r with
                           | [] => []
                           | _ => if Nat.ltb (S e) (length sizes)
                                  then [entry_rect o (-1) x y w h sizes (S e)] else []
                           end)
                       ++ rr)
              end
          end
        else inl []
    end.

(* everything drawn once the sizes are known *)
Definition place (wr : tree -> Z -> Z -> Z -> Z -> list rect + Z)
           (o al x y w h : Z) (sizes : list Z) (kids : list tree) : list rect + Z :=
  match write_kids wr o al x y w h sizes kids O with
  | inr c => inr c
  | inl mid =>
      let nk := length kids in
      let e_t := (lead al + 2 * nk - 1)%nat in        (* entry of the trailing alignment window *)
      let nall := (match kids with [] => 0 | _ => lead al + 2 * nk - 1 end
                   + (if trail al then 1 else 0))%nat in
      let drawn := firstn nall sizes in
      let endpos := axis_start o x y + zsum drawn in
      let remaining := axis_start o x y + axis_avail o w h - endpos in
      inl ((match kids with
            | [] => []
            | _ => if (Nat.eqb (lead al) 1) && Nat.ltb 0 (length sizes)
                   then [entry_rect o (-2) x y w h sizes 0] else []
            end)
           ++ mid
           ++ (match kids with
               | [] => []
               | _ => if trail al && Nat.ltb e_t (length sizes)
                      then [entry_rect o (-2) x y w h sizes e_t] else []
               end)
           ++ (if remaining >? 0 then [piece o (-3) x y w h endpos remaining] else []))
  end.

(* result codes: 3 a divide loop ran out of fuel, 4 an exception *)
Definition rep_code (e : rep) : Z := match e with RFuel => 3 | _ => 4 end.

Fixpoint write (fuel : nat) (done : bool) (t : tree) (x y w h : Z) : list rect + Z :=
  match t with
  | Leaf id _ _ => inl [mkrect id x y w h]
  | Node o al pad kids =>
      if o =? 0 then
        (* HSplit: sizes = self._divide_heights(write_position) *)
        match kids with
        | [] => place (write fuel done) o al x y w h [] kids          (* `if not self.children: return []` *)
        | _ =>
            match collect_rep (map (fun k => ph fuel k w) kids) with
            | inr e => inr (rep_code e)
            | inl hds =>
                match divide fuel done (all_children al pad hds) h with
                | TooSmall => inl [mkrect (-4) x y w h]
                | Sizes sizes => place (write fuel done) o al x y w h sizes kids
                | OutOfFuel => inr 3
                | _ => inr 4
                end
            end
        end
      else
        (* VSplit *)
        match kids with
        | [] => inl []                                              (* `if not self.children: return` *)
        | _ =>
            match collect_rep (map pw kids) with
            | inr e => inr (rep_code e)
            | inl wds =>
                match divide fuel false (all_children al pad wds) w with
                | TooSmall => inl [mkrect (-4) x y w h]
                | Sizes sizes =>
                    (* heights = [child.preferred_height(width, ..).preferred ...];
                       height = max(h, min(h, max(heights))) = h: the values are not
                       used, but the calls are made (they divide nested widths) *)
                    match collect_rep (ph_kids (ph fuel) al sizes kids O) with
                    | inr e => inr (rep_code e)
                    | inl _ => place (write fuel done) o al x y w h sizes kids
                    end
                | OutOfFuel => inr 3
                | _ => inr 4
                end
            end
        end
  | WLeaf id _ _ => inl [mkrect id x y w h]
  | Over _ _ t' => write fuel done t' x y w h     (* write_to_screen does not look at self.width / self.height *)
  end.

(* ------------------------------------------------------------------ *)
(* `split.align = ...` / `split.padding = ...` after construction.  The
   getter behind the _all_children cache reads self.align and self.padding
   when it RUNS (on a miss); the key is tuple(self.children) only.  The
   cached value therefore remembers the alignment and the padding of the
   moment it was computed. *)

(* the slot: key, alignment and padding at the time of the miss *)
Definition cache2 := option (list Z * (Z * dim)).

Definition cache2_get (align : Z) (pad : dim) (c : cache2) (ids : list Z) : (Z * dim) * cache2 :=
  match c with
  | Some (k, v) => if zlist_eqb k ids then (v, c) else ((align, pad), Some (ids, (align, pad)))
  | None => ((align, pad), Some (ids, (align, pad)))
  end.

(* renders of one split object; before each render the program may assign
   split.align, split.padding and edit split.children *)
Fixpoint render_steps2 (fuel : nat) (orient : Z) (done : bool) (pool : list dim) (avail start : Z)
         (c : cache2) (steps : list (Z * dim * list Z)) : list sx :=
  match steps with
  | [] => []
  | (align, pad, ids) :: rest =>
      let '((al_used, pad_used), c') := cache2_get align pad c ids in
      render_with fuel orient done pad_used pool avail start ids (entries al_used ids)
      :: render_steps2 fuel orient done pool avail start c' rest
  end.

(* what a split that looks at its current align / padding would draw *)
Fixpoint render_fresh2 (fuel : nat) (orient : Z) (done : bool) (pool : list dim) (avail start : Z)
         (steps : list (Z * dim * list Z)) : list sx :=
  match steps with
  | [] => []
  | (align, pad, ids) :: rest =>
      render_with fuel orient done pad pool avail start ids (entries align ids)
      :: render_fresh2 fuel orient done pool avail start rest
  end.

(* ------------------------------------------------------------------ *)
(* Wire *)

Definition sx_rect (r : rect) : sx :=
  L [A (rk r); sx_big (rx r); sx_big (ry r); sx_big (rw r); sx_big (rh r)].

(* tree on the wire: (0 id rawW rawH) | (1 orient align rawPad (kids...)) | (2 id rawW len) a wrapping leaf |
   (3 ovW ovH split) a split with width= / height= (each () or (rawdim)).
   A raw dimension whose constructor raises makes the case answer that
   error (first in pre-order: padding before children, width before height) *)
Definition as_ov (s : sx) : option (option dim + ctor_res) :=
  match as_opt as_rawdim s with
  | Some None => Some (inl None)
  | Some (Some (COk d)) => Some (inl (Some d))
  | Some (Some e) => Some (inr e)
  | None => None
  end.

Fixpoint as_tree (s : sx) : option (tree + ctor_res) :=
  match s with
  | L [A 0; A id; rw_; rh_] =>
      match as_rawdim rw_, as_rawdim rh_ with
      | Some (COk a), Some (COk b) => Some (inl (Leaf id a b))
      | Some (COk _), Some e => Some (inr e)
      | Some e, Some _ => Some (inr e)
      | _, _ => None
      end
  | L [A 1; A o; A al; rp; L ks] =>
      match as_rawdim rp with
      | Some (COk p) =>
          match (fix go (l : list sx) : option (list tree + ctor_res) :=
                   match l with
                   | [] => Some (inl [])
                   | k :: r =>
                       match as_tree k with
                       | None => None
                       | Some (inr e) => Some (inr e)
                       | Some (inl t) =>
                           match go r with
                           | Some (inl ts) => Some (inl (t :: ts))
                           | other => other
                           end
                       end
                   end) ks with
          | Some (inl ts) => Some (inl (Node o al p ts))
          | Some (inr e) => Some (inr e)
          | None => None
          end
      | Some e => Some (inr e)
      | None => None
      end
  | L [A 2; A id; rw_; A len] =>
      match as_rawdim rw_ with
      | Some (COk a) => Some (inl (WLeaf id a len))
      | Some e => Some (inr e)
      | None => None
      end
  | L [A 3; ow; oh; (L (A 1 :: _)) as t'] =>
      match as_ov ow, as_ov oh with
      | Some (inl a), Some (inl b) =>
          match as_tree t' with Some (inl tr) => Some (inl (Over a b tr)) | other => other end
      | Some (inr e), Some _ => Some (inr e)
      | Some (inl _), Some (inr e) => Some (inr e)
      | _, _ => None
      end
  | _ => None
  end.

Definition sx_rep (r : rep) : sx :=
  match r with
  | RDim d => L [A 0; sx_dim d]
  | RFuel => L [A 3]
  | RErr => L [A 4]
  end.

Definition as_step2 (s : sx) : option (Z * ctor_res * list Z) :=
  match s with
  | L [A al; rp; ids] =>
      match as_rawdim rp, as_str ids with
      | Some p, Some i => Some (al, p, i)
      | _, _ => None
      end
  | _ => None
  end.

(* cases, beyond those of run_C12_base:
     (10 done tree x y w h fuel)      write_to_screen of a nested split at WritePosition(x, y, w, h)
     (11 tree axis width fuel)        preferred_width (axis 0) / preferred_height(width) (axis 1) of a nested split
     (12 orient done pool avail start fuel steps)
                                      renders of one split; each step (align rawPad ids) assigns split.align,
                                      split.padding and split.children before rendering *)
Definition run_C12 (c : sx) : sx :=
  match c with
  | L [A 10; dn; t; A x; A y; A w; A h; A fuel] =>
      match as_bool dn, as_tree t with
      | Some done, Some (inl tr) =>
          match write (nat_of_Z fuel) done tr x y w h with
          | inl rs => L [A 0; L (map sx_rect rs)]
          | inr code => L [A code]
          end
      | Some _, Some (inr e) => sx_ctor e
      | _, _ => bad_case
      end
  | L [A 11; t; A axis; A width; A fuel] =>
      match as_tree t with
      | Some (inl tr) => sx_rep (if axis =? 0 then pw tr else ph (nat_of_Z fuel) tr width)
      | Some (inr e) => sx_ctor e
      | None => bad_case
      end
  | L [A 12; A orient; dn; L pool; A avail; A start; A fuel; L steps] =>
      match as_bool dn, map_opt as_rawdim pool, map_opt as_step2 steps with
      | Some done, Some rpool, Some sts =>
          match collect_dims (rpool ++ map (fun st => snd (fst st)) sts) with
          | inl _ =>
              let pl := map ok_dim rpool in
              let sts' := map (fun st => (fst (fst st), ok_dim (snd (fst st)), snd st)) sts in
              L (render_steps2 (nat_of_Z fuel) orient done pl avail start None sts')
          | inr e => sx_ctor e
          end
      | _, _, _ => bad_case
      end
  | _ => run_C12_base c
  end.
