(* C03 - an executable matcher for the regular-expression ASTs that
   gen/gen_t_c03.py regenerates from /repo's four pattern strings
   (Gen/C03_Regexes.v): Brzozowski derivatives.  [dmatch r s] decides whether
   the WHOLE string s is in the language of r (the patterns are anchored ^...\Z).
   Proofs/C03_Deriv.v shows it decides the declarative semantics [matches] and
   that each hand recogniser of Model/C03_Vt100Parser.v equals it on the
   regenerated AST, for all strings.  Definitions only. *)
From Coq Require Import ZArith List Bool.
From PTK Require Import Lib.Sx Lib.Py Lib.C03_Regex Gen.C03_AnsiSequences Gen.C03_Regexes Model.C03_Vt100Parser.
Import ListNotations.
Open Scope Z_scope.

Fixpoint cset_mem (s : cset) (c : Z) : bool :=
  match s with
  | CChr x => c =? x
  | CDigit => is_digit c
  | CAny => not_nl c
  | CUnion a b => cset_mem a c || cset_mem b c
  end.

Fixpoint nullable (r : re) : bool :=
  match r with
  | RNone => false
  | REps => true
  | RSet _ => false
  | RCat a b => nullable a && nullable b
  | RAlt a b => nullable a || nullable b
  | RStar _ => true
  | RPlus a => nullable a
  | ROpt _ => true
  end.

Fixpoint deriv (c : Z) (r : re) : re :=
  match r with
  | RNone => RNone
  | REps => RNone
  | RSet s => if cset_mem s c then REps else RNone
  | RCat a b => RAlt (RCat (deriv c a) b) (if nullable a then deriv c b else RNone)
  | RAlt a b => RAlt (deriv c a) (deriv c b)
  | RStar a => RCat (deriv c a) (RStar a)
  | RPlus a => RCat (deriv c a) (RStar a)
  | ROpt a => deriv c a
  end.

Definition dmatch (r : re) (s : str) : bool := nullable (fold_left (fun r c => deriv c r) s r).

(* the four patterns, by number (harness entry point (14 which str)) *)
Definition ast_of (which : Z) : option re :=
  if which =? 0 then Some ast_cpr_response_re
  else if which =? 1 then Some ast_mouse_event_re
  else if which =? 2 then Some ast_cpr_response_prefix_re
  else if which =? 3 then Some ast_mouse_event_prefix_re
  else None.
