(* C05: wire format and the single entry point [run_C05] used by the extracted
   model and by the in-Coq cross-check. *)
From Coq Require Import ZArith List Bool.
From PTK Require Import Lib.Sx Lib.Py Lib.C05_Filter Gen.C05_Bindings Model.Document
  Model.C05_Dispatch Model.C05_Editor Model.C05_BlockInsert.
Import ListNotations.
Open Scope Z_scope.

Definition dec_optZ (s : sx) : option (option Z) := as_opt as_Z s.
Definition dec_sel (s : sx) : option (option (Z * Z)) :=
  match s with
  | L [] => Some None
  | L [A a; A t] => Some (Some (a, t))
  | _ => None
  end.

Definition dec_state (s : sx) : option est :=
  match s with
  | L [t; A c; sel; mc; A ro; pref; L wl; A wi; A vi; A m; A op; oa; A dg; A tmp] =>
      match as_str t, dec_sel sel, as_str mc, dec_optZ pref, map_opt as_str wl, dec_optZ oa with
      | Some t', Some sel', Some mc', Some pref', Some wl', Some oa' =>
          if (0 <=? c) && (c <=? len t') && (0 <=? wi) && (wi <? len wl')
          then Some (mkE t' c sel' mc' (ro =? 1) pref' wl' wi (vi =? 1) m (op =? 1) oa' (dg =? 1) (tmp =? 1))
          else None
      | _, _, _, _, _, _ => None
      end
  | _ => None
  end.

Definition enc_state (s : est) : sx :=
  L [sx_str (et s); A (ec s);
     match esel s with None => L [] | Some (a, t) => L [A a; A t] end;
     sx_str (emc s); sx_bool (ero s); sx_opt sx_Z (epref s);
     sx_list sx_str (set_nth (ewl s) (Z.to_nat (ewi s)) (et s)); A (ewi s);
     sx_bool (evi s); A (vmode s); sx_bool (vop s); sx_opt sx_Z (voparg s);
     sx_bool (vdig s); sx_bool (vtemp s)].

Definition enc_eres (r : eres) : sx :=
  match r with
  | EOk s => L [A 0; enc_state s]
  | EErr c s => L [A c; enc_state s]
  end.

Definition handler_of (n : Z) : option handler :=
  match n with
  | 1 => Some HBackToNavigation | 2 => Some HAcceptSearchVi
  | 3 => Some HBeginningOfLine | 4 => Some HEndOfLine | 5 => Some HForwardChar | 6 => Some HBackwardChar
  | 7 => Some HSelfInsert | 8 => Some HDeleteChar | 9 => Some HBackwardDeleteChar
  | 10 => Some HVi_i | 11 => Some HVi_a | 12 => Some HVi_A | 13 => Some HVi_I
  | 14 => Some HViInsertKeyNav | 15 => Some HViInsertKeyIns | 16 => Some HViGoLeft
  | 17 => Some HViReplaceSingle | 18 => Some HViReplaceInsert | 19 => Some HViDigraph | 20 => Some HViQuickNormal
  | 21 => Some HViInsertMulti | 22 => Some HViBackspaceMulti | 23 => Some HViDeleteMulti
  | 24 => Some HViLeftMulti | 25 => Some HViRightMulti | 26 => Some (HViOperatorInNav false) | 38 => Some (HViOperatorInNav true) | 27 => Some HIgnore
  | 28 => Some HViUpSel | 29 => Some HViDownSel | 30 => Some HViUpNav | 31 => Some HViGoUpK
  | 32 => Some HViDownNav | 33 => Some HViGoDownJ | 34 => Some HPreviousHistory | 35 => Some HNextHistory
  | 36 => Some HEmacsAutoUp | 37 => Some HEmacsAutoDown
  | _ => None
  end.

Definition b1 (z : Z) : bool := z =? 1.

Definition dec_bop (s : sx) : option bop :=
  match s with
  | L [A 1; v] => match as_str v with Some v' => Some (BSetText v') | None => None end
  | L [A 2; A v] => Some (BSetCursor v)
  | L [A 3; t; A c; A b] => match as_str t with Some t' => Some (BSetDocument t' c (b1 b)) | None => None end
  | L [A 4; d; A ow; A mv] => match as_str d with Some d' => Some (BInsert d' (b1 ow) (b1 mv)) | None => None end
  | L [A 5; A n] => Some (BDeleteBefore n)
  | L [A 6; A n] => Some (BDelete n)
  | L [A 7; A n] => Some (BLeft n)
  | L [A 8; A n] => Some (BRight n)
  | L [A 9; A n] => Some (BUp n)
  | L [A 10; A n] => Some (BDown n)
  | L [A 11; A ty] => Some (BStartSel ty)
  | L [A 12] => Some BExitSel
  | L [A 13; A i] => Some (BGoToHistory i)
  | L [A 14; A n] => Some (BHistBack n)
  | L [A 15; A n] => Some (BHistFwd n)
  | L [A 16; A n; A g] => Some (BAutoUp n (b1 g))
  | L [A 17; A n; A g] => Some (BAutoDown n (b1 g))
  | L [A 18; d; A ty; A m; A c] => match as_str d with Some d' => Some (BPaste d' ty m c) | None => None end
  | _ => None
  end.

Fixpoint run_bops (s : est) (ops : list bop) : list sx :=
  match ops with
  | [] => []
  | o :: r => let x := bstep s o in enc_eres x :: run_bops (eres_st x) r
  end.

Definition run_C05 (c : sx) : sx :=
  match c with
  | L [A 1; bits; ks; A flush] =>
      match as_str bits, as_str ks with
      | Some b, Some k => run_dispatch b k flush
      | _, _ => bad_case
      end
  | L [A 2; A hid; st; A arg; data] =>
      match handler_of hid, dec_state st, as_str data with
      | Some h, Some s, Some d => enc_eres (call_handler h s arg d)
      | _, _, _ => bad_case
      end
  | L [A 5; A hid; st; A arg; data] =>
      (* projection on the Vi state (handlers whose buffer effects are outside the model) *)
      match handler_of hid, dec_state st, as_str data with
      | Some h, Some s, Some d =>
          match call_handler h s arg d with
          | EOk s' => L [A 0; A (vmode s'); sx_bool (vop s'); sx_opt sx_Z (voparg s'); sx_bool (vdig s'); sx_bool (vtemp s')]
          | EErr c s' => L [A c; A (vmode s'); sx_bool (vop s'); sx_opt sx_Z (voparg s'); sx_bool (vdig s'); sx_bool (vtemp s')]
          end
      | _, _, _ => bad_case
      end
  | L [A 3; st; L ops] =>
      match dec_state st, map_opt dec_bop ops with
      | Some s, Some ops' => L (run_bops s ops')
      | _, _ => bad_case
      end
  | L [A 6; a; A patched] =>
      (* KeyPressEvent.arg for the accumulated argument string *)
      match as_opt as_str a with
      | Some a' =>
          match (if patched =? 1 then event_arg a' else event_arg_pinned a') with
          | Some n => L [A 0; A n]
          | None => L [A E_VALUE]
          end
      | None => bad_case
      end
  | L [A 7; st; A after] =>
      (* vi.py insert_in_block_selection (I / A on a block selection) through _call_handler *)
      match dec_state st with
      | Some s => enc_eres (call_block_insert (after =? 1) s)
      | None => bad_case
      end
  | L [A 4; st] =>
      match dec_state st with
      | Some s => enc_state (fix_vi_cursor_position s)
      | None => bad_case
      end
  | _ => bad_case
  end.
