(* C03 - harness entry points of round 7 (in addition to those of run_C03_all3):
   (14 str)              -> (b b b b)  the derivative matcher on the regenerated ASTs of _cpr_response_re,
                                  _mouse_event_re, _cpr_response_prefix_re, _mouse_event_prefix_re
   (15 mode (call ...))  as (13 ..) with the OSError subclasses spelled out:
        sel = 0 ready | 1 not ready | 2 OSError(EBADF) | 3 InterruptedError(EINTR)
        rd  = (0 bytes) | (1) OSError(EIO) | (2) BlockingIOError(EAGAIN) | (3) InterruptedError(EINTR)
        PosixStdinReader.read() has one "except OSError" around select and one around
        os.read, so every subclass is the same label of the model ([SelError] / [RdError]). *)
From Coq Require Import ZArith List Bool.
From PTK Require Import Lib.Sx Lib.Py Model.C03_Vt100Parser Model.C03_Vt100Input Model.C03_Cache
  Gen.C03_Regexes Model.C03_Utf8Spec Model.C03_Errors Model.C03_RegexMatch.
Import ListNotations.
Open Scope Z_scope.

Definition dec_call7 (s : sx) : option rcall :=
  match s with
  | L [A se; rd] =>
      let sel := if se =? 0 then Some SelReady else if se =? 1 then Some SelNotReady
                 else if (se =? 2) || (se =? 3) then Some SelError else None in
      let r := match rd with
               | L [A 0; d] => match as_str d with Some b => Some (RdData b) | None => None end
               | L [A k] => if (1 <=? k) && (k <=? 3) then Some RdError else None
               | _ => None
               end in
      match sel, r with Some a, Some b => Some (a, b) | _, _ => None end
  | _ => None
  end.

Definition run_C03_all4 (c : sx) : sx :=
  match c with
  | L [A 14; s] =>
      match as_str s with
      | Some p => L [sx_bool (dmatch ast_cpr_response_re p); sx_bool (dmatch ast_mouse_event_re p);
                     sx_bool (dmatch ast_cpr_response_prefix_re p); sx_bool (dmatch ast_mouse_event_prefix_re p)]
      | None => bad_case
      end
  | L [A 15; A mz; L l] =>
      match dec_mode mz, map_opt dec_call7 l with
      | Some m, Some calls => L (run_esteps m calls rinit)
      | _, _ => bad_case
      end
  | _ => run_C03_all3 c
  end.
