(* C19 - the style object tree of styles/base.py + styles/style.py with its
   invalidation hashes, and _MergedStyle's one-entry SimpleCache holding the
   combined Style, keyed by the invalidation hash:
     Style(rules)         hash id(class_names_and_attrs)   (one id per object)
     DummyStyle()         hash 1
     DynamicStyle(get)    hash of whatever get() returns now (None -> dummy)
     _MergedStyle(styles) hash tuple(s.invalidation_hash() for s in styles)
   The Style objects live in a pool (id -> rules); a dynamic slot currently
   returns one of them or None.  Definitions only. *)
From Coq Require Import ZArith List Bool.
From PTK Require Import Lib.Py Lib.C19_Str Model.C19_Style.
Import ListNotations.
Open Scope Z_scope.

Inductive sty : Type :=
| SStyle (id : Z)
| SDummy
| SDynamic (slot : Z)
| SMerged (l : list sty).

Inductive hv : Type :=       (* Hashable values that occur *)
| HId (id : Z)
| HOne
| HTuple (l : list hv).

Definition rules_t : Type := list (str * str).
Definition pool_t : Type := list (Z * rules_t).
Definition env_t : Type := list (Z * option Z).       (* slot -> Some id | None *)

Definition pool_rules (pool : pool_t) (id : Z) : rules_t :=
  match assocZ id pool with Some r => r | None => [] end.
Definition env_get (env : env_t) (slot : Z) : option Z :=
  match assocZ slot env with Some o => o | None => None end.

Fixpoint hv_eqb (a b : hv) {struct a} : bool :=
  match a, b with
  | HId x, HId y => x =? y
  | HOne, HOne => true
  | HTuple xs, HTuple ys =>
      (fix go (xs ys : list hv) {struct xs} : bool :=
         match xs, ys with
         | [], [] => true
         | x :: xs', y :: ys' => hv_eqb x y && go xs' ys'
         | _, _ => false
         end) xs ys
  | _, _ => false
  end.

(* invalidation_hash() *)
Fixpoint inv_hash (env : env_t) (t : sty) {struct t} : hv :=
  match t with
  | SStyle id => HId id
  | SDummy => HOne
  | SDynamic slot => match env_get env slot with Some id => HId id | None => HOne end
  | SMerged l => HTuple (map (inv_hash env) l)
  end.

(* .style_rules *)
Fixpoint style_rules (pool : pool_t) (env : env_t) (t : sty) {struct t} : rules_t :=
  match t with
  | SStyle id => pool_rules pool id
  | SDummy => []
  | SDynamic slot => match env_get env slot with Some id => pool_rules pool id | None => [] end
  | SMerged l => flat_map (style_rules pool env) l
  end.

(* the SimpleCache(maxsize=1) of one top-level _MergedStyle object: the key
   and the rules the cached combined Style was built from *)
Definition mcache : Type := option (hv * rules_t).

(* obj.get_attrs_for_style_str(style_str) for a top-level object with its cache *)
Definition lookup_obj (pool : pool_t) (env : env_t) (t : sty) (c : mcache) (s : str)
  : res attrs * mcache :=
  match t with
  | SStyle id => (style_get (pool_rules pool id) s DEFAULT_ATTRS, c)
  | SDummy => (Ok DEFAULT_ATTRS, c)
  | SDynamic slot =>
      (match env_get env slot with
       | Some id => style_get (pool_rules pool id) s DEFAULT_ATTRS
       | None => Ok DEFAULT_ATTRS
       end, c)
  | SMerged _ =>
      let h := inv_hash env t in
      match c with
      | Some (k, rules) =>
          if hv_eqb h k then (style_get rules s DEFAULT_ATTRS, c)
          else let rules' := style_rules pool env t in
               (style_get rules' s DEFAULT_ATTRS, Some (h, rules'))
      | None =>
          let rules' := style_rules pool env t in
          (style_get rules' s DEFAULT_ATTRS, Some (h, rules'))
      end
  end.

(* the same on a freshly built object (empty cache) *)
Definition fresh_lookup (pool : pool_t) (env : env_t) (t : sty) (s : str) : res attrs :=
  fst (lookup_obj pool env t None s).

Inductive event : Type :=
| ESwitch (slot : Z) (o : option Z)      (* the dynamic slot now returns Style id / None *)
| ELookup (obj : nat) (s : str)          (* objs[obj].get_attrs_for_style_str(s) *)
| ERules (obj : nat).                    (* objs[obj].style_rules *)

Inductive eanswer : Type :=
| ANone
| AAttrs (r : res attrs)
| ARules (r : rules_t).

Fixpoint set_nth {T} (n : nat) (x : T) (l : list T) : list T :=
  match n, l with
  | _, [] => []
  | O, _ :: r => x :: r
  | S k, y :: r => y :: set_nth k x r
  end.

Definition step_event (pool : pool_t) (objs : list sty) (st : env_t * list mcache) (e : event)
  : eanswer * (env_t * list mcache) :=
  let '(env, caches) := st in
  match e with
  | ESwitch slot o => (ANone, ((slot, o) :: env, caches))
  | ELookup k s =>
      match nth_error objs k, nth_error caches k with
      | Some t, Some c =>
          let '(r, c') := lookup_obj pool env t c s in
          (AAttrs r, (env, set_nth k c' caches))
      | _, _ => (ANone, st)
      end
  | ERules k =>
      match nth_error objs k with
      | Some t => (ARules (style_rules pool env t), st)
      | None => (ANone, st)
      end
  end.

Fixpoint run_events (pool : pool_t) (objs : list sty) (st : env_t * list mcache) (es : list event)
  : list eanswer :=
  match es with
  | [] => []
  | e :: r => let '(a, st') := step_event pool objs st e in a :: run_events pool objs st' r
  end.

(* the reference: every look-up on a fresh object for the sheets as they are now *)
Fixpoint run_events_fresh (pool : pool_t) (objs : list sty) (env : env_t) (es : list event)
  : list eanswer :=
  match es with
  | [] => []
  | ESwitch slot o :: r => ANone :: run_events_fresh pool objs ((slot, o) :: env) r
  | ELookup k s :: r =>
      (match nth_error objs k with
       | Some t => AAttrs (fresh_lookup pool env t s)
       | None => ANone
       end) :: run_events_fresh pool objs env r
  | ERules k :: r =>
      (match nth_error objs k with
       | Some t => ARules (style_rules pool env t)
       | None => ANone
       end) :: run_events_fresh pool objs env r
  end.
