(* C09 - kill ring, kill/yank commands, cut/paste by type, Vi registers.

   Model of
     clipboard/in_memory.py   InMemoryClipboard (deque ring, max_size 60)
     clipboard/base.py        ClipboardData, Clipboard.set_text
     key_binding/bindings/named_commands.py
                              kill_line, kill_word, unix_word_rubout,
                              backward_kill_word, unix_line_discard, yank, yank_pop
     key_binding/bindings/emacs.py   C-@ (mark), C-w / C-x r k (cut region), M-w (copy)
     key_binding/bindings/vi.py      x X D dd yy/Y p P "xp "xP, TextObject.cut and the
                              visual-mode d / y / x / "xd / "xy operators
     key_binding/key_processor.py    is_repeat (= same Binding as the previous call),
                              _fix_vi_cursor_position
     buffer.py                copy_selection, cut_selection, paste_clipboard_data,
                              document_before_paste (reset by every text/cursor change)
     document.py              find_next_word_ending, find_previous_word_ending,
                              find_start_of_previous_word (finditer over _FIND_WORD_RE /
                              _FIND_BIG_WORD_RE), selection_ranges, cut_selection,
                              paste_clipboard_data
   written statement by statement; Python slices are Lib.Py.slice.  Definitions
   only; the proofs are in Proofs/C09_*.v. *)
From Coq Require Import ZArith List Bool.
From PTK Require Import Lib.Sx Lib.Py Gen.Whitespace Model.Document Model.BufferEdit.
From PTK Require Model.C02_DocQueries.
Import ListNotations.
Open Scope Z_scope.

(* ---------------------------------------------------------------------- *)
(* re.finditer over _FIND_WORD_RE = ([a-zA-Z0-9_]+|[^a-zA-Z0-9_\s]+) and
   _FIND_BIG_WORD_RE = ([^\s]+): the matches are the maximal runs of one
   character class; (start, end) pairs in text order. *)

Definition is_re_space (c : Z) : bool := mem_Z c re_space_table.
Definition is_word_char (c : Z) : bool :=
  ((97 <=? c) && (c <=? 122)) || ((65 <=? c) && (c <=? 90)) ||
  ((48 <=? c) && (c <=? 57)) || (c =? 95).
(* 0 = white space, 1 = word character (or any non-space for WORD), 2 = other *)
Definition cls (big : bool) (c : Z) : Z :=
  if is_re_space c then 0 else if big then 1 else if is_word_char c then 1 else 2.

Fixpoint spans_aux (big : bool) (s : str) (i : Z) (cur : option (Z * Z)) : list (Z * Z) :=
  match s with
  | [] => match cur with Some (_, st) => [(st, i)] | None => [] end
  | c :: r =>
      let k := cls big c in
      let next := if k =? 0 then None else Some (k, i) in
      match cur with
      | Some (k0, st) =>
          if k =? k0 then spans_aux big r (i + 1) cur
          else (st, i) :: spans_aux big r (i + 1) next
      | None => spans_aux big r (i + 1) next
      end
  end.
Definition spans (big : bool) (s : str) : list (Z * Z) := spans_aux big s 0 None.

(* "for i, match in enumerate(it): if i + 1 == count: return ..." *)
Definition nth_span (l : list (Z * Z)) (count : Z) : option (Z * Z) :=
  if count <? 1 then None else nth_error l (Z.to_nat (count - 1)).

(* find_previous_word_ending(count) for count >= 0 (the only way it is reached
   from kill-word) *)
Definition find_previous_word_ending_pos (d : doc) (count : Z) : option Z :=
  let t := slice_to (text_after_cursor d) 1 ++ rev (text_before_cursor d) in
  let sp := spans false t in
  let count' := match sp with (0, _) :: _ => count + 1 | _ => count end in
  match nth_span sp count' with Some (s, _) => Some (- s + 1) | None => None end.

(* find_next_word_ending(count=count) (include_current_position=False, WORD=False) *)
Definition find_next_word_ending (d : doc) (count : Z) : option Z :=
  if count <? 0 then find_previous_word_ending_pos d (- count)
  else
    let t := slice_from (text_after_cursor d) 1 in
    match nth_span (spans false t) count with Some (_, e) => Some (e + 1) | None => None end.

(* find_start_of_previous_word(count, WORD) *)
Definition find_start_of_previous_word (d : doc) (count : Z) (big : bool) : option Z :=
  match nth_span (spans big (rev (text_before_cursor d))) count with
  | Some (_, e) => Some (- e)
  | None => None
  end.

(* ---------------------------------------------------------------------- *)
(* ClipboardData and InMemoryClipboard *)

Definition CHARACTERS : Z := 0.
Definition LINES : Z := 1.
Definition BLOCK : Z := 2.

Record clip := mkclip { ctext : str; ctype : Z }.

Definition MAX_SIZE : nat := 60.
(* appendleft; while len > max_size: pop() *)
Definition ring_set (r : list clip) (d : clip) : list clip := firstn MAX_SIZE (d :: r).
Definition ring_get (r : list clip) : clip :=
  match r with d :: _ => d | [] => mkclip [] CHARACTERS end.
Definition ring_rotate (r : list clip) : list clip :=
  match r with d :: r' => r' ++ [d] | [] => [] end.
Definition ring_set_text (r : list clip) (t : str) : list clip := ring_set r (mkclip t CHARACTERS).

(* ---------------------------------------------------------------------- *)
(* Document.paste_clipboard_data; None = the Document constructor's
   "cursor_position <= len(text)" assertion fails *)

Definition EMACS : Z := 0.
Definition VI_BEFORE : Z := 1.
Definition VI_AFTER : Z := 2.

Definition mk_document (t : str) (c : Z) : option (str * Z) :=
  if len t <? c then None else Some (t, c).

Fixpoint repeat_list {T} (x : T) (n : nat) : list T :=
  match n with O => [] | S k => x :: repeat_list x k end.

Definition concat_lines (ls : list str) : str := List.concat ls.

(* str.ljust(width) with a space *)
Definition ljust (s : str) (w : Z) : str := s ++ repeat_str [SP] (Z.to_nat (w - len s)).

(* the BLOCK loop: lines of the pasted block go to rows start_line, start_line+1, ... *)
Fixpoint paste_block (lines0 : list str) (parts : list str) (index sc count : Z) : list str :=
  match parts with
  | [] => lines0
  | line :: rest =>
      let lines1 := if len lines0 <=? index then lines0 ++ [[]] else lines0 in
      let lines2 := py_update lines1 index (fun l =>
                      let l' := ljust l sc in
                      slice_to l' sc ++ str_mul line count ++ slice_from l' sc) in
      paste_block lines2 rest (index + 1) sc count
  end.

Definition doc_paste (d : doc) (data : clip) (mode count : Z) : option (str * Z) :=
  (* "if count < 1: return Document(self.text, self.cursor_position)" *)
  if count <? 1 then mk_document (dtext d) (dcur d) else
  let before := mode =? VI_BEFORE in
  let after := mode =? VI_AFTER in
  let t := dtext d in
  let c := dcur d in
  if ctype data =? CHARACTERS then
    let new_text :=
      if after then slice_to t (c + 1) ++ str_mul (ctext data) count ++ slice_from t (c + 1)
      else text_before_cursor d ++ str_mul (ctext data) count ++ text_after_cursor d in
    let nc := c + len (ctext data) * count in
    mk_document new_text (if before then nc - 1 else nc)
  else if ctype data =? LINES then
    let l := cursor_position_row d in
    let ls := lines d in
    let ins := repeat_list (ctext data) (Z.to_nat count) in
    if before then
      mk_document (join [NL] (slice_to ls l ++ ins ++ slice_from ls l))
                  (len (concat_lines (slice_to ls l)) + l)
    else
      mk_document (join [NL] (slice_to ls (l + 1) ++ ins ++ slice_from ls (l + 1)))
                  (len (concat_lines (slice_to ls (l + 1))) + l + 1)
  else
    let start_line := cursor_position_row d in
    let sc := cursor_position_col d + (if before then 0 else 1) in
    let ls := paste_block (lines d) (split_on NL (ctext data)) start_line sc count in
    mk_document (join [NL] ls) (c + (if before then 0 else 1)).

(* ---------------------------------------------------------------------- *)
(* Document.selection_ranges / cut_selection.  A selection is
   (original_cursor_position, type); [vi] is vi_mode(). *)

(* text.rfind("\n", 0, e) and text.find("\n", a) *)
Fixpoint rfind_char_from (c : Z) (s : str) (i : Z) (best : Z) : Z :=
  match s with
  | [] => best
  | x :: r => rfind_char_from c r (i + 1) (if x =? c then i else best)
  end.
Definition rfind_char_upto (c : Z) (s : str) (e : Z) : Z :=
  rfind_char_from c (slice_to s e) 0 (-1).
Definition find_char_at (c : Z) (s : str) (a : Z) : Z :=
  let a' := adj_index (len s) a in
  let r := find_char c (slice_from s a) in
  if r <? 0 then -1 else a' + r.

Definition line_at (d : doc) (row : Z) : str :=
  match index (lines d) row with Some l => l | None => [] end.

Definition selection_ranges (d : doc) (sel : Z * Z) (vi : bool) : list (Z * Z) :=
  let '(orig, ty) := sel in
  let from_ := Z.min (dcur d) orig in
  let to := Z.max (dcur d) orig in
  let one := if vi then 1 else 0 in
  if ty =? BLOCK then
    let '(from_line, c1) := translate_index_to_position d from_ in
    let '(to_line, c2) := translate_index_to_position d to in
    let fc := Z.min c1 c2 in
    let tc := Z.max c1 c2 + one in
    flat_map (fun l =>
                let ll := len (line_at d l) in
                if fc <=? ll then
                  [(translate_row_col_to_index d l fc,
                    translate_row_col_to_index d l (Z.min ll tc))]
                else [])
             (range_from from_line (Z.to_nat (to_line + 1 - from_line)))
  else if ty =? LINES then
    let f' := Z.max 0 (rfind_char_upto NL (dtext d) from_ + 1) in
    let nl := find_char_at NL (dtext d) to in
    let t' := if 0 <=? nl then nl else len (dtext d) - 1 in
    [(f', t' + one)]
  else [(from_, to + one)].

(* the loop of cut_selection: (last_to, new_cursor, remaining, cut_parts) *)
Fixpoint cut_loop (t : str) (rs : list (Z * Z)) (last_to nc : Z) (rem : str) (parts : list str)
  : Z * Z * str * list str :=
  match rs with
  | [] => (last_to, nc, rem, parts)
  | (from_, to) :: r =>
      cut_loop t r to (if last_to =? 0 then from_ else nc)
               (rem ++ slice2 t last_to from_) (parts ++ [slice2 t from_ to])
  end.

Definition ends_with_nl (s : str) : bool :=
  match rev s with x :: _ => x =? NL | [] => false end.

(* returns (new document or None when its constructor asserts, clipboard data) *)
Definition doc_cut_selection (d : doc) (sel : Z * Z) (vi : bool) : option (str * Z) * clip :=
  let '(last_to, nc, rem, parts) :=
    cut_loop (dtext d) (selection_ranges d sel vi) 0 (dcur d) [] [] in
  let remaining := rem ++ slice_from (dtext d) last_to in
  let cut0 := join [NL] parts in
  let cut := if (snd sel =? LINES) && ends_with_nl cut0 then slice_to cut0 (-1) else cut0 in
  (mk_document remaining nc, mkclip cut (snd sel)).

(* ---------------------------------------------------------------------- *)
(* vi.py TextObject *)
Definition EXCLUSIVE : Z := 0.
Definition INCLUSIVE : Z := 1.
Definition LINEWISE : Z := 2.
Definition TBLOCK : Z := 3.

Definition tobj_selection_type (tt : Z) : Z :=
  if tt =? LINEWISE then LINES else if tt =? TBLOCK then BLOCK else CHARACTERS.

Definition operator_range (d : doc) (start end_ tt : Z) : Z * Z :=
  let s0 := if start <? end_ then start else end_ in
  let e0 := if start <? end_ then end_ else start in
  let e1 := if (tt =? EXCLUSIVE) && (s0 <? e0)
               && (snd (translate_index_to_position d (e0 + dcur d)) =? 0)
            then e0 - 1 else e0 in
  let e2 := if tt =? INCLUSIVE then e1 + 1 else e1 in
  if tt =? LINEWISE then
    let row1 := fst (translate_index_to_position d (s0 + dcur d)) in
    let s3 := translate_row_col_to_index d row1 0 - dcur d in
    let row2 := fst (translate_index_to_position d (e2 + dcur d)) in
    let e3 := translate_row_col_to_index d row2 (len (line_at d row2)) - dcur d in
    (s3, e3)
  else (s0, e2).

(* TextObject.cut: None = Document(buffer.text, to, ...) asserts *)
Definition tobj_cut (d : doc) (start end_ tt : Z) : option (option (str * Z) * clip) :=
  let '(f0, t0) := operator_range d start end_ tt in
  (* "An empty range (failed motion, empty text object) cuts nothing. (A block
     object always covers at least the cell under the cursor.)" *)
  if negb (tt =? LINEWISE) && negb (tt =? TBLOCK) && (t0 <=? f0) then
    Some (mk_document (dtext d) (dcur d), mkclip [] (tobj_selection_type tt))
  else
  let from_ := f0 + dcur d in
  let to := t0 + dcur d in
  let to' := if (tt =? LINEWISE) || (tt =? TBLOCK) then to else to - 1 in
  if len (dtext d) <? to' then None
  else Some (doc_cut_selection (mkdoc (dtext d) to') (from_, tobj_selection_type tt) true).

(* ---------------------------------------------------------------------- *)
(* Editor state *)

Record st := mkst {
  sb : buf;                        (* Buffer text / cursor_position *)
  ssel : option (Z * Z);           (* Buffer.selection_state: (original_cursor_position, type) *)
  sring : list clip;               (* InMemoryClipboard._ring, newest first *)
  sdbp : option (str * Z);         (* Buffer.document_before_paste *)
  sprev : Z;                       (* KeyProcessor._previous_handler as a binding id; 0 = None *)
  sregs : list (Z * clip);         (* ViState.named_registers, sorted by name *)
  svi : bool                       (* editing mode is VI (navigation mode) *)
}.

Definition with_buf (s : st) (b : buf) (sel : option (Z * Z)) (dbp : option (str * Z)) : st :=
  mkst b sel (sring s) dbp (sprev s) (sregs s) (svi s).
Definition with_ring (s : st) (r : list clip) : st :=
  mkst (sb s) (ssel s) r (sdbp s) (sprev s) (sregs s) (svi s).
Definition with_prev (s : st) (p : Z) : st :=
  mkst (sb s) (ssel s) (sring s) (sdbp s) p (sregs s) (svi s).
Definition with_sel (s : st) (sel : option (Z * Z)) : st :=
  mkst (sb s) sel (sring s) (sdbp s) (sprev s) (sregs s) (svi s).
Definition with_dbp (s : st) (dbp : option (str * Z)) : st :=
  mkst (sb s) (ssel s) (sring s) dbp (sprev s) (sregs s) (svi s).
Definition with_regs (s : st) (r : list (Z * clip)) : st :=
  mkst (sb s) (ssel s) (sring s) (sdbp s) (sprev s) r (svi s).

(* The effect of one Buffer setter call (text / cursor_position / document):
   _text_changed clears document_before_paste and the selection,
   _cursor_position_changed clears document_before_paste. *)
Definition upd (s : st) (b' : buf) : st :=
  let tc := negb (str_eqb (btext b') (btext (sb s))) in
  let cc := negb (bcur b' =? bcur (sb s)) in
  with_buf s b' (if tc then None else ssel s) (if tc || cc then None else sdbp s).

(* Buffer.document = Document(t, c)  (Document already constructed) *)
Definition set_doc (s : st) (t : str) (c : Z) : st := upd s (mkbuf t (Z.max 0 c)).

(* outcome of a command: status 0 = returned, 1 = AssertionError,
   7 = outside the modelled key dispatch *)
Definition out := (Z * st)%type.
Definition ok (s : st) : out := (0, s).
Definition E_UNMODELLED : Z := 7.

Definition cur_doc (s : st) : doc := bdoc (sb s).

(* Buffer.paste_clipboard_data *)
Definition buf_paste (s : st) (data : clip) (mode count : Z) : out :=
  let orig := (btext (sb s), bcur (sb s)) in
  match doc_paste (cur_doc s) data mode count with
  | Some (t', c') => ok (with_dbp (set_doc s t' c') (Some orig))
  | None => (E_ASSERT, s)
  end.

(* a kill: run the deleting Buffer call, then clipboard.set_text(f deleted) *)
Definition kill_with (s : st) (r : res) (f : str -> str) : out :=
  match r with
  | Ok b' del => ok (with_ring (upd s b') (ring_set_text (sring s) (f del)))
  | Err c b' => (c, upd s b')
  end.

Definition current_char_is_nl (d : doc) : bool :=
  match index (dtext d) (dcur d) with Some c => c =? NL | None => false end.

Definition kill_line (s : st) (arg : Z) : out :=
  let b := sb s in
  let d := bdoc b in
  if arg <? 0 then kill_with s (delete_before_cursor b (- get_start_of_line_position d false)) (fun x => x)
  else if current_char_is_nl d then kill_with s (delete b 1) (fun x => x)
  else kill_with s (delete b (get_end_of_line_position d)) (fun x => x).

Definition kill_word (s : st) (arg : Z) (rep : bool) : out :=
  let b := sb s in
  match find_next_word_ending (bdoc b) arg with
  | Some pos =>
      if pos =? 0 then ok s
      else kill_with s (delete b pos)
             (fun del => if rep then ctext (ring_get (sring s)) ++ del else del)
  | None => ok s
  end.

Definition unix_word_rubout (s : st) (arg : Z) (rep big : bool) : out :=
  let b := sb s in
  let pos := match find_start_of_previous_word (bdoc b) arg big with
             | Some p => p
             | None => - bcur b
             end in
  if pos =? 0 then ok s      (* bell *)
  else kill_with s (delete_before_cursor b (- pos))
         (fun del => if rep then del ++ ctext (ring_get (sring s)) else del).

Definition unix_line_discard (s : st) : out :=
  let b := sb s in
  let d := bdoc b in
  if (cursor_position_col d =? 0) && (0 <? bcur b) then
    match delete_before_cursor b 1 with
    | Ok b' _ => ok (upd s b')
    | Err c b' => (c, upd s b')
    end
  else kill_with s (delete_before_cursor b (- get_start_of_line_position d false)) (fun x => x).

Definition yank (s : st) (arg : Z) : out := buf_paste s (ring_get (sring s)) EMACS arg.

Definition yank_pop (s : st) : out :=
  match sdbp s with
  | Some (t, c) =>
      let s1 := set_doc s t c in
      let s2 := with_ring s1 (ring_rotate (sring s1)) in
      buf_paste s2 (ring_get (sring s2)) EMACS 1
  | None => ok s
  end.

(* Buffer.copy_selection(_cut) with a selection present *)
Definition copy_selection (s : st) (sel : Z * Z) (cut : bool) : Z * st * clip :=
  let '(nd, data) := doc_cut_selection (cur_doc s) sel (svi s) in
  match nd with
  | Some (t, c) =>
      let s1 := if cut then set_doc s t c else s in
      (0, with_sel s1 None, data)
  | None => (E_ASSERT, s, data)
  end.

Definition region_cmd (s : st) (cut : bool) : out :=
  match ssel s with
  | Some sel =>
      let '(code, s1, data) := copy_selection s sel cut in
      if code =? 0 then ok (with_ring s1 (ring_set (sring s1) data)) else (code, s1)
  | None => (E_UNMODELLED, s)
  end.

Definition set_mark (s : st) : out :=
  match btext (sb s) with
  | [] => ok s
  | _ => ok (with_sel s (Some (bcur (sb s), CHARACTERS)))
  end.

(* buff.cursor_position = v  /  += delta *)
Definition move_to (s : st) (v : Z) : st := upd s (set_cursor (sb s) v).

Definition self_insert_cmd (s : st) (c arg : Z) : out :=
  match insert_text (sb s) (str_mul [c] arg) false true with
  | Ok b' _ => ok (upd s b')
  | Err code b' => (code, upd s b')
  end.

(* ---------------------------------------------------------------------- *)
(* Vi commands (navigation mode) *)

Fixpoint reg_set (l : list (Z * clip)) (k : Z) (v : clip) : list (Z * clip) :=
  match l with
  | [] => [(k, v)]
  | (k0, v0) :: r =>
      if k <? k0 then (k, v) :: l
      else if k =? k0 then (k, v) :: r
      else (k0, v0) :: reg_set r k v
  end.
Fixpoint reg_get (l : list (Z * clip)) (k : Z) : option clip :=
  match l with
  | [] => None
  | (k0, v0) :: r => if k =? k0 then Some v0 else reg_get r k
  end.
(* c in ascii_lowercase + "0123456789" *)
Definition is_register_name (c : Z) : bool :=
  ((97 <=? c) && (c <=? 122)) || ((48 <=? c) && (c <=? 57)).

Definition vi_x (s : st) (arg : Z) : out :=
  let b := sb s in
  let count := Z.min arg (len (current_line_after_cursor (bdoc b))) in
  if count =? 0 then ok s else kill_with s (delete b count) (fun x => x).

Definition vi_X (s : st) (arg : Z) : out :=
  let b := sb s in
  let count := Z.min arg (len (current_line_before_cursor (bdoc b))) in
  if count =? 0 then ok s else kill_with s (delete_before_cursor b count) (fun x => x).

Definition vi_D (s : st) : out :=
  let b := sb s in
  kill_with s (delete b (get_end_of_line_position (bdoc b))) (fun x => x).

Definition vi_dd (s : st) (arg : Z) : out :=
  let d := cur_doc s in
  let ls := lines d in
  let row := cursor_position_row d in
  let before0 := join [NL] (slice_to ls row) in
  let deleted := join [NL] (slice2 ls row (row + arg)) in
  let after := join [NL] (slice_from ls (row + arg)) in
  let nonempty (x : list str) := match x with [] => false | _ => true end in
  (* the line lists are tested, not the joined strings *)
  let before := if nonempty (slice_to ls row) && nonempty (slice_from ls (row + arg))
                then before0 ++ [NL] else before0 in
  let t' := before ++ after in
  let c' := len before + len after - len (lstrip_by (Z.eqb SP) after) in
  match mk_document t' c' with
  | Some _ => ok (with_ring (set_doc s t' c') (ring_set (sring s) (mkclip deleted LINES)))
  | None => (E_ASSERT, s)
  end.

Definition vi_yy (s : st) (arg : Z) : out :=
  let d := cur_doc s in
  let lfc := slice_from (lines d) (cursor_position_row d) in
  ok (with_ring s (ring_set (sring s) (mkclip (join [NL] (slice_to lfc arg)) LINES))).

Definition vi_paste_reg (s : st) (r mode arg : Z) : out :=
  if is_register_name r then
    match reg_get (sregs s) r with
    | Some data => buf_paste s data mode arg
    | None => ok s
    end
  else ok s.

(* s / C / S (cc): delete, store, enter insert mode.  The session model stays in
   navigation mode, so each of them is modelled together with the Escape that
   follows it: _back_to_navigation moves the cursor one to the left on its line. *)
Definition vi_escape (o : out) : out :=
  let '(code, s) := o in
  if code =? 0 then ok (move_to s (bcur (sb s) + get_cursor_left_position (cur_doc s) 1)) else o.

Definition vi_subst_core (s : st) (arg : Z) : out :=
  kill_with s (delete (sb s) arg) (fun x => x).
Definition vi_bigC_core (s : st) : out :=
  kill_with s (delete (sb s) (get_end_of_line_position (cur_doc s))) (fun x => x).
Definition vi_bigS_core (s : st) : out :=
  let d := cur_doc s in
  let s1 := with_ring s (ring_set (sring s) (mkclip (current_line d) LINES)) in
  let s2 := move_to s1 (bcur (sb s1) + get_start_of_line_position d true) in
  match delete (sb s2) (get_end_of_line_position (cur_doc s2)) with
  | Ok b' _ => ok (upd s2 b')
  | Err c b' => (c, upd s2 b')
  end.

(* A visual-mode command: the selection [sel] is active, the cursor is the
   other end.  key: 0 = d, 1 = y, 2 = x, 3 = "r d, 4 = "r y *)
Definition vi_visual (s : st) (sel : Z * Z) (key r : Z) : out :=
  let s0 := with_sel s (Some sel) in
  if key =? 2 then
    let '(code, s1, data) := copy_selection s0 sel true in
    if code =? 0 then ok (with_ring s1 (ring_set (sring s1) data)) else (code, s1)
  else
    let d := cur_doc s0 in
    let tt := if snd sel =? LINES then LINEWISE else if snd sel =? BLOCK then TBLOCK else INCLUSIVE in
    match tobj_cut d (fst sel - dcur d) 0 tt with
    | None => (E_ASSERT, s0)
    | Some (nd, data) =>
        let nonempty := match ctext data with [] => false | _ => true end in
        if (key =? 0) || (key =? 3) then
          match nd with
          | None => (E_ASSERT, s0)
          | Some (t, c) =>
              let s1 := set_doc s0 t c in
              let s2 := if nonempty then
                          if key =? 3 then
                            if is_register_name r then with_regs s1 (reg_set (sregs s1) r data) else s1
                          else with_ring s1 (ring_set (sring s1) data)
                        else s1 in
              ok (with_sel s2 None)
          end
        else if key =? 1 then
          match nd with
          | None => (E_ASSERT, s0)       (* cut_selection builds the document even when unused *)
          | Some _ =>
              ok (with_sel (if nonempty then with_ring s0 (ring_set (sring s0) data) else s0) None)
          end
        else
          if is_register_name r then
            match nd with
            | None => (E_ASSERT, s0)
            | Some _ =>
                ok (with_sel (if nonempty then with_regs s0 (reg_set (sregs s0) r data) else s0) None)
            end
          else ok (with_sel s0 None)
    end.

(* Navigation mode: [count] [reg-prefix] operator motion  (create_operator_decorator's
   _operator_in_navigation stores the operator; the motion key reaches
   text_object_decorator's _apply_operator_to_text_object, which calls it with the
   operator's key sequence).  op: 0 = d, 1 = y, 2 = c (followed by Escape);
   reg < 0: no register prefix; motion keys: 0 = l, 1 = h, 2 = $, 3 = 0, 4 = ^,
   5 = e, 6 = b, 7 = B, 8 = w, 9 = W.  The count typed before the operator is
   operator_arg, a count typed between operator and motion is the motion's own
   event.arg; the text object function sees their product (op_count).  Result of the text object
   function: (start, type), end = 0; None = no text object. *)
Definition motion_obj (d : doc) (m arg : Z) : option (Z * Z) :=
  if m =? 0 then Some (get_cursor_right_position d arg, EXCLUSIVE)
  else if m =? 1 then Some (get_cursor_left_position d arg, EXCLUSIVE)
  else if m =? 2 then Some (get_end_of_line_position d, EXCLUSIVE)
  else if m =? 3 then Some (get_start_of_line_position d false, EXCLUSIVE)
  else if m =? 4 then Some (get_start_of_line_position d true, EXCLUSIVE)
  else if m =? 5 then
    (* end = find_next_word_ending(count); TextObject(end - 1, INCLUSIVE) if end else None.
       The word scanners under an operator are C02's models (Model/C02_DocQueries.v), so
       that C02's exactness theorems apply to the spans *)
    match C02_DocQueries.find_next_word_ending d false arg false with
    | Some e => if e =? 0 then None else Some (e - 1, INCLUSIVE)
    | None => None
    end
  else if (m =? 6) || (m =? 7) then
    (* b / B: find_start_of_previous_word(count, WORD) or 0 *)
    Some (match C02_DocQueries.find_start_of_previous_word d arg (m =? 7) with Some p => p | None => 0 end,
          EXCLUSIVE)
  else
    (* w / W (8 / 9): find_next_word_beginning(count, WORD) or get_end_of_document_position() *)
    Some (match C02_DocQueries.find_next_word_beginning d arg (m =? 9) with
          | Some p => if p =? 0 then C02_DocQueries.get_end_of_document_position d else p
          | None => C02_DocQueries.get_end_of_document_position d
          end, EXCLUSIVE).

(* KeyPressEvent.arg: Don't exceed a million *)
Definition clamp6 (a : Z) : Z := if 1000000 <=? a then 1 else a.
(* _apply_operator_to_text_object: event._arg = str((operator_arg or 1) * (event.arg or 1))
   when either count was typed; marg = 0: no count between operator and motion *)
Definition op_count (arg marg : Z) : Z := clamp6 (arg * (if marg =? 0 then 1 else clamp6 marg)).

Definition vi_op (s : st) (op reg m arg : Z) : out :=
  let d := cur_doc s in
  match motion_obj d m arg with
  | None => ok s
  | Some (start, oty) =>
      (* an exclusive object with equal ends: the motion failed or spans nothing,
         and the operator is cancelled *)
      if (oty =? EXCLUSIVE) && (start =? 0) then ok s
      (* _yank_to_register: the test c in vi_register_names comes before the cut *)
      else if (op =? 1) && (0 <=? reg) && negb (is_register_name reg) then ok s
      else
        match tobj_cut d start 0 oty with
        | None => (E_ASSERT, s)
        | Some (nd, data) =>
            let nonempty := match ctext data with [] => false | _ => true end in
            let store (s1 : st) : st :=
              if nonempty then
                if 0 <=? reg then
                  if is_register_name reg then with_regs s1 (reg_set (sregs s1) reg data) else s1
                else with_ring s1 (ring_set (sring s1) data)
              else s1 in
            match nd with
            | None => (E_ASSERT, s)
            | Some (t, c) =>
                if op =? 1 then ok (store s)
                else
                  let o := ok (store (set_doc s t c)) in
                  (* change: input_mode = INSERT; the Escape that follows steps back *)
                  if op =? 2 then vi_escape o else o
            end
        end
  end.

(* KeyProcessor._fix_vi_cursor_position *)
Definition fix_vi_cursor (s : st) : st :=
  let d := cur_doc s in
  let at_eol := match index (dtext d) (dcur d) with Some c => c =? NL | None => true end in
  if svi s && (match ssel s with None => true | Some _ => false end)
     && at_eol && (0 <? len (current_line d))
  then move_to s (bcur (sb s) - 1) else s.

(* ---------------------------------------------------------------------- *)
(* Commands as typed.  [argp] is the numeric argument when one was typed
   (Esc <digits> / Esc -): then the previous handler is the digit handler and
   is_repeat is false. *)

Inductive cmd :=
| KillLine | KillWordMd | KillWordCDel | CtrlW | MetaBackspace | CtrlU
| YankCy | YankPop | SetMark | CopyRegion | FwdChar | BackChar | Bol | Eol
| SelfInsert (c : Z) | CtrlG | YankCxry | CutCxrk
| SetCursor (v : Z)                       (* buffer.cursor_position = v, no key *)
| Cpr                                     (* a cursor position report arrives (Keys.CPRResponse) *)
| ViX | ViBigX | ViD | ViDD | ViYY | ViP | ViBigP
| ViPasteReg (r : Z) (before : bool)
| ViVisual (orig ty key r : Z)
| ViSubst | ViChangeEol | ViChangeLine    (* s Esc, C Esc, S Esc *)
| ViOp (op reg m marg : Z).                    (* [reg-prefix] d/y/c motion in navigation mode *)

Definition cmd_id (c : cmd) : Z :=
  match c with
  | KillLine => 1 | KillWordMd => 2 | KillWordCDel => 3 | CtrlW => 4 | MetaBackspace => 5
  | CtrlU => 6 | YankCy => 7 | YankPop => 8 | SetMark => 9 | CopyRegion => 10
  | FwdChar => 11 | BackChar => 12 | Bol => 13 | Eol => 14 | SelfInsert _ => 15 | CtrlG => 16
  | YankCxry => 17 | CutCxrk => 18 | SetCursor _ => 19 | Cpr => 21
  | ViX => 31 | ViBigX => 32 | ViD => 33 | ViDD => 34 | ViYY => 35 | ViP => 36 | ViBigP => 37
  | ViPasteReg _ b => if b then 39 else 38
  | ViVisual _ _ k _ => 40 + k
  | ViSubst => 51 | ViChangeEol => 52 | ViChangeLine => 53
  | ViOp _ _ _ _ => 60
  end.
Definition ARG_ID : Z := 99.
(* C-w reaches two different Binding objects: unix-word-rubout (basic.py) without
   a selection, emacs.py's _cut with one; is_repeat compares Binding objects *)
Definition binding_id (sel : bool) (c : cmd) : Z :=
  match c with
  | CtrlW => if sel then 20 else 4
  | _ => cmd_id c
  end.

(* commands bound with filter=emacs_insert_mode (inactive while a selection exists) *)
Definition insert_only (c : cmd) : bool :=
  match c with
  | KillLine | KillWordMd | KillWordCDel | MetaBackspace | CtrlU | YankCy | YankPop
  | SelfInsert _ | YankCxry => true
  | _ => false
  end.
Definition is_vi_cmd (c : cmd) : bool :=
  match c with
  | ViX | ViBigX | ViD | ViDD | ViYY | ViP | ViBigP | ViPasteReg _ _ | ViVisual _ _ _ _
  | ViSubst | ViChangeEol | ViChangeLine | ViOp _ _ _ _ => true
  | _ => false
  end.

Definition has_sel (s : st) : bool := match ssel s with Some _ => true | None => false end.

Definition exec (s : st) (c : cmd) (arg : Z) (rep : bool) : out :=
  match c with
  | KillLine => kill_line s arg
  | KillWordMd | KillWordCDel => kill_word s arg rep
  | CtrlW => if has_sel s then region_cmd s true else unix_word_rubout s arg rep true
  | MetaBackspace => unix_word_rubout s arg rep false
  | CtrlU => unix_line_discard s
  | YankCy | YankCxry => yank s arg
  | YankPop => yank_pop s
  | SetMark => set_mark s
  | CopyRegion => region_cmd s false
  | CutCxrk => region_cmd s true
  | FwdChar => ok (move_to s (bcur (sb s) + get_cursor_right_position (cur_doc s) arg))
  | BackChar => ok (move_to s (bcur (sb s) + get_cursor_left_position (cur_doc s) arg))
  | Bol => ok (move_to s (bcur (sb s) + get_start_of_line_position (cur_doc s) false))
  | Eol => ok (move_to s (bcur (sb s) + get_end_of_line_position (cur_doc s)))
  | SelfInsert ch => self_insert_cmd s ch arg
  | CtrlG => ok (with_sel s None)
  | SetCursor v => ok (move_to s v)
  | Cpr => ok s
  | ViX => vi_x s arg
  | ViBigX => vi_X s arg
  | ViD => vi_D s
  | ViDD => vi_dd s arg
  | ViYY => vi_yy s arg
  | ViP => buf_paste s (ring_get (sring s)) VI_AFTER arg
  | ViBigP => buf_paste s (ring_get (sring s)) VI_BEFORE arg
  | ViPasteReg r b => vi_paste_reg s r (if b then VI_BEFORE else VI_AFTER) arg
  | ViVisual orig ty key r => vi_visual s (orig, ty) key r
  | ViSubst => vi_escape (vi_subst_core s arg)
  | ViChangeEol => vi_escape (vi_bigC_core s)
  | ViChangeLine => vi_escape (vi_bigS_core s)
  | ViOp op reg m marg => vi_op s op reg m (op_count arg marg)
  end.

Definition step (s : st) (c : cmd) (argp : option Z) : out :=
  match c with
  | SetCursor v => ok (move_to s v)             (* not a key: previous handler unchanged *)
  (* KeyProcessor._handle_cpr_response: the report goes straight to its binding;
     text, ring, the pending argument and the "previous handler" (is_repeat) are
     left alone, in every mode and state *)
  | Cpr => ok s
  | _ =>
    if negb (Bool.eqb (svi s) (is_vi_cmd c)) then (E_UNMODELLED, s)
    else if has_sel s && insert_only c then (E_UNMODELLED, s)
    else if svi s && has_sel s && negb (match c with ViVisual _ _ _ _ => true | _ => false end)
    then (E_UNMODELLED, s)       (* a selection left behind by a failed visual command *)
    else if match c with
            | ViVisual orig _ _ _ => (orig <? 0) || (len (btext (sb s)) <? orig)
            | _ => false
            end
    then (E_UNMODELLED, s)       (* a selection cannot start outside the text *)
    else
      (* KeyPressEvent.arg: "Don't exceed a million" *)
      let arg := match argp with Some a => if 1000000 <=? a then 1 else a | None => 1 end in
      let prev := match argp with Some _ => ARG_ID | None => sprev s end in
      let bid := binding_id (has_sel s) c in
      let rep := prev =? bid in
      (* the digit keys are handlers too: in Vi navigation mode each of them
         is followed by _fix_vi_cursor_position *)
      let s0 := match argp with Some _ => fix_vi_cursor s | None => s end in
      let '(code, s') := exec s0 c arg rep in
      if code =? 0 then (0, with_prev (fix_vi_cursor s') bid)
      else if code =? E_UNMODELLED then (code, s)
      else (code, with_prev s' 0)                (* process_keys: reset() then re-raise *)
  end.

(* ---------------------------------------------------------------------- *)
(* Wire format *)

Definition dec_clip (x : sx) : option clip :=
  match x with
  | L [t; A ty] => match as_str t with Some t' => Some (mkclip t' ty) | None => None end
  | _ => None
  end.

(* the argument field: () | (n) | (n f) | (() f); f tells the harness where
   cursor position reports are slipped in among the keys of this command
   (bit 0: between the argument keys and the command, bit 1: after the first
   key of the command); a report changes nothing, so the model ignores f *)
Definition dec_arg (x : sx) : option (option Z) :=
  match x with
  | L [] => Some None
  | L [A n] => Some (Some n)
  | L [A n; A _] => Some (Some n)
  | L [L []; A _] => Some None
  | _ => None
  end.

Definition dec_cmd (x : sx) : option (cmd * option Z) :=
  match x with
  | L (A code :: argx :: rest) =>
      match dec_arg argx with
      | None => None
      | Some argp =>
          let r c := Some (c, argp) in
          match code, rest with
          | 1, [] => r KillLine | 2, [] => r KillWordMd | 3, [] => r KillWordCDel
          | 4, [] => r CtrlW | 5, [] => r MetaBackspace | 6, [] => r CtrlU
          | 7, [] => r YankCy | 8, [] => r YankPop | 9, [] => r SetMark
          | 10, [] => r CopyRegion | 11, [] => r FwdChar | 12, [] => r BackChar
          | 13, [] => r Bol | 14, [] => r Eol
          | 15, [A ch] => r (SelfInsert ch)
          | 16, [] => r CtrlG | 17, [] => r YankCxry | 18, [] => r CutCxrk
          | 19, [A v] => r (SetCursor v)
          | 21, [] => r Cpr
          | 51, [] => r ViSubst | 52, [] => r ViChangeEol | 53, [] => r ViChangeLine
          | 31, [] => r ViX | 32, [] => r ViBigX | 33, [] => r ViD | 34, [] => r ViDD
          | 35, [] => r ViYY | 36, [] => r ViP | 37, [] => r ViBigP
          | 38, [A rg] => r (ViPasteReg rg false)
          | 39, [A rg] => r (ViPasteReg rg true)
          | 60, [A op; A rg; A m] =>
              if (0 <=? op) && (op <=? 2) && (0 <=? m) && (m <=? 9) then r (ViOp op rg m 0) else None
          | 60, [A op; A rg; A m; A marg] =>
              (* the motion 0 cannot follow a count: the key 0 would continue the count *)
              if (0 <=? op) && (op <=? 2) && (0 <=? m) && (m <=? 9) && (0 <=? marg)
                 && negb ((m =? 3) && (0 <? marg))
              then r (ViOp op rg m marg) else None
          | 40, [A orig; A ty; A key; A rg] =>
              if (0 <=? key) && (key <=? 4) && (0 <=? ty) && (ty <=? 2) then r (ViVisual orig ty key rg)
              else None
          | _, _ => None
          end
      end
  | _ => None
  end.

Definition enc_clip (c : clip) : sx := L [sx_str (ctext c); A (ctype c)].
Definition enc_st (code : Z) (s : st) : sx :=
  L [A code; sx_str (btext (sb s)); A (bcur (sb s));
     sx_list enc_clip (sring s);
     sx_opt (fun p : str * Z => L [sx_str (fst p); A (snd p)]) (sdbp s);
     sx_opt (fun p : Z * Z => L [A (fst p); A (snd p)]) (ssel s);
     sx_list (fun p : Z * clip => L [A (fst p); enc_clip (snd p)]) (sregs s)].

Fixpoint run_cmds (s : st) (cs : list (cmd * option Z)) : list sx :=
  match cs with
  | [] => []
  | (c, a) :: r => let '(code, s') := step s c a in enc_st code s' :: run_cmds s' r
  end.

(* case = (vi text cursor ring0 (cmd ...)); result = the state after every command *)
Definition run_C09 (c : sx) : sx :=
  match c with
  | L [A vi; t; A cur; L ring0; L cmds] =>
      match as_str t, map_opt dec_clip ring0, map_opt dec_cmd cmds with
      | Some t', Some ring', Some cmds' =>
          if (0 <=? cur) && (cur <=? len t') && ((vi =? 0) || (vi =? 1))
             && (Z.of_nat (length ring') <=? 60) then
            L (run_cmds (mkst (mkbuf t' cur) None ring' None 0 [] (vi =? 1)) cmds')
          else bad_case
      | _, _, _ => bad_case
      end
  | _ => bad_case
  end.
