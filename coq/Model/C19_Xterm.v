(* C19 - the fixed xterm 256-colour palette, written down independently of the
   implementation: 16 system colours (xterm defaults), the 6x6x6 cube over the
   levels 0, 95, 135, 175, 215, 255 (index 16 + 36 r + 6 g + b), and 24 grays
   8 + 10 i (index 232 + i).  A terminal shows THIS colour for `38;5;n`. *)
From Coq Require Import ZArith List.
From PTK Require Import Model.C19_Palette.
Import ListNotations.
Open Scope Z_scope.

Definition xterm_system : list rgb :=
  [(0, 0, 0); (205, 0, 0); (0, 205, 0); (205, 205, 0); (0, 0, 238); (205, 0, 205); (0, 205, 205);
   (229, 229, 229); (127, 127, 127); (255, 0, 0); (0, 255, 0); (255, 255, 0); (92, 92, 255);
   (255, 0, 255); (0, 255, 255); (255, 255, 255)].

Definition xterm_levels : list Z := [0; 95; 135; 175; 215; 255].

Definition xterm_cube : list rgb :=
  flat_map (fun r => flat_map (fun g => map (fun b => (r, g, b)) xterm_levels) xterm_levels) xterm_levels.

Definition xterm_grays : list rgb :=
  map (fun i => let v := 8 + 10 * Z.of_nat i in (v, v, v)) (seq 0 24).

Definition xterm_256 : list rgb := xterm_system ++ xterm_cube ++ xterm_grays.
