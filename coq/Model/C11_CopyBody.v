(* C11 - Window._copy_body (copy_line / copy with wrapping, line prefixes,
   horizontal scroll, width-0/1/2 characters), the column maps of
   TabsProcessor / BeforeInput / _MergedProcessor, BufferControl.create_content
   for those processors, and the whole render step of a focused window.
   Definitions only. *)
From Coq Require Import ZArith List Bool.
From PTK Require Import Lib.Sx Lib.Py Model.C11_Scroll.
Import ListNotations.
Open Scope Z_scope.

(* ---------------------------------------------------------------------- *)
(* Processors.  A processed line = display characters + source_to_display. *)

(* TabsProcessor: position_mappings as the list [pos_0; ..; pos_len; pos_len + 1]
   and the result fragments' text. *)
Fixpoint tabs_go (tabstop c1 c2 : Z) (line : str) (pos : Z) : str * list Z :=
  match line with
  | [] => ([], [pos; pos + 1])
  | c :: r =>
      if c =? 9 then
        let count := tabstop - pos mod tabstop in
        let count := if count =? 0 then tabstop else count in
        let '(t, m) := tabs_go tabstop c1 c2 r (pos + count) in
        (c1 :: str_mul [c2] (count - 1) ++ t, pos :: m)
      else
        let '(t, m) := tabs_go tabstop c1 c2 r (pos + 1) in
        (c :: t, pos :: m)
  end.

(* position_mappings[i]: KeyError = None *)
Definition map_get (m : list Z) (i : Z) : option Z :=
  if i <? 0 then None else nth_error m (Z.to_nat i).

(* display_to_source of TabsProcessor: reversed dict (later key wins), walk
   down from display_pos until a mapped position is found, else 0 *)
Fixpoint rev_find (m : list Z) (k : Z) (v : Z) (acc : option Z) : option Z :=
  match m with
  | [] => acc
  | p :: r => rev_find r (k + 1) v (if p =? v then Some k else acc)
  end.
Fixpoint tabs_d2s_loop (fuel : nat) (m : list Z) (d : Z) : Z :=
  match fuel with
  | O => 0
  | S f => if d <? 0 then 0 else
           match rev_find m 0 d None with
           | Some k => k
           | None => tabs_d2s_loop f m (d - 1)
           end
  end.
Definition tabs_d2s (m : list Z) (d : Z) : Z := tabs_d2s_loop (S (Z.to_nat d)) m d.

(* BeforeInput: on line 0 only *)
Definition before_shift (bflag : bool) (before : str) (lineno : Z) : Z :=
  if bflag && (lineno =? 0) then len before else 0.

Record pline := mkpl { pl_text : str; pl_shift : Z; pl_map : option (list Z) }.

(* _MergedProcessor([..defaults.., BeforeInput?, TabsProcessor?]) on one line *)
Definition process_line (bflag : bool) (before : str) (tabstop c1 c2 : Z)
    (lineno : Z) (line : str) : pline :=
  let sh := before_shift bflag before lineno in
  let l1 := if bflag && (lineno =? 0) then before ++ line else line in
  if tabstop =? 0 then mkpl l1 sh None
  else let '(t, m) := tabs_go tabstop c1 c2 l1 0 in mkpl t sh (Some m).

Definition pl_s2d (p : pline) (i : Z) : option Z :=
  match pl_map p with
  | None => Some (i + pl_shift p)
  | Some m => map_get m (i + pl_shift p)
  end.
Definition pl_d2s (p : pline) (d : Z) : Z :=
  match pl_map p with
  | None => d - pl_shift p
  | Some m => tabs_d2s m d - pl_shift p
  end.

(* ---------------------------------------------------------------------- *)
(* Screen cells and the copy state *)

Record cell := mkcell { cstr : str; cwid : Z }.
Definition default_cell := mkcell [32] 1.
Definition empty_cell := mkcell [] 0.

Definition pos_eqb (a b : Z * Z) : bool := (fst a =? fst b) && (snd a =? snd b).

Fixpoint alist_get {V} (l : list ((Z * Z) * V)) (k : Z * Z) : option V :=
  match l with
  | [] => None
  | (k', v) :: r => if pos_eqb k' k then Some v else alist_get r k
  end.
Fixpoint zlist_get {V} (l : list (Z * V)) (k : Z) : option V :=
  match l with
  | [] => None
  | (k', v) :: r => if k' =? k then Some v else zlist_get r k
  end.

Definition screen := list ((Z * Z) * cell).        (* writes, newest first; absolute (y, x) *)
Definition scr_get (s : screen) (y x : Z) : cell :=
  match alist_get s (y, x) with Some c => c | None => default_cell end.

Record cst := mkcst {
  cx : Z; cy : Z;
  cscr : screen;
  cr2 : list ((Z * Z) * (Z * Z));      (* rowcol_to_yx, newest first *)
  cvl : list (Z * (Z * Z)) }.          (* visible_line_to_row_col, newest first *)

Section Copy.
  Variables (sw dw : Z -> Z) (disp : Z -> str).
  Variables (wrap haspfx : bool) (pfx : Z -> Z -> str).
  Variables (width height xpos ypos : Z).

  Fixpoint empties (y x : Z) (i : nat) (s : screen) : screen :=
    match i with
    | O => s
    | S k => ((y, x + Z.of_nat i), empty_cell) :: empties y x k s
    end.

  (* the zero-width merge: for pw in [2, 1] *)
  Definition merge_prev (c : Z) (y x : Z) (pw : Z) (s : screen) : screen :=
    if (0 <=? x - pw) && (cwid (scr_get s (y + ypos) (x + xpos - pw)) =? pw) then
      let p := scr_get s (y + ypos) (x + xpos - pw) in
      ((y + ypos, x + xpos - pw), mkcell (cstr p ++ [c]) (cwid p + sw c)) :: s
    else s.

  (* "Set character in screen and shift 'x'" *)
  Definition put (isin : bool) (lineno key_col : Z) (c : Z) (s : cst) : cst :=
    let cw := dw c in
    let x := cx s in let y := cy s in
    if (0 <=? x) && (0 <=? y) && (x <? width) then
      let scr1 := ((y + ypos, x + xpos), mkcell (disp c) cw) :: cscr s in
      let scr2 :=
        if 1 <? cw then empties (y + ypos) (x + xpos) (Z.to_nat (cw - 1)) scr1
        else if cw =? 0 then merge_prev c y x 1 (merge_prev c y x 2 scr1)
        else scr1 in
      let r2 := if isin then ((lineno, key_col), (y + ypos, x + xpos)) :: cr2 s else cr2 s in
      mkcst (x + cw) y scr2 r2 (cvl s)
    else mkcst (x + cw) y (cscr s) (cr2 s) (cvl s).

  (* "Wrap when the line width is exceeded" *)
  Definition wrap_row (lineno : Z) (s : cst) : cst :=
    let prevcol := match zlist_get (cvl s) (cy s) with Some rc => snd rc | None => 0 end in
    mkcst 0 (cy s + 1) (cscr s) (cr2 s) ((cy s + 1, (lineno, prevcol + cx s)) :: cvl s).

  (* copy_line(.., is_input=False): prompts / continuation prefixes *)
  Fixpoint copy_plain (cs : str) (lineno : Z) (s : cst) : cst :=
    match cs with
    | [] => s
    | c :: r =>
        if wrap && (width <? cx s + dw c) then
          let s1 := wrap_row lineno s in
          if height <=? cy s1 then s1
          else copy_plain r lineno (put false lineno 0 c s1)
        else copy_plain r lineno (put false lineno 0 c s)
    end.

  (* the character loop of copy_line(.., is_input=True) *)
  Fixpoint copy_input (cs : str) (lineno col skipped wc : Z) (s : cst) : cst :=
    match cs with
    | [] => s
    | c :: r =>
        if wrap && (width <? cx s + dw c) then
          let s1 := wrap_row lineno s in
          let wc := wc + 1 in
          let s2 := if haspfx then copy_plain (pfx lineno wc) lineno s1 else s1 in
          if height <=? cy s2 then s2
          else copy_input r lineno (col + 1) skipped wc (put true lineno (col + skipped) c s2)
        else copy_input r lineno (col + 1) skipped wc (put true lineno (col + skipped) c s)
    end.

  (* "Scroll horizontally": while h_scroll > 0 and line *)
  Fixpoint skip_loop (line : str) (h skipped : Z) : str * Z * Z :=
    match line with
    | [] => (line, h, skipped)
    | c :: r => if 0 <? h then skip_loop r (h - sw c) (skipped + 1) else (line, h, skipped)
    end.

  Definition copy_line (hscroll : Z) (line : str) (lineno : Z) (s : cst) : cst :=
    let s := if haspfx then copy_plain (pfx lineno 0) lineno s else s in
    if hscroll =? 0 then copy_input line lineno 0 0 0 s
    else
      let '(line', h, skipped) := skip_loop line hscroll 0 in
      let s := mkcst (cx s - h) (cy s) (cscr s) (cr2 s) (cvl s) in
      copy_input line' lineno 0 skipped 0 s.

  (* copy(): while y < height and lineno < line_count *)
  Fixpoint copy_lines (hscroll : Z) (rest : list str) (lineno : Z) (s : cst) : cst :=
    match rest with
    | [] => s
    | line :: r =>
        if cy s <? height then
          let s := mkcst 0 (cy s) (cscr s) (cr2 s) ((cy s, (lineno, hscroll)) :: cvl s) in
          let s := copy_line hscroll line lineno s in
          copy_lines hscroll r (lineno + 1) (mkcst (cx s) (cy s + 1) (cscr s) (cr2 s) (cvl s))
        else s
    end.

  Definition copy_body (lines : list str) (st : sstate) : cst :=
    copy_lines (hs st) (skipn (Z.to_nat (vs st)) lines) (vs st)
               (mkcst 0 (- vs2 st) [] [] []).
End Copy.

(* ---------------------------------------------------------------------- *)
(* One render of a focused Window(BufferControl) *)

Record cfg := mkcfg {
  g_wrap : bool; g_margin : bool; g_rmargin : bool; g_allow : bool;
  g_top : Z; g_bottom : Z; g_left : Z; g_right : Z;
  g_haspfx : bool; g_pfirst : str; g_pcont : str; g_pvar : bool;
  g_tabstop : Z; g_bflag : bool; g_before : str;
  g_tab : list (Z * (Z * Z * str)) }.      (* code -> source width, display width, display string *)

Definition tab_sw (g : cfg) (c : Z) : Z :=
  match zlist_get (g_tab g) c with Some (a, _, _) => a | None => 1 end.
Definition tab_dw (g : cfg) (c : Z) : Z :=
  match zlist_get (g_tab g) c with Some (_, b, _) => b | None => 1 end.
Definition tab_disp (g : cfg) (c : Z) : str :=
  match zlist_get (g_tab g) c with Some (_, _, d) => d | None => [c] end.

Definition HASH : Z := 35.
Definition TABCH1 : Z := 124.
Definition TABCH2 : Z := 9480.

Definition cfg_pfx (g : cfg) (l k : Z) : str :=
  (if k =? 0 then g_pfirst g else g_pcont g)
  ++ str_mul [HASH] (if g_pvar g then (l + k) mod 2 else 0).

(* len(str(n)) for n >= 0 *)
Fixpoint ndigits_fuel (fuel : nat) (n : Z) : Z :=
  match fuel with
  | O => 1
  | S f => if n <? 10 then 1 else 1 + ndigits_fuel f (n / 10)
  end.
Definition ndigits (n : Z) : Z := ndigits_fuel 30 n.

(* left margin: NumberedMargin.get_width *)
Definition margin_width (g : cfg) (line_count : Z) : Z :=
  if g_margin g then Z.max 3 (ndigits line_count + 1) else 0.
(* right margin: ScrollbarMargin.get_width *)
Definition rmargin_width (g : cfg) : Z := if g_rmargin g then 1 else 0.

(* Document.cursor_position_row / _col *)
Definition cursor_row (text : str) (cursor : Z) : Z := count_char NL (slice_to text cursor).
Definition cursor_col (text : str) (cursor : Z) : Z :=
  len (after_last NL (slice_to text cursor)).

Fixpoint map_i {T U} (f : Z -> T -> U) (i : Z) (l : list T) : list U :=
  match l with [] => [] | x :: r => f i x :: map_i f (i + 1) r end.

Fixpoint zrange (a : Z) (n : nat) : list Z :=
  match n with O => [] | S k => a :: zrange (a + 1) k end.

Record rendered := mkrend {
  r_status : Z; r_st : sstate; r_mw : Z; r_bw : Z; r_ui : Z * Z; r_cursor : Z * Z;
  r_look : list (list (option (Z * Z))); r_extra : Z; r_d2s : list Z;
  r_vlook : list (option (Z * Z)); r_grid : list (list str) }.

Definition count_some {T} (l : list (list (option T))) : Z :=
  fold_left (fun a row => fold_left (fun b o => match o with Some _ => b + 1 | None => b end) row a) l 0.

Definition render_gen (fixed : bool) (g : cfg) (W Hh xpos ypos : Z) (text : str) (cursor : Z)
    (st : sstate) : option rendered :=
  if (W <=? 0) || (Hh <=? 0) then None else
  let src := split_on NL text in
  let row := cursor_row text cursor in
  let col := cursor_col text cursor in
  let pls := map_i (process_line (g_bflag g) (g_before g) (g_tabstop g) TABCH1 TABCH2) 0 src in
  let lines := map (fun p => pl_text p ++ [SP]) pls in
  match nth_error pls (Z.to_nat row) with
  | None => None
  | Some pl =>
    match pl_s2d pl col with
    | None => None
    | Some ucol =>
      let nlines := len lines in
      let mw := margin_width g nlines in
      let bw := W - mw - rmargin_width g in
      let sw := tab_sw g in
      let pfx := cfg_pfx g in
      let line_of l := nth (Z.to_nat l) lines [] in
      let Hf l := height_for_line sw (g_haspfx g) pfx (line_of l) l bw None in
      let tbh s := height_for_line sw (g_haspfx g) pfx (line_of row) row bw (Some s) in
      let st' :=
        if g_wrap g then
          scroll_wrap_gen fixed (g_allow g) Hf tbh bw Hh (g_top g) (g_bottom g) row ucol nlines st
        else
          scroll_nowrap (g_allow g) sw (line_of row)
            (if g_haspfx g then strw sw (pfx row 0) else 0)
            bw Hh (g_top g) (g_bottom g) (g_left g) (g_right g) row ucol nlines st in
      let out := copy_body sw (tab_dw g) (tab_disp g) (g_wrap g) (g_haspfx g) pfx
                   bw Hh (xpos + mw) ypos lines st' in
      let cur := match alist_get (cr2 out) (row, ucol) with
                 | Some yx => yx | None => (0, 0) end in
      let look := map_i (fun l line => map (fun c => alist_get (cr2 out) (l, c))
                                           (zrange 0 (length line))) 0 lines in
      let vlook := map (fun y => zlist_get (cvl out) y) (zrange 0 (Z.to_nat (Hh + 1))) in
      let grid := map (fun y => map (fun x => cstr (scr_get (cscr out) (y + ypos) (x + xpos + mw)))
                                    (zrange 0 (Z.to_nat bw)))
                      (zrange 0 (Z.to_nat Hh)) in
      (* display_to_source on EVERY display column of the cursor line (incl. the trailing blank) *)
      let d2s := map (pl_d2s pl) (zrange 0 (S (length (pl_text pl)))) in
      Some (mkrend 0 st' mw bw (row, ucol) cur look (len (cr2 out) - count_some look) d2s vlook grid)
    end
  end.

(* the property's verdict on one render: the cursor has a screen position and
   it lies inside the window body *)
Definition rendered_cursor_ok (W Hh xpos ypos : Z) (r : rendered) : bool :=
  match nth_error (r_look r) (Z.to_nat (fst (r_ui r))) with
  | Some row =>
      match nth_error row (Z.to_nat (snd (r_ui r))) with
      | Some (Some (y, x)) =>
          (ypos <=? y) && (y <? ypos + Hh) && (xpos + r_mw r <=? x) && (x <? xpos + r_mw r + r_bw r)
      | _ => false
      end
  | None => false
  end.
Definition render_cursor_ok_gen (fixed : bool) (g : cfg) (W Hh xpos ypos : Z) (text : str) (cursor : Z)
    (st : sstate) : bool :=
  match render_gen fixed g W Hh xpos ypos text cursor st with
  | Some r => rendered_cursor_ok W Hh xpos ypos r
  | None => false
  end.

(* the code as it is in /repo; the pinned snapshot (before commit f4b07a8) *)
Definition render := render_gen true.
Definition render_cursor_ok := render_cursor_ok_gen true.
Definition render_cursor_ok_pinned := render_cursor_ok_gen false.

(* sub-domains: every character that can be drawn has source and display width 1 *)
Definition all_narrow (g : cfg) (text : str) : bool :=
  forallb (fun c => (tab_sw g c =? 1) && (tab_dw g c =? 1))
          (text ++ g_pfirst g ++ g_pcont g ++ g_before g ++ [HASH; TABCH1; TABCH2; SP]).
Definition has_wide (g : cfg) (text : str) : bool :=
  existsb (fun c => (tab_sw g c =? 2) && (tab_dw g c =? 2)) text.
Definition has_control (g : cfg) (text : str) : bool :=
  existsb (fun c => negb (tab_sw g c =? tab_dw g c)) text.

(* ---------------------------------------------------------------------- *)
(* wire format *)

Definition sx_yx (p : Z * Z) : sx := L [A (fst p); A (snd p)].
Definition sx_oyx (o : option (Z * Z)) : sx :=
  match o with Some p => sx_yx p | None => L [] end.

Definition enc_rendered (r : rendered) : sx :=
  L [A (r_status r); A (vs (r_st r)); A (vs2 (r_st r)); A (hs (r_st r)); A (r_mw r); A (r_bw r);
     sx_yx (r_ui r); sx_yx (r_cursor r);
     L (map (fun row => L (map sx_oyx row)) (r_look r)); A (r_extra r); L (map A (r_d2s r));
     L (map sx_oyx (r_vlook r));
     L (map (fun row => L (map sx_str row)) (r_grid r))].

Definition dec_tab_entry (s : sx) : option (Z * (Z * Z * str)) :=
  match s with
  | L [A c; A a; A b; d] => match as_str d with Some d' => Some (c, (a, b, d')) | None => None end
  | _ => None
  end.

Definition dec_cfg (s tab : sx) : option cfg :=
  match s, tab with
  | L [w; A m; L [A t; A b; A l; A r]; L [pk; pf; pc; pv]; A ts; L [bf; be]; al], L tabl =>
      match as_bool w, as_bool al, as_bool pk, as_str pf, as_str pc, as_bool pv,
            as_bool bf, as_str be, map_opt dec_tab_entry tabl with
      | Some w', Some al', Some pk', Some pf', Some pc', Some pv', Some bf', Some be', Some tab' =>
          if (ts <? 0) || (m <? 0) || (3 <? m) then None else
          (* margins: 1 = left NumberedMargin, 2 = right ScrollbarMargin, 3 = both *)
          Some (mkcfg w' (Z.odd m) (2 <=? m) al' t b l r pk' pf' pc' pv' ts bf' be' tab')
      | _, _, _, _, _, _, _, _, _ => None
      end
  | _, _ => None
  end.

(* a state = (window size, position, text, cursor) and optionally a NEW window
   configuration (wrap mode, margins, offsets, prefixes, processors,
   allow_scroll_beyond_bottom) in force from this state on: the same Window
   object is reconfigured, its scroll state carries over *)
Definition dec_state (tab : sx) (s : sx) : option (Z * Z * Z * Z * str * Z * option cfg) :=
  match s with
  | L [A W; A Hh; A xp; A yp; t; A c] =>
      match as_str t with Some t' => Some (W, Hh, xp, yp, t', c, None) | None => None end
  | L [A W; A Hh; A xp; A yp; t; A c; g'] =>
      match as_str t, dec_cfg g' tab with
      | Some t', Some g => Some (W, Hh, xp, yp, t', c, Some g)
      | _, _ => None
      end
  | _ => None
  end.

Fixpoint run_states (fixed : bool) (g : cfg) (sts : list (Z * Z * Z * Z * str * Z * option cfg)) (st : sstate) : list sx :=
  match sts with
  | [] => []
  | (W, Hh, xp, yp, t, c, og) :: r =>
      let g := match og with Some g' => g' | None => g end in
      match render_gen fixed g W Hh xp yp t c st with
      | Some rd => enc_rendered rd :: run_states fixed g r (r_st rd)
      | None => L [A 1] :: run_states fixed g r st
      end
  end.

(* case = (cfg chartab states); runs the code as it is in /repo *)
Definition run_C11 (s : sx) : sx :=
  match s with
  | L [c; tab; L sts] =>
      match dec_cfg c tab, map_opt (dec_state tab) sts with
      | Some g, Some sts' => L (run_states true g sts' (mkss 0 0 0))
      | _, _ => bad_case
      end
  | _ => bad_case
  end.
