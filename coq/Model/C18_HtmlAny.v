(* C18 - HTML templates over ARBITRARY literal markup (round 6).

   Model/C18_Html.v is the machine HTML.__init__ runs on a markup string.  A
   template is a list of literal markup pieces [parts] with one hole between
   two neighbours.  The SPECIFICATION of interpolation given here never
   parses a value: the literal pieces are run through the machine as they are
   written (raw GT / apostrophe / double quote in text, &#N; references, spaces around '=', empty
   elements <x/>, whatever the machine covers), and at a hole the value is
   inserted as DATA into the text node / attribute value under construction
   ([inject]).  Proofs/C18_HtmlAny.v proves that the real pipeline
   (html_escape each value, paste, parse the whole string) computes exactly
   this; the harness runs this specification against the real HTML(...) %
   values (case kind 13).  Definitions only.

   A hole the specification makes no claim about ([TNoClaim]): not at a data
   position (inside a tag or entity, outside the document element, directly
   after a literal \r), or a value with \t \n at an attribute hole
   (attribute-value normalisation turns those into spaces).  A \r in a value is
   data like any other character since 44b4e9c (html_escape writes it as the
   character reference &#13;, which no normalisation touches; finding C18-F14,
   fixed). *)
From Coq Require Import ZArith List Bool.
From PTK Require Import Lib.Sx Lib.Py Gen.Whitespace Model.C18_Fragments Model.C18_Ansi Model.C18_Html.
Import ListNotations.
Open Scope Z_scope.

(* what escaping + entity decoding delivers for one character of a value:
   itself, or '?' for a character XML cannot carry (html_escape's _NOT_XML_CHAR) *)
Definition vdat (c : Z) : Z := if xml_char c then c else QM.

(* bookkeeping of the "]]>" test after the value's characters *)
Fixpoint rb_after (rb : Z) (v : str) : Z :=
  match v with
  | [] => rb
  | c :: r => rb_after (if c =? 93 then Z.min 2 (rb + 1) else 0) r
  end.

Definition attr_value_ok (v : str) : bool := negb (mem_Z 10 v || mem_Z 9 v).

(* the value as data, at a data position *)
Definition inject (h : hst) (v : str) : option hst :=
  match h_mode h with
  | HText acc false rb =>
      match h_stack h with
      | [] => None
      | _ => Some (set_hmode h (HText (acc ++ map vdat v) false (rb_after rb v)))
      end
  | HAttrVal nm ats an q acc false =>
      if ((q =? DQ) || (q =? SQ)) && attr_value_ok v
      then Some (set_hmode h (HAttrVal nm ats an q (acc ++ map vdat v) false))
      else None
  | _ => None
  end.

Inductive tres :=
| TOk (h : hst)
| TErr (e : Z)
| TNoClaim.

(* literal pieces through the machine, values as data *)
Fixpoint trun (h : hst) (parts vals : list str) : tres :=
  match parts with
  | [] => TOk h
  | p :: ps =>
      match hrun cfg_now h p with
      | Err e => TErr e
      | Ok h1 =>
          match ps with
          | [] => TOk h1
          | _ =>
              match inject h1 (hd [] vals) with
              | Some h2 => trun h2 ps (tl vals)
              | None => TNoClaim
              end
          end
      end
  end.

(* the final tests of HTML.__init__ (html_parse's last match) *)
Definition html_finish (h : hst) : res (list frag) :=
  match h_mode h, h_stack h with
  | HText _ _ _, [] =>
      if h_rootdone h then (if h_verr h then Err 1 else Ok (h_out h)) else Err 2
  | _, _ => Err 2
  end.

Fixpoint app_last (ps : list str) (s : str) : list str :=
  match ps with
  | [] => []
  | [p] => [p ++ s]
  | p :: r => p :: app_last r s
  end.

(* f"<html-root>{value}</html-root>" on the template's pieces *)
Definition wrap_parts (parts : list str) : list str :=
  match parts with
  | [] => [t_open_root ++ t_close_root]
  | [p] => [t_open_root ++ p ++ t_close_root]
  | p :: ps => (t_open_root ++ p) :: app_last ps t_close_root
  end.

(* HTML(template) % values, by the specification; None = no claim *)
Definition html_values_as_data (parts vals : list str) : option (res (list frag)) :=
  match trun hst0 (wrap_parts parts) vals with
  | TOk h => Some (html_finish h)
  | TErr e => Some (Err e)
  | TNoClaim => None
  end.
