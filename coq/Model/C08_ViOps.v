(* C08 - Vi operators applied to a text object.

   Model of key_binding/bindings/vi.py: TextObject (sorted, operator_range,
   get_line_numbers, cut), Document.selection_ranges / cut_selection (in Vi
   mode: vi_mode() is true for every caller modelled here), and the operator
   bodies d, c, y and their named-register variants, g?/gu/gU/g~/~ (one body, arbitrary string
   function), >, <, gq.  Written statement by statement; Python slices are
   Lib.Py.slice, so negative and crossed ranges misbehave as in CPython.

   The operator bodies are functions of (state, text object, event): the
   event carries what the bodies read from it - [earg] = event.arg (after
   the text-object wrapper multiplied operator count and motion count) and
   [ekeys] = the .data of event.key_sequence as the operator body sees it:
   since fix f3ffc71 the wrapper installed by the operator key replaces the
   text object's key sequence by the operator's own (the register variants
   read key_sequence[1] from it). *)
From Coq Require Import ZArith List Bool.
From PTK Require Import Lib.Sx Lib.Py Gen.Whitespace Model.Document Model.BufferEdit
  Model.C02_DocQueries.
Import ListNotations.
Open Scope Z_scope.

(* ---------------------------------------------------------------------- *)
(* TextObject *)

Inductive totype := EXCL | INCL | LINEW | BLOCKT.
Record tobj := mkto { tstart : Z; tend : Z; ttype : totype }.

Definition is_excl (t : totype) : bool := match t with EXCL => true | _ => false end.
Definition is_incl (t : totype) : bool := match t with INCL => true | _ => false end.
Definition is_linew (t : totype) : bool := match t with LINEW => true | _ => false end.
Definition is_block (t : totype) : bool := match t with BLOCKT => true | _ => false end.

(* SelectionType: 0 CHARACTERS, 1 LINES, 2 BLOCK *)
Definition selection_type (t : totype) : Z :=
  match t with LINEW => 1 | BLOCKT => 2 | _ => 0 end.

Definition to_sorted (o : tobj) : Z * Z :=
  if tstart o <? tend o then (tstart o, tend o) else (tend o, tstart o).

(* lines[row] with Python indexing (row = -1 is the last line); the rows fed
   to it come from translate_index_to_position and are always valid *)
Definition line_at (d : doc) (row : Z) : str :=
  match index (lines d) row with Some l => l | None => [] end.

(* as in /repo now (fix f3ffc71): the exclusive-column-0 adjustment is made
   only for a non-empty range *)
Definition operator_range (d : doc) (o : tobj) : Z * Z :=
  let '(s, e) := to_sorted o in
  let e1 := if is_excl (ttype o) && (s <? e)
               && (snd (translate_index_to_position d (e + dcur d)) =? 0)
            then e - 1 else e in
  let e2 := if is_incl (ttype o) then e1 + 1 else e1 in
  if is_linew (ttype o) then
    let row := fst (translate_index_to_position d (s + dcur d)) in
    let s' := translate_row_col_to_index d row 0 - dcur d in
    let row2 := fst (translate_index_to_position d (e2 + dcur d)) in
    let e' := translate_row_col_to_index d row2 (len (line_at d row2)) - dcur d in
    (s', e')
  else (s, e2).

Definition get_line_numbers (b : buf) (o : tobj) : Z * Z :=
  let d := bdoc b in
  let '(f, t) := operator_range d o in
  (fst (translate_index_to_position d (f + bcur b)),
   fst (translate_index_to_position d (t + bcur b))).

(* ---------------------------------------------------------------------- *)
(* Document.selection_ranges / cut_selection *)

Record cdata := mkcd { ctext : str; ctype : Z }.

(* text.rfind("\n", 0, e) *)
Definition rfind_char_to (c : Z) (s : str) (e : Z) : Z :=
  let pre := slice_to s e in
  let p := find_char c (rev pre) in
  if p <? 0 then -1 else len pre - 1 - p.

(* text.find("\n", st) *)
Definition find_char_at (c : Z) (s : str) (st : Z) : Z :=
  let p := find_char c (slice_from s st) in
  if p <? 0 then -1 else adj_index (len s) st + p.

(* [c] = document cursor, [o] = selection.original_cursor_position *)
Definition selection_ranges (text : str) (c o : Z) (st : Z) : list (Z * Z) :=
  let from_ := Z.min c o in
  let to := Z.max c o in
  if st =? 2 then
    let d := mkdoc text c in
    let '(fl, fc0) := translate_index_to_position d from_ in
    let '(tl, tc0) := translate_index_to_position d to in
    let fc := Z.min fc0 tc0 in
    let tc := Z.max fc0 tc0 + 1 in
    flat_map (fun l =>
                let ll := len (line_at d l) in
                if fc <=? ll
                then [(translate_row_col_to_index d l fc,
                       translate_row_col_to_index d l (Z.min ll tc))]
                else [])
             (range_from fl (Z.to_nat (tl + 1 - fl)))
  else
    let '(f1, t1) :=
      if st =? 1 then
        (Z.max 0 (rfind_char_to NL text from_ + 1),
         let p := find_char_at NL text to in
         if 0 <=? p then p else len text - 1)
      else (from_, to) in
    [(f1, t1 + 1)].

(* loop state: last_to, new_cursor_position, remaining text, cut parts *)
Definition cut_step (text : str) (acc : Z * Z * str * list str) (r : Z * Z)
  : Z * Z * str * list str :=
  let '(last_to, newcur, rem, cuts) := acc in
  let '(f, t) := r in
  (t, (if last_to =? 0 then f else newcur), rem ++ slice2 text last_to f,
   cuts ++ [slice2 text f t]).

Definition endswith_nl (s : str) : bool :=
  match rev s with c :: _ => c =? NL | [] => false end.

(* None = AssertionError of the Document constructor *)
Definition cut_selection (text : str) (c o : Z) (st : Z) : option (str * Z * cdata) :=
  let '(last_to, newcur, rem, cuts) :=
    fold_left (cut_step text) (selection_ranges text c o st) (0, c, [], []) in
  let remaining := rem ++ slice_from text last_to in
  let cut_text := join [NL] cuts in
  let cut_text' := if (st =? 1) && endswith_nl cut_text then slice_to cut_text (-1) else cut_text in
  if len remaining <? newcur then None
  else Some (remaining, newcur, mkcd cut_text' st).

(* TextObject.cut(buffer), as in /repo now: an empty range of a character-wise
   object cuts nothing (fix f3ffc71; not for BLOCK objects, fix 0578190); the
   exclusive "to -= 1" is not applied to BLOCK objects (fix e0cf816) *)
Definition to_cut (b : buf) (o : tobj) : option (str * Z * cdata) :=
  let '(f, t) := operator_range (bdoc b) o in
  if negb (is_linew (ttype o) || is_block (ttype o)) && (t <=? f)
  then Some (btext b, bcur b, mkcd [] (selection_type (ttype o)))
  else
    let from_ := f + bcur b in
    let to := t + bcur b in
    let to' := if is_linew (ttype o) || is_block (ttype o) then to else to - 1 in
    if len (btext b) <? to' then None
    else cut_selection (btext b) to' from_ (selection_type (ttype o)).

(* ---------------------------------------------------------------------- *)
(* Operators *)

(* what an operator can touch: buffer, clipboard (Some = set_data called with
   this value during the run), named register (Some (name, data) = written),
   input mode switched to INSERT *)
Record vst := mkvst { vbuf : buf; vclip : option cdata; vreg : option (Z * cdata); vins : bool }.

Record event := mkev { earg : Z; ekeys : list Z }.

(* status: 0 ok, 1 AssertionError, 2 IndexError *)
Definition vres := (Z * vst)%type.

(* vi_register_names = ascii_lowercase + "0123456789" *)
Definition is_regname (c : Z) : bool :=
  ((97 <=? c) && (c <=? 122)) || ((48 <=? c) && (c <=? 57)).

Definition nonempty (s : str) : bool := match s with [] => false | _ => true end.

(* Buffer.document = new_document *)
Definition set_doc (t : str) (c : Z) : buf := mkbuf t (Z.max 0 c).

Definition op_delete (delete_only with_register : bool) (st : vst) (o : tobj) (ev : event) : vres :=
  match to_cut (vbuf st) o with
  | None => (1, st)
  | Some (t', c', cd) =>
      let st1 := mkvst (set_doc t' c') (vclip st) (vreg st) (vins st) in
      let finish (s : vst) : vres :=
        (0, if delete_only then s else mkvst (vbuf s) (vclip s) (vreg s) true) in
      if nonempty (ctext cd) then
        if with_register then
          match nth_error (ekeys ev) 1 with
          | None => (2, st1)
          | Some k =>
              finish (if is_regname k then mkvst (vbuf st1) (vclip st1) (Some (k, cd)) (vins st1)
                      else st1)
          end
        else finish (mkvst (vbuf st1) (Some cd) (vreg st1) (vins st1))
      else finish st1
  end.

Definition op_yank (st : vst) (o : tobj) (ev : event) : vres :=
  match to_cut (vbuf st) o with
  | None => (1, st)
  | Some (_, _, cd) =>
      (0, if nonempty (ctext cd) then mkvst (vbuf st) (Some cd) (vreg st) (vins st) else st)
  end.

Definition op_yank_reg (st : vst) (o : tobj) (ev : event) : vres :=
  match nth_error (ekeys ev) 1 with
  | None => (2, st)
  | Some k =>
      if is_regname k then
        match to_cut (vbuf st) o with
        | None => (1, st)
        | Some (_, _, cd) =>
            (0, if nonempty (ctext cd) then mkvst (vbuf st) (vclip st) (Some (k, cd)) (vins st) else st)
        end
      else (0, st)
  end.

Definition with_buf (st : vst) (b : buf) : vst := mkvst b (vclip st) (vreg st) (vins st).

Definition of_res (st : vst) (r : res) : vres :=
  match r with
  | Ok b _ => (0, with_buf st b)
  | Err c b => (c, with_buf st b)
  end.

Definition op_transform (F : str -> str) (st : vst) (o : tobj) (ev : event) : vres :=
  let b := vbuf st in
  let '(s, e) := operator_range (bdoc b) o in
  if s <? e then
    match transform_region F b (bcur b + s) (bcur b + e) with
    | Ok b1 _ =>
        (0, with_buf st (set_cursor b1 (bcur b1 + (if tend o =? 0 then tstart o else tend o))))
    | Err c b1 => (c, with_buf st b1)
    end
  else (0, st).

Definition op_indent (st : vst) (o : tobj) (ev : event) : vres :=
  let '(f, t) := get_line_numbers (vbuf st) o in
  of_res st (indent (vbuf st) f (t + 1) (earg ev)).

Definition op_unindent (st : vst) (o : tobj) (ev : event) : vres :=
  let '(f, t) := get_line_numbers (vbuf st) o in
  of_res st (unindent (vbuf st) f (t + 1) (earg ev)).

(* --- gq: buffer.reshape_text.  str.splitlines(True) is modelled for "\n"
   only (the other line boundaries - \r \v \f \x1c-\x1e \x85 U+2028/9 - are
   outside the correspondence alphabet; recorded as an assumption). *)
Fixpoint splitlines_keep_aux (s : str) (cur : str) : list str :=
  match s with
  | [] => match cur with [] => [] | _ => [rev cur] end
  | c :: r => if c =? NL then rev (c :: cur) :: splitlines_keep_aux r []
              else splitlines_keep_aux r (c :: cur)
  end.
Definition splitlines_keep (s : str) : list str := splitlines_keep_aux s [].

(* str.split() *)
Fixpoint split_ws_aux (s : str) (cur : str) : list str :=
  match s with
  | [] => match cur with [] => [] | _ => [rev cur] end
  | c :: r => if is_space c
              then match cur with [] => split_ws_aux r [] | _ => rev cur :: split_ws_aux r [] end
              else split_ws_aux r (c :: cur)
  end.
Definition split_ws (s : str) : list str := split_ws_aux s [].

Fixpoint reshape_loop (words : list str) (indent_ : str) (width cw : Z) : str :=
  match words with
  | [] => []
  | w :: r =>
      if cw =? 0 then w ++ reshape_loop r indent_ width (len w)
      else if width <? len w + cw + 1
           then [NL] ++ indent_ ++ w ++ reshape_loop r indent_ width (len w)
           else [SP] ++ w ++ reshape_loop r indent_ width (cw + 1 + len w)
  end.

Definition reshape_text (b : buf) (from_row to_row : Z) : buf :=
  let ls := splitlines_keep (btext b) in
  let before := slice_to ls from_row in
  let after := slice_from ls (to_row + 1) in
  let mid := slice2 ls from_row (to_row + 1) in
  match mid with
  | [] => b
  | first :: _ =>
      let lead := firstn (Z.to_nat (span_len re_space first)) first in
      let ind := filter (fun c => negb (c =? NL)) lead in
      let words := split_ws (concat mid) in
      let width := 80 - len ind in
      let reshaped := ind ++ reshape_loop words ind width 0 ++ [NL] in
      set_doc (concat before ++ reshaped ++ concat after) (len (concat before ++ reshaped))
  end.

Definition op_reshape (st : vst) (o : tobj) (ev : event) : vres :=
  let '(f, t) := get_line_numbers (vbuf st) o in
  (0, with_buf st (reshape_text (vbuf st) f t)).

(* ---------------------------------------------------------------------- *)
(* The operators as one datatype *)

Inductive opk :=
| OpDelete (delete_only with_register : bool)
| OpYank
| OpYankReg
| OpTransform (f : Z)
| OpIndent
| OpUnindent
| OpReshape.

(* the callbacks of vi_transform_functions restricted to ASCII (the
   correspondence alphabet is ASCII; the theorems take an arbitrary F) *)
Definition is_lower (c : Z) : bool := (97 <=? c) && (c <=? 122).
Definition is_upper (c : Z) : bool := (65 <=? c) && (c <=? 90).
Definition rot13_c (c : Z) : Z :=
  if is_lower c then 97 + (c - 97 + 13) mod 26
  else if is_upper c then 65 + (c - 65 + 13) mod 26 else c.
Definition lower_c (c : Z) : Z := if is_upper c then c + 32 else c.
Definition upper_c (c : Z) : Z := if is_lower c then c - 32 else c.
Definition swap_c (c : Z) : Z := if is_upper c then c + 32 else if is_lower c then c - 32 else c.
Definition apply_T (f : Z) (s : str) : str :=
  match f with
  | 1 => map rot13_c s
  | 2 => map lower_c s
  | 3 => map upper_c s
  | 4 => map swap_c s
  | _ => s
  end.

Definition run_op (k : opk) (st : vst) (o : tobj) (ev : event) : vres :=
  match k with
  | OpDelete d r => op_delete d r st o ev
  | OpYank => op_yank st o ev
  | OpYankReg => op_yank_reg st o ev
  | OpTransform f => op_transform (apply_T f) st o ev
  | OpIndent => op_indent st o ev
  | OpUnindent => op_unindent st o ev
  | OpReshape => op_reshape st o ev
  end.

(* KeyProcessor._fix_vi_cursor_position, run after the handler when it did
   not raise: in navigation mode the cursor never rests after the last
   character of a non-empty line *)
Definition fix_vi_cursor (b : buf) : buf :=
  let d := bdoc b in
  let at_eol := match current_char d with Some c => c =? NL | None => true end in
  if at_eol && (0 <? len (current_line d)) then set_cursor b (bcur b - 1) else b.

(* ---------------------------------------------------------------------- *)
(* The functions as they stood at the pinned commit (before fix f3ffc71):
   the column-0 adjustment also on an empty range, and no empty-range guard in
   cut.  Kept only for the _pinned_refuted theorems. *)
Definition operator_range_pinned (d : doc) (o : tobj) : Z * Z :=
  let '(s, e) := to_sorted o in
  let e1 := if is_excl (ttype o) && (snd (translate_index_to_position d (e + dcur d)) =? 0)
            then e - 1 else e in
  let e2 := if is_incl (ttype o) then e1 + 1 else e1 in
  if is_linew (ttype o) then
    let row := fst (translate_index_to_position d (s + dcur d)) in
    let s' := translate_row_col_to_index d row 0 - dcur d in
    let row2 := fst (translate_index_to_position d (e2 + dcur d)) in
    let e' := translate_row_col_to_index d row2 (len (line_at d row2)) - dcur d in
    (s', e')
  else (s, e2).

Definition to_cut_pinned (b : buf) (o : tobj) : option (str * Z * cdata) :=
  let '(f, t) := operator_range_pinned (bdoc b) o in
  let from_ := f + bcur b in
  let to := t + bcur b in
  let to' := if is_linew (ttype o) then to else to - 1 in
  if len (btext b) <? to' then None
  else cut_selection (btext b) to' from_ (selection_type (ttype o)).

Definition op_delete_pinned (delete_only : bool) (st : vst) (o : tobj) : vres :=
  match to_cut_pinned (vbuf st) o with
  | None => (1, st)
  | Some (t', c', cd) =>
      let st1 := mkvst (set_doc t' c') (vclip st) (vreg st) (vins st) in
      let st2 := if nonempty (ctext cd) then mkvst (vbuf st1) (Some cd) (vreg st1) (vins st1) else st1 in
      (0, if delete_only then st2 else mkvst (vbuf st2) (vclip st2) (vreg st2) true)
  end.
