(* C11 - the display-width-aware height estimate of
   fixes/C11-display-width-height-estimate.patch: UIContent.get_height_for_line
   as it is AFTER that patch (not applied to /repo), statement by statement:
   lay the DISPLAYED cells out the way Window._copy_body does.  Definitions only. *)
From Coq Require Import ZArith List Bool.
From PTK Require Import Lib.Sx Lib.Py Model.C11_Scroll.
Import ListNotations.
Open Scope Z_scope.

(* for c in line: if x + char_width > width: height += 1; x = prefix_width(height - 1);
   if x + char_width > width: height = 10**8; break.  x += char_width *)
Fixpoint hfl_patched_loop (dw : Z -> Z) (pfxw : Z -> Z) (width : Z) (cs : str) (height x : Z) : Z :=
  match cs with
  | [] => height
  | c :: r =>
      if width <? x + dw c then
        let height := height + 1 in
        let x := pfxw (height - 1) in
        if width <? x + dw c then BIG else hfl_patched_loop dw pfxw width r height (x + dw c)
      else hfl_patched_loop dw pfxw width r height (x + dw c)
  end.

(* [dw] = Char(c).width of the displayed form *)
Definition height_for_line_patched (dw : Z -> Z) (haspfx : bool) (pfx : Z -> Z -> str)
    (line : str) (lineno width : Z) (slice_stop : option Z) : Z :=
  if width =? 0 then BIG else
  let line' := match slice_stop with None => line | Some s => slice_to line s end in
  let prefix_width k := if haspfx then strw dw (pfx lineno k) else 0 in
  hfl_patched_loop dw prefix_width width line' 1 (prefix_width 0).
