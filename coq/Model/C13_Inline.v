(* C13 - History.load() consumed inline (the base class, no thread):

       self._ensure_loaded()
       for item in self._loaded_strings: yield item

   A Python list iterator is an index into the live list, re-checked against
   len() at every step and dead once it has run off the end.  append_string
   does `_loaded_strings.insert(0, s)` (then store_string).  [i_ls] is the cache
   after _ensure_loaded, [i_idx] the iterator's index.
   [istep_fixed] is the proposed one-word repair
   (fixes/C13-inline-load-snapshot.patch): iterate over a copy. *)
From Coq Require Import ZArith List Bool.
From PTK Require Import Lib.Sx Lib.Py.
Import ListNotations.
Open Scope Z_scope.

Record istate := mki { i_ls : list str; i_store : list str; i_idx : nat; i_out : list str;
                       i_done : bool; i_copy : list str }.
Inductive ilabel := INext | IAppend (s : str).

Definition istep (st : istate) (l : ilabel) : istate :=
  match l with
  | INext =>
      if i_done st then st else
      match nth_error (i_ls st) (i_idx st) with
      | Some x => mki (i_ls st) (i_store st) (S (i_idx st)) (i_out st ++ [x]) false (i_copy st)
      | None => mki (i_ls st) (i_store st) (i_idx st) (i_out st) true (i_copy st)
      end
  | IAppend s => mki (s :: i_ls st) (i_store st ++ [s]) (i_idx st) (i_out st) (i_done st) (i_copy st)
  end.

(* `for item in list(self._loaded_strings)` *)
Definition istep_fixed (st : istate) (l : ilabel) : istate :=
  match l with
  | INext =>
      if i_done st then st else
      match nth_error (i_copy st) (i_idx st) with
      | Some x => mki (i_ls st) (i_store st) (S (i_idx st)) (i_out st ++ [x]) false (i_copy st)
      | None => mki (i_ls st) (i_store st) (i_idx st) (i_out st) true (i_copy st)
      end
  | IAppend s => istep st (IAppend s)
  end.

(* load() started on a history whose storage is S *)
Definition iinit (S0 : list str) : istate := mki (rev S0) S0 0 [] false (rev S0).
Definition irun (st : istate) (sched : list ilabel) : istate := fold_left istep sched st.
Definition irun_fixed (st : istate) (sched : list ilabel) : istate := fold_left istep_fixed sched st.
