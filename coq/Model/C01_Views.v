(* The buffer as the real object stores it (buffer.py): the deque of working
   lines with the working index (Buffer.text IS the entry at that index), the
   cursor, and the two caches behind Buffer.document:
     - Buffer._document_cache, a FastDictCache (cache.py) of size 10 keyed by
       (text, cursor_position, selection) that hands out Document objects;
     - Document._cache.lines, shared by all Documents with the same text
       (document.py, _text_to_document_cache).
   The edit operations themselves are the ones of Model/BufferEdit.v and
   Model/C01_CaseWord.v, run on the (text, cursor) the real object shows; this
   file adds where the text lives, which cache entries each operation creates
   (every read of `self.document` inside the operation, in program order) and
   Buffer.go_to_history, which changes the entry the views look at.
   Definitions only; the facts are in Proofs/C01_ViewsFacts.v. *)
From Coq Require Import ZArith List Bool.
From PTK Require Import Lib.Sx Lib.Py Model.Document Model.BufferEdit Model.C02_DocQueries
  Model.C01_CaseWord.
Import ListNotations.
Open Scope Z_scope.

Definition dkey := (str * Z)%type.

Record wbuf := mkw {
  wlines : list str;              (* Buffer._working_lines *)
  widx : Z;                       (* Buffer.working_index *)
  wcur : Z;                       (* Buffer.cursor_position *)
  wdc : list (dkey * doc);        (* _document_cache: _keys order, with the cached Document *)
  wlc : list (str * list str);    (* Document._cache.lines, per text *)
  wli : list (str * list Z)       (* Document._cache.line_indexes, per text *)
}.

(* Buffer.text: self._working_lines[self.working_index] *)
Definition w_text (w : wbuf) : str :=
  match index (wlines w) (widx w) with Some t => t | None => [] end.

(* the (text, cursor) pair the edit operations work on *)
Definition w_abs (w : wbuf) : buf := mkbuf (w_text w) (wcur w).

(* _set_text: working_lines[working_index] = value; _set_cursor_position *)
Definition w_commit (w : wbuf) (b : buf) : wbuf :=
  mkw (py_update (wlines w) (widx w) (fun _ => btext b)) (widx w) (bcur b) (wdc w) (wlc w) (wli w).

(* ---------------------------------------------------------------------- *)
(* FastDictCache.__getitem__ / __missing__ with get_value = Document *)
Definition DC_SIZE : Z := 10.

Definition key_eqb (a b : dkey) : bool := str_eqb (fst a) (fst b) && (snd a =? snd b).

Fixpoint dc_find (k : dkey) (dc : list (dkey * doc)) : option doc :=
  match dc with
  | [] => None
  | (k', d) :: r => if key_eqb k k' then Some d else dc_find k r
  end.

Definition dc_get (k : dkey) (dc : list (dkey * doc)) : doc * list (dkey * doc) :=
  match dc_find k dc with
  | Some d => (d, dc)
  | None =>
      (* if len(self) > self.size: drop the oldest key *)
      let dc1 := if DC_SIZE <? len dc then tl dc else dc in
      let d := mkdoc (fst k) (snd k) in          (* Document called with the key *)
      (d, dc1 ++ [(k, d)])
  end.

(* Buffer.document *)
Definition w_document (w : wbuf) : doc * wbuf :=
  let '(d, dc) := dc_get (w_text w, wcur w) (wdc w) in
  (d, mkw (wlines w) (widx w) (wcur w) dc (wlc w) (wli w)).

(* Document.lines: the per-text cache entry is filled on first use *)
Fixpoint lc_find (t : str) (lc : list (str * list str)) : option (list str) :=
  match lc with
  | [] => None
  | (t', ls) :: r => if str_eqb t t' then Some ls else lc_find t r
  end.

Definition w_doc_lines (d : doc) (w : wbuf) : list str * wbuf :=
  match lc_find (dtext d) (wlc w) with
  | Some ls => (ls, w)
  | None => let ls := split_on NL (dtext d) in
            (ls, mkw (wlines w) (widx w) (wcur w) (wdc w) ((dtext d, ls) :: wlc w) (wli w))
  end.

(* Document._line_start_indexes: computed from self.lines (through the line
   cache) on first use, then kept per text *)
Fixpoint li_find (t : str) (li : list (str * list Z)) : option (list Z) :=
  match li with
  | [] => None
  | (t', ix) :: r => if str_eqb t t' then Some ix else li_find t r
  end.

Definition w_doc_line_indexes (d : doc) (w : wbuf) : list Z * wbuf :=
  match li_find (dtext d) (wli w) with
  | Some ix => (ix, w)
  | None =>
      let '(ls, w1) := w_doc_lines d w in
      let ix0 := 0 :: cumul ls 0 in
      let ix := if 1 <? len ix0 then removelast ix0 else ix0 in
      (ix, mkw (wlines w1) (widx w1) (wcur w1) (wdc w1) (wlc w1) ((dtext d, ix) :: wli w1))
  end.

(* ---------------------------------------------------------------------- *)
(* The states at which an operation reads `self.document`, in program order *)
Definition key_of (b : buf) : dkey := (btext b, bcur b).

Definition delete_keys (b : buf) : list dkey :=
  if bcur b <? len (btext b) then [key_of b] else [].

(* uppercase-word & co: every round reads the document before it edits *)
Fixpoint iter_keys (f : buf -> res) (n : nat) (b : buf) : list dkey :=
  match n with
  | O => []
  | S k => key_of b :: match f b with Ok b1 _ => iter_keys f k b1 | Err _ _ => [] end
  end.

Definition touches_op (b : buf) (o : op) : list dkey :=
  match o with
  | ODelete _ | ODeleteChar _ => delete_keys b
  | OBackwardDeleteChar a => if a <? 0 then delete_keys b else []
  | ONewline cm => if cm then [key_of b] else []
  | OLineAbove _ | OLineBelow _ | OTransformLine _ | OLeft _ | ORight _
  | OIndent _ _ _ | OUnindent _ _ _ => [key_of b]
  | OJoin _ =>
      if on_last_line (bdoc b) then [key_of b]
      else
        let b1 := set_cursor b (bcur b + get_end_of_line_position (bdoc b)) in
        let b2 := res_buf (delete b1 1) in
        [key_of b] ++ delete_keys b1 ++ [key_of b2]
  | OTranspose =>
      let p := bcur b in
      if p =? 0 then []
      else if (p =? len (btext b))
              || (match index (btext b) p with Some c => c =? NL | None => false end)
      then [] else [key_of b]
  | _ => []
  end.

Definition touches (b : buf) (x : xop) : list dkey :=
  match x with
  | XBase o => touches_op b o
  | XCase k a => iter_keys (case_word1 (case_F k)) (Z.to_nat a) b
  | XReshape _ _ _ => []
  end.

Definition w_touch (w : wbuf) (ks : list dkey) : wbuf :=
  mkw (wlines w) (widx w) (wcur w) (fold_left (fun dc k => snd (dc_get k dc)) ks (wdc w)) (wlc w) (wli w).

(* ---------------------------------------------------------------------- *)
(* cursor_position setter on the stored state; Buffer.go_to_history *)
Definition w_set_cursor (w : wbuf) (v : Z) : wbuf :=
  mkw (wlines w) (widx w) (bcur (set_cursor (w_abs w) v)) (wdc w) (wlc w) (wli w).

Definition w_go_to_history (w : wbuf) (i : Z) : wbuf :=
  if (0 <=? i) && (i <? len (wlines w)) then
    (* working_index setter: only when it changes; cursor_position = 0 *)
    let w1 := if widx w =? i then w
              else w_set_cursor (mkw (wlines w) i (wcur w) (wdc w) (wlc w) (wli w)) 0 in
    w_set_cursor w1 (len (w_text w1))
  else w.

Inductive wop :=
| WX (x : xop)
| WGoto (i : Z).

(* One step: (status, returned string, new stored state).  The state is the
   one after the harness has looked at Buffer.document and its lines (which
   is what every renderer pass does as well). *)
Definition w_observe (w : wbuf) : (doc * list str * list Z) * wbuf :=
  let '(d, w1) := w_document w in
  let '(ls, w2) := w_doc_lines d w1 in
  let '(ix, w3) := w_doc_line_indexes d w2 in
  ((d, ls, ix), w3).

Definition wstep (w : wbuf) (o : wop) : (Z * str) * wbuf :=
  match o with
  | WX x =>
      let b := w_abs w in
      let r := xstep b x in
      let w1 := w_commit (w_touch w (touches b x)) (res_buf r) in
      (match r with Ok _ ret => (0, ret) | Err c _ => (c, []) end, w1)
  | WGoto i => ((0, []), w_go_to_history w i)
  end.

(* ---------------------------------------------------------------------- *)
(* Wire format *)
Definition dec_wop (s : sx) : option wop :=
  match s with
  | L [A 23; A i] => Some (WGoto i)
  | _ => match dec_xop s with Some x => Some (WX x) | None => None end
  end.

Definition enc_wres (st : Z) (ret : str) (v : doc * list str * list Z) (w : wbuf) : sx :=
  L [A st; L (map sx_str (wlines w)); A (widx w); A (wcur w); sx_str ret;
     L (map (fun e => L [sx_str (fst (fst e)); A (snd (fst e))]) (wdc w));
     L [sx_str (dtext (fst (fst v))); A (dcur (fst (fst v))); L (map sx_str (snd (fst v)));
        L (map A (snd v))]].

Fixpoint run_wops (w : wbuf) (ops : list wop) : list sx :=
  match ops with
  | [] => []
  | o :: r =>
      let '((st, ret), w1) := wstep w o in
      let '(v, w2) := w_observe w1 in
      enc_wres st ret v w2 :: run_wops w2 r
  end.

(* case = ((line ...) index cursor (op ...)) *)
Definition run_C01w (c : sx) : sx :=
  match c with
  | L [L ls; A i; A cur; L ops] =>
      match map_opt as_str ls, map_opt dec_wop ops with
      | Some ls', Some ops' =>
          let w := mkw ls' i cur [] [] [] in
          if (0 <=? i) && (i <? len ls') && (0 <=? cur) && (cur <=? len (w_text w))
          then L (run_wops w ops') else bad_case
      | _, _ => bad_case
      end
  | _ => bad_case
  end.

(* One executable for both wire entry points: a 4-element case is a stored
   state (working lines, index, cursor, operations), a 3-element one the
   (text, cursor, operations) case of run_C01x. *)
Definition run_C01all (c : sx) : sx :=
  match c with
  | L [_; _; _; _] => run_C01w c
  | _ => run_C01x c
  end.
