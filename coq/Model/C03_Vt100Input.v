(* C03 - the layers around the parser:
     input/posix_utils.py  PosixStdinReader.read  -> incremental UTF-8 decoding with
                           errors="surrogateescape" (CPython's utf_8_decode(data, errors, final=False)
                           driven by codecs.BufferedIncrementalDecoder: undecoded tail kept, prepended
                           to the next read)
     input/vt100.py        Vt100Input.read_keys / flush_keys (the parser callback appends to
                           self._buffer; the call hands the list over and installs a fresh one)
   Definitions only; proofs in Proofs/C03_Input.v.  Bytes are Z in 0..255. *)
From Coq Require Import ZArith List Bool.
From PTK Require Import Lib.Sx Lib.Py Gen.C03_AnsiSequences Model.C03_Vt100Parser.
Import ListNotations.
Open Scope Z_scope.

(* ---------------------------------------------------------------------- *)
(* UTF-8, one decoding step at the head of a byte string (Objects/stringlib/codecs.h
   utf8_decode + the surrogateescape handler).  An invalid byte is escaped to
   U+DC00+byte.  CPython reports the "maximal subpart" (1-3 bytes) as the error
   range and escapes each of its bytes; the bytes after the first are
   continuation bytes, which as start bytes are invalid and escape to the same
   code point, so escaping one byte and re-examining the next is the same
   function.  A sequence cut short by the end of the data is checked as far as
   it goes (second byte range!) and, when valid so far, left undecoded. *)

Definition in_rng (lo hi b : Z) : bool := (lo <=? b) && (b <=? hi).
Definition cont (b : Z) : bool := in_rng 128 191 b.
Definition esc (b : Z) : Z := 56320 + b.

Inductive sres := Emit (cp : Z) (n : nat) | Pend | Stop.

Definition step (bs : list Z) : sres :=
  match bs with
  | [] => Stop
  | b :: r =>
      if b <? 128 then Emit b 1
      else if (b <? 194) || (244 <? b) then Emit (esc b) 1            (* 80..C1, F5..FF *)
      else if b <? 224 then                                           (* C2..DF xx *)
        match r with
        | [] => Pend
        | b2 :: _ => if cont b2 then Emit ((b - 192) * 64 + (b2 - 128)) 2 else Emit (esc b) 1
        end
      else if b <? 240 then                                           (* E0..EF xx xx *)
        let lo := if b =? 224 then 160 else 128 in
        let hi := if b =? 237 then 159 else 191 in
        match r with
        | [] => Pend
        | b2 :: r2 =>
            match r2 with
            | [] =>
                (* cut short after two bytes: CPython 3.12 keeps ED A0..BF (a surrogate
                   in the making) undecoded although the complete sequence is invalid;
                   E0 80..9F is rejected at once *)
                if in_rng lo hi b2 then Pend
                else if (b =? 237) && in_rng 160 191 b2 then Pend
                else Emit (esc b) 1
            | b3 :: _ =>
                if in_rng lo hi b2 then
                  if cont b3 then Emit ((b - 224) * 4096 + (b2 - 128) * 64 + (b3 - 128)) 3
                  else Emit (esc b) 1
                else Emit (esc b) 1
            end
        end
      else                                                            (* F0..F4 xx xx xx *)
        let lo := if b =? 240 then 144 else 128 in
        let hi := if b =? 244 then 143 else 191 in
        match r with
        | [] => Pend
        | b2 :: r2 =>
            if in_rng lo hi b2 then
              match r2 with
              | [] => Pend
              | b3 :: r3 =>
                  if cont b3 then
                    match r3 with
                    | [] => Pend
                    | b4 :: _ =>
                        if cont b4
                        then Emit ((b - 240) * 262144 + (b2 - 128) * 4096 + (b3 - 128) * 64 + (b4 - 128)) 4
                        else Emit (esc b) 1
                    end
                  else Emit (esc b) 1
              end
            else Emit (esc b) 1
        end
  end.

Record dres := mkd { dout : list Z; dpend : list Z; doof : bool }.
Definition dcons (cp : Z) (r : dres) : dres := mkd (cp :: dout r) (dpend r) (doof r).

(* utf_8_decode(data, "surrogateescape", final=False) -> (text, data[consumed:]) *)
Fixpoint dec_fuel (fuel : nat) (bs : list Z) : dres :=
  match fuel with
  | O => mkd [] bs true
  | S f =>
      match step bs with
      | Stop => mkd [] [] false
      | Pend => mkd [] bs false
      | Emit cp n => dcons cp (dec_fuel f (skipn n bs))
      end
  end.
Definition dec (bs : list Z) : dres := dec_fuel (S (length bs)) bs.

(* two successive incremental calls *)
Definition dcombine (r1 r2 : dres) : dres :=
  mkd (dout r1 ++ dout r2) (dpend r2) (doof r1 || doof r2).

(* ---------------------------------------------------------------------- *)
(* Vt100Input *)

Record vstate := mkv {
  vpend : list Z;          (* PosixStdinReader._stdin_decoder's undecoded bytes *)
  vpar : pstate;           (* vt100_parser *)
  vbuf : list event;       (* self._buffer *)
  voof : bool
}.
Definition vinit : vstate := mkv [] init [] false.

(* what the callback appended to _buffer during one parser call *)
Definition new_events (old new : pstate) : list event := skipn (length (rout old)) (out new).

(* read_keys() when os.read returned [bytes] ([] = nothing to read: "" is fed) *)
Definition read_keys (bytes : list Z) (v : vstate) : vstate * list event :=
  let r := dec (vpend v ++ bytes) in
  let par' := feed (dout r) (vpar v) in
  let buf := vbuf v ++ new_events (vpar v) par' in
  (mkv (dpend r) par' [] (voof v || doof r), buf).

Definition flush_keys (v : vstate) : vstate * list event :=
  let par' := flush (vpar v) in
  let buf := vbuf v ++ new_events (vpar v) par' in
  (mkv (vpend v) par' [] (voof v), buf).

Inductive vop := Read (bytes : list Z) | FlushK.
Definition apply_vop (acc : vstate * list (list event)) (o : vop) : vstate * list (list event) :=
  let r := match o with Read b => read_keys b (fst acc) | FlushK => flush_keys (fst acc) end in
  (fst r, snd acc ++ [snd r]).
Definition run_vops (ops : list vop) (v : vstate) : vstate * list (list event) :=
  fold_left apply_vop ops (v, []).

(* the text schedule the parser sees *)
Fixpoint text_ops (pend : list Z) (ops : list vop) : list op :=
  match ops with
  | [] => []
  | Read b :: r => let d := dec (pend ++ b) in Feed (dout d) :: text_ops (dpend d) r
  | FlushK :: r => Flush :: text_ops pend r
  end.

(* ---------------------------------------------------------------------- *)
(* Harness entry points.
   (7 (vop ...))   vop = (0 bytes) | (1)
       -> per op ((event ...) prefix in_paste paste_buf oof pending_bytes)
   (8 str)         -> (cpr_re mouse_re cpr_prefix_re mouse_prefix_re) on str
   (9 bytes)       -> (text pending_bytes oof) of one utf_8_decode(bytes, final=False)
   anything else   -> run_C03 (text schedules) *)

Definition dec_vop (s : sx) : option vop :=
  match s with
  | L [A 0; d] => match as_str d with Some x => Some (Read x) | None => None end
  | L [A 1] => Some FlushK
  | _ => None
  end.

Fixpoint run_vsteps (ops : list vop) (v : vstate) : list sx :=
  match ops with
  | [] => []
  | o :: r =>
      let res := match o with Read b => read_keys b v | FlushK => flush_keys v end in
      let v' := fst res in
      L [ sx_list sx_event (snd res);
          sx_str (prefix (vpar v')); sx_bool (in_paste (vpar v')); sx_str (paste_buf (vpar v'));
          sx_bool (oof (vpar v') || voof v'); sx_str (vpend v') ]
      :: run_vsteps r v'
  end.

Definition run_C03_all (c : sx) : sx :=
  match c with
  | L [A 7; L l] => match map_opt dec_vop l with
                    | Some ops => L (run_vsteps ops vinit)
                    | None => bad_case
                    end
  | L [A 8; s] => match as_str s with
                  | Some p => L [sx_bool (cpr_re p); sx_bool (mouse_re p);
                                 sx_bool (cpr_prefix_re p); sx_bool (mouse_prefix_re p)]
                  | None => bad_case
                  end
  | L [A 9; s] => match as_str s with
                  | Some bs => let r := dec bs in L [sx_str (dout r); sx_str (dpend r); sx_bool (doof r)]
                  | None => bad_case
                  end
  | _ => run_C03 c
  end.
