(* C18 - formatted_text/html.py: html_escape, and HTML.__init__ over a small
   XML subset.  expat + minidom are external; what is modelled is the subset of
   XML 1.0 that the template grammar and escaped values can produce, as a
   character-at-a-time machine (so that "an escaped value is consumed as data
   and leaves the machine where it was" can be stated exactly as for ANSI):

     elements with ASCII names, attributes with single or double quoting, the five
     predefined entities, character data; line-end and attribute-value
     normalisation; the Char production (anything else: ExpatError); "]]>" in
     character data; duplicate attributes; mismatched / unclosed tags; junk
     after the document element; numeric character references.  Comments, PIs,
     CDATA, DOCTYPE, ':' and non-ASCII characters in names are answered
     with [Err 3] (outside the subset; the harness never generates them and
     does not compare such cases).

   The tree walk of HTML.__init__ (name/fg/bg stacks, get_current_style) runs
   in the same pass: text nodes are emitted when a tag starts; the ValueError
   for a space in fg/bg is deferred behind a possible later ExpatError, as in
   the code (parse first, walk second).  Definitions only. *)
From Coq Require Import ZArith List Bool.
From PTK Require Import Lib.Sx Lib.Py Gen.Whitespace Model.C18_Fragments Model.C18_Ansi.
Import ListNotations.
Open Scope Z_scope.

Definition AMP : Z := 38.
Definition LT : Z := 60.
Definition GT : Z := 62.
Definition DQ : Z := 34.
Definition SQ : Z := 39.

Definition e_amp : str := [38; 97; 109; 112; 59].          (* &amp; *)
Definition e_lt : str := [38; 108; 116; 59].               (* &lt; *)
Definition e_gt : str := [38; 103; 116; 59].               (* &gt; *)
Definition e_quot : str := [38; 113; 117; 111; 116; 59].   (* &quot; *)
Definition e_apos : str := [38; 97; 112; 111; 115; 59].    (* &apos; *)
Definition e_cr : str := [38; 35; 49; 51; 59].             (* &#13; *)

(* XML 1.0 Char *)
Definition xml_char (c : Z) : bool :=
  (c =? 9) || (c =? 10) || (c =? 13) || ((32 <=? c) && (c <=? 55295))
  || ((57344 <=? c) && (c <=? 65533)) || ((65536 <=? c) && (c <=? 1114111)).

Definition replace1 (c : Z) (rep : str) (s : str) : str :=
  flat_map (fun x => if x =? c then rep else [x]) s.

(* the four chained str.replace calls: AMP first, then LT, GT, DQ (each by its entity)
   [repaired: characters outside Char are first replaced by a question mark; SQ by the
   apos entity as a fifth replace] *)
Definition html_escape (k : cfg) (v : str) : str :=
  let v := if cfg_html_xmlsafe k then map (fun c => if xml_char c then c else QM) v else v in
  let s := replace1 DQ e_quot (replace1 GT e_gt (replace1 LT e_lt (replace1 AMP e_amp v))) in
  let s := if cfg_html_apos k then replace1 SQ e_apos s else s in
  (* 44b4e9c: a sixth replace, \r by its character reference (not subject to line-end normalisation) *)
  if cfg_html_cr k then replace1 13 e_cr s else s.

(* ---------------------------------------------------------------------- *)
(* character classes of the subset *)

Definition is_xspace (c : Z) : bool := (c =? 32) || (c =? 9) || (c =? 10) || (c =? 13).
Definition name_start (c : Z) : bool :=
  ((65 <=? c) && (c <=? 90)) || ((97 <=? c) && (c <=? 122)) || (c =? 95).
Definition name_char (c : Z) : bool :=
  name_start c || ((48 <=? c) && (c <=? 57)) || (c =? 45) || (c =? 46).
(* characters whose treatment inside markup the subset does not cover *)
Definition outside_subset (c : Z) : bool := (c =? 58) || (128 <=? c).

Definition n_amp : str := [97; 109; 112].
Definition n_lt : str := [108; 116].
Definition n_gt : str := [103; 116].
Definition n_quot : str := [113; 117; 111; 116].
Definition n_apos : str := [97; 112; 111; 115].
Definition n_xmlns : str := [120; 109; 108; 110; 115].

(* numeric character references: decimal and hexadecimal digits *)
Fixpoint dec_digits (s : str) (acc : Z) : option Z :=
  match s with
  | [] => Some acc
  | c :: r => if is_ascii_digit c then dec_digits r (acc * 10 + (c - 48)) else None
  end.
Definition hex_digit (c : Z) : option Z :=
  if is_ascii_digit c then Some (c - 48)
  else if (97 <=? c) && (c <=? 102) then Some (c - 87)
  else if (65 <=? c) && (c <=? 70) then Some (c - 55)
  else None.
Fixpoint hex_digits (s : str) (acc : Z) : option Z :=
  match s with
  | [] => Some acc
  | c :: r => match hex_digit c with Some d => hex_digits r (acc * 16 + d) | None => None end
  end.
(* the reference must name a character XML can carry, else "reference to invalid character number" *)
Definition charref (o : option Z) : res Z :=
  match o with
  | Some v => if xml_char v then Ok v else Err 2
  | None => Err 2
  end.

(* entity name (between & and ;) -> character *)
Definition entity (nm : str) : res Z :=
  if str_eqb nm n_amp then Ok 38
  else if str_eqb nm n_lt then Ok 60
  else if str_eqb nm n_gt then Ok 62
  else if str_eqb nm n_quot then Ok 34
  else if str_eqb nm n_apos then Ok 39
  else match nm with
       | 35 :: 120 :: (_ :: _) as h => charref (hex_digits (tl (tl nm)) 0)     (* &#x..; *)
       | 35 :: (_ :: _) as d => charref (dec_digits (tl nm) 0)                  (* &#..; *)
       | _ => Err 2                (* undefined entity / not well-formed *)
       end.

(* ---------------------------------------------------------------------- *)
(* machine *)

Definition attrs := list (str * str).

Inductive hmode :=
| HText (acc : str) (cr : bool) (rb : Z)   (* character data; acc = data of the text node being built *)
| HTextEnt (acc : str) (ent : str)
| HLt
| HOpenName (name : str)
| HInTag (name : str) (ats : attrs) (sp : bool)
| HAttrName (name : str) (ats : attrs) (an : str)
| HAfterAttrName (name : str) (ats : attrs) (an : str)
| HAfterEq (name : str) (ats : attrs) (an : str)
| HAttrVal (name : str) (ats : attrs) (an : str) (q : Z) (acc : str) (cr : bool)
| HAttrEnt (name : str) (ats : attrs) (an : str) (q : Z) (acc : str) (ent : str)
| HSlash (name : str) (ats : attrs)
| HCloseStart
| HCloseName (name : str)
| HCloseSp (name : str).

(* one open element: its name and what process_node pushed for it *)
Record frame := mkframe { fr_name : str; fr_addname : bool; fr_fg : bool; fr_bg : bool }.

Record hst := mkhst {
  h_mode : hmode;
  h_stack : list frame;      (* innermost first *)
  h_names : list str;        (* name_stack, outermost first *)
  h_fgs : list str;          (* fg_stack, outermost first *)
  h_bgs : list str;
  h_out : list frag;
  h_verr : bool;             (* a fg/bg with a space was seen: ValueError once parsing has succeeded *)
  h_rootdone : bool }.

Definition hst0 : hst := mkhst (HText [] false 0) [] [] [] [] [] false false.

Definition set_hmode (h : hst) (m : hmode) : hst :=
  mkhst m (h_stack h) (h_names h) (h_fgs h) (h_bgs h) (h_out h) (h_verr h) (h_rootdone h).

Definition w_class : str := [99; 108; 97; 115; 115; 58].
Definition w_fg : str := [102; 103; 58].
Definition w_bg : str := [98; 103; 58].
Definition n_fg : str := [102; 103].
Definition n_bg : str := [98; 103].
Definition n_color : str := [99; 111; 108; 111; 114].
Definition n_style : str := [115; 116; 121; 108; 101].
Definition n_root : str := [104; 116; 109; 108; 45; 114; 111; 111; 116].      (* html-root *)
Definition n_document : str := [35; 100; 111; 99; 117; 109; 101; 110; 116].   (* #document *)

(* get_current_style() *)
Definition current_style (h : hst) : str :=
  join [SP]
    ((match h_names h with [] => [] | ns => [w_class ++ join [44] ns] end) ++
     (match h_fgs h with [] => [] | l => [w_fg ++ last l []] end) ++
     (match h_bgs h with [] => [] | l => [w_bg ++ last l []] end)).

(* result.append((get_current_style(), child.data)) for a finished text node *)
Definition flush_text (h : hst) (acc : str) : list frag :=
  match acc with [] => h_out h | _ => h_out h ++ [mkfrag (current_style h) acc []] end.

(* for k, v in child.attributes.items(): fg / bg / color *)
Fixpoint scan_fg_bg (ats : attrs) (fg bg : str) : str * str :=
  match ats with
  | [] => (fg, bg)
  | (k, v) :: r =>
      let fg1 := if str_eqb k n_fg then v else fg in
      let bg1 := if str_eqb k n_bg then v else bg in
      let fg2 := if str_eqb k n_color then v else fg1 in
      scan_fg_bg r fg2 bg1
  end.

Fixpoint has_attr (an : str) (ats : attrs) : bool :=
  match ats with [] => false | (k, _) :: r => str_eqb k an || has_attr an r end.

Definition removelast_str (l : list str) : list str := removelast l.

(* a start tag is complete (text before it has already been flushed by '<') *)
Definition has_space (k : cfg) (v : str) : bool :=
  if cfg_attr_isspace k then existsb (fun c => mem_Z c py_isspace_table) v else mem_Z SP v.

(* `if "[" in fg: raise ValueError` (ae5d17b): a style string containing a special token such as
   [ZeroWidthEscape] anywhere is treated as that token *)
Definition has_bracket (k : cfg) (v : str) : bool := cfg_attr_bracket k && mem_Z 91 v.

Definition open_element (k : cfg) (h : hst) (name : str) (ats : attrs) : hst :=
  let '(fg, bg) := scan_fg_bg ats [] [] in
  let addname := negb (str_eqb name n_document || str_eqb name n_root || str_eqb name n_style) in
  let verr := h_verr h || has_space k fg || has_space k bg || has_bracket k fg || has_bracket k bg in
  mkhst (HText [] false 0)
        (mkframe name addname (nonempty fg) (nonempty bg) :: h_stack h)
        (if addname then h_names h ++ [name] else h_names h)
        (if nonempty fg then h_fgs h ++ [fg] else h_fgs h)
        (if nonempty bg then h_bgs h ++ [bg] else h_bgs h)
        (h_out h) verr (h_rootdone h).

(* an end tag is complete *)
Definition close_element (h : hst) (name : str) : res hst :=
  match h_stack h with
  | [] => Err 2
  | fr :: rest =>
      if str_eqb (fr_name fr) name then
        Ok (mkhst (HText [] false 0) rest
                  (if fr_addname fr then removelast (h_names h) else h_names h)
                  (if fr_fg fr then removelast (h_fgs h) else h_fgs h)
                  (if fr_bg fr then removelast (h_bgs h) else h_bgs h)
                  (h_out h) (h_verr h)
                  (match rest with [] => true | _ => h_rootdone h end))
      else Err 2                                   (* mismatched tag *)
  end.

Definition empty_element (k : cfg) (h : hst) (name : str) (ats : attrs) : res hst :=
  close_element (open_element k h name ats) name.

(* decode one entity and append it to the data being collected *)
Definition bad_markup_char (c : Z) : res (hst) := if outside_subset c then Err 3 else Err 2.

Definition hstep (k : cfg) (h : hst) (c : Z) : res hst :=
  if negb (xml_char c) then Err 2 else
  match h_mode h with
  | HText acc cr rb =>
      match h_stack h with
      | [] =>                                       (* outside the document element *)
          if is_xspace c then Ok h
          else if c =? LT then Ok (set_hmode h HLt)
          else Err 2
      | _ =>
          if c =? LT then
            Ok (mkhst HLt (h_stack h) (h_names h) (h_fgs h) (h_bgs h) (flush_text h acc)
                      (h_verr h) (h_rootdone h))
          else if c =? AMP then Ok (set_hmode h (HTextEnt acc []))
          else if c =? 13 then Ok (set_hmode h (HText (acc ++ [10]) true 0))
          else if c =? 10 then
            if cr then Ok (set_hmode h (HText acc false 0))
            else Ok (set_hmode h (HText (acc ++ [10]) false 0))
          else if c =? 93 then Ok (set_hmode h (HText (acc ++ [c]) false (Z.min 2 (rb + 1))))
          else if (c =? GT) && (2 <=? rb) then Err 2      (* "]]>" in character data *)
          else Ok (set_hmode h (HText (acc ++ [c]) false 0))
      end
  | HTextEnt acc ent =>
      if c =? 59 then
        match entity ent with
        | Ok ch => Ok (set_hmode h (HText (acc ++ [ch]) false 0))
        | Err e => Err e
        end
      else if name_char c || (c =? 35) then Ok (set_hmode h (HTextEnt acc (ent ++ [c])))
      else bad_markup_char c
  | HLt =>
      if h_rootdone h then (if (c =? 33) || (c =? 63) then Err 3 else Err 2)   (* junk after document element *)
      else if name_start c then Ok (set_hmode h (HOpenName [c]))
      else if c =? 47 then Ok (set_hmode h HCloseStart)
      else if (c =? 33) || (c =? 63) then Err 3      (* <! ... or <? ... *)
      else bad_markup_char c
  | HOpenName nm =>
      if name_char c then Ok (set_hmode h (HOpenName (nm ++ [c])))
      else if is_xspace c then Ok (set_hmode h (HInTag nm [] true))
      else if c =? GT then Ok (open_element k h nm [])
      else if c =? 47 then Ok (set_hmode h (HSlash nm []))
      else bad_markup_char c
  | HInTag nm ats sp =>
      if is_xspace c then Ok (set_hmode h (HInTag nm ats true))
      else if c =? GT then Ok (open_element k h nm ats)
      else if c =? 47 then Ok (set_hmode h (HSlash nm ats))
      else if name_start c then (if sp then Ok (set_hmode h (HAttrName nm ats [c])) else Err 2)
      else bad_markup_char c
  | HAttrName nm ats an =>
      if name_char c then Ok (set_hmode h (HAttrName nm ats (an ++ [c])))
      else if c =? 61 then Ok (set_hmode h (HAfterEq nm ats an))
      else if is_xspace c then Ok (set_hmode h (HAfterAttrName nm ats an))
      else bad_markup_char c
  | HAfterAttrName nm ats an =>
      if is_xspace c then Ok h
      else if c =? 61 then Ok (set_hmode h (HAfterEq nm ats an))
      else bad_markup_char c
  | HAfterEq nm ats an =>
      if is_xspace c then Ok h
      else if (c =? DQ) || (c =? SQ) then Ok (set_hmode h (HAttrVal nm ats an c [] false))
      else bad_markup_char c
  | HAttrVal nm ats an q acc cr =>
      if c =? q then
        if has_attr an ats then Err 2                 (* duplicate attribute *)
        else if str_eqb an n_xmlns then Err 3         (* namespace declaration *)
        else Ok (set_hmode h (HInTag nm (ats ++ [(an, acc)]) false))
      else if c =? LT then Err 2
      else if c =? AMP then Ok (set_hmode h (HAttrEnt nm ats an q acc []))
      else if c =? 13 then Ok (set_hmode h (HAttrVal nm ats an q (acc ++ [SP]) true))
      else if c =? 10 then
        if cr then Ok (set_hmode h (HAttrVal nm ats an q acc false))
        else Ok (set_hmode h (HAttrVal nm ats an q (acc ++ [SP]) false))
      else if c =? 9 then Ok (set_hmode h (HAttrVal nm ats an q (acc ++ [SP]) false))
      else Ok (set_hmode h (HAttrVal nm ats an q (acc ++ [c]) false))
  | HAttrEnt nm ats an q acc ent =>
      if c =? 59 then
        match entity ent with
        | Ok ch => Ok (set_hmode h (HAttrVal nm ats an q (acc ++ [ch]) false))
        | Err e => Err e
        end
      else if name_char c || (c =? 35) then Ok (set_hmode h (HAttrEnt nm ats an q acc (ent ++ [c])))
      else bad_markup_char c
  | HSlash nm ats =>
      if c =? GT then empty_element k h nm ats else Err 2
  | HCloseStart =>
      if name_start c then Ok (set_hmode h (HCloseName [c])) else bad_markup_char c
  | HCloseName nm =>
      if name_char c then Ok (set_hmode h (HCloseName (nm ++ [c])))
      else if is_xspace c then Ok (set_hmode h (HCloseSp nm))
      else if c =? GT then close_element h nm
      else bad_markup_char c
  | HCloseSp nm =>
      if is_xspace c then Ok h
      else if c =? GT then close_element h nm
      else Err 2
  end.

Fixpoint hrun (k : cfg) (h : hst) (s : str) : res hst :=
  match s with
  | [] => Ok h
  | c :: r => match hstep k h c with Ok h' => hrun k h' r | Err e => Err e end
  end.

Definition t_open_root : str := [60] ++ n_root ++ [62].
Definition t_close_root : str := [60; 47] ++ n_root ++ [62].

(* HTML(value).formatted_text *)
Definition html_parse (k : cfg) (value : str) : res (list frag) :=
  match hrun k hst0 (t_open_root ++ value ++ t_close_root) with
  | Err e => Err e
  | Ok h =>
      match h_mode h, h_stack h with
      | HText _ _ _, [] =>
          if h_rootdone h then (if h_verr h then Err 1 else Ok (h_out h)) else Err 2
      | _, _ => Err 2                                (* unclosed token / no element found *)
      end
  end.

Definition html_template (k : cfg) (parts vals : list str) : res (list frag) :=
  html_parse k (fill parts (map (html_escape k) vals)).
