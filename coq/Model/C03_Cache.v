(* C03 - two pieces of process-/object-level state around the parser:
   (a) vt100_parser._IS_PREFIX_OF_LONGER_MATCH_CACHE, a module-level dict with
       __missing__ (compute, store, return), shared by all parsers of the process;
   (b) PosixStdinReader.read(): the [closed] flag, select/os.read outcomes as labels.
   Definitions only; proofs in Proofs/C03_Cache.v. *)
From Coq Require Import ZArith List Bool.
From PTK Require Import Lib.Sx Lib.Py Gen.C03_AnsiSequences Model.C03_Vt100Parser Model.C03_Vt100Input.
Import ListNotations.
Open Scope Z_scope.

(* ---------------------------------------------------------------------- *)
(* (a) the memo table *)

Definition cache := list (str * bool).

Fixpoint cache_get (p : str) (c : cache) : option bool :=
  match c with
  | [] => None
  | (k, b) :: r => if str_eqb k p then Some b else cache_get p r
  end.

(* _IS_PREFIX_OF_LONGER_MATCH_CACHE[p] *)
Definition cache_query (p : str) (c : cache) : bool * cache :=
  match cache_get p c with
  | Some b => (b, c)
  | None => let b := is_prefix_longer p in (b, (p, b) :: c)
  end.

(* the coroutine with the cache threaded through (cf. [process]) *)
Fixpoint process_c (fuel : nat) (flush : bool) (st : pstate) (c : cache) : pstate * cache :=
  match prefix st with
  | [] => (st, c)
  | _ :: _ =>
      match fuel with
      | O => (set_oof st, c)
      | S f =>
          let q := cache_query (prefix st) c in
          if flush || negb (fst q) then
            match get_match (prefix st) with
            | Some ks => (set_prefix [] (call_handler ks (prefix st) st), snd q)
            | None => process_c f flush (no_match_step st) (snd q)
            end
          else (st, snd q)
      end
  end.
Definition send_char_c (ch : Z) (st : pstate) (c : cache) : pstate * cache :=
  process_c (S (length (prefix st))) false (set_prefix (prefix st ++ [ch]) st) c.
Definition flush_c (st : pstate) (c : cache) : pstate * cache :=
  process_c (length (prefix st)) true st c.

(* ---------------------------------------------------------------------- *)
(* (b) PosixStdinReader.read() *)

Record rstate := mkr { rclosed : bool; rpend : list Z }.
Definition rinit : rstate := mkr false [].

Inductive sel_outcome := SelReady | SelNotReady | SelError.
Inductive read_outcome := RdData (bytes : list Z) | RdError.     (* RdData [] is end of file *)

(* one call read(): new state, returned text, bytes taken from the descriptor *)
Definition reader_read (s : sel_outcome) (r : read_outcome) (st : rstate) : rstate * str * list Z :=
  if rclosed st then (st, [], [])
  else
    match s with
    | SelNotReady => (st, [], [])
    | _ =>
        let closed1 := match s with SelError => true | _ => false end in
        match r with
        | RdData [] => (mkr true (rpend st), [], [])
        | RdData b => let d := dec (rpend st ++ b) in (mkr closed1 (dpend d), dout d, b)
        | RdError => let d := dec (rpend st ++ []) in (mkr closed1 (dpend d), dout d, [])
        end
    end.

Definition rcall := (sel_outcome * read_outcome)%type.
(* all calls: final state, concatenated text, concatenated bytes taken *)
Fixpoint reader_run (calls : list rcall) (st : rstate) : rstate * str * list Z :=
  match calls with
  | [] => (st, [], [])
  | (s, r) :: rest =>
      let '(st1, t1, b1) := reader_read s r st in
      let '(st2, t2, b2) := reader_run rest st1 in
      (st2, t1 ++ t2, b1 ++ b2)
  end.

(* ---------------------------------------------------------------------- *)
(* Harness entry points (in addition to those of run_C03_all):
   (10 (call ...))  call = (sel rd), sel = 0 ready | 1 not ready | 2 OSError,
                    rd = (0 bytes) data (empty = end of file) | (1) OSError
        -> per call (text closed undecoded_bytes bytes_taken)
   (11 (p ...))     queries to a fresh memo table
        -> ((answer ...) ((p answer) ...))   table in insertion order *)

Definition dec_call (s : sx) : option rcall :=
  match s with
  | L [A se; rd] =>
      let sel := if se =? 0 then Some SelReady else if se =? 1 then Some SelNotReady
                 else if se =? 2 then Some SelError else None in
      let r := match rd with
               | L [A 0; d] => match as_str d with Some b => Some (RdData b) | None => None end
               | L [A 1] => Some RdError
               | _ => None
               end in
      match sel, r with Some a, Some b => Some (a, b) | _, _ => None end
  | _ => None
  end.

Fixpoint run_rsteps (calls : list rcall) (st : rstate) : list sx :=
  match calls with
  | [] => []
  | (s, r) :: rest =>
      let '(st1, t1, b1) := reader_read s r st in
      L [sx_str t1; sx_bool (rclosed st1); sx_str (rpend st1); sx_str b1] :: run_rsteps rest st1
  end.

Fixpoint run_queries (ps : list str) (c : cache) : list bool * cache :=
  match ps with
  | [] => ([], c)
  | p :: r => let q := cache_query p c in
              let rest := run_queries r (snd q) in (fst q :: fst rest, snd rest)
  end.

Definition run_C03_all2 (c : sx) : sx :=
  match c with
  | L [A 10; L l] => match map_opt dec_call l with
                     | Some calls => L (run_rsteps calls rinit)
                     | None => bad_case
                     end
  | L [A 11; L l] => match map_opt as_str l with
                     | Some ps => let r := run_queries ps [] in
                                  L [sx_list sx_bool (fst r);
                                     sx_list (fun kv => L [sx_str (fst kv); sx_bool (snd kv)]) (rev (snd r))]
                     | None => bad_case
                     end
  | _ => run_C03_all c
  end.
