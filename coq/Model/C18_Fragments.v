(* C18 - fragment lists: formatted_text/utils.py (fragment_list_len,
   fragment_list_to_text, split_lines) and layout/utils.py
   (explode_text_fragments).  A fragment is (style, text, *rest); [rest] is
   the optional mouse handler (an opaque id here; any tuple tail is carried
   along unchanged by the code).  Definitions only. *)
From Coq Require Import ZArith List Bool.
From PTK Require Import Lib.Sx Lib.Py.
Import ListNotations.
Open Scope Z_scope.

Record frag := mkfrag { fstyle : str; ftext : str; frest : list Z }.

(* "[ZeroWidthEscape]" *)
Definition ZWE : str := [91; 90; 101; 114; 111; 87; 105; 100; 116; 104; 69; 115; 99; 97; 112; 101; 93].

(* ZeroWidthEscape in item[0]  (substring test) *)
Definition is_zwe (style : str) : bool := 0 <=? find_sub ZWE style.

(* sum(len(item[1]) for item in fragments if ZeroWidthEscape not in item[0]) *)
Fixpoint fragment_list_len (frs : list frag) : Z :=
  match frs with
  | [] => 0
  | f :: r => (if is_zwe (fstyle f) then 0 else len (ftext f)) + fragment_list_len r
  end.

(* "".join(item[1] for item in fragments if ZeroWidthEscape not in item[0]) *)
Fixpoint fragment_list_to_text (frs : list frag) : str :=
  match frs with
  | [] => []
  | f :: r => (if is_zwe (fstyle f) then [] else ftext f) ++ fragment_list_to_text r
  end.

(* explode_text_fragments (for a list that is not already an _ExplodedList):
     for style, string, *rest in fragments: for c in string: result.append((style, c, *rest)) *)
Fixpoint explode (frs : list frag) : list frag :=
  match frs with
  | [] => []
  | f :: r => map (fun c => mkfrag (fstyle f) [c] (frest f)) (ftext f) ++ explode r
  end.

(* to_formatted_text(value, style=st) for a list value:
     if style: result = [(style + " " + item_style, *rest) for item_style, *rest in result] *)
Definition apply_style (st : str) (frs : list frag) : list frag :=
  match st with
  | [] => frs
  | _ => map (fun f => mkfrag (st ++ [SP] ++ fstyle f) (ftext f) (frest f)) frs
  end.

Definition nonempty (s : str) : bool := match s with [] => false | _ => true end.

(* One fragment inside split_lines' loop.  [parts] = string.split("\n")
   (never empty); [line] = the line under construction.  Result: the lines
   yielded while processing this fragment, and the new [line].
       for part in parts[:-1]:
           if part: line.append((style, part, *mouse_handler))
           yield line; line = []
       line.append((style, parts[-1], *mouse_handler))                      *)
Fixpoint split_parts (style : str) (rest : list Z) (parts : list str) (line : list frag)
  : list (list frag) * list frag :=
  match parts with
  | [] => ([], line)
  | [p] => ([], line ++ [mkfrag style p rest])
  | p :: ps =>
      let line' := if nonempty p then line ++ [mkfrag style p rest] else line in
      let r := split_parts style rest ps [] in
      (line' :: fst r, snd r)
  end.

Fixpoint split_lines_from (frs : list frag) (line : list frag) : list (list frag) :=
  match frs with
  | [] => [line]                         (* the final `yield line` *)
  | f :: r =>
      let y := split_parts (fstyle f) (frest f) (split_on NL (ftext f)) line in
      fst y ++ split_lines_from r (snd y)
  end.

Definition split_lines (frs : list frag) : list (list frag) := split_lines_from frs [].

(* ---------------------------------------------------------------------- *)
(* wire format *)

Definition dec_frag (s : sx) : option frag :=
  match s with
  | L [st; tx; rs] =>
      match as_str st, as_str tx, as_str rs with
      | Some a, Some b, Some c => Some (mkfrag a b c)
      | _, _, _ => None
      end
  | _ => None
  end.

Definition enc_frag (f : frag) : sx := L [sx_str (fstyle f); sx_str (ftext f); sx_str (frest f)].
Definition enc_frags (l : list frag) : sx := L (map enc_frag l).
