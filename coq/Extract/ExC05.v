From Coq Require Import ExtrOcamlBasic.
From PTK Require Import Lib.Sx Model.C05_Run.
Extraction "c05_model.ml" run_C05.
