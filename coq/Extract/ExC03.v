From Coq Require Import ExtrOcamlBasic.
From PTK Require Import Lib.Sx Model.C03_Vt100Parser Model.C03_Vt100Input Model.C03_Cache.
Extraction "c03_model.ml" run_C03_all2.
