From Coq Require Import ExtrOcamlBasic.
From PTK Require Import Lib.Sx Model.C03_Vt100Parser Model.C03_Vt100Input Model.C03_Cache Model.C03_Utf8Spec Model.C03_Errors Model.C03_RegexMatch Model.C03_Run7.
Extraction "c03_model.ml" run_C03_all4.
