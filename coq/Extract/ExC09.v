From Coq Require Import ExtrOcamlBasic.
From PTK Require Import Lib.Sx Model.C09_Kill.
Extraction "c09_model.ml" run_C09.
