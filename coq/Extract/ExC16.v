From Coq Require Import ExtrOcamlBasic.
From PTK Require Import Lib.Sx Model.C16_Search.
Extraction "c16_model.ml" run_C16.
