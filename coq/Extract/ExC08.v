From Coq Require Import ExtrOcamlBasic.
From PTK Require Import Lib.Sx Model.C08_Session.
Extraction "c08_model.ml" run_C08.
