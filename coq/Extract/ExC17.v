From Coq Require Import ExtrOcamlBasic.
From PTK Require Import Lib.Sx Model.C17_Run.
Extraction "c17_model.ml" run_C17.
