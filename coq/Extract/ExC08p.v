From Coq Require Import ExtrOcamlBasic.
From PTK Require Import Lib.Sx Model.C08_Session.
Extraction "c08p_model.ml" run_C08_patched.
