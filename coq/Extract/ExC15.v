From Coq Require Import ExtrOcamlBasic.
From PTK Require Import Lib.Sx Model.C15_Async.
Extraction "c15_model.ml" run_C15.
