From Coq Require Import ExtrOcamlBasic.
From PTK Require Import Lib.Sx Model.C11_Scroll Model.C11_CopyBody.
Extraction "c11_model.ml" run_C11.
