From Coq Require Import ExtrOcamlBasic.
From PTK Require Import Lib.Sx Model.C10_Screen Model.C10_Producers Model.C10_Wire Model.C10_Print Model.C10_Procs.
Extraction "c10_model.ml" run_C10q.
