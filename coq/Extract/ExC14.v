From Coq Require Import ExtrOcamlBasic.
From PTK Require Import Lib.Sx Model.C14_HistoryNav Model.C14_Layer.
Extraction "c14_model.ml" run_C14L.
