From Coq Require Import ExtrOcamlBasic.
From PTK Require Import Lib.Sx Model.C12_Divide.
Extraction "c12_model.ml" run_C12.
