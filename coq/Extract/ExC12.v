From Coq Require Import ExtrOcamlBasic.
From PTK Require Import Lib.Sx Model.C12_Divide Model.C12_Layout.
Extraction "c12_model.ml" run_C12.
