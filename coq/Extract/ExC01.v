From Coq Require Import ExtrOcamlBasic.
From PTK Require Import Lib.Sx Model.BufferEdit Model.C01_CaseWord Model.C01_Views.
Extraction "c01_model.ml" run_C01all.
