From Coq Require Import ExtrOcamlBasic.
From PTK Require Import Lib.Sx Model.C20_StdoutProxy.
Extraction "c20_model.ml" run_C20.
