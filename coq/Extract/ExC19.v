From Coq Require Import ExtrOcamlBasic.
From Coq Require Import PrimFloat.
From PTK Require Import Lib.Sx Model.C19_Float Model.C19_Run.
(* Primitive binary64 floats -> OCaml's native float (IEEE-754 double, the same
   arithmetic).  Self-contained realisations (the model binary is linked
   without Coq's kernel library): float literals and the two int<->float
   conversions are named constants of Model/C19_Float.v realised here; the
   in-Coq vm_compute cross-check evaluates the Coq definitions on the same
   cases. *)
Extract Inlined Constant PrimFloat.float => "float".
Extract Inlined Constant PrimFloat.add => "(+.)".
Extract Inlined Constant PrimFloat.sub => "(-.)".
Extract Inlined Constant PrimFloat.mul => "( *. )".
Extract Inlined Constant PrimFloat.div => "(/.)".
Extract Inlined Constant PrimFloat.opp => "(~-.)".
Extract Inlined Constant PrimFloat.abs => "abs_float".
Extract Inlined Constant PrimFloat.ltb => "(fun (x : float) (y : float) -> x < y)".
Extract Inlined Constant PrimFloat.leb => "(fun (x : float) (y : float) -> x <= y)".
Extract Inlined Constant PrimFloat.eqb => "(fun (x : float) (y : float) -> x = y)".
Extract Inlined Constant PrimFloat.is_nan => "(fun (x : float) -> x <> x)".
Extract Inlined Constant PrimFloat.is_infinity => "(fun (x : float) -> abs_float x = infinity)".
Extract Inlined Constant PrimFloat.nan => "nan".
Extract Constant F0 => "0.".
Extract Constant F05 => "0.5".
Extract Constant F1 => "1.".
Extract Constant F2 => "2.".
Extract Constant F3 => "3.".
Extract Constant F4 => "4.".
Extract Constant F6 => "6.".
Extract Constant F255 => "255.".
Extract Constant F512 => "512.".
Extract Constant F1000 => "1000.".
Extract Constant F2p52 => "4503599627370496.".
Extract Constant F2p53 => "9007199254740992.".
Extract Constant FNAN => "nan".
Extract Constant f_of_Z =>
  "(fun z -> let rec ip = function XH -> 1 | XO p -> 2 * ip p | XI p -> 2 * ip p + 1 in
             match z with Z0 -> 0. | Zpos p -> float_of_int (ip p) | Zneg _ -> nan)".
Extract Constant f_trunc =>
  "(fun x -> if x <> x || abs_float x >= 9007199254740992. then None else
             let n = int_of_float x in
             let rec pi n = if n = 1 then XH else if n land 1 = 0 then XO (pi (n lsr 1)) else XI (pi (n lsr 1)) in
             Some (if n = 0 then Z0 else if n > 0 then Zpos (pi n) else Zneg (pi (- n))))".
Extraction "c19_model.ml" run_C19.
