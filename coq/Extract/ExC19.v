From Coq Require Import ExtrOcamlBasic.
From PTK Require Import Lib.Sx Model.C19_Run.
Extraction "c19_model.ml" run_C19.
