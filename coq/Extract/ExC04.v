From Coq Require Import ExtrOcamlBasic.
From PTK Require Import Lib.Sx Model.C04_Run.
Extraction "c04_model.ml" run_C04.
