From Coq Require Import ExtrOcamlBasic.
From PTK Require Import Lib.Sx Model.C18_Run.
Extraction "c18_model.ml" run_C18.
