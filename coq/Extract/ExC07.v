From Coq Require Import ExtrOcamlBasic.
From PTK Require Import Lib.Sx Model.C07_Table.
Extraction "c07_model.ml" run_C07.
