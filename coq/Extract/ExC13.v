From Coq Require Import ExtrOcamlBasic.
From PTK Require Import Lib.Sx Model.C13_Run.
Extraction "c13_model.ml" run_C13.
