From Coq Require Import ExtrOcamlBasic.
From PTK Require Import Lib.Sx Model.C06_Run.
Extraction "c06_model.ml" run_C06.
