From Coq Require Import ExtrOcamlBasic.
From PTK Require Import Lib.Sx Model.Document Model.C02_DocQueries Model.C02_Run.
Extraction "c02_model.ml" run_C02.
