(* C02 - Document coordinates and motion queries are consistent and stay in
   bounds.  Statements only; proofs are in Proofs/C02_*.v.

   A document is (text, cursor) with text a list of code points; [valid d] is
   0 <= cursor <= len(text) (the constructor rejects cursor > len; negative
   cursors are outside the property).  The functions are the statement-by-
   statement models of prompt_toolkit/document.py in Model/Document.v and
   Model/C02_DocQueries.v.  A relative query returns an offset r; the target is
   cursor + r.  "same line" is stated as
       - len(current_line_before_cursor) <= r <= len(current_line_after_cursor)
   where (C02_views) these two parts contain no newline and are delimited by
   newlines / the ends of the text. *)
From Coq Require Import ZArith List Bool Sorted.
From PTK Require Import Lib.Sx Lib.Py Gen.Whitespace Gen.C02_Patterns Gen.C02_CaseFold Model.Document Model.C02_DocQueries
  Model.C02_More Model.C02_Cache Model.C02_Run Proofs.C02_Cache Proofs.C02_CaseFold Proofs.C02_FindBack Proofs.C02_More Proofs.C02_BracketsExact Proofs.C02_RowColTotal
  Proofs.C02_Base Proofs.C02_Coords Proofs.C02_Lines Proofs.C02_Find Proofs.C02_Brackets
  Proofs.C02_Words Proofs.C02_WordsExact Proofs.C02_WordsExactEnd Proofs.C02_FindExact Proofs.C02_Paragraphs
  Proofs.C02_LastNonBlank Proofs.C02_Boundaries Proofs.C02_Patterns.
Import ListNotations.
Open Scope Z_scope.

(* ====================================================================== *)
(* 1. Coordinates *)

(* index -> (row, col) -> index is the identity on 0..len *)
Theorem C02_index_roundtrip : forall d i,
  0 <= i <= len (dtext d) ->
  translate_row_col_to_index d (fst (translate_index_to_position d i))
                               (snd (translate_index_to_position d i)) = i.
Proof. exact C02c_index_roundtrip. Qed.
Print Assumptions C02_index_roundtrip.

(* (row, col) -> index -> (row, col) is the identity on valid rows/columns *)
Theorem C02_pos_roundtrip : forall d row col,
  0 <= row < line_count d ->
  0 <= col <= len (nth (Z.to_nat row) (lines d) []) ->
  translate_index_to_position d (translate_row_col_to_index d row col) = (row, col).
Proof. exact C02c_pos_roundtrip. Qed.
Print Assumptions C02_pos_roundtrip.

Example C02_pos_roundtrip_hyps_satisfiable :
  let d := mkdoc [97; 10; 98; 99] 0 in
  0 <= 1 < line_count d /\ 0 <= 2 <= len (nth (Z.to_nat 1) (lines d) []).
Proof. vm_compute. repeat split; discriminate. Qed.
Print Assumptions C02_pos_roundtrip_hyps_satisfiable.

(* The cumulative-sum table + bisect_right lookup agrees with "row = number of
   newlines before i, col = distance back to the previous newline (or the
   start)", and with the line list. *)
Theorem C02_agrees_with_split : forall d i row col,
  0 <= i <= len (dtext d) ->
  translate_index_to_position d i = (row, col) ->
  row = count_char NL (firstn (Z.to_nat i) (dtext d)) /\
  0 <= col <= i /\
  mem_Z NL (firstn (Z.to_nat col) (skipn (Z.to_nat (i - col)) (dtext d))) = false /\
  (i - col = 0 \/ nth_error (dtext d) (Z.to_nat (i - col - 1)) = Some NL) /\
  0 <= row < line_count d /\
  col <= len (nth (Z.to_nat row) (lines d) []) /\
  firstn (Z.to_nat col) (nth (Z.to_nat row) (lines d) []) =
  firstn (Z.to_nat col) (skipn (Z.to_nat (i - col)) (dtext d)).
Proof. exact C02c_index_to_position_spec. Qed.
Print Assumptions C02_agrees_with_split.

(* (row, col) -> index is "start of that line + col", the start being the sum
   of the lengths (+1 each) of the lines before; the table is the list of
   these starts and is strictly increasing; the result is always in range. *)
Theorem C02_row_col_to_index : forall d row col,
  (0 <= translate_row_col_to_index d row col <= len (dtext d)) /\
  line_start_indexes d = starts (lines d) 0 /\
  (0 <= row < line_count d -> 0 <= col <= len (nth (Z.to_nat row) (lines d) []) ->
   translate_row_col_to_index d row col = nth (Z.to_nat row) (starts (lines d) 0) 0 + col) /\
  (forall a b : nat, (a < b < length (lines d))%nat ->
   nth a (starts (lines d) 0) 0 < nth b (starts (lines d) 0) 0).
Proof.
  intros d row col. split; [apply C02c_row_col_to_index_bounds|].
  split; [apply C02c_line_start_indexes|]. split; [apply C02c_row_col_to_index_valid|].
  intros a b. apply C02c_starts_sorted.
Qed.
Print Assumptions C02_row_col_to_index.

(* (row, col) -> index for EVERY row and column, as the code is (round 7): rows
   0..n-1 as such, rows -n..-1 by Python's negative indexing of the two tables,
   rows >= n fall back to the last line and rows < -n to the first (the
   IndexError branch); the column is clamped to that line; the final clamp to
   0..len(text) never cuts *)
Theorem C02_row_col_to_index_total : forall d row col,
  let row' := norm_row (line_count d) row in
  0 <= row' < line_count d /\
  translate_row_col_to_index d row col =
  nth (Z.to_nat row') (starts (lines d) 0) 0 + Z.max 0 (Z.min col (len (nth (Z.to_nat row') (lines d) []))).
Proof. exact row_col_to_index_total. Qed.
Print Assumptions C02_row_col_to_index_total.

(* lines = text.split("\n"); join is its inverse both ways *)
Theorem C02_lines_split_join :
  (forall d, join [NL] (lines d) = dtext d) /\
  (forall d l, In l (lines d) -> mem_Z NL l = false) /\
  (forall ls, ls <> [] -> (forall l, In l ls -> mem_Z NL l = false) ->
              split_on NL (join [NL] ls) = ls) /\
  (forall d, line_count d = 1 + count_char NL (dtext d)).
Proof.
  split; [exact join_lines|]. split; [intros d l; apply C02c_lines_no_nl|].
  split; [exact C02c_split_join|exact C02c_line_count].
Qed.
Print Assumptions C02_lines_split_join.

(* All views describe the same text *)
Theorem C02_views : forall d, valid d ->
  text_before_cursor d ++ text_after_cursor d = dtext d /\
  len (text_before_cursor d) = dcur d /\
  current_line d = current_line_before_cursor d ++ current_line_after_cursor d /\
  current_line d = nth (Z.to_nat (cursor_position_row d)) (lines d) [] /\
  cursor_position_row d = count_char NL (text_before_cursor d) /\
  cursor_position_col d = len (current_line_before_cursor d) /\
  mem_Z NL (current_line_before_cursor d) = false /\
  mem_Z NL (current_line_after_cursor d) = false /\
  (exists p, text_before_cursor d = p ++ current_line_before_cursor d /\
             (p = [] \/ exists p', p = p' ++ [NL])) /\
  (exists q, text_after_cursor d = current_line_after_cursor d ++ q /\
             (q = [] \/ exists q', q = NL :: q')).
Proof.
  intros d Hv. split; [now apply tb_ta|]. split; [now apply len_tb|]. split; [reflexivity|].
  split; [now apply C02c_current_line_nth|].
  destruct (C02c_cursor_row_col d Hv) as [Hr Hc]. split; [exact Hr|]. split; [exact Hc|].
  exact (C02c_line_parts d Hv).
Qed.
Print Assumptions C02_views.

Example C02_valid_satisfiable : valid (mkdoc [97; 10; 98] 2).
Proof. unfold valid; vm_compute; split; discriminate. Qed.
Print Assumptions C02_valid_satisfiable.

(* ====================================================================== *)
(* 2. Character and line motions *)

Theorem C02_left_right_in_bounds : forall d count, valid d ->
  0 <= dcur d + get_cursor_left_position d count <= len (dtext d) /\
  0 <= dcur d + get_cursor_right_position d count <= len (dtext d).
Proof. intros d c Hv. split; [now apply C02c_left_in_bounds|now apply C02c_right_in_bounds]. Qed.
Print Assumptions C02_left_right_in_bounds.

Theorem C02_left_right_same_line : forall d count, valid d ->
  (- len (current_line_before_cursor d) <= get_cursor_left_position d count
     <= len (current_line_after_cursor d)) /\
  (- len (current_line_before_cursor d) <= get_cursor_right_position d count
     <= len (current_line_after_cursor d)).
Proof. intros d c Hv. split; [now apply C02c_left_same_line|now apply C02c_right_same_line]. Qed.
Print Assumptions C02_left_right_same_line.

Theorem C02_left_right_lands : forall d count, valid d -> 0 <= count ->
  get_cursor_left_position d count = - Z.min (len (current_line_before_cursor d)) count /\
  get_cursor_right_position d count = Z.min count (len (current_line_after_cursor d)).
Proof. intros d c Hv Hc. split; [now apply C02c_left_lands|now apply C02c_right_lands]. Qed.
Print Assumptions C02_left_right_lands.

Theorem C02_start_end_of_line : forall d aw, valid d ->
  0 <= dcur d + get_start_of_line_position d aw <= len (dtext d) /\
  (- len (current_line_before_cursor d) <= get_start_of_line_position d aw
     <= len (current_line_after_cursor d)) /\
  get_start_of_line_position d false = - len (current_line_before_cursor d) /\
  0 <= dcur d + get_end_of_line_position d <= len (dtext d) /\
  get_end_of_line_position d = len (current_line_after_cursor d) /\
  (dcur d + get_end_of_line_position d = len (dtext d) \/
   nth_error (dtext d) (Z.to_nat (dcur d + get_end_of_line_position d)) = Some NL).
Proof.
  intros d aw Hv. split; [now apply C02c_start_of_line_in_bounds|].
  split; [now apply C02c_start_of_line_same_line|]. split; [now apply C02c_start_of_line_lands|].
  split; [now apply C02c_end_of_line_in_bounds|]. split; [reflexivity|now apply C02c_end_of_line_lands].
Qed.
Print Assumptions C02_start_end_of_line.

(* get_start_of_line_position(after_whitespace=True) lands on the first
   non-blank of the current line (or its end): column w of the line, where the
   first w characters are all blank (str.isspace) and the character at w, if
   any, is not; w characters = leading_whitespace_in_current_line *)
Theorem C02_start_of_line_after_whitespace_lands : forall d,
  let w := cursor_position_col d + get_start_of_line_position d true in
  0 <= w <= len (current_line d) /\
  forallb is_space (firstn (Z.to_nat w) (current_line d)) = true /\
  (forall x, nth_error (current_line d) (Z.to_nat w) = Some x -> is_space x = false) /\
  leading_whitespace_in_current_line d = firstn (Z.to_nat w) (current_line d).
Proof. exact start_of_line_after_whitespace_lands. Qed.
Print Assumptions C02_start_of_line_after_whitespace_lands.

(* up / down: defined and in bounds for EVERY count and preferred column (the
   assert count >= 1 is gone: fix 46fed32); a negative count is the opposite
   motion; for count >= 0 the target is
   (row -/+ min(count, available), min(preferred column, len of that line)) *)
Theorem C02_up_down_in_bounds : forall d count pc,
  (exists r, get_cursor_up_position d count pc = Some r) /\
  (exists r, get_cursor_down_position d count pc = Some r) /\
  (forall r, get_cursor_up_position d count pc = Some r -> 0 <= dcur d + r <= len (dtext d)) /\
  (forall r, get_cursor_down_position d count pc = Some r -> 0 <= dcur d + r <= len (dtext d)) /\
  (count < 0 ->
   get_cursor_up_position d count pc = get_cursor_down_position d (- count) pc /\
   get_cursor_down_position d count pc = get_cursor_up_position d (- count) pc).
Proof.
  intros d c pc. destruct (up_down_total d c pc) as [H1 H2].
  split; [exact H1|]. split; [exact H2|].
  split; [intros r; apply up_in_bounds|]. split; [intros r; apply down_in_bounds|].
  apply up_down_negative.
Qed.
Print Assumptions C02_up_down_in_bounds.

Theorem C02_up_lands : forall d count pc r,
  valid d -> 0 <= count -> get_cursor_up_position d count pc = Some r ->
  let row' := Z.max 0 (cursor_position_row d - count) in
  translate_index_to_position d (dcur d + r) =
  (row', Z.max 0 (Z.min (wanted_column d pc) (len (nth (Z.to_nat row') (lines d) [])))).
Proof. exact up_lands. Qed.
Print Assumptions C02_up_lands.

Theorem C02_down_lands : forall d count pc r,
  valid d -> 0 <= count -> get_cursor_down_position d count pc = Some r ->
  let row' := Z.min (cursor_position_row d + count) (line_count d - 1) in
  translate_index_to_position d (dcur d + r) =
  (row', Z.max 0 (Z.min (wanted_column d pc) (len (nth (Z.to_nat row') (lines d) [])))).
Proof. exact down_lands. Qed.
Print Assumptions C02_down_lands.

Example C02_up_defined : get_cursor_up_position (mkdoc [97; 10; 98] 2) 1 None = Some (-2).
Proof. vm_compute. reflexivity. Qed.
Print Assumptions C02_up_defined.

Theorem C02_column : forall d column, valid d ->
  0 <= dcur d + get_column_cursor_position d column <= len (dtext d) /\
  (- len (current_line_before_cursor d) <= get_column_cursor_position d column
     <= len (current_line_after_cursor d)) /\
  cursor_position_col d + get_column_cursor_position d column =
    Z.max 0 (Z.min (len (current_line d)) column).
Proof.
  intros d c Hv. split; [now apply column_in_bounds|]. split; [now apply column_same_line|].
  apply column_lands.
Qed.
Print Assumptions C02_column.

Theorem C02_start_end_of_document : forall d,
  dcur d + get_start_of_document_position d = 0 /\
  dcur d + get_end_of_document_position d = len (dtext d).
Proof. intros d. split; [apply start_of_document_lands|apply end_of_document_lands]. Qed.
Print Assumptions C02_start_end_of_document.

(* last_non_blank_of_current_line_position (after fix 1019c4b): always on the
   current line and in bounds; strictly before the end of a line that has a
   non-blank character; the line start on a blank line.
   (C02_last_non_blank_lands below: it is the LAST non-blank one.) *)
Theorem C02_last_non_blank : forall d, valid d ->
  - len (current_line_before_cursor d) <= last_non_blank_of_current_line_position d
    <= len (current_line_after_cursor d) /\
  0 <= dcur d + last_non_blank_of_current_line_position d <= len (dtext d) /\
  (rstrip_by is_space (current_line d) <> [] ->
   last_non_blank_of_current_line_position d < len (current_line_after_cursor d)) /\
  (rstrip_by is_space (current_line d) = [] ->
   last_non_blank_of_current_line_position d = - len (current_line_before_cursor d)).
Proof. exact last_non_blank_same_line. Qed.
Print Assumptions C02_last_non_blank.

(* ... and on a line with a non-blank character the target is THE last
   non-blank character: column L of the current line holds a non-blank and
   everything after it on the line is blank *)
Theorem C02_last_non_blank_lands : forall d,
  valid d -> rstrip_by is_space (current_line d) <> [] ->
  let L := cursor_position_col d + last_non_blank_of_current_line_position d in
  0 <= L < len (current_line d) /\
  (exists x, nth_error (current_line d) (Z.to_nat L) = Some x /\ is_space x = false) /\
  forallb is_space (skipn (Z.to_nat (L + 1)) (current_line d)) = true.
Proof. exact last_non_blank_lands. Qed.
Print Assumptions C02_last_non_blank_lands.

(* the function as it stood before the fix (finding C02-F1 = DESIGN F9, repaired
   in /repo by 1019c4b) left the text, resp. the line, on a blank line *)
Theorem C02_last_non_blank_pinned_in_bounds_refuted :
  exists d, valid d /\
    ~ (0 <= dcur d + last_non_blank_of_current_line_position_pinned d <= len (dtext d)).
Proof. exact last_non_blank_pinned_in_bounds_refuted. Qed.
Print Assumptions C02_last_non_blank_pinned_in_bounds_refuted.

Theorem C02_last_non_blank_pinned_same_line_refuted :
  exists d, valid d /\
    0 <= dcur d + last_non_blank_of_current_line_position_pinned d <= len (dtext d) /\
    ~ (- len (current_line_before_cursor d) <= last_non_blank_of_current_line_position_pinned d).
Proof. exact last_non_blank_pinned_same_line_refuted. Qed.
Print Assumptions C02_last_non_blank_pinned_same_line_refuted.

(* paragraphs: defined, in bounds, and never in the wrong direction (any count) *)
Theorem C02_paragraph_in_bounds : forall d count flag, valid d ->
  (exists r, start_of_paragraph d count flag = Some r) /\
  (exists r, end_of_paragraph d count flag = Some r) /\
  (forall r, start_of_paragraph d count flag = Some r -> 0 <= dcur d + r <= len (dtext d) /\ r <= 0) /\
  (forall r, end_of_paragraph d count flag = Some r -> 0 <= dcur d + r <= len (dtext d) /\ 0 <= r).
Proof.
  intros d c f Hv. destruct (paragraph_total d c f) as [H1 H2].
  split; [exact H1|]. split; [exact H2|].
  split; intros r; [now apply start_of_paragraph_in_bounds|now apply end_of_paragraph_in_bounds].
Qed.
Print Assumptions C02_paragraph_in_bounds.

(* where the paragraph motions land (counts >= 1): on the document start/end
   when no blank line lies above/below; otherwise at the blank row the line
   search returns, at the cursor's column clipped to that row, +1 / -1 unless
   before/after is set.  [count_blank] counts blank lines. *)
Theorem C02_start_of_paragraph_lands : forall d count before r,
  valid d -> 1 <= count -> start_of_paragraph d count before = Some r ->
  let row := cursor_position_row d in
  let col := cursor_position_col d in
  (count_blank (firstn (Z.to_nat row) (lines d)) = 0 /\ dcur d + r = 0) \/
  (exists k,
     find_previous_matching_line d count = Some (- k) /\ 1 <= k <= row /\
     blank_line (nth (Z.to_nat (row - k)) (lines d) []) = true /\
     dcur d + r = translate_row_col_to_index d (row - k) col + (if before then 0 else 1) /\
     translate_index_to_position d (translate_row_col_to_index d (row - k) col) =
     (row - k, Z.min col (len (nth (Z.to_nat (row - k)) (lines d) [])))).
Proof. exact C02p_start_of_paragraph_lands. Qed.
Print Assumptions C02_start_of_paragraph_lands.

Theorem C02_end_of_paragraph_lands : forall d count after r,
  valid d -> 1 <= count -> end_of_paragraph d count after = Some r ->
  let row := cursor_position_row d in
  let col := cursor_position_col d in
  (count_blank (skipn (Z.to_nat (row + 1)) (lines d)) = 0 /\ dcur d + r = len (dtext d)) \/
  (exists li,
     find_next_matching_line d count = Some li /\ 1 <= li /\ row + li < line_count d /\
     blank_line (nth (Z.to_nat (row + li)) (lines d) []) = true /\
     dcur d + r = translate_row_col_to_index d (row + li) col - (if after then 0 else 1) /\
     translate_index_to_position d (translate_row_col_to_index d (row + li) col) =
     (row + li, Z.min col (len (nth (Z.to_nat (row + li)) (lines d) [])))).
Proof. exact C02p_end_of_paragraph_lands. Qed.
Print Assumptions C02_end_of_paragraph_lands.

(* ... and which blank row that is: the count-th blank row above / below the
   cursor row, or the farthest one when there are fewer than count *)
Theorem C02_matching_line_is_count_th : forall d count li, valid d -> 1 <= count ->
  let row := cursor_position_row d in
  (find_previous_matching_line d count = Some li ->
   exists k, li = - k /\ 1 <= k <= row /\
     blank_line (nth (Z.to_nat (row - k)) (lines d) []) = true /\
     let b := count_blank (firstn (Z.to_nat k) (skipn (Z.to_nat (row - k)) (lines d))) in
     b <= count /\ (b = count \/ count_blank (firstn (Z.to_nat (row - k)) (lines d)) = 0)) /\
  (find_next_matching_line d count = Some li ->
   1 <= li /\ row + li < line_count d /\
   blank_line (nth (Z.to_nat (row + li)) (lines d) []) = true /\
   let b := count_blank (firstn (Z.to_nat li) (skipn (Z.to_nat (row + 1)) (lines d))) in
   b <= count /\ (b = count \/ count_blank (skipn (Z.to_nat (row + li + 1)) (lines d)) = 0)).
Proof.
  intros d count li Hv Hc. split; intros H;
    [exact (C02p_previous_matching_line d count li Hv Hc H)|exact (C02p_next_matching_line d count li Hv Hc H)].
Qed.
Print Assumptions C02_matching_line_is_count_th.

(* ====================================================================== *)
(* 3. find / find_backwards / find_all, for ANY character equivalence ceq
      (identity; case folding when ignore_case) *)

(* target after the cursor, whole match inside the text *)
Theorem C02_find_in_bounds : forall ceq d sub il ic count r,
  valid d -> dfind ceq d sub il ic count = Some r ->
  0 <= r /\ (ic = false -> 1 <= r) /\ dcur d + r + len sub <= len (dtext d).
Proof. exact find_in_bounds. Qed.
Print Assumptions C02_find_in_bounds.

(* the reported match really occurs at the target *)
Theorem C02_find_lands : forall ceq d sub il ic count r,
  valid d -> dfind ceq d sub il ic count = Some r -> occurs_at ceq (dtext d) (dcur d + r) sub.
Proof. exact find_lands. Qed.
Print Assumptions C02_find_lands.

Theorem C02_find_same_line : forall ceq d sub ic count r,
  valid d -> dfind ceq d sub true ic count = Some r ->
  0 <= r /\ r + len sub <= len (current_line_after_cursor d).
Proof. exact find_same_line. Qed.
Print Assumptions C02_find_same_line.

Theorem C02_find_backwards_in_bounds : forall ceq d sub il count r,
  valid d -> dfind_backwards ceq d sub il count = Some r ->
  r <= 0 /\ 0 <= dcur d + r /\ r + len sub <= 0.
Proof. exact find_backwards_in_bounds. Qed.
Print Assumptions C02_find_backwards_in_bounds.

Theorem C02_find_backwards_lands : forall ceq d sub il count r,
  valid d -> dfind_backwards ceq d sub il count = Some r ->
  occurs_at ceq (dtext d) (dcur d + r) sub.
Proof. exact find_backwards_lands. Qed.
Print Assumptions C02_find_backwards_lands.

Theorem C02_find_backwards_same_line : forall ceq d sub count r,
  valid d -> dfind_backwards ceq d sub true count = Some r ->
  - len (current_line_before_cursor d) <= r /\ r <= 0.
Proof. exact find_backwards_same_line. Qed.
Print Assumptions C02_find_backwards_same_line.

Theorem C02_find_all_lands : forall ceq d sub p,
  In p (dfind_all ceq d sub) -> occurs_at ceq (dtext d) p sub /\ p + len sub <= len (dtext d).
Proof. exact find_all_lands. Qed.
Print Assumptions C02_find_all_lands.

Example C02_find_defined : dfind ceq_exact (mkdoc [97; 98; 97; 98] 0) [97; 98] false false 1 = Some 2.
Proof. vm_compute. reflexivity. Qed.
Print Assumptions C02_find_defined.

(* Exactly which occurrence.  [greedy P step from l]: l is THE leftmost
   non-overlapping enumeration of the positions satisfying P from [from] on
   (head = least such k, next = least k >= head + step, nothing after the
   last); [occ ceq sub s k]: sub occurs in s at k and fits; step = max(1, len sub).
   The scanner for re.finditer(re.escape(sub), s) returns that list (it is
   unique), so find returns its count-th element and None iff it is shorter. *)
Theorem C02_find_iter_is_greedy : forall ceq sub s,
  greedy (occ ceq sub s) (fstep sub) 0 (find_iter ceq sub s) /\
  (forall l, greedy (occ ceq sub s) (fstep sub) 0 l -> find_iter ceq sub s = l).
Proof. intros. split; [apply find_iter_greedy|apply find_iter_is_the_greedy_list]. Qed.
Print Assumptions C02_find_iter_is_greedy.

Theorem C02_find_exact : forall ceq d sub il ic count l,
  greedy (occ ceq sub (find_scanned d il ic)) (fstep sub) 0 l ->
  dfind ceq d sub il ic count =
  if negb ic && (len (if il then current_line_after_cursor d else text_after_cursor d) =? 0) then None
  else option_map (fun p => if ic then p else p + 1) (nth_match l count).
Proof. exact find_exact. Qed.
Print Assumptions C02_find_exact.

(* the same in whole-text coordinates, also for in_current_line: the answers
   are the greedy occurrences k in the TEXT with lo <= k and k + len sub <= hi,
   lo = cursor (+1 unless include_current_position), hi = end of the current
   line (in_current_line) or of the text; no special case is left *)
Theorem C02_find_exact_text : forall ceq d sub (il ic : bool) count l,
  valid d ->
  greedy (fun k => occ ceq sub (dtext d) k /\ k + len sub <= find_hi d il) (fstep sub) (find_lo d ic) l ->
  dfind ceq d sub il ic count = option_map (fun k => k - dcur d) (nth_match l count).
Proof. exact find_exact_text. Qed.
Print Assumptions C02_find_exact_text.

(* the text before the cursor is scanned mirrored: occurrences are taken
   greedily from the right (occ_rev: an occurrence of the mirrored needle at p in
   the mirrored text is an occurrence at len - p - len sub) *)
Theorem C02_find_backwards_exact : forall ceq d sub (il : bool) count l,
  let before := if il then current_line_before_cursor d else text_before_cursor d in
  greedy (occ ceq (rev sub) (rev before)) (fstep sub) 0 l ->
  dfind_backwards ceq d sub il count = option_map (fun p => - p - len sub) (nth_match l count).
Proof. exact find_backwards_exact. Qed.
Print Assumptions C02_find_backwards_exact.

Theorem C02_occurrence_mirror : forall ceq sub s p,
  occ ceq (rev sub) (rev s) p <-> occ ceq sub s (len s - p - len sub).
Proof. exact occ_rev. Qed.
Print Assumptions C02_occurrence_mirror.

(* find_backwards in whole-text coordinates (round 6), also for in_current_line, no
   mirrored text in the statement: q is the distance from the cursor back to the
   END of an occurrence; the answers are the greedy enumeration (nearest first,
   the next at least max(1, len sub) further away) of the q >= 0 such that sub
   occurs in the TEXT at cursor - q - len sub and that start is not before lo
   (back_lo: 0, or the start of the current line) *)
Theorem C02_find_backwards_exact_text : forall ceq d sub (il : bool) count l,
  valid d ->
  greedy (fun q => occ ceq sub (dtext d) (dcur d - q - len sub) /\ back_lo d il <= dcur d - q - len sub)
         (fstep sub) 0 l ->
  dfind_backwards ceq d sub il count = option_map (fun q => - q - len sub) (nth_match l count).
Proof. exact find_backwards_exact_text. Qed.
Print Assumptions C02_find_backwards_exact_text.

(* such a list always exists; count = 1 is the nearest occurrence that ends at
   or before the cursor, None iff there is none *)
Theorem C02_find_backwards_first_is_nearest : forall ceq d sub (il : bool),
  valid d ->
  (exists l, greedy (fun q => occ ceq sub (dtext d) (dcur d - q - len sub) /\ back_lo d il <= dcur d - q - len sub)
                    (fstep sub) 0 l) /\
  (forall r, dfind_backwards ceq d sub il 1 = Some r ->
     forall k, occ ceq sub (dtext d) k -> back_lo d il <= k -> k + len sub <= dcur d -> k <= dcur d + r) /\
  (dfind_backwards ceq d sub il 1 = None ->
     forall k, occ ceq sub (dtext d) k -> back_lo d il <= k -> k + len sub <= dcur d -> False).
Proof.
  intros ceq d sub il Hv. split; [now apply find_backwards_greedy_exists|].
  now apply find_backwards_first_is_nearest.
Qed.
Print Assumptions C02_find_backwards_first_is_nearest.

(* has_match_at_current_position: exactly "sub occurs in the text at the cursor" *)
Theorem C02_has_match_exact : forall d sub, valid d ->
  (has_match_at_current_position d sub = true <-> occ ceq_exact sub (dtext d) (dcur d)).
Proof. exact has_match_exact. Qed.
Print Assumptions C02_has_match_exact.

(* find_all is complete: strictly increasing, every member is an occurrence,
   and every occurrence is listed or overlaps a listed one *)
Theorem C02_find_all_exact : forall ceq d sub,
  StronglySorted Z.lt (dfind_all ceq d sub) /\
  (forall m, In m (dfind_all ceq d sub) -> occ ceq sub (dtext d) m) /\
  (forall k, occ ceq sub (dtext d) k ->
     exists m, In m (dfind_all ceq d sub) /\ m <= k < m + fstep sub).
Proof. exact find_all_exact. Qed.
Print Assumptions C02_find_all_exact.

(* ====================================================================== *)
(* 4. Brackets *)

(* the target is inside the text, holds the closer, respects end_pos, and the
   span strictly between cursor and target is balanced *)
Theorem C02_enclosing_bracket_right : forall d l r ep v,
  valid d -> find_enclosing_bracket_right d l r ep = Some v ->
  0 <= v /\ dcur d + v < len (dtext d) /\
  nth_error (dtext d) (Z.to_nat (dcur d + v)) = Some r /\
  (forall e, ep = Some e -> v <> 0 -> dcur d + v < e) /\
  (0 < v -> r <> l /\
     balanced_span l r (firstn (Z.to_nat (v - 1)) (skipn (Z.to_nat (dcur d + 1)) (dtext d)))).
Proof. exact enclosing_right_spec. Qed.
Print Assumptions C02_enclosing_bracket_right.

(* the same backwards: opener at the target, start_pos respected, and the span
   between target and cursor (read backwards from the cursor) is balanced *)
Theorem C02_enclosing_bracket_left : forall d l r sp v,
  valid d -> find_enclosing_bracket_left d l r sp = Some v ->
  v <= 0 /\ 0 <= dcur d + v /\ dcur d + v < len (dtext d) /\
  nth_error (dtext d) (Z.to_nat (dcur d + v)) = Some l /\
  (forall s, sp = Some s -> v <> 0 -> s <= dcur d + v) /\
  (v < 0 -> l <> r /\
     balanced_span r l (firstn (Z.to_nat (- v - 1)) (rev (firstn (Z.to_nat (dcur d)) (dtext d))))).
Proof. exact enclosing_left_spec. Qed.
Print Assumptions C02_enclosing_bracket_left.

(* the scanners of find_enclosing_bracket_right/left, exactly (round 6; the
   functions apply them to text[cursor+1 : min(len, end_pos)] resp. to
   text[max(0,start_pos) : cursor] reversed, starting at depth 1): Some v iff v
   is THE first position of the span holding the closer (opener) with a balanced
   prefix before it; hence None iff the span has no such position *)
Theorem C02_bracket_scanners_exact : forall l r s v, l <> r ->
  (scan_right l r s 1 1 = Some v <->
   exists k : nat, v = 1 + Z.of_nat k /\ nth_error s k = Some r /\
     net l r (firstn k s) = 0 /\ (forall j : nat, (j <= k)%nat -> 0 <= net l r (firstn j s))) /\
  (scan_left l r s 1 1 = Some v <->
   exists k : nat, v = - (1 + Z.of_nat k) /\ nth_error s k = Some l /\
     net r l (firstn k s) = 0 /\ (forall j : nat, (j <= k)%nat -> 0 <= net r l (firstn j s))).
Proof. intros l r s v H. split; [now apply scan_right_exact|now apply scan_left_exact]. Qed.
Print Assumptions C02_bracket_scanners_exact.

(* ... and lifted to the Document, in text coordinates (round 7): the converse of
   C02_enclosing_bracket_right / _left.  Together: off the bracket itself (l <> r),
   the answer is Some v iff cursor + v is inside the limit, holds the partner and
   the span in between is balanced; such a v is unique, and None iff there is none *)
Theorem C02_enclosing_bracket_right_complete : forall d l r ep v,
  valid d -> l <> r -> opt_is (current_char d) r = false -> 0 < v ->
  dcur d + v < (match ep with None => len (dtext d) | Some e => Z.min (len (dtext d)) e end) ->
  nth_error (dtext d) (Z.to_nat (dcur d + v)) = Some r ->
  balanced_span l r (firstn (Z.to_nat (v - 1)) (skipn (Z.to_nat (dcur d + 1)) (dtext d))) ->
  find_enclosing_bracket_right d l r ep = Some v.
Proof. exact enclosing_right_complete. Qed.
Print Assumptions C02_enclosing_bracket_right_complete.

Theorem C02_enclosing_bracket_left_complete : forall d l r sp v,
  valid d -> l <> r -> opt_is (current_char d) l = false -> v < 0 ->
  (match sp with None => 0 | Some s => Z.max 0 s end) <= dcur d + v ->
  nth_error (dtext d) (Z.to_nat (dcur d + v)) = Some l ->
  balanced_span r l (firstn (Z.to_nat (- v - 1)) (rev (firstn (Z.to_nat (dcur d)) (dtext d)))) ->
  find_enclosing_bracket_left d l r sp = Some v.
Proof. exact enclosing_left_complete. Qed.
Print Assumptions C02_enclosing_bracket_left_complete.

Theorem C02_matching_bracket : forall d sp ep, valid d ->
  let v := find_matching_bracket_position d sp ep in
  0 <= dcur d + v <= len (dtext d) /\
  (v <> 0 -> exists a b, In (a, b) bracket_pairs /\
     ((0 < v /\ opt_is (current_char d) a = true /\
       nth_error (dtext d) (Z.to_nat (dcur d + v)) = Some b /\
       balanced_span a b (firstn (Z.to_nat (v - 1)) (skipn (Z.to_nat (dcur d + 1)) (dtext d)))) \/
      (v < 0 /\ opt_is (current_char d) b = true /\
       nth_error (dtext d) (Z.to_nat (dcur d + v)) = Some a /\
       balanced_span b a (firstn (Z.to_nat (- v - 1)) (rev (firstn (Z.to_nat (dcur d)) (dtext d))))))).
Proof. intros d sp ep Hv. exact (matching_loop_spec d sp ep bracket_pairs Hv). Qed.
Print Assumptions C02_matching_bracket.

Example C02_matching_defined : find_matching_bracket_position (mkdoc [40; 40; 41; 41] 0) None None = 3.
Proof. vm_compute. reflexivity. Qed.
Print Assumptions C02_matching_defined.

(* ====================================================================== *)
(* 5. Words *)

(* find_boundaries_of_current_word: both ends stay on the current line, start
   before and end after the cursor *)
Theorem C02_word_boundaries : forall d WORD lead trail s e,
  valid d -> find_boundaries_of_current_word d WORD lead trail = (s, e) ->
  (- len (current_line_before_cursor d) <= s <= 0 /\ 0 <= e <= len (current_line_after_cursor d)) /\
  (0 <= dcur d + s <= dcur d /\ dcur d <= dcur d + e <= len (dtext d)).
Proof.
  intros d W l t s e Hv H. split; [now apply (boundaries_same_line d W l t)|now apply (boundaries_in_bounds d W l t)].
Qed.
Print Assumptions C02_word_boundaries.

(* The scanner for _FIND_WORD_RE / _FIND_BIG_WORD_RE returns exactly maximal
   runs of one non-blank class, in order.  [clsat cls s j] is the class of the
   character at index j and 0 (blank) outside the string. *)
Theorem C02_runs_are_maximal_runs : forall cls s st en,
  In (st, en) (runs cls s) -> is_run cls s st en.
Proof. exact C02w_runs_is_run. Qed.
Print Assumptions C02_runs_are_maximal_runs.

Theorem C02_runs_sorted : forall cls s (a b : nat) st1 en1 st2 en2, (a < b)%nat ->
  nth_error (runs cls s) a = Some (st1, en1) ->
  nth_error (runs cls s) b = Some (st2, en2) -> en1 <= st2.
Proof. exact C02w_runs_sorted. Qed.
Print Assumptions C02_runs_sorted.

(* in bounds: for EVERY count (negative counts delegate to the opposite
   motion) except find_previous_word_ending with count = 0 *)
Theorem C02_word_motions_in_bounds : forall d count WORD incl r, valid d ->
  (find_start_of_previous_word d count WORD = Some r -> 0 <= dcur d + r <= len (dtext d)) /\
  (find_next_word_beginning d count WORD = Some r -> 0 <= dcur d + r <= len (dtext d)) /\
  (find_previous_word_beginning d count WORD = Some r -> 0 <= dcur d + r <= len (dtext d)) /\
  (find_next_word_ending d incl count WORD = Some r -> 0 <= dcur d + r <= len (dtext d)) /\
  (count <> 0 -> find_previous_word_ending d count WORD = Some r -> 0 <= dcur d + r <= len (dtext d)).
Proof.
  intros d c W i r Hv.
  split; [now apply C02w_start_of_previous_word_in_bounds|].
  split; [now apply C02w_next_word_beginning_in_bounds|].
  split; [now apply C02w_previous_word_beginning_in_bounds|].
  split; [now apply C02w_next_word_ending_in_bounds_all|].
  intros Hc. now apply C02w_previous_word_ending_in_bounds_nonzero.
Qed.
Print Assumptions C02_word_motions_in_bounds.

(* count = 0 is outside the property's quantifier; it does escape *)
Example C02_previous_word_ending_count0_out_of_bounds :
  find_previous_word_ending (mkdoc [97] 1) 0 false = Some 1.
Proof. exact C02w_previous_word_ending_count0_out_of_bounds. Qed.
Print Assumptions C02_previous_word_ending_count0_out_of_bounds.

(* direction, counts >= 1 *)
Theorem C02_word_motions_direction : forall d count WORD incl r, valid d -> 1 <= count ->
  (find_next_word_beginning d count WORD = Some r -> 1 <= r) /\
  (find_next_word_ending d incl count WORD = Some r -> 1 <= r) /\
  (find_previous_word_beginning d count WORD = Some r -> r < 0) /\
  (find_start_of_previous_word d count WORD = Some r -> r < 0) /\
  (find_previous_word_ending d count WORD = Some r -> r <= 0).
Proof.
  intros d c W i r Hv Hc.
  split; [now apply C02w_next_word_beginning_forward|].
  split; [now apply C02w_next_word_ending_forward|].
  split; [now apply C02w_previous_word_beginning_backward|].
  split; [now apply C02w_start_of_previous_word_backward|].
  intros H. now apply (C02w_previous_word_ending_in_bounds d c W r Hv Hc).
Qed.
Print Assumptions C02_word_motions_direction.

(* lands: the target of a "beginning" motion is the first character of a
   maximal run of the named class (word / WORD): it is not blank and the
   character before it has another class (or there is none) *)
Theorem C02_word_beginning_lands : forall d count WORD r, valid d -> 1 <= count ->
  (find_next_word_beginning d count WORD = Some r \/
   find_previous_word_beginning d count WORD = Some r \/
   find_start_of_previous_word d count WORD = Some r) ->
  clsat (word_cls WORD) (dtext d) (dcur d + r) <> 0 /\
  clsat (word_cls WORD) (dtext d) (dcur d + r - 1) <> clsat (word_cls WORD) (dtext d) (dcur d + r).
Proof.
  intros d c W r Hv Hc [H|[H|H]];
    [now apply (C02w_next_word_beginning_lands d c)|now apply (C02w_previous_word_beginning_lands d c)
    |now apply (C02w_start_of_previous_word_lands d c)].
Qed.
Print Assumptions C02_word_beginning_lands.

(* the target of find_next_word_ending is one past the last character of a
   maximal run *)
Theorem C02_next_word_ending_lands : forall d incl count WORD r, valid d -> 1 <= count ->
  find_next_word_ending d incl count WORD = Some r ->
  clsat (word_cls WORD) (dtext d) (dcur d + r - 1) <> 0 /\
  clsat (word_cls WORD) (dtext d) (dcur d + r) <> clsat (word_cls WORD) (dtext d) (dcur d + r - 1).
Proof. exact C02w_next_word_ending_lands. Qed.
Print Assumptions C02_next_word_ending_lands.

(* find_previous_word_ending does NOT land on a word end when the cursor is at
   the end of the text (known finding C02-F2, not repaired in /repo: "ab cd", cursor 5 -> -2, target 3, the
   character before the target is the blank) ... *)
Theorem C02_previous_word_ending_lands_refuted :
  exists d count WORD r,
    valid d /\ 1 <= count /\ find_previous_word_ending d count WORD = Some r /\
    ~ (clsat (word_cls WORD) (dtext d) (dcur d + r - 1) <> 0).
Proof. exact C02w_previous_word_ending_lands_refuted. Qed.
Print Assumptions C02_previous_word_ending_lands_refuted.

(* ... and does everywhere else.  partial: the hypothesis cursor < len is what
   fixes/C02-previous-word-ending-with-forward-word.patch removes. *)
Theorem C02_previous_word_ending_lands_partial : forall d count WORD r,
  valid d -> dcur d < len (dtext d) -> 1 <= count ->
  find_previous_word_ending d count WORD = Some r ->
  clsat (word_cls WORD) (dtext d) (dcur d + r - 1) <> 0 /\
  clsat (word_cls WORD) (dtext d) (dcur d + r) <> clsat (word_cls WORD) (dtext d) (dcur d + r - 1).
Proof. exact C02w_previous_word_ending_lands_partial. Qed.
Print Assumptions C02_previous_word_ending_lands_partial.

(* Exactly which run boundary (counts >= 1).  [word_start cls t j]: position j
   holds a non-blank whose predecessor has another class; [word_end cls t j]: j
   is one past such a run's last character; [enumerates P l]: l is THE strictly
   increasing list of all j with P j; [pick l count] its count-th element.
   The scanner's run starts/ends are exactly all word starts/ends: *)
Theorem C02_runs_are_all_words : forall cls s,
  enumerates (word_start cls s) (map fst (runs cls s)) /\
  enumerates (word_end cls s) (map snd (runs cls s)) /\
  (forall j, 0 <= j < len s -> clsat cls s j <> 0 ->
     exists st en, In (st, en) (runs cls s) /\ st <= j < en).
Proof.
  intros cls s. split; [apply C02x_run_starts|]. split; [apply C02x_run_ends|].
  intros j. apply C02x_runs_cover.
Qed.
Print Assumptions C02_runs_are_all_words.

(* the count-th word start after the cursor; None iff there are fewer *)
Theorem C02_next_word_beginning_exact : forall d count WORD,
  valid d -> 1 <= count ->
  forall l, enumerates (fun j => dcur d < j /\ word_start (word_cls WORD) (dtext d) j) l ->
    find_next_word_beginning d count WORD = option_map (fun j => j - dcur d) (pick l count) /\
    (find_next_word_beginning d count WORD = None <-> len l < count).
Proof.
  intros d c W Hv Hc l Hl. split; [now apply C02x_next_word_beginning_exact|now apply C02x_next_word_beginning_none].
Qed.
Print Assumptions C02_next_word_beginning_exact.

(* the count-th word end beyond the cursor (beyond cursor + 1 unless
   include_current_position) *)
Theorem C02_next_word_ending_exact : forall d (incl : bool) count WORD,
  valid d -> 1 <= count ->
  forall l, enumerates (fun j => (if incl then dcur d else dcur d + 1) < j /\
                                 word_end (word_cls WORD) (dtext d) j) l ->
    find_next_word_ending d incl count WORD = option_map (fun j => j - dcur d) (pick l count).
Proof. exact C02x_next_word_ending_exact. Qed.
Print Assumptions C02_next_word_ending_exact.

(* the count-th word start before the cursor, counting backwards *)
Theorem C02_previous_word_beginning_exact : forall d count WORD,
  valid d -> 1 <= count ->
  forall l, enumerates (fun j => j < dcur d /\ word_start (word_cls WORD) (dtext d) j) l ->
    find_previous_word_beginning d count WORD = option_map (fun j => j - dcur d) (pick (rev l) count) /\
    find_start_of_previous_word d count WORD = option_map (fun j => j - dcur d) (pick (rev l) count).
Proof.
  intros d c W Hv Hc l Hl. split; [now apply C02x_previous_word_beginning_exact|now apply C02x_start_of_previous_word_exact].
Qed.
Print Assumptions C02_previous_word_beginning_exact.

(* find_previous_word_ending, for EVERY valid cursor, the code as it is: with
   off = 1 when the cursor is at the end of the text (known finding C02-F2) and
   0 otherwise, the answer is the count-th word end j <= cursor - off, counting
   backwards, reported as j + off - cursor; None iff there are fewer.  So at
   the end of the text a word ending exactly at the cursor is never reported
   and every reported target is one past a word end. *)
Theorem C02_previous_word_ending_exact : forall d count WORD,
  valid d -> 1 <= count ->
  let off := if dcur d =? len (dtext d) then 1 else 0 in
  forall l, enumerates (fun j => j <= dcur d - off /\ word_end (word_cls WORD) (dtext d) j) l ->
    find_previous_word_ending d count WORD = option_map (fun j => j + off - dcur d) (pick (rev l) count).
Proof. exact C02x_previous_word_ending_exact. Qed.
Print Assumptions C02_previous_word_ending_exact.

Theorem C02_previous_word_ending_at_end_off_by_one : forall d count WORD r,
  valid d -> 1 <= count -> dcur d = len (dtext d) ->
  find_previous_word_ending d count WORD = Some r ->
  word_end (word_cls WORD) (dtext d) (dcur d + r - 1) /\ dcur d + r - 1 < dcur d.
Proof. exact C02x_previous_word_ending_at_end_off_by_one. Qed.
Print Assumptions C02_previous_word_ending_at_end_off_by_one.

Theorem C02_enumeration_unique : forall P l1 l2, enumerates P l1 -> enumerates P l2 -> l1 = l2.
Proof. exact enumerates_unique. Qed.
Print Assumptions C02_enumeration_unique.

(* get_word_before_cursor: empty, or exactly the characters from the start of
   the previous word to the cursor *)
Theorem C02_word_before_cursor : forall d WORD, valid d ->
  get_word_before_cursor d WORD = [] \/
  exists r, find_start_of_previous_word d 1 WORD = Some r /\ r < 0 /\ 0 <= dcur d + r /\
    get_word_before_cursor d WORD =
    firstn (Z.to_nat (- r)) (skipn (Z.to_nat (dcur d + r)) (dtext d)).
Proof. exact word_before_cursor_spec. Qed.
Print Assumptions C02_word_before_cursor.

(* find_boundaries_of_current_word, no whitespace flags: the returned span is
   exactly ONE maximal run of one non-blank class around the cursor (class
   purity + maximality on both sides); (0,0) only when the character under the
   cursor is blank / a newline / absent *)
Theorem C02_word_boundaries_is_run : forall d WORD s e,
  valid d -> find_boundaries_of_current_word d WORD false false = (s, e) ->
  ((s, e) <> (0, 0) -> is_run (word_cls WORD) (dtext d) (dcur d + s) (dcur d + e)) /\
  ((s, e) = (0, 0) -> clsat (word_cls WORD) (dtext d) (dcur d) = 0).
Proof.
  intros d W s e Hv H. split; [now apply C02y_boundaries_is_run|].
  intros He. injection He as -> ->. now apply (C02y_boundaries_none d W).
Qed.
Print Assumptions C02_word_boundaries_is_run.

(* include_trailing_whitespace: same start, the end is extended over the
   blanks that follow the word on the same line, maximally *)
Theorem C02_word_boundaries_trailing_ws : forall d WORD lead s e,
  valid d -> find_boundaries_of_current_word d WORD lead true = (s, e) ->
  exists e0,
    find_boundaries_of_current_word d WORD lead false = (s, e0) /\
    e0 <= e /\
    (forall j, dcur d + e0 <= j < dcur d + e ->
       exists x, nth_error (dtext d) (Z.to_nat j) = Some x /\ re_space x = true /\ x <> NL) /\
    (e0 = 0 -> e = 0) /\
    (forall x, index (dtext d) (dcur d + e) = Some x -> e0 <> 0 -> re_space x = false \/ x = NL).
Proof. exact C02y_boundaries_trailing_ws. Qed.
Print Assumptions C02_word_boundaries_trailing_ws.

(* include_leading_whitespace: same end, the start is extended over the blanks
   that precede the word on the same line, maximally *)
Theorem C02_word_boundaries_leading_ws : forall d WORD trail s e,
  valid d -> find_boundaries_of_current_word d WORD true trail = (s, e) ->
  exists s0,
    find_boundaries_of_current_word d WORD false trail = (s0, e) /\
    s <= s0 <= 0 /\
    (forall j, dcur d + s <= j < dcur d + s0 ->
       exists x, nth_error (dtext d) (Z.to_nat j) = Some x /\ re_space x = true /\ x <> NL) /\
    (s0 = 0 -> s = 0) /\
    (forall x, 0 <= dcur d + s - 1 -> nth_error (dtext d) (Z.to_nat (dcur d + s - 1)) = Some x ->
       s0 <> 0 -> re_space x = false \/ x = NL).
Proof. exact C02y_boundaries_leading_ws. Qed.
Print Assumptions C02_word_boundaries_leading_ws.

(* get_word_under_cursor is exactly the characters of that run *)
Theorem C02_word_under_cursor : forall d WORD, valid d ->
  let '(s, e) := find_boundaries_of_current_word d WORD false false in
  get_word_under_cursor d WORD =
  firstn (Z.to_nat (e - s)) (skipn (Z.to_nat (dcur d + s)) (dtext d)).
Proof. exact C02y_word_under_cursor. Qed.
Print Assumptions C02_word_under_cursor.

Example C02_word_motion_defined :
  find_next_word_beginning (mkdoc [97; 98; 32; 99] 0) 1 false = Some 3.
Proof. vm_compute. reflexivity. Qed.
Print Assumptions C02_word_motion_defined.

(* pattern= (round 6): find_start_of_previous_word / get_word_before_cursor with a
   compiled regex of one of the families [s1]+|[s2]+, [^s1]+ (runs of one class of
   the pattern) and ^[s1]* (FuzzyCompleter's default): the count-th run start
   before the cursor; for ^[s1]* the one run of s1 characters ending at the cursor *)
Theorem C02_start_of_previous_word_pattern_exact : forall d count p,
  valid d -> 1 <= count -> (forall s1, p <> PStar s1) ->
  forall l, enumerates (fun j => j < dcur d /\ word_start (pat_cls p) (dtext d) j) l ->
    find_start_of_previous_word_pat d count p = option_map (fun j => j - dcur d) (pick (rev l) count).
Proof. exact start_of_previous_word_pattern_runs. Qed.
Print Assumptions C02_start_of_previous_word_pattern_exact.

Theorem C02_start_of_previous_word_pattern_star : forall d count s1,
  let k := span_len (fun c => mem_Z c s1) (rev (text_before_cursor d)) in
  find_start_of_previous_word_pat d count (PStar s1) = (if count =? 1 then Some (- k) else None) /\
  0 <= k <= len (text_before_cursor d) /\
  (forall j : nat, Z.of_nat j < k ->
     exists x, nth_error (rev (text_before_cursor d)) j = Some x /\ mem_Z x s1 = true) /\
  (forall x, nth_error (rev (text_before_cursor d)) (Z.to_nat k) = Some x -> mem_Z x s1 = false).
Proof. exact start_of_previous_word_pattern_star. Qed.
Print Assumptions C02_start_of_previous_word_pattern_star.

Theorem C02_word_before_cursor_pattern : forall d p, valid d ->
  (find_start_of_previous_word_pat d 1 p = None /\ get_word_before_cursor_pat d p = []) \/
  (exists r, find_start_of_previous_word_pat d 1 p = Some r /\
     get_word_before_cursor_pat d p = slice_from (text_before_cursor d) (len (text_before_cursor d) + r)).
Proof. exact word_before_cursor_pattern. Qed.
Print Assumptions C02_word_before_cursor_pattern.

Example C02_pattern_defined :
  find_start_of_previous_word_pat (mkdoc [97; 98; 32; 99] 4) 2 (PRuns [97; 98; 99] []) = Some (-4).
Proof. vm_compute. reflexivity. Qed.
Print Assumptions C02_pattern_defined.

(* empty_line_count_at_the_end (round 6): exactly the number of trailing blank
   lines: the last n lines are blank and the line before them (if any) is not *)
Theorem C02_empty_line_count_exact : forall d,
  let n := empty_line_count_at_the_end d in
  0 <= n <= line_count d /\
  (forall j, line_count d - n <= j < line_count d ->
     blank_line (nth (Z.to_nat j) (lines d) []) = true) /\
  (n < line_count d ->
     blank_line (nth (Z.to_nat (line_count d - n - 1)) (lines d) []) = false).
Proof. exact empty_line_count_exact. Qed.
Print Assumptions C02_empty_line_count_exact.

(* the character / boolean views (round 6) describe the same text as the others *)
Theorem C02_views_chars : forall d, valid d ->
  (dcur d < len (dtext d) -> current_char d = nth_error (dtext d) (Z.to_nat (dcur d))) /\
  (dcur d = len (dtext d) -> current_char d = None) /\
  (0 < dcur d -> char_before_cursor d = nth_error (dtext d) (Z.to_nat (dcur d - 1))) /\
  (is_cursor_at_the_end d = true <-> text_after_cursor d = []) /\
  (is_cursor_at_the_end_of_line d = true <-> current_line_after_cursor d = []) /\
  (on_first_line d = true <-> mem_Z NL (text_before_cursor d) = false) /\
  (on_last_line d = true <-> mem_Z NL (text_after_cursor d) = false).
Proof. exact views_chars. Qed.
Print Assumptions C02_views_chars.

Theorem C02_lines_from_current : forall d, valid d ->
  lines_from_current d = skipn (Z.to_nat (cursor_position_row d)) (lines d) /\
  exists rest, lines_from_current d = current_line d :: rest.
Proof. exact lines_from_current_spec. Qed.
Print Assumptions C02_lines_from_current.

(* ====================================================================== *)
(* 5b. The shared line cache (Model/C02_Cache.v: a memo table keyed by the text)
   is transparent: from the empty table, in every sequence of document
   creations, lines / line-start-table queries and evictions of any texts, every
   query answers exactly as the cache-free function; the invariant "what is
   stored for a text is what the text determines" is preserved by every step. *)
Theorem C02_cache_transparent : forall ops, fst (crun [] ops) = map cspec ops.
Proof. exact cache_transparent. Qed.
Print Assumptions C02_cache_transparent.

Theorem C02_cache_step : forall c o,
  cache_ok c -> fst (cstep c o) = cspec o /\ cache_ok (snd (cstep c o)).
Proof. exact cstep_correct. Qed.
Print Assumptions C02_cache_step.

Theorem C02_cached_queries : forall c t, cache_ok c ->
  fst (cached_lines c t) = lines (mkdoc t 0) /\
  fst (cached_indexes c t) = line_start_indexes (mkdoc t 0) /\
  ce_lines (centry_of (snd (cached_lines (cnew c t) t)) t) = Some (lines (mkdoc t 0)).
Proof.
  intros c t Hc. split; [apply (cached_lines_correct c t Hc)|].
  split; [apply (cached_indexes_correct c t Hc)|now apply lines_are_cached].
Qed.
Print Assumptions C02_cached_queries.

(* the regenerated re.IGNORECASE relation used by run_C02 is symmetric and
   relates only characters of its alphabet (re-proved per run over the table) *)
Theorem C02_fold_table : forall a b,
  mem_pair a b c02_fold_pairs = true ->
  mem_pair b a c02_fold_pairs = true /\ mem_Z a c02_fold_alphabet = true /\ mem_Z b c02_fold_alphabet = true /\ a <> b.
Proof. exact fold_table_facts. Qed.
Print Assumptions C02_fold_table.

(* the cache carried between DOCUMENTS (round 6): live Document objects in slots,
   created, queried (any query pre-seeds the cache according to its footprint),
   dropped, and produced from live ones by paste_clipboard_data / insert_after /
   insert_before / copying.  In every such history from an empty process every
   answer is the cache-free one and the live documents are the same ... *)
Theorem C02_slots_cache_transparent : forall ops,
  fst (srun ([], []) ops) = fst (sfree_run [] ops) /\
  fst (snd (srun ([], []) ops)) = snd (sfree_run [] ops).
Proof. exact slots_cache_transparent. Qed.
Print Assumptions C02_slots_cache_transparent.

(* ... and whatever the table holds for a text afterwards is what that text
   determines (also for a pasted document and every equal-text document) *)
Theorem C02_slots_cache_entries : forall ops t e,
  clookup (snd (snd (srun ([], []) ops))) t = Some e ->
  (forall l, ce_lines e = Some l -> l = lines (mkdoc t 0)) /\
  (forall ix, ce_indexes e = Some ix -> ix = line_start_indexes (mkdoc t 0)).
Proof. exact slots_cache_entries. Qed.
Print Assumptions C02_slots_cache_entries.

Theorem C02_slots_step : forall s c o,
  cache_ok c ->
  fst (sstep (s, c) o) = fst (sfree s o) /\
  fst (snd (sstep (s, c) o)) = snd (sfree s o) /\
  cache_ok (snd (snd (sstep (s, c) o))).
Proof. exact sstep_correct. Qed.
Print Assumptions C02_slots_step.

(* what run_C02 uses for ignore_case=True (a positive map built from the table) is
   exactly "equal, or listed in the regenerated table", and (the table now covers
   every cased code point of the interpreter) it is an equivalence relation *)
Theorem C02_fold_lookup : forall x y, ceq_fold x y = (x =? y) || mem_pair y x c02_fold_pairs.
Proof. exact ceq_fold_spec. Qed.
Print Assumptions C02_fold_lookup.

Theorem C02_fold_equivalence :
  (forall x, ceq_fold x x = true) /\
  (forall x y, ceq_fold x y = true -> ceq_fold y x = true) /\
  (forall x y z, ceq_fold x y = true -> ceq_fold y z = true -> ceq_fold x z = true).
Proof. exact ceq_fold_equivalence. Qed.
Print Assumptions C02_fold_equivalence.

(* ====================================================================== *)
(* 6. Tie of the scanners to /repo's regex pattern strings (regenerated) *)

Theorem C02_patterns :
  pat_find_word = [LP] ++ p_word ++ [BAR] ++ p_other ++ [RP] /\
  pat_find_current_word = [CARET; LP] ++ p_word ++ [BAR] ++ p_other ++ [RP] /\
  pat_find_current_word_ws = [CARET; LP; LP] ++ p_word ++ [BAR] ++ p_other ++ [RP] ++ p_spaces ++ [RP] /\
  pat_find_big_word = [LP] ++ p_nonspace ++ [RP] /\
  pat_find_current_big_word = [CARET; LP] ++ p_nonspace ++ [RP] /\
  pat_find_current_big_word_ws = [CARET; LP] ++ p_nonspace ++ p_spaces ++ [RP] /\
  pat_find_word_flags = RE_UNICODE /\ pat_find_current_word_flags = RE_UNICODE /\
  pat_find_current_word_ws_flags = RE_UNICODE /\ pat_find_big_word_flags = RE_UNICODE /\
  pat_find_current_big_word_flags = RE_UNICODE /\ pat_find_current_big_word_ws_flags = RE_UNICODE.
Proof. exact C02_patterns_as_modelled. Qed.
Print Assumptions C02_patterns.

Theorem C02_word_alphabet_is_class : forall c, is_wordch c = mem_Z c word_alphabet.
Proof. exact C02_word_alphabet. Qed.
Print Assumptions C02_word_alphabet_is_class.

(* the shared cache object has exactly the fields of the cache model, Document exactly
   the four slots the model knows (regenerated; a new cached field stops the build) *)
Theorem C02_cache_fields :
  document_cache_fields = [ [108; 105; 110; 101; 115];
                            [108; 105; 110; 101; 95; 105; 110; 100; 101; 120; 101; 115] ]
  /\ document_slots = [ [95; 116; 101; 120; 116];
                        [95; 99; 117; 114; 115; 111; 114; 95; 112; 111; 115; 105; 116; 105; 111; 110];
                        [95; 115; 101; 108; 101; 99; 116; 105; 111; 110];
                        [95; 99; 97; 99; 104; 101] ].
Proof. exact C02_cache_fields_as_modelled. Qed.
Print Assumptions C02_cache_fields.
