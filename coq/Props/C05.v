(* C05 - No key sequence can crash the line editor or break its state invariants.
   Statements only; proofs in Proofs/C05_*.v.

   [est] (Model/C05_Editor.v) is the editor state: text, cursor, selection
   anchor, multiple cursors, read-only flag, working lines, Vi state.
   EInv s  = 0 <= cursor <= len(text) and the selection anchor (if any) likewise.
   MInv s  = every multiple-cursor position within 0..len(text).
   Errors: E_ASSERT (AssertionError), E_INDEX (IndexError), E_READONLY
   (EditReadOnlyBuffer, swallowed by KeyProcessor._call_handler).

   Layers: L1 Buffer mutators (unbounded), L2 the Vi cursor fix (unbounded),
   L3 Escape dispatch over the regenerated binding table for every valuation of
   the filter atoms, L4 the modelled handler set (suffix _partial: the handler
   set is the limitation; everything else is explored, not proved). *)
From Coq Require Import ZArith List Bool.
From PTK Require Import Lib.Sx Lib.Py Lib.C05_Filter Gen.C05_Bindings Model.Document
  Model.C05_Dispatch Model.C05_Editor Proofs.C05_EditorFacts Proofs.C05_EscapeFacts Proofs.C05_Main
  Proofs.C05_MultiCursor Proofs.C05_DispatchFacts Proofs.C05_DispatchCheck Proofs.C05_DispatchLoop
  Proofs.C05_ArgFacts Model.C05_BlockInsert Proofs.C05_BlockInsertFacts.
Import ListNotations.
Open Scope Z_scope.

(* L1 - every Buffer mutator of the model, any arguments, exceptions included,
   keeps cursor and selection anchor within the text; so does every sequence. *)
Theorem C05_buffer_inv : forall s o, EInv s -> EInv (eres_st (bstep s o)).
Proof. exact bstep_inv. Qed.
Print Assumptions C05_buffer_inv.

Theorem C05_buffer_history_inv : forall ops s, EInv s -> EInv (bsteps s ops).
Proof. exact bsteps_inv. Qed.
Print Assumptions C05_buffer_history_inv.

(* L1 - the working index stays within the working lines (0 <= working_index <
   len(_working_lines)): every mutator, any arguments (negative and oversized
   history indices and counts included), exceptions included; every sequence. *)
Theorem C05_buffer_windex_inv : forall s o, WInv s -> WInv (eres_st (bstep s o)).
Proof. exact bstep_winv. Qed.
Print Assumptions C05_buffer_windex_inv.

Theorem C05_buffer_history_windex_inv : forall ops s, WInv s -> WInv (bsteps s ops).
Proof. exact bsteps_winv. Qed.
Print Assumptions C05_buffer_history_windex_inv.

(* ... which go_to_history as it stood before fix c767972 (no lower bound on the
   index) did not satisfy: index -1 is stored as the working index, index -5
   raises IndexError after having been stored (audit item 1). *)
Theorem C05_go_to_history_pinned_refuted :
  exists s, WInv s /\ EInv s /\
    ~ WInv (eres_st (go_to_history_pinned s (-1))) /\
    (exists s', go_to_history_pinned s (-5) = EErr E_INDEX s' /\ ewi s' = -5).
Proof. exact go_to_history_pinned_refuted. Qed.
Print Assumptions C05_go_to_history_pinned_refuted.

(* L1 - the only exceptions a mutator raises are the declared ones *)
Theorem C05_buffer_errors_declared : forall s o c s',
  bstep s o = EErr c s' -> c = E_ASSERT \/ c = E_READONLY.
Proof. exact bstep_err_declared. Qed.
Print Assumptions C05_buffer_errors_declared.

(* L1 - exact Ok conditions: insertion never trips the Document assertion;
   deletion before the cursor needs count >= 0; up/down are total for every
   count (since the fix of finding C05-F1, commit 46fed32) *)
Theorem C05_insert_total : forall s d ow mv,
  CInv s -> (exists s', insert_text s d ow mv = EOk s') \/
            (ero s = true /\ insert_text s d ow mv = EErr E_READONLY s).
Proof. exact insert_text_total. Qed.
Print Assumptions C05_insert_total.

Theorem C05_delete_before_total : forall s n,
  CInv s -> 0 <= n ->
  (exists s', delete_before_cursor s n = EOk s') \/
  (ero s = true /\ delete_before_cursor s n = EErr E_READONLY s).
Proof. exact delete_before_cursor_total. Qed.
Print Assumptions C05_delete_before_total.

Theorem C05_delete_total : forall s n,
  (exists s', delete s n = EOk s') \/ (exists s', delete s n = EErr E_READONLY s').
Proof. exact delete_total. Qed.
Print Assumptions C05_delete_total.

Theorem C05_cursor_up_total : forall s n, exists s', cursor_up s n = EOk s'.
Proof. exact cursor_up_total. Qed.
Print Assumptions C05_cursor_up_total.

Theorem C05_cursor_down_total : forall s n, exists s', cursor_down s n = EOk s'.
Proof. exact cursor_down_total. Qed.
Print Assumptions C05_cursor_down_total.

(* L2 - after KeyProcessor._fix_vi_cursor_position, in Vi navigation mode the
   cursor does not rest past the last character of a non-empty line *)
Theorem C05_vi_fixup : forall s,
  CInv s -> vi_navigation_mode s = true -> rests_past_end (fix_vi_cursor_position s) = false.
Proof. exact fix_vi_rests. Qed.
Print Assumptions C05_vi_fixup.

(* L2 + L4 - after every command the key processor completes for a modelled
   handler (returned normally, or its EditReadOnlyBuffer was swallowed - the
   fix-up runs on that path too since commit aacfec4): if Vi is then in
   navigation mode the cursor does not rest past the last character of a
   non-empty line. *)
Theorem C05_vi_rule_after_command_partial : forall h s arg data s',
  EInv s -> call_handler h s arg data = EOk s' ->
  vi_navigation_mode s' = true -> rests_past_end s' = false.
Proof. exact call_handler_rests. Qed.
Print Assumptions C05_vi_rule_after_command_partial.

(* L3 - over the regenerated table: in Vi mode, buffer focused, outside a
   quoted insert, for EVERY valuation of the filter atoms, a key buffer holding
   [Escape] is dispatched at once (flush or not) to a row whose handler is
   _back_to_navigation or accept_search. *)
Theorem C05_escape_dispatch : forall (v : Z -> bool) (flush : bool),
  v a_vi_mode = true -> v a_emacs_mode = false -> v a_buffer_has_focus = true ->
  v a_in_quoted_insert = false ->
  escape_ok (match_step bindings v [K_Escape] flush) = true.
Proof. exact escape_dispatch. Qed.
Print Assumptions C05_escape_dispatch.

(* L3 + L4 - ... and the model of that handler, run through _call_handler from
   any state, ends in navigation mode with no operator, operator argument or
   digraph pending (ViState.input_mode setter). *)
Theorem C05_escape : forall (v : Z -> bool) (flush : bool) (s : est) (arg : Z) (data : str),
  v a_vi_mode = true -> v a_emacs_mode = false -> v a_buffer_has_focus = true ->
  v a_in_quoted_insert = false ->
  exists idx th h s',
    match_step bindings v [K_Escape] flush = Call idx 1 /\
    handler_at idx = Some th /\ model_of_table_handler th = Some h /\
    call_handler h s arg data = EOk s' /\ nav_clean s'.
Proof. exact escape_full. Qed.
Print Assumptions C05_escape.

(* L4 - every modelled handler, through _call_handler, keeps the invariant:
   any state, any repeat count, any data, exceptions included; lifted to every
   sequence of such keys.  _partial: 38 handler models out of the table's
   handler set. *)
Theorem C05_step_inv_partial : forall h s arg data,
  EInv s -> EInv (eres_st (call_handler h s arg data)).
Proof. exact call_handler_inv. Qed.
Print Assumptions C05_step_inv_partial.

Theorem C05_key_sequence_inv_partial : forall ks s, EInv s -> EInv (hsteps s ks).
Proof. exact hsteps_inv. Qed.
Print Assumptions C05_key_sequence_inv_partial.

(* L4 - totality: for ANY repeat count (zero and negative included), with
   multiple cursors within the text, no exception leaves _call_handler
   (EditReadOnlyBuffer is swallowed). *)
Theorem C05_step_total_partial : forall h s arg data,
  EInv s -> MInv s ->
  exists s', call_handler h s arg data = EOk s' /\ EInv s'.
Proof. exact call_handler_total. Qed.
Print Assumptions C05_step_total_partial.

(* ... the multiple-cursor hypothesis is necessary: with a position beyond
   the text, Backspace in insert-multiple mode raises IndexError. *)
Theorem C05_step_total_needs_multicursor_range :
  exists s, EInv s /\ ~ MInv s /\ call_handler HViBackspaceMulti s 1 [] = EErr E_INDEX s.
Proof. exact stale_multicursor_escapes. Qed.
Print Assumptions C05_step_total_needs_multicursor_range.

(* Multiple cursors - in Vi insert-multiple mode the five editing handlers
   (typed character, Backspace, Delete, Left, Right), run through
   _call_handler from any state whose cursors are sorted and inside the text
   (MWF), leave them sorted and inside the text - for any data of at least one
   character, read-only buffers and swallowed exceptions included; lifted to
   every sequence of such keys.  (Entering the mode - block selection + I/A -
   and leaving the text alone while in it is what the findings F8/F9 and the
   seeded change C05-7 were about: that part is explored, not proved.) *)
Theorem C05_multicursor_inv : forall h s arg data,
  multi_handler h -> MWF s -> (h = HViInsertMulti -> 1 <= len data) ->
  MWF (eres_st (call_handler h s arg data)).
Proof. exact call_multi_wf. Qed.
Print Assumptions C05_multicursor_inv.

Theorem C05_multicursor_sequence_inv : forall ks s,
  (forall h a d, In (h, a, d) ks -> multi_handler h /\ (h = HViInsertMulti -> 1 <= len d)) ->
  MWF s -> MWF (fold_left mstep ks s).
Proof. exact multi_steps_wf. Qed.
Print Assumptions C05_multicursor_sequence_inv.

Theorem C05_multicursor_wf_in_range : forall s, MWF s -> MInv s.
Proof. exact MWF_MInv. Qed.
Print Assumptions C05_multicursor_wf_in_range.

(* Dispatch, any table, any valuation, ANY non-empty key buffer: what is called
   is a row of the table, active, whose keys are exactly the consumed prefix; a
   key is dropped only when no active row matches any prefix; the processor
   waits only before the flush, while a longer active row may still match and
   no eager exact match exists. *)
Theorem C05_dispatch_sound : forall tbl v ks flush idx n,
  ks <> [] -> match_step tbl v ks flush = Call idx n -> called_ok tbl v ks idx n.
Proof. exact match_step_sound. Qed.
Print Assumptions C05_dispatch_sound.

Theorem C05_dispatch_drop : forall tbl v ks flush,
  match_step tbl v ks flush = DropOne ->
  forall j, (1 <= j <= length ks)%nat -> get_matches tbl v (firstn j ks) = [].
Proof. exact match_step_drop. Qed.
Print Assumptions C05_dispatch_drop.

Theorem C05_dispatch_wait : forall tbl v ks flush,
  match_step tbl v ks flush = Wait ->
  flush = false /\ is_prefix_of_longer tbl v ks = true /\
  filter (fun ib => feval v (beager (snd ib))) (get_matches tbl v ks) = [].
Proof. exact match_step_wait. Qed.
Print Assumptions C05_dispatch_wait.

(* Escape with a NON-EMPTY key buffer, over the regenerated table, every
   valuation (Vi mode, focus, no quoted insert):
   - after a key that awaits a character argument (f F t T r dquote q @), in
     navigation / selection / operator-pending mode, both keys go to
     _back_to_navigation at once (eager);
   - after ANY key that can be pending (a one-key buffer waits only for a first
     key of a multi-key row, and no such row starts with the wildcard), the
     processor never waits: both keys go to _back_to_navigation, or exactly one
     key is consumed or dropped and Escape is dispatched again on its own -
     where C05_escape applies. *)
Theorem C05_escape_after_char_argument_key : forall (v : Z -> bool) (flush : bool) (p m : Z),
  In p char_arg_prefixes -> In m pending_modes -> v m = true ->
  v a_vi_mode = true -> v a_emacs_mode = false -> v a_buffer_has_focus = true ->
  v a_in_quoted_insert = false ->
  calls_back_to_nav 2 (match_step bindings v [p; K_Escape] flush) = true.
Proof. exact escape_after_prefix. Qed.
Print Assumptions C05_escape_after_char_argument_key.

Theorem C05_escape_after_pending_key : forall (v : Z -> bool) (flush : bool) (k : Z),
  In k first_keys ->
  v a_vi_mode = true -> v a_emacs_mode = false -> v a_buffer_has_focus = true ->
  v a_in_quoted_insert = false ->
  escape_progress (match_step bindings v [k; K_Escape] flush) = true.
Proof. exact escape_after_any_pending. Qed.
Print Assumptions C05_escape_after_pending_key.

(* ... and with TWO keys pending (first key of a three-key row; second key any
   key of the table or a key the table does not mention): never waits; a
   three-key call is _back_to_navigation, otherwise one or two keys are
   consumed and the rest is looked at again: after two keys [Escape] (C05_escape);
   after one key [k2; Escape], which is C05_escape_after_pending_key when k2 is
   a first key of a multi-key row and C05_escape_after_non_pending_key when not. *)
Theorem C05_escape_after_two_pending_keys : forall (v : Z -> bool) (flush : bool) (k1 k2 : Z),
  In (k1, k2) pending_pairs ->
  v a_vi_mode = true -> v a_emacs_mode = false -> v a_buffer_has_focus = true ->
  v a_in_quoted_insert = false ->
  escape_progress3 (match_step bindings v [k1; k2; K_Escape] flush) = true.
Proof. exact escape_after_two_pending. Qed.
Print Assumptions C05_escape_after_two_pending_keys.

(* [k; Escape] for a key that is not the first key of any multi-key row: exactly
   one key is called or dropped (never both, never Wait), for every valuation. *)
Theorem C05_escape_after_non_pending_key : forall (v : Z -> bool) (flush : bool) (k : Z),
  ~ In k first_keys ->
  match_step bindings v [k; K_Escape] flush = DropOne \/
  exists idx, match_step bindings v [k; K_Escape] flush = Call idx 1.
Proof. exact escape_after_non_pending_key. Qed.
Print Assumptions C05_escape_after_non_pending_key.

Theorem C05_fresh_key_is_fresh : mem_Z fresh_key table_keys = false.
Proof. exact fresh_key_is_fresh. Qed.
Print Assumptions C05_fresh_key_is_fresh.

Theorem C05_pending_key_is_first_key : forall (v : Z -> bool) (flush : bool) (k : Z),
  match_step bindings v [k] flush = Wait -> In k first_keys \/ In K_Any first_keys.
Proof. exact pending_key_is_first_key. Qed.
Print Assumptions C05_pending_key_is_first_key.

Theorem C05_no_wildcard_first_key : mem_Z K_Any first_keys = false.
Proof. exact no_wildcard_first_key. Qed.
Print Assumptions C05_no_wildcard_first_key.

(* ---------------------------------------------------------------------- *)
(* Round 6: Escape behind ANY content of the key buffer. *)

(* The processor waits only while a strictly longer row exists (any table) ... *)
Theorem C05_wait_needs_longer_row : forall tbl v ks flush,
  match_step tbl v ks flush = Wait -> exists b, In b tbl /\ len ks < len (bkeys b).
Proof. exact wait_longer_row. Qed.
Print Assumptions C05_wait_needs_longer_row.

(* ... and the longest row of the regenerated table has three keys: never more
   than two keys are pending, in any state. *)
Theorem C05_pending_keys_at_most_two : forall v ks flush,
  match_step bindings v ks flush = Wait -> len ks <= 2.
Proof. exact wait_at_most_two. Qed.
Print Assumptions C05_pending_keys_at_most_two.

(* Keys the table does not mention are interchangeable: dispatch is the same for
   two key buffers that differ only in such keys (closes the "fresh key" gap of
   C05_escape_after_two_pending_keys). *)
Theorem C05_unlisted_keys_interchangeable : forall v ks ks' flush,
  Forall2 keq ks ks' -> match_step bindings v ks flush = match_step bindings v ks' flush.
Proof. exact match_step_keq. Qed.
Print Assumptions C05_unlisted_keys_interchangeable.

(* One evaluation on ANY key buffer that ends in Escape (Vi mode, focus, no
   quoted insert, every valuation): never waits; consumes the whole buffer only
   with _back_to_navigation (accept_search too for [Escape] alone); otherwise
   consumes or drops a proper prefix, so Escape stays last in the buffer. *)
Theorem C05_escape_step_any_buffer : forall ks v flush, vi_ok v ->
  esc_progress (len (ks ++ [K_Escape])) (match_step bindings v (ks ++ [K_Escape]) flush).
Proof. exact escape_step_any. Qed.
Print Assumptions C05_escape_step_any_buffer.

(* The retry loop of KeyProcessor._process (process_loop), by induction on the
   key buffer: whatever keys [ks] are in the buffer when Escape arrives and
   however the handlers called on the way change the application state (the
   valuation [vs i] of the filter atoms at the i-th evaluation is arbitrary
   within Vi mode / focus / no quoted insert; application not finished), the
   loop ends with an EMPTY key buffer, its last call has a key sequence ending
   in Escape, and the model of the called handler leaves Vi in navigation mode
   with no operator, operator argument or digraph pending from any state. *)
Theorem C05_escape_any_pending_keys : forall vs dn ks n retry flush,
  (forall i, vi_ok (vs i)) -> (forall i, dn i = false) ->
  exists calls idx seq th h,
    process_loop (length ks + 2) bindings vs dn n retry (ks ++ [K_Escape]) flush = (calls ++ [(idx, seq)], LEmpty) /\
    (exists pre, seq = pre ++ [K_Escape]) /\
    handler_at idx = Some th /\ model_of_table_handler th = Some h /\
    forall s arg data, exists s', call_handler h s arg data = EOk s' /\ nav_clean s'.
Proof. exact escape_any_pending. Qed.
Print Assumptions C05_escape_any_pending_keys.

(* ---------------------------------------------------------------------- *)
(* Round 6: the repeat count as typed.  KeyPressEvent.arg since fix 7b1fd9f
   (finding C05-F14 repaired): total for every string the digit bindings can
   build (result below a million), and no exception leaves _call_handler for a
   modelled handler whatever was typed as the count. *)
Theorem C05_event_arg_total : forall a,
  (forall s, a = Some s -> arg_string s = true) ->
  exists n, event_arg a = Some n /\ n < 1000000.
Proof. exact event_arg_total. Qed.
Print Assumptions C05_event_arg_total.

Theorem C05_step_total_arg_string_partial : forall h s a data,
  EInv s -> MInv s -> (forall x, a = Some x -> arg_string x = true) ->
  exists s', call_handler_str event_arg h s a data = EOk s' /\ EInv s'.
Proof. exact call_handler_str_total. Qed.
Print Assumptions C05_step_total_arg_string_partial.

Theorem C05_step_inv_any_arg_string : forall ea h s a data,
  EInv s -> EInv (eres_st (call_handler_str ea h s a data)).
Proof. exact call_handler_str_inv. Qed.
Print Assumptions C05_step_inv_any_arg_string.

(* The record of the code before 7b1fd9f (event_arg_pinned: int() of the whole
   accumulated string): ValueError beyond 4300 digits, out of the handler and
   out of _call_handler; up to 4300 characters the conversion succeeded. *)
Theorem C05_event_arg_pinned_refuted :
  arg_string long_arg = true /\ event_arg_pinned (Some long_arg) = None.
Proof. exact event_arg_pinned_refuted. Qed.
Print Assumptions C05_event_arg_pinned_refuted.

Theorem C05_step_total_long_arg_pinned_refuted :
  exists h s data, EInv s /\ MInv s /\ arg_string long_arg = true /\
    call_handler_str event_arg_pinned h s (Some long_arg) data = EErr E_VALUE s.
Proof. exact step_long_arg_pinned_refuted. Qed.
Print Assumptions C05_step_total_long_arg_pinned_refuted.

Theorem C05_event_arg_pinned_below_limit : forall s,
  arg_string s = true -> len s <= MAX_STR_DIGITS -> exists n, event_arg_pinned (Some s) = Some n.
Proof. exact event_arg_pinned_below_limit. Qed.
Print Assumptions C05_event_arg_pinned_below_limit.

(* ---------------------------------------------------------------------- *)
(* Round 6: entering insert-multiple mode.  vi.py insert_in_block_selection (`I`
   or `A` on a BLOCK selection; Document.selection_ranges is C08's model), run
   through _call_handler from any state with cursor and anchor inside the text:
   no exception, the multiple cursors are sorted and inside the text, the mode
   is INSERT_MULTIPLE - so C05_multicursor_inv applies from there on; and with
   any sequence of the five editing keys after it they stay sorted and inside. *)
Theorem C05_enter_insert_multiple : forall after s o,
  EInv s -> esel s = Some (o, 2) ->
  exists s', call_block_insert after s = EOk s' /\ MWF s' /\ EInv s' /\ vmode s' = M_INSERT_MULTIPLE.
Proof. exact call_block_insert_wf. Qed.
Print Assumptions C05_enter_insert_multiple.

Theorem C05_enter_then_edit_multicursor : forall after s o ks,
  EInv s -> esel s = Some (o, 2) ->
  (forall h a d, In (h, a, d) ks -> multi_handler h /\ (h = HViInsertMulti -> 1 <= len d)) ->
  MWF (fold_left mstep ks (eres_st (call_block_insert after s))).
Proof. exact enter_then_edit_wf. Qed.
Print Assumptions C05_enter_then_edit_multicursor.

(* L4 - accept returns exactly the buffer text *)
Theorem C05_accept_returns_text : forall s, accept_result s = et s.
Proof. exact accept_result_text. Qed.
Print Assumptions C05_accept_returns_text.

(* Non-vacuity *)
Example C05_inv_holds_somewhere :
  EInv (mkE [97; 10; 30028; 98] 2 (Some (4, 0)) [] false None [[97; 10; 30028; 98]] 0 true M_NAVIGATION false None false false).
Proof. split; [unfold CInv; cbn; split; discriminate|unfold SInv; cbn; intros a t E; injection E as <- _; split; discriminate]. Qed.
