(* C16 - Search lands on a real, nearest occurrence in the requested direction.
   Statements only; proofs are in Proofs/C16_MatchFacts.v,
   Proofs/C16_SearchFacts.v, Proofs/C16_MoreFacts.v and (re.escape, the parser
   on escaped patterns, IGNORECASE per character) Proofs/C16_RegexFacts.v.  Vocabulary (Model/C16_SearchSpec.v):
     occurs ceq ic needle text p   text = pre ++ mid ++ post, |pre| = p, mid is the needle
                                   character by character (equal; or related by ceq when ic)
     absent ceq ic needle text     no p with [occurs]
     fwd_order n w = [w+1; ...; n-1; 0]     bwd_order n w = [w-1; ...; 0; n-1]
     Inv b                         0 <= index < #lines, 0 <= cursor <= len(current line)
     moved b w c                   b with working index w and cursor c
   [ceq] (the per-character relation of re.IGNORECASE) is universally
   quantified in every theorem. *)
From Coq Require Import ZArith List Bool.
From PTK Require Import Lib.Sx Lib.Py Model.Document Model.C16_Search Model.C16_SearchSpec
  Proofs.C16_MatchFacts Proofs.C16_SearchFacts Model.C16_Regex Proofs.C16_RegexFacts Proofs.C16_MoreFacts Model.C16_ReFind Proofs.C16_ReFindFacts
  Gen.C16_Sre Gen.C16_CaseFold.
Import ListNotations.
Open Scope Z_scope.

(* Document.find: the offset returned is the nearest occurrence at (icp) or
   after the cursor; None only when there is none. *)
Theorem C16_find_forward : forall ceq (d : doc) (sub : str) (icp ic : bool),
  0 <= dcur d <= len (dtext d) ->
  let lo := if icp then dcur d else dcur d + 1 in
  match doc_find ceq d sub icp ic 1 with
  | Some r => lo <= dcur d + r /\ occurs ceq ic sub (dtext d) (dcur d + r) /\
              forall q, lo <= q < dcur d + r -> ~ occurs ceq ic sub (dtext d) q
  | None => forall q, lo <= q -> ~ occurs ceq ic sub (dtext d) q
  end.
Proof. exact doc_find_spec. Qed.
Print Assumptions C16_find_forward.

(* Document.find_backwards (reversed needle in reversed text): the nearest
   occurrence lying wholly before the cursor; None only when there is none. *)
Theorem C16_find_backward : forall ceq (d : doc) (sub : str) (ic : bool),
  0 <= dcur d <= len (dtext d) ->
  match doc_find_backwards ceq d sub ic 1 with
  | Some r => 0 <= dcur d + r /\ dcur d + r + len sub <= dcur d /\
              occurs ceq ic sub (dtext d) (dcur d + r) /\
              forall q, occurs ceq ic sub (dtext d) q -> q + len sub <= dcur d -> q <= dcur d + r
  | None => forall q, occurs ceq ic sub (dtext d) q -> ~ q + len sub <= dcur d
  end.
Proof. exact doc_find_backwards_spec. Qed.
Print Assumptions C16_find_backward.

(* Document.find with a count >= 1: the count-th match of the leftmost
   NON-OVERLAPPING scan that starts at (icp) / just after the cursor -
   [nth_match]: after a match at p0 the scan resumes at p0 + max 1 |needle| -
   and None exactly when the scan has fewer matches.  (For 'aaa' and 'aa' the
   second occurrence overlaps the first and is not counted: re.finditer.) *)
Theorem C16_find_forward_nth : forall ceq (d : doc) (sub : str) (icp ic : bool) (count : Z),
  0 <= dcur d <= len (dtext d) -> 1 <= count ->
  let lo := Z.to_nat (if icp then dcur d else dcur d + 1) in
  match doc_find ceq d sub icp ic count with
  | Some r => (if icp then 0 else 1) <= r /\
              nth_match ceq ic sub (dtext d) lo (Z.to_nat (count - 1)) (Z.to_nat (dcur d + r))
  | None => forall p, ~ nth_match ceq ic sub (dtext d) lo (Z.to_nat (count - 1)) p
  end.
Proof. exact doc_find_nth. Qed.
Print Assumptions C16_find_forward_nth.

(* Document.find_backwards with a count >= 1, in FORWARD coordinates: the
   count-th match of the non-overlapping scan that runs backwards from the
   cursor - [nth_match_back]: matches lie wholly before the cursor; after a
   match at p0 the scan resumes with matches ending at or before
   p0 + |needle| - max 1 |needle| (= p0 for a non-empty needle) - and None
   exactly when that scan has fewer matches. *)
Theorem C16_find_backward_nth_fwd : forall ceq (d : doc) (sub : str) (ic : bool) (count : Z),
  0 <= dcur d <= len (dtext d) -> 1 <= count ->
  match doc_find_backwards ceq d sub ic count with
  | Some r => 0 <= dcur d + r /\
              nth_match_back ceq ic sub (dtext d) (Z.to_nat (dcur d)) (Z.to_nat (count - 1)) (Z.to_nat (dcur d + r))
  | None => forall p, ~ nth_match_back ceq ic sub (dtext d) (Z.to_nat (dcur d)) (Z.to_nat (count - 1)) p
  end.
Proof. exact doc_find_backwards_nth_fwd. Qed.
Print Assumptions C16_find_backward_nth_fwd.

(* The same in the coordinates of the code: the count-th match of the forward
   scan over the MIRRORED text before the cursor for the mirrored needle
   (lemmas nth_to_back / back_to_nth connect the two). *)
Theorem C16_find_backward_nth : forall ceq (d : doc) (sub : str) (ic : bool) (count : Z),
  0 <= dcur d <= len (dtext d) -> 1 <= count ->
  let B := firstn (Z.to_nat (dcur d)) (dtext d) in
  match doc_find_backwards ceq d sub ic count with
  | Some r => 0 <= dcur d + r /\ dcur d + r + len sub <= dcur d /\
              nth_match ceq ic (rev sub) (rev B) 0 (Z.to_nat (count - 1)) (Z.to_nat (- r - len sub)) /\
              occurs ceq ic sub (dtext d) (dcur d + r)
  | None => forall p, ~ nth_match ceq ic (rev sub) (rev B) 0 (Z.to_nat (count - 1)) p
  end.
Proof. exact doc_find_backwards_nth. Qed.
Print Assumptions C16_find_backward_nth.

Theorem C16_find_count_below_1 : forall ceq (d : doc) (sub : str) (icp ic : bool) (count : Z),
  count < 1 -> doc_find ceq d sub icp ic count = None /\ doc_find_backwards ceq d sub ic count = None.
Proof. exact doc_find_count_below_1. Qed.
Print Assumptions C16_find_count_below_1.

(* Whatever the direction, include_current_position and count: a position
   returned by Buffer._search is inside the working lines and the needle
   really occurs there (under ceq iff ignore_case). *)
Theorem C16_real : forall ceq b st icp count w c,
  Inv b -> search ceq b st icp count = SFound w c ->
  Inv (moved b w c) /\ occurs ceq (sic st) (stext st) (entry (wl b) w) c.
Proof. exact search_real. Qed.
Print Assumptions C16_real.

(* apply_search moves exactly there, or nowhere; it never changes the text. *)
Theorem C16_apply : forall ceq b st icp count,
  Inv b ->
  apply_search ceq b st icp count =
  match search ceq b st icp count with
  | SNone => b
  | SFound w c => moved b w c
  end.
Proof. exact apply_search_spec. Qed.
Print Assumptions C16_apply.

Theorem C16_apply_keeps_text : forall ceq b st icp count,
  Inv b -> Inv (apply_search ceq b st icp count) /\ wl (apply_search ceq b st icp count) = wl b.
Proof. exact apply_search_inv. Qed.
Print Assumptions C16_apply_keeps_text.

(* get_search_position (used by Vi operators: dn, yn, cN): the cursor of the
   landing position only when the landing line is the current one; a match in
   another working line, or no match, answers the current cursor (fix commit
   51c160f).  Hence always a valid cursor of the current text, and whenever it
   differs from the current cursor the needle occurs there. *)
Theorem C16_get_search_position : forall ceq b st icp count,
  Inv b ->
  get_search_position ceq b st icp count =
  match search ceq b st icp count with
  | SFound w c => if w =? wi b then c else cur b
  | SNone => cur b
  end /\
  0 <= get_search_position ceq b st icp count <= len (entry (wl b) (wi b)) /\
  (get_search_position ceq b st icp count <> cur b ->
   occurs ceq (sic st) (stext st) (entry (wl b) (wi b)) (get_search_position ceq b st icp count)).
Proof. exact get_search_position_spec. Qed.
Print Assumptions C16_get_search_position.

(* A repeat count below 1 (Meta-minus / Meta-0 prefix): no search is made -
   nothing is found, apply_search leaves the buffer as it is,
   get_search_position answers the current cursor.  (Before the fix: commit
   81f6a99 this was `assert count > 0`.) *)
Theorem C16_count_below_1 : forall ceq b st icp count,
  count < 1 ->
  search ceq b st icp count = SNone /\ apply_search ceq b st icp count = b /\
  get_search_position ceq b st icp count = cur b.
Proof. exact search_count_below_1. Qed.
Print Assumptions C16_count_below_1.

(* Forward, one search.  Either the result is in the current line, at/after
   the cursor, with no occurrence skipped in between; or nothing lies ahead in
   the current line, the result is in the first line of the visiting order
   w+1, ..., n-1, 0 that contains an occurrence, at its first occurrence.
   Nothing found: nothing ahead in the current line and nothing in any visited
   line. *)
Theorem C16_no_skip_fwd : forall ceq b st (icp : bool),
  Inv b -> sdir st = 0 ->
  let lo := if icp then cur b else cur b + 1 in
  let here := entry (wl b) (wi b) in
  match search ceq b st icp 1 with
  | SFound w' c' =>
      Inv (moved b w' c') /\ occurs ceq (sic st) (stext st) (entry (wl b) w') c' /\
      ((w' = wi b /\ lo <= c' /\ forall q, lo <= q < c' -> ~ occurs ceq (sic st) (stext st) here q)
       \/
       ((forall q, lo <= q -> ~ occurs ceq (sic st) (stext st) here q) /\
        (exists before after, fwd_order (len (wl b)) (wi b) = before ++ w' :: after /\
           forall e, In e before -> absent ceq (sic st) (stext st) (entry (wl b) e)) /\
        (forall q, q < c' -> ~ occurs ceq (sic st) (stext st) (entry (wl b) w') q)))
  | SNone =>
      (forall q, lo <= q -> ~ occurs ceq (sic st) (stext st) here q) /\
      forall e, In e (fwd_order (len (wl b)) (wi b)) -> absent ceq (sic st) (stext st) (entry (wl b) e)
  end.
Proof. exact search_fwd_spec. Qed.
Print Assumptions C16_no_skip_fwd.

(* Backward, one search: symmetric, for occurrences lying wholly before the
   cursor (an occurrence straddling the cursor is not before it); visiting
   order w-1, ..., 0, n-1; in another line the LAST occurrence. *)
Theorem C16_no_skip_bwd : forall ceq b st (icp : bool),
  Inv b -> sdir st <> 0 ->
  let here := entry (wl b) (wi b) in
  let m := len (stext st) in
  match search ceq b st icp 1 with
  | SFound w' c' =>
      Inv (moved b w' c') /\ occurs ceq (sic st) (stext st) (entry (wl b) w') c' /\
      ((w' = wi b /\ c' + m <= cur b /\
        forall q, occurs ceq (sic st) (stext st) here q -> q + m <= cur b -> q <= c')
       \/
       ((forall q, occurs ceq (sic st) (stext st) here q -> ~ q + m <= cur b) /\
        (exists before after, bwd_order (len (wl b)) (wi b) = before ++ w' :: after /\
           forall e, In e before -> absent ceq (sic st) (stext st) (entry (wl b) e)) /\
        (forall q, occurs ceq (sic st) (stext st) (entry (wl b) w') q -> q <= c')))
  | SNone =>
      (forall q, occurs ceq (sic st) (stext st) here q -> ~ q + m <= cur b) /\
      forall e, In e (bwd_order (len (wl b)) (wi b)) -> absent ceq (sic st) (stext st) (entry (wl b) e)
  end.
Proof. exact search_bwd_spec. Qed.
Print Assumptions C16_no_skip_bwd.

(* The visiting orders, spelled out: all lines ahead, then exactly one
   wrap-around line. *)
Theorem C16_fwd_order : forall n w e, 0 <= w < n -> (In e (fwd_order n w) <-> w < e < n \/ e = 0).
Proof. exact In_fwd_order. Qed.
Print Assumptions C16_fwd_order.
Theorem C16_bwd_order : forall n w e, 0 <= w < n -> (In e (bwd_order n w) <-> 0 <= e < w \/ e = n - 1).
Proof. exact In_bwd_order. Qed.
Print Assumptions C16_bwd_order.

(* Completeness: nothing found only if no occurrence exists ahead in the
   direction of travel - none later in the current line, none in the lines
   ahead - (and none in the one wrap-around line). *)
Theorem C16_complete_fwd : forall ceq b st (icp : bool),
  Inv b -> sdir st = 0 -> search ceq b st icp 1 = SNone ->
  (forall q, (if icp then cur b else cur b + 1) <= q ->
             ~ occurs ceq (sic st) (stext st) (entry (wl b) (wi b)) q) /\
  (forall e, wi b < e < len (wl b) -> absent ceq (sic st) (stext st) (entry (wl b) e)) /\
  absent ceq (sic st) (stext st) (entry (wl b) 0).
Proof. exact search_fwd_complete. Qed.
Print Assumptions C16_complete_fwd.

Theorem C16_complete_bwd : forall ceq b st (icp : bool),
  Inv b -> sdir st <> 0 -> search ceq b st icp 1 = SNone ->
  (forall q, occurs ceq (sic st) (stext st) (entry (wl b) (wi b)) q -> ~ q + len (stext st) <= cur b) /\
  (forall e, 0 <= e < wi b -> absent ceq (sic st) (stext st) (entry (wl b) e)) /\
  absent ceq (sic st) (stext st) (entry (wl b) (len (wl b) - 1)).
Proof. exact search_bwd_complete. Qed.
Print Assumptions C16_complete_bwd.

(* For counts >= 1: count = k1 + k2 is a count = k1 search followed, from its
   landing position, by a count = k2 search (so count = k is k successive
   single searches); a failure anywhere makes the whole search fail.  Counts
   below 1: C16_count_below_1. *)
Theorem C16_count : forall ceq b st icp k1 k2,
  Inv b -> 0 < k1 -> 0 < k2 ->
  search ceq b st icp (k1 + k2) =
  match search ceq b st icp k1 with
  | SFound w c => search ceq (moved b w c) st icp k2
  | r => r
  end.
Proof. exact search_count. Qed.
Print Assumptions C16_count.

(* The document displayed while something is typed in the search field
   (document_for_search) is the document of the buffer that accepting the
   search (accept_search: apply_search with include_current_position) moves to;
   at the key level (Enter) likewise - a Vi session then applies its
   end-of-line cursor rule on returning to navigation mode. *)
Theorem C16_preview_is_accept : forall ceq s,
  Inv (main s) -> searching s = true -> field s <> [] ->
  bdoc (main (accept_search ceq s)) = preview ceq s /\
  searching (accept_search ceq s) = false /\ Inv (main (accept_search ceq s)).
Proof. exact accept_preview. Qed.
Print Assumptions C16_preview_is_accept.

Theorem C16_preview_is_accept_key : forall ceq s,
  Inv (main s) -> searching s = true -> field s <> [] ->
  exists s', key_step ceq s KEnter = Some s' /\ searching s' = false /\
    main s' = (if vi s then fix_vi (main (accept_search ceq s)) else main (accept_search ceq s)) /\
    bdoc (main (accept_search ceq s)) = preview ceq s.
Proof. exact enter_preview. Qed.
Print Assumptions C16_preview_is_accept_key.

(* (A fact about the STRUCTURE of the model - [preview] and [accept_search]
   read only these record fields - that becomes a fact about the code only
   through the correspondence runs, which observe the displayed document after
   every key, direction switches included.)
   The preview and the landing position of accept are functions of exactly
   the same inputs - main buffer (working lines, index, cursor), search-field
   text, direction, ignore-case (and whether a search is active): two sessions
   that agree on these show the same document and accept to the same place,
   whatever else differs (stored search text, field cursor, editing mode).  A
   cache of the preview must therefore be keyed by all of them ... *)
Theorem C16_preview_accept_same_inputs : forall ceq s1 s2,
  main s1 = main s2 -> field s1 = field s2 -> ss_dir s1 = ss_dir s2 -> ign s1 = ign s2 ->
  searching s1 = searching s2 ->
  preview ceq s1 = preview ceq s2 /\
  (field s1 <> [] -> main (accept_search ceq s1) = main (accept_search ceq s2)).
Proof. exact preview_accept_inputs. Qed.
Print Assumptions C16_preview_accept_same_inputs.

(* ... and the direction really is one of them: sessions differing in nothing
   but the direction show different documents. *)
Theorem C16_preview_needs_direction :
  exists s1 s2, main s1 = main s2 /\ field s1 = field s2 /\ ign s1 = ign s2 /\ searching s1 = true /\
    searching s2 = true /\ ss_text s1 = ss_text s2 /\ ss_dir s1 <> ss_dir s2 /\
    preview ceq_tab s1 <> preview ceq_tab s2.
Proof. exact preview_needs_direction. Qed.
Print Assumptions C16_preview_needs_direction.

(* With the preview-side repair of C16-F1
   (fixes/C16-preview-remembered-search-text.patch: an empty field previews the
   remembered search text) the preview is where accept goes for EVERY state of
   the search field.  [preview_repaired] is the patched function, not HEAD. *)
Theorem C16_preview_repaired_is_accept : forall ceq s,
  Inv (main s) -> searching s = true ->
  bdoc (main (accept_search ceq s)) = preview_repaired ceq s.
Proof. exact accept_preview_repaired. Qed.
Print Assumptions C16_preview_repaired_is_accept.

(* ... but NOT when nothing is typed and a previous search text is remembered
   (finding C16-F1): the display shows the current position, Enter re-applies
   the remembered search. *)
Theorem C16_preview_is_accept_empty_field_refuted :
  exists s, Inv (main s) /\ searching s = true /\ field s = [] /\
    bdoc (main (accept_search ceq_tab s)) <> preview ceq_tab s.
Proof. exact accept_empty_field_refuted. Qed.
Print Assumptions C16_preview_is_accept_empty_field_refuted.

(* Typing in the search field - the field is a buffer of its own: characters
   inserted at its cursor, Backspace (that does not abort), Delete, Left,
   Right, Home, End - changes neither text nor cursor nor working index of the
   main buffer, nor the stored search state; so does every sequence of such
   keys - in emacs mode any sequence, in Vi mode any sequence without Backspace
   (Backspace on an empty Vi search field is "abort": C16_vi_backspace_abort). *)
Theorem C16_typing_pure : forall ceq s k s',
  searching s = true -> typing_key k ->
  (vi s = false \/ k <> KBackspace \/ field s <> []) ->
  key_step ceq s k = Some s' ->
  main s' = main s /\ searching s' = true /\ ss_text s' = ss_text s /\ ss_dir s' = ss_dir s /\ vi s' = vi s.
Proof. exact typing_pure. Qed.
Print Assumptions C16_typing_pure.

Theorem C16_typing_pure_seq : forall ceq ks s s',
  searching s = true -> (vi s = false \/ ~ In KBackspace ks) -> Forall typing_key ks ->
  keys_run ceq s ks = Some s' ->
  main s' = main s /\ searching s' = true /\ ss_text s' = ss_text s /\ ss_dir s' = ss_dir s /\ vi s' = vi s.
Proof. exact typing_pure_seq. Qed.
Print Assumptions C16_typing_pure_seq.

(* Starting a search does not move anything either. *)
Theorem C16_start_pure : forall ceq s k s',
  searching s = false -> (k = KCr \/ k = KCs \/ k = KSlash \/ k = KQuestion) ->
  (vi s = true -> k = KSlash \/ k = KQuestion) ->
  (vi s = false -> k = KCr \/ k = KCs) ->
  key_step ceq s k = Some s' -> main s' = main s /\ searching s' = true /\ vi s' = vi s.
Proof. exact start_pure. Qed.
Print Assumptions C16_start_pure.

(* Abort (C-g): the key itself changes nothing of the main buffer (a Vi
   session returning to navigation mode re-applies its end-of-line rule). *)
Theorem C16_abort_pure : forall ceq s s',
  searching s = true -> key_step ceq s KCg = Some s' ->
  searching s' = false /\ main s' = (if vi s then fix_vi (main s) else main s).
Proof. exact abort_pure. Qed.
Print Assumptions C16_abort_pure.

(* A whole session that starts a search, only edits the search field and
   aborts leaves text, cursor and working index of the main buffer exactly as
   they were before the session started. *)
Theorem C16_start_typing_abort : forall ceq s k0 ks s1 s2 s3,
  searching s = false -> vi s = false -> (k0 = KCr \/ k0 = KCs) ->
  key_step ceq s k0 = Some s1 -> Forall typing_key ks -> keys_run ceq s1 ks = Some s2 ->
  key_step ceq s2 KCg = Some s3 ->
  main s3 = main s /\ searching s3 = false.
Proof. exact start_typing_abort. Qed.
Print Assumptions C16_start_typing_abort.

(* The Vi counterparts: Backspace on an empty search field aborts; a Vi session
   that starts ('/' or '?'), edits the field without Backspace and aborts
   leaves the main buffer as before, up to the end-of-line cursor rule applied
   on returning to navigation mode. *)
Theorem C16_vi_backspace_abort : forall ceq s s',
  searching s = true -> vi s = true -> field s = [] -> key_step ceq s KBackspace = Some s' ->
  searching s' = false /\ main s' = fix_vi (main s).
Proof. exact vi_backspace_abort. Qed.
Print Assumptions C16_vi_backspace_abort.

Theorem C16_start_typing_abort_vi : forall ceq s k0 ks s1 s2 s3,
  searching s = false -> vi s = true -> (k0 = KSlash \/ k0 = KQuestion) ->
  key_step ceq s k0 = Some s1 -> Forall typing_key ks -> ~ In KBackspace ks ->
  keys_run ceq s1 ks = Some s2 -> key_step ceq s2 KCg = Some s3 ->
  main s3 = fix_vi (main s) /\ searching s3 = false.
Proof. exact start_typing_abort_vi. Qed.
Print Assumptions C16_start_typing_abort_vi.

(* Next / previous while searching (C-r, C-s; in emacs mode also Up, Down) are
   do_incremental_search: when the key's direction differs from the stored
   one the search is only turned around; otherwise the main buffer becomes
   apply_search(include_current_position=False, count=1) for the field text
   in that direction - so C16_real, C16_no_skip_fwd/bwd, C16_complete_*
   apply with st := mkss (field s) dir (ign s).  Vi n / N likewise with the
   stored state resp. its inversion and the typed count. *)
Theorem C16_next_is_search : forall ceq s k dir s',
  searching s = true -> nav_dir k = Some dir -> (vi s = true -> k = KCr \/ k = KCs) ->
  key_step ceq s k = Some s' ->
  searching s' = true /\ ss_text s' = field s /\ ss_dir s' = dir /\ field s' = field s /\
  main s' = (if ss_dir s =? dir then apply_search ceq (main s) (mkss (field s) dir (ign s)) false 1
             else main s).
Proof. exact next_is_search. Qed.
Print Assumptions C16_next_is_search.

Theorem C16_n_is_search : forall ceq s k c s',
  vi s = true -> searching s = false -> (k = Kn c \/ k = KN c) ->
  key_step ceq s k = Some s' ->
  let st := match k with Kn _ => the_state s | _ => invert (the_state s) end in
  main s' = fix_vi (apply_search ceq (main s) st false c) /\
  ss_text s' = ss_text s /\ ss_dir s' = ss_dir s /\ searching s' = false.
Proof. exact n_is_search. Qed.
Print Assumptions C16_n_is_search.

(* ... but abort does not undo the moves that C-r / C-s pressed again during
   the session made (the docstring of abort_search promises "restore the
   original line"; the property text does not): recorded as an observation. *)
Theorem C16_abort_restores_start_refuted :
  exists s ks s', Inv (main s) /\ searching s = false /\
    keys_run ceq_tab s (ks ++ [KCg]) = Some s' /\ searching s' = false /\ main s' <> main s.
Proof. exact abort_does_not_restore. Qed.
Print Assumptions C16_abort_restores_start_refuted.

(* Vi '*' / '#': the key is apply_search(include_current_position=False, count)
   for the word under the cursor, FORWARD / BACKWARD (then Vi's end-of-line
   rule); the word and direction are stored for n/N.  Hence C16_real,
   C16_no_skip_fwd/bwd, C16_complete_*, C16_count apply with
   st := mkss word dir (ign s); C16_star_lands spells out the first. *)
Theorem C16_star_is_search : forall ceq s k c w s',
  vi s = true -> searching s = false -> (k = KStar c w \/ k = KHash c w) ->
  key_step ceq s k = Some s' ->
  let dir := match k with KStar _ _ => 0 | _ => 1 end in
  main s' = fix_vi (apply_search ceq (main s) (mkss w dir (ign s)) false c) /\
  ss_text s' = w /\ ss_dir s' = dir /\ searching s' = false.
Proof. exact star_is_search. Qed.
Print Assumptions C16_star_is_search.

Theorem C16_star_lands : forall ceq s c w,
  Inv (main s) ->
  forall dir, match search ceq (main s) (mkss w dir (ign s)) false c with
  | SFound w' c' =>
      apply_search ceq (main s) (mkss w dir (ign s)) false c = moved (main s) w' c' /\
      occurs ceq (ign s) w (entry (wl (main s)) w') c'
  | SNone => apply_search ceq (main s) (mkss w dir (ign s)) false c = main s
  end.
Proof. exact star_lands. Qed.
Print Assumptions C16_star_lands.

(* (Model-structure facts: [key_step2] is DEFINED to copy [other] and
   [preview_other] is DEFINED as the other buffer's document; what ties these
   definitions to the code is the kind-4 correspondence run on a hand-built
   two-control Application, not these two lemmas.)
   Two BufferControls sharing one search field (one SearchState): whatever
   search key is pressed, the buffer of the control that is not being searched
   and the document it displays stay as they are; moving the focus (possible
   only while not searching) swaps the roles and carries the shared search
   state along - so every theorem above about [key_step] applies to the
   focused control's session [cs]. *)
Theorem C16_shared_other_untouched : forall ceq s k s',
  key_step2 ceq s (K2 k) = Some s' ->
  other s' = other s /\ focus_a s' = focus_a s /\ preview_other s' = preview_other s.
Proof. exact shared_other_untouched. Qed.
Print Assumptions C16_shared_other_untouched.

Theorem C16_shared_switch : forall ceq s s',
  key_step2 ceq s KSwitch = Some s' ->
  searching (cs s) = false /\ main (cs s') = other s /\ other s' = main (cs s) /\
  ss_text (cs s') = ss_text (cs s) /\ ss_dir (cs s') = ss_dir (cs s) /\ searching (cs s') = false.
Proof. exact shared_switch. Qed.
Print Assumptions C16_shared_switch.

(* Non-vacuity: a concrete buffer meets Inv; a forward search finds nothing
   ahead and wraps around to the start of its own line (line 0); from cursor 0
   it finds the overlapping occurrence at 1; a backward search with count 2,
   ignoring case, wraps from line 0 to the last line. *)
Example C16_inv_holds_somewhere :
  let b := mksbuf [[97; 97; 97]; [98]; [65; 97]] 0 1 in
  Inv b /\
  search ceq_tab b (mkss [97; 97] 0 false) false 1 = SFound 0 0 /\
  search ceq_tab (moved b 0 0) (mkss [97; 97] 0 false) false 1 = SFound 0 1 /\
  search ceq_tab b (mkss [97] 1 true) false 2 = SFound 2 1.
Proof.
  cbv zeta. split; [unfold Inv; vm_compute; repeat split; try reflexivity; intro; discriminate|].
  repeat split; vm_compute; reflexivity.
Qed.

(* ====================================================================== *)
(* Round 6 *)

(* A forward search with include_current_position=True started ON a match
   start finds that very match and moves nothing (apply_search returns the
   buffer as it is); hence Enter on a forward incremental search whose cursor
   already sits on an occurrence of the typed text stays there. *)
Theorem C16_forward_on_match_stays : forall ceq b st,
  Inv b -> sdir st = 0 -> occurs ceq (sic st) (stext st) (entry (wl b) (wi b)) (cur b) ->
  search ceq b st true 1 = SFound (wi b) (cur b) /\ apply_search ceq b st true 1 = b.
Proof. exact forward_on_match_stays. Qed.
Print Assumptions C16_forward_on_match_stays.

Theorem C16_accept_on_match_stays : forall ceq s,
  Inv (main s) -> searching s = true -> field s <> [] -> ss_dir s = 0 ->
  occurs ceq (ign s) (field s) (entry (wl (main s)) (wi (main s))) (cur (main s)) ->
  main (accept_search ceq s) = main s.
Proof. exact accept_on_match_stays. Qed.
Print Assumptions C16_accept_on_match_stays.

(* emacs mode with a read-only main buffer ([key_step_ro]): n / N with a
   count are apply_search(include_current_position=False, count) for the
   stored state resp. its inversion (no Vi cursor rule) - C16_real,
   C16_no_skip_*, C16_complete_*, C16_count apply; "/" "?" C-r C-s start a
   search and move nothing ("/" is BACKWARD under reverse_vi_search_direction);
   while searching the ordinary bindings apply, so every session theorem above
   carries over. *)
Theorem C16_ro_n_is_search : forall ceq s k c s',
  vi s = false -> searching s = false -> (k = Kn c \/ k = KN c) ->
  key_step_ro ceq s k = Some s' ->
  let st := match k with Kn _ => the_state s | _ => invert (the_state s) end in
  main s' = apply_search ceq (main s) st false c /\
  ss_text s' = ss_text s /\ ss_dir s' = ss_dir s /\ searching s' = false /\ field s' = field s.
Proof. exact ro_n_is_search. Qed.
Print Assumptions C16_ro_n_is_search.

Theorem C16_ro_start_pure : forall ceq s k s',
  vi s = false -> searching s = false ->
  (k = KCr \/ k = KCs \/ k = KSlash \/ k = KQuestion) ->
  key_step_ro ceq s k = Some s' ->
  main s' = main s /\ searching s' = true /\ ss_text s' = ss_text s /\
  ss_dir s' = (match k with KCr | KSlash => 1 | _ => 0 end).
Proof. exact ro_start_pure. Qed.
Print Assumptions C16_ro_start_pure.

Theorem C16_ro_searching_is_key_step : forall ceq s k,
  vi s = false -> searching s = true -> key_step_ro ceq s k = key_step ceq s k.
Proof. exact ro_searching. Qed.
Print Assumptions C16_ro_searching_is_key_step.

(* ---- what `re.finditer(re.escape(sub), text, flags)` is handed ----
   (Model/C16_Regex.v over the tables regenerated from the running CPython)

   For EVERY needle, metacharacters included: the sre parser reads
   re.escape(needle) back as exactly the literal sequence [needle]; compiled
   under the flags it is one one-character op per needle character, and the op
   sequence matches at the beginning of a text exactly when [match_at] says so
   with the relation [ceq_sre].  So the needle is searched literally, and the
   only thing still assumed about `re` is the search loop of finditer
   (leftmost, non-overlapping, empty matches at every position) and that the C
   matcher runs the ops left to right. *)
Theorem C16_escape_roundtrip : forall needle, parse_literals (re_escape needle) = Some needle.
Proof. exact parse_escape_roundtrip. Qed.
Print Assumptions C16_escape_roundtrip.

Theorem C16_escaped_pattern_is_literal : forall ic needle,
  exists ops, compile_pattern ic (re_escape needle) = Some ops /\ length ops = length needle /\
              forall s, match_ops ops s = match_at ceq_sre ic needle s.
Proof. exact escaped_pattern_is_literal. Qed.
Print Assumptions C16_escaped_pattern_is_literal.

(* ... and the escaping is needed: a pattern that starts with an unescaped
   special character, `|` or `)` is not a literal sequence for the parser
   (`{` is one unless a well-formed repeat follows: excluded here) *)
Theorem C16_unescaped_special_not_literal : forall c r,
  In c (92 :: 124 :: 41 :: c16_sre_special) -> c <> 92 -> c <> 123 -> parse_literals (c :: r) = None.
Proof. exact unescaped_special_not_literal. Qed.
Print Assumptions C16_unescaped_special_not_literal.

(* The relation of re.IGNORECASE between a pattern character and a text
   character, for ALL code points: reflexive; an uncased pattern character
   matches only itself; a cased one matches t iff lower(t) = lower(p) or
   lower(t) is one of sre's extra cases of lower(p); on ASCII x ASCII it is
   equality after lower-casing the ASCII letters; the executable model's trie
   version is the same relation; the pairs observed directly on `re` over the
   harness alphabet (Gen/C16_CaseFold.v) agree with it. *)
Theorem C16_ignorecase_refl : forall p, ceq_sre p p = true.
Proof. exact ceq_sre_refl. Qed.
Print Assumptions C16_ignorecase_refl.

Theorem C16_ignorecase_uncased : forall p t, sre_iscased p = false -> ceq_sre p t = (t =? p).
Proof. exact ceq_sre_uncased. Qed.
Print Assumptions C16_ignorecase_uncased.

Theorem C16_ignorecase_cased : forall p t,
  sre_iscased p = true ->
  ceq_sre p t = (sre_lower t =? sre_lower p) ||
                match assocz (sre_lower p) c16_sre_extra with Some fx => memz (sre_lower t) fx | None => false end.
Proof. exact ceq_sre_cased. Qed.
Print Assumptions C16_ignorecase_cased.

Theorem C16_ignorecase_ascii : forall p t,
  0 <= p < 128 -> 0 <= t < 128 -> ceq_sre p t = (ascii_lower p =? ascii_lower t).
Proof. exact ceq_sre_ascii. Qed.
Print Assumptions C16_ignorecase_ascii.

Theorem C16_ignorecase_executable : forall p t, ceq_fast p t = ceq_sre p t.
Proof. exact ceq_fast_eq. Qed.
Print Assumptions C16_ignorecase_executable.

Theorem C16_ignorecase_observed : forall p t,
  In p c16_fold_alphabet -> In t c16_fold_alphabet -> ceq_tab p t = ceq_sre p t.
Proof. exact ceq_sre_observed. Qed.
Print Assumptions C16_ignorecase_observed.

(* ====================================================================== *)
(* Round 7: the search loop of re.finditer (Model/C16_ReFind.v).

   [re_finditer pattern text ic]: compile the pattern (parser + IGNORECASE
   compilation of Model/C16_Regex.v) and run [finditer_ops]: at every position
   from left to right try the op sequence, yield a match and resume where it
   ended (an empty match at every position).  For the escaped needle its
   (k+1)-th element is exactly the (k+1)-th match of the leftmost
   non-overlapping scan of real occurrences ([nth_match], occurrences compared
   with [ceq_sre]); there is no (k+1)-th element exactly when that scan has
   fewer.  Document.find / find_backwards written over it, with the
   `enumerate` / `i + 1 == count` loop of the Python, ARE [doc_find] /
   [doc_find_backwards] at ceq := ceq_sre for every argument (counts below 1
   included) - so every theorem of this file instantiated at ceq_sre speaks
   about the code as written over `re`; the two nearest-occurrence theorems
   are restated directly.  What is still assumed: that `_sre` executes this
   scan and the three single ops as modelled. *)
Theorem C16_finditer_is_scan : forall ic needle text k,
  exists it, re_finditer (re_escape needle) text ic = Some it /\
    match nth_error it k with
    | Some j => 0 <= j /\ nth_match ceq_sre ic needle text 0 k (Z.to_nat j)
    | None => forall p, ~ nth_match ceq_sre ic needle text 0 k p
    end.
Proof. exact finditer_spec. Qed.
Print Assumptions C16_finditer_is_scan.

Theorem C16_find_is_re_find : forall d sub icp ic count,
  doc_find_re d sub icp ic count = Some (doc_find ceq_sre d sub icp ic count).
Proof. exact doc_find_re_eq. Qed.
Print Assumptions C16_find_is_re_find.

Theorem C16_find_backwards_is_re_find : forall d sub ic count,
  doc_find_backwards_re d sub ic count = Some (doc_find_backwards ceq_sre d sub ic count).
Proof. exact doc_find_backwards_re_eq. Qed.
Print Assumptions C16_find_backwards_is_re_find.

Theorem C16_find_forward_re_nearest : forall (d : doc) (sub : str) (icp ic : bool),
  0 <= dcur d <= len (dtext d) ->
  let lo := if icp then dcur d else dcur d + 1 in
  match doc_find_re d sub icp ic 1 with
  | Some (Some r) => lo <= dcur d + r /\ occurs ceq_sre ic sub (dtext d) (dcur d + r) /\
                     forall q, lo <= q < dcur d + r -> ~ occurs ceq_sre ic sub (dtext d) q
  | Some None => forall q, lo <= q -> ~ occurs ceq_sre ic sub (dtext d) q
  | None => False
  end.
Proof. exact doc_find_re_nearest. Qed.
Print Assumptions C16_find_forward_re_nearest.

Theorem C16_find_backward_re_nearest : forall (d : doc) (sub : str) (ic : bool),
  0 <= dcur d <= len (dtext d) ->
  match doc_find_backwards_re d sub ic 1 with
  | Some (Some r) => 0 <= dcur d + r /\ dcur d + r + len sub <= dcur d /\
                     occurs ceq_sre ic sub (dtext d) (dcur d + r) /\
                     forall q, occurs ceq_sre ic sub (dtext d) q -> q + len sub <= dcur d -> q <= dcur d + r
  | Some None => forall q, occurs ceq_sre ic sub (dtext d) q -> ~ q + len sub <= dcur d
  | None => False
  end.
Proof. exact doc_find_backwards_re_nearest. Qed.
Print Assumptions C16_find_backward_re_nearest.
