(* C13 - Persisted history is durable, ordered and survives torn writes.
   Statements only; proofs are in Proofs/C13_*.v.

   bytes, str = list Z (byte values / code points).
   [store_bytes ts s]  bytes written by FileHistory.store_string(s), [ts] the timestamp text
   [load_bytes f]      list(FileHistory.load_history_strings()) on a file with content f
   [file_of rs]        the file after storing the records rs = [(ts1,s1); (ts2,s2); ...] in order
   [valid_rec (ts,s)]  ts has no line feed; s has only code points str.encode accepts
                       (0..0x10FFFF without surrogates - so "\n", "\r", U+2028, NUL,
                       leading '+'/'#', non-BMP are all included)
   [complete_in rs p k] k = number of records of [file_of rs] lying wholly inside its prefix p *)
From Coq Require Import ZArith List Bool.
From PTK Require Import Lib.Sx Lib.Py Model.C13_Utf8 Model.C13_HistFile Model.C13_Threaded
  Model.C13_ThreadedF2 Model.C13_ThreadedF3 Model.C13_ThreadedLate Model.C13_Inline Model.C13_ThreadedEv Model.C13_ThreadedFine
  Proofs.C13_Utf8Facts Proofs.C13_HistFileFacts Proofs.C13_ThreadedFacts
  Proofs.C13_ThreadedF2Facts Proofs.C13_ThreadedF3Facts Proofs.C13_ThreadedLateFacts
  Proofs.C13_ComposeFacts Proofs.C13_InlineFacts Proofs.C13_ThreadedEvFacts
  Proofs.C13_ThreadedFineFacts Proofs.C13_GrammarFacts Proofs.C13_FineTornFacts Proofs.C13_DamageFacts.
Import ListNotations.
Open Scope Z_scope.

(* UTF-8: every encoded byte is a byte, and a byte below 0x80 (in particular
   "\n" = 0x0A and '+' = 0x2B) only ever stands for itself: it never occurs
   inside a multi-byte sequence. *)
Theorem C13_utf8_no_lf : forall c b,
  is_scalar c = true -> In b (utf8_enc_cp c) ->
  0 <= b < 256 /\ (b < 128 -> c = b /\ utf8_enc_cp c = [b]).
Proof. exact enc_cp_bytes. Qed.
Print Assumptions C13_utf8_no_lf.

(* The decoder (errors="replace") undoes the encoder on every encodable string. *)
Theorem C13_utf8_dec_enc : forall s rest,
  forallb is_scalar s = true -> utf8_dec (utf8_enc_raw s ++ rest) = s ++ utf8_dec rest.
Proof. exact dec_enc. Qed.
Print Assumptions C13_utf8_dec_enc.

(* A multi-byte sequence cut after 1..3 bytes (torn write) and followed by an
   ASCII byte b - in a history file the "\n" of the next record - decodes to
   ONE U+FFFD and decoding resumes AT b (b is not consumed); alone at the end
   of the data it decodes to one U+FFFD. *)
Theorem C13_utf8_torn_tail : forall c q q' b rest,
  is_scalar c = true -> utf8_enc_cp c = q ++ q' -> q <> [] -> q' <> [] -> b < 128 ->
  utf8_dec (q ++ b :: rest) = REPL :: utf8_dec (b :: rest) /\ utf8_dec q = [REPL].
Proof. exact torn_tail_dec. Qed.
Print Assumptions C13_utf8_torn_tail.

Theorem C13_utf8_torn_line : forall s c q q' rest,
  forallb is_scalar s = true -> is_scalar c = true ->
  utf8_enc_cp c = q ++ q' -> q <> [] -> q' <> [] ->
  utf8_dec (utf8_enc_raw s ++ q ++ 10 :: rest) = s ++ REPL :: 10 :: utf8_dec rest /\
  utf8_dec (utf8_enc_raw s ++ q) = s ++ [REPL].
Proof. exact torn_line_dec. Qed.
Print Assumptions C13_utf8_torn_line.

(* The decoder is total by construction (a Gallina function); moreover it
   never yields more characters than bytes, and something for something. *)
Theorem C13_utf8_dec_total : forall bs,
  (length (utf8_dec bs) <= length bs)%nat /\ (bs <> [] -> utf8_dec bs <> []).
Proof. exact dec_total. Qed.
Print Assumptions C13_utf8_dec_total.

(* Round trip: any sequence of entries is read back exactly, newest first. *)
Theorem C13_roundtrip : forall rs,
  Forall valid_rec rs -> load_bytes (file_of rs) = rev (map snd rs).
Proof. exact roundtrip. Qed.
Print Assumptions C13_roundtrip.

(* Several instances on one file: whatever instance does each append, with
   loads and get_strings of any instance in between, the file is the
   concatenation of the records and a fresh instance reads them all back. *)
Theorem C13_instances : forall ops,
  Forall valid_rec (appends ops) -> no_damage ops = true ->
  f_file (fexec finit ops) = file_of (appends ops) /\
  load_bytes (f_file (fexec finit ops)) = rev (map snd (appends ops)).
Proof.
  intros ops Hv Hd. split.
  - exact (fexec_file ops finit Hv Hd).
  - exact (instances_roundtrip ops Hv Hd).
Qed.
Print Assumptions C13_instances.

(* Torn write: for EVERY byte prefix p of the file, loading is total (it is a
   function) and returns the k completed entries intact and in order, preceded
   by at most one damaged string; nothing extra when the cut falls between
   records. *)
Theorem C13_torn : forall rs p sfx,
  Forall valid_rec rs -> p ++ sfx = file_of rs ->
  exists k d, complete_in rs p k /\ (length d <= 1)%nat /\
    load_bytes p = d ++ rev (firstn k (map snd rs)) /\
    (p = file_of (firstn k rs) -> d = []).
Proof. exact torn. Qed.
Print Assumptions C13_torn.

(* Appending after a torn tail: the new entries are read back intact, the
   earlier completed ones too, still at most one damaged string in between. *)
Theorem C13_torn_then_append : forall rs rs2 p sfx,
  Forall valid_rec rs -> Forall valid_rec rs2 -> p ++ sfx = file_of rs ->
  exists k d, complete_in rs p k /\ (length d <= 1)%nat /\
    load_bytes (p ++ file_of rs2) = rev (map snd rs2) ++ d ++ rev (firstn k (map snd rs)) /\
    (p = file_of (firstn k rs) -> d = []).
Proof. exact torn_then_append. Qed.
Print Assumptions C13_torn_then_append.

(* Records appended after ANY bytes (foreign or damaged content X): what X,
   closed by a line feed, yields is kept unchanged below the new entries. *)
Theorem C13_append_after_any : forall X rs2,
  Forall valid_rec rs2 -> rs2 <> [] ->
  load_bytes (X ++ file_of rs2) = rev (map snd rs2) ++ load_bytes (X ++ [NL]).
Proof. exact append_after_any. Qed.
Print Assumptions C13_append_after_any.

(* ThreadedHistory (with commit 0c2cbbe), every schedule of loader thread /
   consumers / appends in which append_string runs one at a time, none of its
   halves falls between the first load()'s cache reset and the loader thread's
   reading of the storage, and the first load() does not start inside an
   append_string ([ok_sched]) - appends at ANY other moment, in particular while
   the loader is pushing and while load() calls are half way: a finished load()
   has yielded exactly the entries stored (or being stored) when it started,
   newest first; an unfinished one a prefix of that; once loading is complete
   the cache is the storage, newest first. *)
Theorem C13_threaded_exactly_once : forall S0 sched c,
  ok_sched (tinit S0) sched = true ->
  let st := trun (tinit S0) sched in
  In c (t_cons st) ->
  (c_fin c = true -> c_out c = rev (c_start c)) /\
  (c_fin c = false -> pre (c_out c) (rev (c_start c))) /\
  (t_loaded st = true -> t_ls st = rev (t_store st ++ t_fly st)).
Proof. exact threaded_exactly_once. Qed.
Print Assumptions C13_threaded_exactly_once.

(* ... hence no entry twice when the entries are distinct. *)
Theorem C13_threaded_no_duplicates : forall S0 sched c,
  ok_sched (tinit S0) sched = true ->
  In c (t_cons (trun (tinit S0) sched)) -> c_fin c = true ->
  NoDup (c_start c) -> NoDup (c_out c).
Proof. exact threaded_no_duplicates. Qed.
Print Assumptions C13_threaded_no_duplicates.

(* Progress in the model where a read may happen at any time (a SUPERSET of the
   real schedules: a real read needs its event set): give the loader its
   remaining steps and one read, and an unfinished consumer finishes.  That the
   read is really enabled - the event set - is C13_threaded_wakeup below. *)
Theorem C13_threaded_consumer_finishes : forall S0 sched i c,
  let st := trun (tinit S0) sched in
  nth_error (t_cons st) i = Some c -> c_fin c = false ->
  exists c', nth_error (t_cons (trun st (repeat LStep (togo st) ++ [CRead i]))) i = Some c'
             /\ c_fin c' = true.
Proof. exact consumer_finishes. Qed.
Print Assumptions C13_threaded_consumer_finishes.

(* The schedule of the repaired finding C13-F1 (consume c,b; append NEW; go
   on) is inside [ok_sched] and now yields c,b,a. *)
Theorem C13_threaded_old_witness_fixed :
  ok_sched (tinit [sa; sb; sc]) old_witness_sched = true /\
  let st := trun (tinit [sa; sb; sc]) old_witness_sched in
  t_ls st = [snew; sc; sb; sa] /\ map c_out (t_cons st) = [[sc; sb; sa]].
Proof. exact old_witness_now_fine. Qed.
Print Assumptions C13_threaded_old_witness_fixed.

(* Without the [ok_sched] restriction the property is still FALSE (findings
   C13-F2/F2b): append_string between the first load()'s cache reset and the
   loader's reading of the storage, then a second load() - it yields NEW twice *)
Theorem C13_threaded_append_in_window_refuted :
  ~ (forall S0 sched c,
       let st := trun (tinit S0) sched in
       NoDup (t_store st) -> t_fly st = [] -> In c (t_cons st) -> c_fin c = true ->
       forall s, In s (c_out c) -> count_occ str_dec (c_out c) s = 1%nat).
Proof. exact append_in_window_refuted. Qed.
Print Assumptions C13_threaded_append_in_window_refuted.

(* ... and the cache keeps the entry twice. *)
Theorem C13_threaded_cache_refuted :
  ~ (forall S0 sched,
       let st := trun (tinit S0) sched in
       NoDup (t_store st) -> t_fly st = [] -> t_loaded st = true ->
       t_ls st = rev (t_store st)).
Proof. exact cache_in_window_refuted. Qed.
Print Assumptions C13_threaded_cache_refuted.

(* FileHistory under ThreadedHistory: run the same transition system over the
   file's BYTES ([cstep]: the loader's snapshot is load_bytes of the file,
   store_string appends store_bytes; [ts_of] = any LF-free timestamps).  For
   every covered schedule the file stays the concatenation of the records of
   the stored strings, the cache once loaded is the inline load of the file,
   and a finished threaded load() has yielded exactly what FileHistory's loader
   returns for the file with the records present when it started. *)
Theorem C13_threaded_over_file : forall (ts_of : str -> bytes),
  (forall s, nolf (ts_of s)) ->
  forall rs0 sched,
  Forall valid_rec rs0 -> Forall label_valid sched ->
  ok_sched (tinit (map snd rs0)) sched = true ->
  let sf := crun ts_of (tinit (map snd rs0), file_of rs0) sched in
  (exists rs, Forall valid_rec rs /\ snd sf = file_of rs /\ map snd rs = t_store (fst sf) /\
              load_bytes (snd sf) = rev (t_store (fst sf))) /\
  (t_loaded (fst sf) = true -> t_fly (fst sf) = [] -> t_ls (fst sf) = load_bytes (snd sf)) /\
  forall c, In c (t_cons (fst sf)) -> c_fin c = true ->
    forall rs, Forall valid_rec rs -> map snd rs = c_start c -> c_out c = load_bytes (file_of rs).
Proof. exact threaded_over_file. Qed.
Print Assumptions C13_threaded_over_file.

(* The two statements of the consumer's locked read, [CItems] (new_items) and
   [CDone] (done = _loaded), done back to back are the model's [CRead]: in
   /repo they are one lock region, so nothing can come between them ... *)
Theorem C13_read_is_items_then_done : forall st i,
  tstep3 (tstep3 st (CItems i)) (CDone i) = tstep st (CRead i).
Proof. exact items_then_done_is_read. Qed.
Print Assumptions C13_read_is_items_then_done.

(* ... and they must be: if the flag is read later (after the lock is released,
   seeded change C13-3) loader steps fit in between and a load() can finish
   with only part of the entries ([late_sched]: yields c of a,b,c). *)
Theorem C13_late_done_refuted :
  ~ (forall S0 sched c,
       In c (t_cons (trun3 (tinit S0) sched)) -> c_fin c = true -> c_out c = rev (c_start c)).
Proof. exact late_done_refuted. Qed.
Print Assumptions C13_late_done_refuted.

(* PROPOSED repair of C13-F2 (fixes/C13-append-between-reset-and-read.patch,
   modelled in Model/C13_ThreadedF2.v, NOT the code of /repo): append_string is
   one lock region that only stores between the first load() and the loader's
   reading of the storage, and that reading is atomic against it.  Then
   exactly-once holds for EVERY schedule - no [ok_sched], no window. *)
Theorem C13_threaded_exactly_once_f2 : forall S0 sched c,
  let st := trun2 (tinit S0) sched in
  In c (t_cons st) ->
  (c_fin c = true -> c_out c = rev (c_start c)) /\
  (c_fin c = false -> pre (c_out c) (rev (c_start c))) /\
  (t_loaded st = true -> t_ls st = rev (t_store st)).
Proof. exact threaded_exactly_once_f2. Qed.
Print Assumptions C13_threaded_exactly_once_f2.

Theorem C13_threaded_window_fixed_f2 :
  let st := trun2 (tinit [sa; sb]) window_sched2 in
  t_store st = [sa; sb; snew] /\ t_ls st = [snew; sb; sa] /\
  map c_out (t_cons st) = [[snew; sb; sa]; [snew; sb; sa]] /\ map c_fin (t_cons st) = [true; true].
Proof. exact window_fixed_f2. Qed.
Print Assumptions C13_threaded_window_fixed_f2.

(* SECOND proposed repair of C13-F2 (fixes/C13-postpone-store-until-snapshot.patch,
   Model/C13_ThreadedF3.v, NOT the code of /repo): the slow read of the wrapped
   history stays OUTSIDE the lock; a string appended between the first load()
   and the loader's snapshot is cached at once but stored only after the
   snapshot.  Exactly-once for EVERY schedule, no exclusion. *)
Theorem C13_threaded_exactly_once_f3 : forall S0 sched c,
  let st := trun4 (tinit3 S0) sched in
  In c (s_cons st) ->
  (c_fin c = true -> c_out c = rev (c_start c)) /\
  (c_fin c = false -> pre (c_out c) (rev (c_start c))) /\
  (s_loaded st = true -> s_ls st = rev (s_store st) /\ s_later st = []).
Proof. exact threaded_exactly_once_f3. Qed.
Print Assumptions C13_threaded_exactly_once_f3.

Theorem C13_threaded_window_fixed_f3 :
  let st := trun4 (tinit3 [sa; sb]) window_sched4 in
  s_store st = [sa; sb; snew; sc] /\ s_ls st = [sc; snew; sb; sa] /\
  map c_out (s_cons st) = [[sb; sa]; [sc; snew; sb; sa]] /\ map c_fin (s_cons st) = [true; true].
Proof. exact window_fixed_f3. Qed.
Print Assumptions C13_threaded_window_fixed_f3.

(* A torn file under a threaded load, one statement (C13_torn o
   C13_threaded_over_file): cut the file at ANY byte, run the threaded system
   over those bytes under any covered schedule that stores nothing before the
   loader has read the file: every finished load() yields [rev tail], then at
   most one damaged string, then the k completed entries intact and in order,
   where [tail] is exactly what followed S0 in [c_start c] (= the storage plus
   the string being stored when that load() started, a ghost field set by
   CStart): the strings appended before it started, in order, each once. *)
Theorem C13_torn_threaded : forall (ts_of : str -> bytes),
  (forall s, nolf (ts_of s)) ->
  forall rs0 p sfx sched,
  Forall valid_rec rs0 -> p ++ sfx = file_of rs0 -> Forall label_valid sched ->
  let S0 := rev (load_bytes p) in
  ok_sched (tinit S0) sched = true -> nes_sched (tinit S0) sched = true ->
  exists k d, complete_in rs0 p k /\ (length d <= 1)%nat /\
    (p = file_of (firstn k rs0) -> d = []) /\
    fst (crun ts_of (tinit S0, p) sched) = trun (tinit S0) sched /\
    forall c, In c (t_cons (trun (tinit S0) sched)) -> c_fin c = true ->
      exists tail, c_start c = S0 ++ tail /\ c_out c = rev tail ++ d ++ rev (firstn k (map snd rs0)).
Proof. exact torn_threaded. Qed.
Print Assumptions C13_torn_threaded.

(* Inline loading (History.load, the reference the threaded result is compared
   with).  Without an append during the iteration: k steps yield the first k
   entries of the storage, newest first, and it ends after all of them - the
   same list a finished threaded load() yields (C13_threaded_exactly_once). *)
Theorem C13_inline_no_append : forall S0 k,
  let st := irun (iinit S0) (repeat INext k) in
  i_out st = firstn k (rev S0) /\ (i_done st = true <-> (length S0 < k)%nat).
Proof. exact inline_no_append. Qed.
Print Assumptions C13_inline_no_append.

(* With an append during the iteration: in EVERY state in which something was
   already yielded, append_string then the next step yields the last entry
   again (the list iterator is an index, insert(0) shifts the list) ... *)
Theorem C13_inline_append_duplicates : forall st s x,
  i_done st = false -> nth_error (i_ls st) (Nat.pred (i_idx st)) = Some x -> (1 <= i_idx st)%nat ->
  i_out (irun st [IAppend s; INext]) = i_out st ++ [x].
Proof. exact inline_append_duplicates. Qed.
Print Assumptions C13_inline_append_duplicates.

(* ... so exactly-once is false for inline loading as well (finding C13-F3;
   a,b,c: two steps, append NEW, go on: c,b,b,a). *)
Theorem C13_inline_exactly_once_refuted :
  ~ (forall S0 sched, NoDup (i_store (irun (iinit S0) sched)) -> NoDup (i_out (irun (iinit S0) sched))).
Proof. exact inline_exactly_once_refuted. Qed.
Print Assumptions C13_inline_exactly_once_refuted.

(* Proposed repair (fixes/C13-inline-load-snapshot.patch: iterate over a copy,
   [istep_fixed]): every schedule yields a prefix of the cache as it was when
   load() started, all of it when the iterator is done - what the threaded
   load() yields since commit 0c2cbbe. *)
Theorem C13_inline_fixed_exactly_once : forall S0 sched,
  let st := irun_fixed (iinit S0) sched in
  pre (i_out st) (rev S0) /\ (i_done st = true -> i_out st = rev S0).
Proof. exact inline_fixed_exactly_once. Qed.
Print Assumptions C13_inline_fixed_exactly_once.

(* The loader's event loops statement by statement (Model/C13_ThreadedEv.v: one
   event.set() call = one step, the loop runs over the copy taken at its start,
   consumers finish / register in between).  Safety as before ... *)
Theorem C13_ev_exactly_once : forall S0 sched c,
  eok_sched (einit S0) sched = true ->
  let st := e_st (erun (einit S0) sched) in
  In c (t_cons st) ->
  (c_fin c = true -> c_out c = rev (c_start c)) /\
  (c_fin c = false -> pre (c_out c) (rev (c_start c))) /\
  (t_loaded st = true -> t_ls st = rev (t_store st ++ t_fly st)).
Proof. exact ev_exactly_once. Qed.
Print Assumptions C13_ev_exactly_once.

(* ... and nobody is left asleep: in EVERY reachable state of that system, once
   the loader thread is through (flag set, last loop over), every load() that
   has not finished has its event set - its read is enabled - and that read
   finishes it. *)
Theorem C13_threaded_wakeup : forall S0 sched i c,
  let es := erun (einit S0) sched in
  t_ph (e_st es) = P4 -> e_loop es = None ->
  nth_error (t_cons (e_st es)) i = Some c -> c_fin c = false ->
  c_ev c = true /\ c_fin (read (e_st es) c) = true.
Proof. exact wakeup. Qed.
Print Assumptions C13_threaded_wakeup.

(* The code before fixes/C13-set-events-over-copy.patch iterated the LIVE list
   ([psub]): a load() that finishes during the loader's final loop shifts the
   list under the iterator, the next event is skipped, and that load() waits
   for ever although the loader is through (finding C13-F4, [skip_sched]). *)
Theorem C13_threaded_wakeup_pinned_refuted :
  ~ (forall S0 sched i c,
       let ps := prun (pinit S0) sched in
       t_ph (p_st ps) = P4 -> p_cur ps = None ->
       nth_error (t_cons (p_st ps)) i = Some c -> c_fin c = false -> c_ev c = true).
Proof. exact wakeup_pinned_refuted. Qed.
Print Assumptions C13_threaded_wakeup_pinned_refuted.

Theorem C13_skip_sched_patched :
  e_loop (erun (einit [sa]) skip_sched) = Some [1%nat] /\
  let es := erun (einit [sa]) (skip_sched ++ [ESub]) in
  t_ph (e_st es) = P4 /\ e_loop es = None /\
  map c_ev (t_cons (e_st es)) = [false; true] /\ map c_fin (t_cons (e_st es)) = [true; false].
Proof. exact skip_sched_patched. Qed.
Print Assumptions C13_skip_sched_patched.

(* ---- round 6: ONE system at thread-switch granularity (Model/C13_ThreadedFine.v) ----
   Steps: every single statement of the loader thread (the locked append /
   flag, the evaluation of `list(self._string_load_events)` AFTER the lock is
   released, each event.set()), a load()'s locked executor job [GRead] and its
   continuation on the event loop [GCont] (yields + unregistering: a consumer's
   finish is not atomic with its last read), the halves of append_string, and
   [GOther]: ANOTHER instance storing a string on the same storage.
   [vis gs i] = what the event-loop side sees of load() number i. *)

(* Safety: every covered schedule (gok_sched = ok_sched of the coarse model for
   load()/append_string; another instance's store at ANY moment - round 7: also
   between the first load() and the loader's reading, where the entry is part
   of what the loader reads and the ghost [c_start] of the load() calls already
   waiting grows with it, [add_start]).  A load() that has ended yielded
   exactly [c_start] = the entries stored or being stored when it started (plus
   those other instances stored before the loader's read), newest first;
   one that has not, a prefix; once loaded the cache is everything this object
   knows of: what the loader read + its own appends ([own_view]: the real
   storage minus what other instances stored after the loader's read). *)
Theorem C13_fine_exactly_once : forall S0 sched i c,
  gok_sched (ginit S0) sched = true ->
  let gs := grun (ginit S0) sched in
  vis gs i = Some c ->
  (c_fin c = true -> c_out c = rev (c_start c)) /\
  (c_fin c = false -> pre (c_out c) (rev (c_start c))) /\
  (t_loaded (g_st gs) = true -> t_ls (g_st gs) = rev (own_view (g_real gs) ++ t_fly (g_st gs))).
Proof. exact g_exactly_once. Qed.
Print Assumptions C13_fine_exactly_once.

(* Progress, EVERY schedule (no hypothesis at all): once the loader thread is
   through, for every load() i its pending continuation (if any) delivers what
   was read, and then it has either ended or its event is set and its next
   read ends it.  (Loop over a copy taken after the lock region; events of
   load() calls that finished or unregistered meanwhile are set harmlessly.) *)
Theorem C13_fine_wakeup : forall S0 sched i c,
  let gs := grun (ginit S0) sched in
  t_ph (g_st gs) = P4 -> g_loop gs = LNone ->
  nth_error (t_cons (g_st gs)) i = Some c ->
  vis (gstep gs (GCont i)) i = Some c /\
  (c_fin c = false -> c_ev c = true /\ c_fin (read (g_st gs) c) = true).
Proof. exact g_wakeup. Qed.
Print Assumptions C13_fine_wakeup.

(* The same system over the file's BYTES, this object AND other instances
   appending to one file: (1) the byte-level run is the abstract run and the
   file is the concatenation of the records of every string stored by anybody,
   in order - a fresh instance reads them all back, newest first; (2) once
   loaded this object's cache is the inline load of the file without the
   records other instances stored after the loader had read it (of the file
   itself when there are none); (3) every load() that has ended yielded what
   FileHistory's own loader returns for the records present when it started. *)
Theorem C13_fine_over_file : forall (ts_of : str -> bytes),
  (forall s, nolf (ts_of s)) ->
  forall rs0 sched,
  Forall valid_rec rs0 -> Forall glabel_valid sched ->
  gok_sched (ginit (map snd rs0)) sched = true ->
  let sf := gcrun ts_of (ginit (map snd rs0), file_of rs0) sched in
  let gs := fst sf in
  gs = grun (ginit (map snd rs0)) sched /\
  (exists rs, Forall valid_rec rs /\ snd sf = file_of rs /\ map snd rs = real_store gs /\
              load_bytes (snd sf) = rev (real_store gs)) /\
  (t_loaded (g_st gs) = true -> t_fly (g_st gs) = [] ->
     (forall rs, Forall valid_rec rs -> map snd rs = own_view (g_real gs) ->
                 t_ls (g_st gs) = load_bytes (file_of rs)) /\
     (all_early (g_real gs) = true -> t_ls (g_st gs) = load_bytes (snd sf))) /\
  (forall i c, vis gs i = Some c -> c_fin c = true ->
     forall rs, Forall valid_rec rs -> map snd rs = c_start c -> c_out c = load_bytes (file_of rs)).
Proof. exact g_over_file. Qed.
Print Assumptions C13_fine_over_file.

(* A TORN file under the fine system ("crash, restart, load in a background
   thread, keep appending" - this object and others): the file is cut at ANY
   byte, nothing is stored by anybody before the loader has read it
   ([gnes_sched]).  The byte-level run is the abstract run over S0 = the k
   completed entries + at most one damaged string, and every load() that has
   ended yielded: what was appended before it started (newest first), at most
   one damaged string, the k completed entries intact and in order. *)
Theorem C13_fine_torn : forall (ts_of : str -> bytes),
  (forall s, nolf (ts_of s)) ->
  forall rs0 p sfx sched,
  Forall valid_rec rs0 -> p ++ sfx = file_of rs0 -> Forall glabel_valid sched ->
  let S0 := rev (load_bytes p) in
  gok_sched (ginit S0) sched = true -> gnes_sched (ginit S0) sched = true ->
  exists k d, complete_in rs0 p k /\ (length d <= 1)%nat /\
    (p = file_of (firstn k rs0) -> d = []) /\
    fst (gcrun ts_of (ginit S0, p) sched) = grun (ginit S0) sched /\
    (forall i c, vis (grun (ginit S0) sched) i = Some c -> c_fin c = true ->
       exists tail, c_start c = S0 ++ tail /\ c_out c = rev tail ++ d ++ rev (firstn k (map snd rs0))).
Proof. exact g_torn. Qed.
Print Assumptions C13_fine_torn.

(* ... and when somebody DOES store before the loader has read the torn file
   (crash, restart, an entry accepted / another instance appending BEFORE the
   background load reads; [gearly]: the loader's read comes after at least one
   store): the record's leading "\n" closes the torn line, the abstract run
   starts from S0 = rev (load_bytes (p ++ "\n")) = k completed entries + at
   most one damaged string, and every ended load() yields (appended before its
   start or before the loader's read, newest first) ++ (<= 1 damaged) ++ (the
   k completed entries intact, in order).  With C13_fine_torn (nobody stores
   before the read) this covers every schedule of stores around the read. *)
Theorem C13_fine_torn_early : forall (ts_of : str -> bytes),
  (forall s, nolf (ts_of s)) ->
  forall rs0 p sfx sched,
  Forall valid_rec rs0 -> p ++ sfx = file_of rs0 -> Forall glabel_valid sched ->
  let S0 := rev (load_bytes (p ++ [NL])) in
  gok_sched (ginit S0) sched = true -> gearly false (ginit S0) sched = true ->
  exists k d, complete_in rs0 p k /\ (length d <= 1)%nat /\
    (p = file_of (firstn k rs0) -> d = []) /\
    fst (gcrun ts_of (ginit S0, p) sched) = grun (ginit S0) sched /\
    (forall i c, vis (grun (ginit S0) sched) i = Some c -> c_fin c = true ->
       exists tail, c_start c = S0 ++ tail /\ c_out c = rev tail ++ d ++ rev (firstn k (map snd rs0))).
Proof. exact g_torn_early. Qed.
Print Assumptions C13_fine_torn_early.

(* ---- round 6: the file format as a grammar ----------------------------------------
   doc ::= item* ; item ::= junk line (LF-free bytes not starting with '+', then
   "\n": "# ..." comments, blank lines, foreign text, non-UTF-8 bytes) | entry
   (('+' utf8(line) "\n")+), no two entries adjacent.  The loader is a parser
   of that grammar: parse (print doc) = the entries of doc, newest first, for
   EVERY document; what store_string writes is such a document. *)
Theorem C13_grammar_roundtrip : forall d,
  Forall item_ok d -> separated d = true -> load_bytes (print_doc d) = rev (entries d).
Proof. exact grammar_roundtrip. Qed.
Print Assumptions C13_grammar_roundtrip.

Theorem C13_file_is_doc : forall rs,
  file_of rs = print_doc (doc_of rs) /\
  (Forall valid_rec rs ->
   Forall item_ok (doc_of rs) /\ separated (doc_of rs) = true /\ entries (doc_of rs) = map snd rs).
Proof. exact file_is_doc_ok. Qed.
Print Assumptions C13_file_is_doc.

(* The cut right after a record's first '+' marker: one EMPTY string for the
   record being written (the one damaged entry), every earlier entry intact. *)
Theorem C13_torn_after_plus : forall rs ts,
  Forall valid_rec rs -> nolf ts ->
  load_bytes (file_of rs ++ store_head ts ++ [PLUS]) = [] :: rev (map snd rs).
Proof. exact torn_after_plus. Qed.
Print Assumptions C13_torn_after_plus.

(* What exactly a torn write damages (round 7), EVERY cut offset: the k
   completed entries come back intact and in order, and the at most one extra
   string is a PREFIX ([spre]) of entry number k+1 - the one that was being
   written: nothing foreign, no other entry touched.  (A cut inside a
   multi-byte character gives U+FFFD as the last character, which the
   loader's [:-1] drops together with the missing line feed.) *)
Theorem C13_torn_damaged_prefix : forall rs p sfx,
  Forall valid_rec rs -> p ++ sfx = file_of rs ->
  exists k d, complete_in rs p k /\ load_bytes p = d ++ rev (firstn k (map snd rs)) /\
    (d = [] \/ exists r s', nth_error rs k = Some r /\ d = [s'] /\ spre s' (snd r)).
Proof. exact torn_damaged_prefix. Qed.
Print Assumptions C13_torn_damaged_prefix.

(* ... and once complete records are appended after the torn tail (the leading
   "\n" of the first one closes the torn line): the new entries first, the k
   completed entries intact and in order, between them at most one string - a
   PREFIX of the entry that was being written, possibly followed by ONE U+FFFD
   (cut inside a multi-byte character). *)
Theorem C13_torn_then_append_damaged : forall rs rs2 p sfx,
  Forall valid_rec rs -> Forall valid_rec rs2 -> rs2 <> [] -> p ++ sfx = file_of rs ->
  exists k d, complete_in rs p k /\
    load_bytes (p ++ file_of rs2) = rev (map snd rs2) ++ d ++ rev (firstn k (map snd rs)) /\
    (d = [] \/ exists r s', nth_error rs k = Some r /\ spre s' (snd r) /\ (d = [s'] \/ d = [s' ++ [REPL]])).
Proof. exact torn_then_append_damaged. Qed.
Print Assumptions C13_torn_then_append_damaged.

(* Non-vacuity of the fine system's hypothesis: own and foreign appends before
   the first load(), a read before the loader's snapshot, a foreign store and a
   second load() while the loader is inside its loops. *)
Example C13_fine_sched_somewhere :
  let sched := [GIns [98]; GSto [98]; GOther [70]; GStart; GRead 0; GOther [72]; GCont 0; GL; GL; GL; GStart;
                GOther [71]; GL; GL; GRead 0; GL; GIns [99]; GCont 0; GSto [99]; GRead 1; GCont 1] in
  gok_sched (ginit [[97]]) sched = true /\ gearly false (ginit [[97]]) sched = true.
Proof. vm_compute. auto. Qed.
Print Assumptions C13_fine_sched_somewhere.

(* Non-vacuity. *)
Example C13_valid_rec_somewhere :
  Forall valid_rec [([50; 48], [43; 10; 13; 8232; 0; 128512; 35])] /\
  ok_sched (tinit [[97]]) [Append [98]; CStart; LStep; AIns [100]; LStep; CRead 0; ASto [100]; LStep;
                           CStart; Append [99]; CRead 0; CRead 1] = true.
Proof.
  split; [|vm_compute; reflexivity].
  constructor; [|constructor]. split; [|vm_compute; reflexivity].
  unfold nolf. cbn. intuition discriminate.
Qed.
Print Assumptions C13_valid_rec_somewhere.
