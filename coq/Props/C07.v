(* C07 - Undo walks back through texts actually held; redo exactly reverses
   undo.  Statements only; proofs are in Proofs/C07_UndoFacts.v,
   Proofs/C07_KeysFacts.v, Proofs/C07_TableFacts.v.

   Buffer level (Model/C07_Undo.v): a state is text, cursor, undo stack, redo
   stack (head = top); an operation is [Cmd save t c] (one command: snapshot
   iff the binding's save_before said so, then an ARBITRARY effect leaving
   text t, cursor c), [Undo] or [Redo].  [grun (fresh t c) ops] runs any
   operation list from a fresh buffer holding any document and returns the
   final state together with the ghost history: the (text, cursor) the buffer
   had at every earlier command boundary, newest first.  [subseq l p]: l is p
   with elements deleted (same order, distinct positions).
   Key level (Model/C07_Keys.v): a table of bindings (save_before class,
   undo/redo handler?), events [Key h n t c] dispatched as
   KeyProcessor._call_handler does (is_repeat = same binding as the previous
   dispatch), for any table; Model/C07_Table.v instantiates the table
   regenerated from /repo. *)
From Coq Require Import ZArith List Bool.
From PTK Require Import Lib.Sx Lib.Py Lib.C07_Lemmas Model.C07_Undo Model.C07_Keys Model.C07_Table
  Gen.C07_Bindings Proofs.C07_UndoFacts Proofs.C07_KeysFacts Proofs.C07_TableFacts.
From PTK Require Import Model.Document Model.BufferEdit.
From PTK Require Model.C09_Kill.
From PTK Require Import Proofs.C07_Payloads Proofs.C07_KeyHistFacts.
From PTK Require Import Model.C07_Multi Model.C07_Edit Proofs.C07_MultiFacts Proofs.C07_RoundTrip Proofs.C07_EditFacts.
From PTK Require Import Model.C07_Edit2 Proofs.C07_Edit2Facts.
Import ListNotations.
Open Scope Z_scope.

(* Every undo-stack entry and every redo-stack entry is exactly (text AND
   cursor) a state the buffer had at an earlier command boundary, and the
   entries lie in the stack in chronological order, at distinct boundaries. *)
Theorem C07_stack_is_history : forall t c ops,
  let g := grun (fresh t c) ops in
  subseq (ustack (fst g)) (snd g) /\ subseq (rstack (fst g)) (snd g).
Proof. exact stack_is_history. Qed.
Print Assumptions C07_stack_is_history.

(* One undo after any session: either it changes nothing (every stacked text
   equals the current text; the stack is emptied), or it lands exactly on a
   state [here (undo s)] of the history - nothing is invented -, the text
   really changes, everything left on the undo stack is OLDER than that
   boundary, and the state it left is pushed on the redo stack. *)
Theorem C07_undo_lands_in_history : forall t c ops,
  0 <= c <= len t -> Forall op_ok ops ->
  let g := grun (fresh t c) ops in
  let s := fst g in
  let past := snd g in
  (utext (undo s) = utext s /\ ucur (undo s) = ucur s /\ ustack (undo s) = [] /\
   rstack (undo s) = rstack s /\ forall e, In e (ustack s) -> fst e = utext s)
  \/
  (exists newer older,
     past = newer ++ here (undo s) :: older /\
     utext (undo s) <> utext s /\
     subseq (ustack (undo s)) older /\
     rstack (undo s) = here s :: rstack s).
Proof. exact undo_lands_in_history. Qed.
Print Assumptions C07_undo_lands_in_history.

(* k undos in a row after any session: the states they land on, in the order
   they are reached, form a subsequence of the history read newest-first:
   each landing is a boundary state strictly older than the previous one. *)
Theorem C07_undo_run_reverse_chronological : forall t c ops k,
  0 <= c <= len t -> Forall op_ok ops ->
  let g := grun (fresh t c) ops in
  subseq (undo_landings (fst g) k) (snd g).
Proof. exact undo_run_reverse_chronological. Qed.
Print Assumptions C07_undo_run_reverse_chronological.

(* Repeated undo reaches the text the session started with - the document of
   the last Buffer.reset, or the initial one ([session_start]) -, provided no
   command that was not snapshotted changed the text while the undo stack was
   empty ([ops_safe]); k = current stack height suffices. *)
Theorem C07_reaches_start : forall t c ops k,
  0 <= c <= len t -> Forall op_ok ops -> ops_safe (fresh t c) ops ->
  let s := urun (fresh t c) ops in
  (length (ustack s) <= k)%nat ->
  utext (iter_op Undo k s) = session_start t ops.
Proof. exact reaches_start. Qed.
Print Assumptions C07_reaches_start.

(* ... and the proviso is needed: one unsnapshotted edit of a fresh buffer. *)
Theorem C07_reaches_start_unconditional_refuted :
  exists t c ops k,
    0 <= c <= len t /\ Forall op_ok ops /\
    (length (ustack (urun (fresh t c) ops)) <= k)%nat /\
    utext (iter_op Undo k (urun (fresh t c) ops)) <> t.
Proof. exact reaches_start_needs_condition. Qed.
Print Assumptions C07_reaches_start_unconditional_refuted.

(* Redo immediately after an undo that changed something restores text and
   cursor exactly (and the redo stack as it was). *)
Theorem C07_redo_inverts_undo : forall s,
  wf s -> utext (undo s) <> utext s ->
  let s2 := redo (undo s) in
  utext s2 = utext s /\ ucur s2 = ucur s /\ rstack s2 = rstack s /\ ubad s2 = false /\
  exists r, ustack s2 = here (undo s) :: r.
Proof. exact redo_inverts_undo. Qed.
Print Assumptions C07_redo_inverts_undo.

(* k effective undos followed by k redos likewise. *)
Theorem C07_redo_inverts_undo_n : forall k s,
  wf s -> all_effective s k ->
  same_view (iter_op Redo k (iter_op Undo k s)) s.
Proof. exact redo_inverts_undo_n. Qed.
Print Assumptions C07_redo_inverts_undo_n.

(* Any snapshotted command discards the redo history. *)
Theorem C07_edit_clears_redo : forall s t c, rstack (ustep s (Cmd true t c)) = [].
Proof. exact edit_clears_redo. Qed.
Print Assumptions C07_edit_clears_redo.

(* The Document(text, pos) constructor inside undo/redo never asserts. *)
Theorem C07_no_assert : forall t c ops,
  0 <= c <= len t -> Forall op_ok ops -> ubad (urun (fresh t c) ops) = false.
Proof. exact no_assert. Qed.
Print Assumptions C07_no_assert.

(* A key session is a buffer-level operation list: everything above holds for
   sessions dispatched through KeyProcessor._call_handler, whatever the table.
   CAUTION: one dispatch expands to several buffer-level operations, so the
   buffer-level ghost history [grun] of an expanded key session also contains
   mid-dispatch states; the statements whose history has exactly one entry per
   dispatched command are C07_key_stack_is_history,
   C07_key_undo_lands_in_history and C07_key_undo_run_reverse_chronological
   below (over [kgrun]). *)
Theorem C07_key_session_is_op_list : forall tbl evs s,
  kbuf (krun tbl s evs) = urun (kbuf s) (expand_all tbl s evs).
Proof. exact krun_expand_all. Qed.
Print Assumptions C07_key_session_is_op_list.

(* Grouping: a maximal run (the previous dispatch was another binding) of
   invocations of one if_no_repeat binding with a plain handler takes exactly
   one snapshot, whatever the invocations do ... *)
Theorem C07_group_one_snapshot : forall tbl h s e evs,
  r_cls (lookup tbl h) = 2 -> r_act (lookup tbl h) = 0 ->
  kprev s <> Some h -> Forall (is_key_of h) (e :: evs) ->
  let s' := krun tbl s (e :: evs) in
  ustack (kbuf s') = ustack (save_to_undo_stack (kbuf s) true) /\
  rstack (kbuf s') = [] /\ kprev s' = Some h.
Proof. exact group_one_snapshot. Qed.
Print Assumptions C07_group_one_snapshot.

(* ... so one undo after the run restores the pre-run text and cursor. *)
Theorem C07_group : forall tbl h s e evs,
  r_cls (lookup tbl h) = 2 -> r_act (lookup tbl h) = 0 ->
  kprev s <> Some h -> Forall (is_key_of h) (e :: evs) ->
  wf (kbuf s) ->
  let s' := krun tbl s (e :: evs) in
  utext (kbuf s') <> utext (kbuf s) ->
  here (undo (kbuf s')) = here (kbuf s) /\
  rstack (undo (kbuf s')) = [here (kbuf s')].
Proof. exact group_one_undo. Qed.
Print Assumptions C07_group.

(* Any edit (plain handler) behind a binding that ever snapshots leaves the
   redo stack empty - unsnapshotted repeats inside a run included. *)
Theorem C07_key_edit_clears_redo : forall tbl t0 c0 evs h n t c,
  r_act (lookup tbl h) = 0 -> r_cls (lookup tbl h) <> 0 ->
  rstack (kbuf (kstep tbl (krun tbl (kfresh t0 c0) evs) (Key h n t c))) = [].
Proof. exact key_edit_clears_redo. Qed.
Print Assumptions C07_key_edit_clears_redo.

(* Repeated undo reaches the initial text after every key session in which
   the never-snapshotting bindings and the undo/redo handlers leave the text
   they found ([all_quiet]; what the real undo keys and the CPR handler do). *)
Theorem C07_key_reaches_start : forall tbl t0 c0 evs k,
  tbl_sane tbl -> 0 <= c0 <= len t0 -> Forall kev_ok evs -> all_quiet tbl (kfresh t0 c0) evs ->
  let s := kbuf (krun tbl (kfresh t0 c0) evs) in
  (length (ustack s) <= k)%nat ->
  utext (iter_op Undo k s) = ksession_start t0 evs.
Proof. exact key_reaches_start. Qed.
Print Assumptions C07_key_reaches_start.

(* ---- the binding table regenerated from /repo on this run ---- *)

(* all [c07_nrows] rows were read; classes/actions are known; if_no_repeat
   only occurs on plain handlers (so C07_key_reaches_start applies) *)
Theorem C07_table_sane : len c07_rows = c07_nrows /\ tbl_sane c07_rows.
Proof. exact (conj live_nrows live_sane). Qed.
Print Assumptions C07_table_sane.

(* the Vi undo key never snapshots before undoing *)
Theorem C07_table_vi_undo : forall h,
  r_role (lookup c07_rows h) = 4 -> r_cls (lookup c07_rows h) = 0 /\ r_act (lookup c07_rows h) = 1.
Proof. exact live_vi_undo. Qed.
Print Assumptions C07_table_vi_undo.

(* a run of the Vi multiple-cursor insert binding is undone as one group *)
Theorem C07_table_multicursor_group : forall h s e evs,
  r_role (lookup c07_rows h) = 6 ->
  kprev s <> Some h -> Forall (is_key_of h) (e :: evs) -> wf (kbuf s) ->
  let s' := krun c07_rows s (e :: evs) in
  utext (kbuf s') <> utext (kbuf s) ->
  here (undo (kbuf s')) = here (kbuf s).
Proof. exact live_multicursor_group. Qed.
Print Assumptions C07_table_multicursor_group.

(* HEADLINE for the grouping clause: in the table regenerated from /repo
   every typed-character (<any> self-insert), backspace, delete / c-delete and
   Vi multiple-cursor-insert binding is if_no_repeat, so a maximal run of any
   one of them - whatever the invocations do to the buffer - is undone by ONE
   undo, which restores the pre-run text and cursor and leaves exactly the
   post-run state on the redo stack. *)
Theorem C07_table_typed_group : forall h s e evs,
  is_group_role (lookup c07_rows h) = true ->
  kprev s <> Some h -> Forall (is_key_of h) (e :: evs) -> wf (kbuf s) ->
  let s' := krun c07_rows s (e :: evs) in
  utext (kbuf s') <> utext (kbuf s) ->
  here (undo (kbuf s')) = here (kbuf s) /\
  rstack (undo (kbuf s')) = [here (kbuf s')].
Proof. exact live_typed_group. Qed.
Print Assumptions C07_table_typed_group.

(* every binding of the real table whose handler calls Buffer.undo (emacs
   c-_ and c-x c-u, Vi u) never snapshots before undoing, so the undo keys do
   not wipe the redo stack *)
Theorem C07_table_undo_never_snapshots : forall h,
  r_act (lookup c07_rows h) = 1 -> r_cls (lookup c07_rows h) = 0.
Proof. exact live_undo_never_snapshots. Qed.
Print Assumptions C07_table_undo_never_snapshots.

(* Record of the pinned behaviour (finding C07-F1, repaired in /repo by
   cbe0478): with the bindings as registered at the pinned commit the grouping
   clause was false for typed characters: "abc", type x y, one undo -> "abcx". *)
Theorem C07_typed_group_pinned_refuted :
  exists h s e evs,
    r_role (lookup pinned_rows h) = 1 /\
    kprev s <> Some h /\ Forall (is_key_of h) (e :: evs) /\ wf (kbuf s) /\
    utext (kbuf (krun pinned_rows s (e :: evs))) <> utext (kbuf s) /\
    here (undo (kbuf (krun pinned_rows s (e :: evs)))) <> here (kbuf s).
Proof. exact typed_run_one_undo_pinned_refuted. Qed.
Print Assumptions C07_typed_group_pinned_refuted.

(* With the hand-recorded rows of the repaired registration it holds (the
   live-table statement is C07_table_typed_group above). *)
Theorem C07_typed_group_fixed : forall h s e evs,
  is_group_role (lookup fixed_rows h) = true ->
  kprev s <> Some h -> Forall (is_key_of h) (e :: evs) -> wf (kbuf s) ->
  let s' := krun fixed_rows s (e :: evs) in
  utext (kbuf s') <> utext (kbuf s) ->
  here (undo (kbuf s')) = here (kbuf s).
Proof. exact typed_run_one_undo_fixed. Qed.
Print Assumptions C07_typed_group_fixed.

(* ---- terminal reports (round 3) ---- *)

(* A cursor position report delivered as KeyProcessor.process_keys delivers it
   since b5c33a8 (_handle_cpr_response: no _call_handler) changes nothing the
   undo machinery looks at: text, cursor, both stacks and the "previous
   handler" that decides is_repeat. *)
Theorem C07_cpr_is_invisible : forall tbl s, kstep tbl s Cpr = s.
Proof. exact cpr_is_invisible. Qed.
Print Assumptions C07_cpr_is_invisible.

(* Hence reports arriving BETWEEN the keys of a run do not split it: one
   snapshot, and one undo restores the pre-run text and cursor. *)
Theorem C07_group_with_reports : forall tbl h s n t c evs,
  r_cls (lookup tbl h) = 2 -> r_act (lookup tbl h) = 0 ->
  kprev s <> Some h -> Forall (in_run_of h) evs ->
  wf (kbuf s) ->
  let s' := krun tbl s (Key h n t c :: evs) in
  utext (kbuf s') <> utext (kbuf s) ->
  here (undo (kbuf s')) = here (kbuf s) /\
  rstack (undo (kbuf s')) = [here (kbuf s')].
Proof. exact group_one_undo_cpr. Qed.
Print Assumptions C07_group_with_reports.

(* ---- handler models instead of observations (round 3) ---- *)

(* An undo key that never snapshots is exactly n calls of Buffer.undo plus the
   Vi end-of-line cursor fix-up: it leaves the text undo() left. *)
Theorem C07_undo_key_is_n_undos : forall tbl s h n nav,
  r_act (lookup tbl h) = 1 -> r_cls (lookup tbl h) = 0 ->
  let b := iter_op Undo (Z.to_nat n) (kbuf s) in
  kbuf (kstep tbl s (UndoKey h n nav)) = set_state b (utext b) (fix_vi_cursor nav b).
Proof. exact undo_key_is_n_undos. Qed.
Print Assumptions C07_undo_key_is_n_undos.

(* Every binding of the regenerated table is a plain handler behind a
   snapshotting binding, an undo key that never snapshots, or the CPR binding. *)
Theorem C07_table_classification : forall h,
  (r_act (lookup c07_rows h) = 0 /\ r_cls (lookup c07_rows h) <> 0) \/
  (r_act (lookup c07_rows h) = 1 /\ r_cls (lookup c07_rows h) = 0) \/
  r_role (lookup c07_rows h) = 7.
Proof. exact live_classification. Qed.
Print Assumptions C07_table_classification.

(* Repeated undo reaches the initial text after every session over the real
   table made of: dispatches of plain snapshotting bindings with ARBITRARY
   effects, undo keys as modelled, reports as delivered, direct redo() calls.
   No "leaves the text alone" hypothesis is left. *)
Theorem C07_table_reaches_start : forall t0 c0 evs k,
  0 <= c0 <= len t0 -> Forall kev_ok evs -> Forall (modelled c07_rows) evs ->
  let s := kbuf (krun c07_rows (kfresh t0 c0) evs) in
  (length (ustack s) <= k)%nat ->
  utext (iter_op Undo k s) = ksession_start t0 evs.
Proof. exact live_reaches_start. Qed.
Print Assumptions C07_table_reaches_start.

(* ---- payloads tied to the edit models of C01 / C09 (round 3) ---- *)

(* One undo right after any snapshotted command restores the state before it. *)
Theorem C07_undo_restores_pre_command : forall s t c,
  wf s -> t <> utext s ->
  here (undo (ustep s (Cmd true t c))) = here s /\
  rstack (undo (ustep s (Cmd true t c))) = [(t, c)].
Proof. exact undo_restores_pre_command. Qed.
Print Assumptions C07_undo_restores_pre_command.

(* self-insert = BufferEdit.insert_text, through the real <any> binding *)
Theorem C07_self_insert_then_undo : forall h s b data,
  r_role (lookup c07_rows h) = 1 -> kprev s <> Some h ->
  wf (kbuf s) -> agrees (kbuf s) b -> data <> [] ->
  let b' := res_buf (insert_text b data false true) in
  here (undo (kbuf (kstep c07_rows s (cmd_key h b')))) = (btext b, bcur b).
Proof. exact self_insert_then_undo. Qed.
Print Assumptions C07_self_insert_then_undo.

(* backspace = BufferEdit.delete_before_cursor, through the real c-h binding *)
Theorem C07_backspace_then_undo : forall h s b n,
  r_role (lookup c07_rows h) = 2 -> kprev s <> Some h ->
  wf (kbuf s) -> agrees (kbuf s) b -> 1 <= n -> 0 < bcur b ->
  let b' := res_buf (delete_before_cursor b n) in
  here (undo (kbuf (kstep c07_rows s (cmd_key h b')))) = (btext b, bcur b).
Proof. exact backspace_then_undo. Qed.
Print Assumptions C07_backspace_then_undo.

(* delete = BufferEdit.delete, through the real delete / c-delete bindings *)
Theorem C07_delete_then_undo : forall h s b n,
  r_role (lookup c07_rows h) = 3 -> kprev s <> Some h ->
  wf (kbuf s) -> agrees (kbuf s) b -> 1 <= n -> bcur b < len (btext b) ->
  let b' := res_buf (delete b n) in
  here (undo (kbuf (kstep c07_rows s (cmd_key h b')))) = (btext b, bcur b).
Proof. exact delete_then_undo. Qed.
Print Assumptions C07_delete_then_undo.

(* kill-line, kill-word, yank = the C09 models, through c-k / escape d / c-y *)
Theorem C07_kill_line_then_undo : forall h s (e : C09_Kill.st) arg,
  r_role (lookup c07_rows h) = 8 -> wf (kbuf s) -> agrees (kbuf s) (C09_Kill.sb e) ->
  let b' := C09_Kill.sb (snd (C09_Kill.kill_line e arg)) in
  btext b' <> btext (C09_Kill.sb e) ->
  here (undo (kbuf (kstep c07_rows s (cmd_key h b')))) = (btext (C09_Kill.sb e), bcur (C09_Kill.sb e)).
Proof. exact kill_line_then_undo. Qed.
Print Assumptions C07_kill_line_then_undo.

Theorem C07_kill_word_then_undo : forall h s (e : C09_Kill.st) arg rep,
  r_role (lookup c07_rows h) = 9 -> wf (kbuf s) -> agrees (kbuf s) (C09_Kill.sb e) ->
  let b' := C09_Kill.sb (snd (C09_Kill.kill_word e arg rep)) in
  btext b' <> btext (C09_Kill.sb e) ->
  here (undo (kbuf (kstep c07_rows s (cmd_key h b')))) = (btext (C09_Kill.sb e), bcur (C09_Kill.sb e)).
Proof. exact kill_word_then_undo. Qed.
Print Assumptions C07_kill_word_then_undo.

Theorem C07_yank_then_undo : forall h s (e : C09_Kill.st) arg,
  r_role (lookup c07_rows h) = 10 -> wf (kbuf s) -> agrees (kbuf s) (C09_Kill.sb e) ->
  let b' := C09_Kill.sb (snd (C09_Kill.yank e arg)) in
  btext b' <> btext (C09_Kill.sb e) ->
  here (undo (kbuf (kstep c07_rows s (cmd_key h b')))) = (btext (C09_Kill.sb e), bcur (C09_Kill.sb e)).
Proof. exact yank_then_undo. Qed.
Print Assumptions C07_yank_then_undo.

(* ---- several prompts / Buffer.reset on one session (round 4) ---- *)

(* Buffer.reset(document) starts a new session whatever happened before: both
   stacks empty and the ghost history empty - nothing of an earlier session can
   be undone or redone into the new one. *)
Theorem C07_reset_restarts : forall g t c,
  gstep g (Reset t c) = (mkust t c [] [] (ubad (fst g)), []).
Proof. exact reset_restarts. Qed.
Print Assumptions C07_reset_restarts.

(* Everything stated "from a fresh buffer" holds from the last reset on: the
   run after a reset IS a run from a fresh buffer holding the new document,
   ghost history included. *)
Theorem C07_run_after_reset : forall s t c ops,
  ubad s = false ->
  urun s (Reset t c :: ops) = urun (fresh t c) ops /\
  fold_left gstep (Reset t c :: ops) (s, []) = grun (fresh t c) ops.
Proof. exact run_after_reset. Qed.
Print Assumptions C07_run_after_reset.

(* A new prompt on the same PromptSession (Buffer.reset + Application.reset ->
   KeyProcessor.reset): empty stacks and NO previous handler, however the
   previous prompt ended; the rest of the session is a session from a fresh
   prompt. *)
Theorem C07_new_prompt_restarts : forall tbl s t c evs,
  ubad (kbuf s) = false ->
  kstep tbl s (KReset t c) = mkkst (mkust t c [] [] false) None /\
  krun tbl s (KReset t c :: evs) = krun tbl (kfresh t c) evs.
Proof. exact new_prompt_restarts. Qed.
Print Assumptions C07_new_prompt_restarts.

(* The first run of the new prompt snapshots its start text even when the same
   binding handled the last key of the previous prompt: one undo after it gives
   the new prompt's start text and cursor. *)
Theorem C07_first_run_after_reset : forall tbl h s t0 c0 n t c evs,
  r_cls (lookup tbl h) = 2 -> r_act (lookup tbl h) = 0 ->
  Forall (in_run_of h) evs -> 0 <= c0 <= len t0 -> ubad (kbuf s) = false ->
  let s' := krun tbl s (KReset t0 c0 :: Key h n t c :: evs) in
  utext (kbuf s') <> t0 ->
  here (undo (kbuf s')) = (t0, c0).
Proof. exact first_run_after_reset. Qed.
Print Assumptions C07_first_run_after_reset.

(* every undo handler of the real table is one of the two whose number of
   undo() calls the model computes from the typed count (Vi u: event.arg,
   emacs undo: 1) *)
Theorem C07_table_undo_handlers_modelled : forall h,
  r_act (lookup c07_rows h) = 1 -> r_role (lookup c07_rows h) = 4 \/ r_role (lookup c07_rows h) = 5.
Proof. exact live_undo_roles. Qed.
Print Assumptions C07_table_undo_handlers_modelled.

(* ---- the history theorems over the KEY-level history (round 5) ---- *)

(* [kgrun] records the buffer's (text, cursor) ONCE per dispatched command (key
   event or direct redo() call) - no mid-dispatch states, nothing for terminal
   reports, restarted by a new prompt.  Over that history, for every session on
   the real table: undo-stack entries are states the buffer had when an earlier
   command was dispatched, in chronological order at distinct commands;
   redo-stack entries are such states. *)
Theorem C07_key_stack_is_history : forall t0 c0 evs,
  0 <= c0 <= len t0 -> Forall kev_ok evs ->
  let g := kgrun c07_rows (kfresh t0 c0) evs in
  subseq (ustack (kbuf (fst g))) (snd g) /\ incl (rstack (kbuf (fst g))) (snd g).
Proof. exact (fun t0 c0 evs => key_stack_is_history c07_rows t0 c0 evs live_no_redo_handler). Qed.
Print Assumptions C07_key_stack_is_history.

(* Buffer.undo() after any key session: a no-op, or it lands exactly on the
   state of an earlier command boundary, the rest of the stack being older.
   (An undo KEY is this followed by the Vi cursor fix-up:
   C07_undo_key_is_n_undos.) *)
Theorem C07_key_undo_lands_in_history : forall t0 c0 evs,
  0 <= c0 <= len t0 -> Forall kev_ok evs ->
  let g := kgrun c07_rows (kfresh t0 c0) evs in
  let s := kbuf (fst g) in
  let past := snd g in
  (utext (undo s) = utext s /\ ucur (undo s) = ucur s /\ ustack (undo s) = [] /\
   rstack (undo s) = rstack s /\ forall e, In e (ustack s) -> fst e = utext s)
  \/
  (exists newer older,
     past = newer ++ here (undo s) :: older /\
     utext (undo s) <> utext s /\
     subseq (ustack (undo s)) older /\
     rstack (undo s) = here s :: rstack s).
Proof. exact (fun t0 c0 evs => key_undo_lands_in_history c07_rows t0 c0 evs live_no_redo_handler). Qed.
Print Assumptions C07_key_undo_lands_in_history.

Theorem C07_key_undo_run_reverse_chronological : forall t0 c0 evs k,
  0 <= c0 <= len t0 -> Forall kev_ok evs ->
  let g := kgrun c07_rows (kfresh t0 c0) evs in
  subseq (undo_landings (kbuf (fst g)) k) (snd g).
Proof. exact (fun t0 c0 evs k => key_undo_run_reverse_chronological c07_rows t0 c0 evs k live_no_redo_handler). Qed.
Print Assumptions C07_key_undo_run_reverse_chronological.

(* k presses of an undo key visit the texts, and leave the undo stack, of k
   calls of Buffer.undo(): the cursor fix-up in between changes neither. *)
Theorem C07_undo_key_presses : forall tbl h nav k s,
  r_act (lookup tbl h) = 1 -> r_cls (lookup tbl h) = 0 ->
  let s' := krun tbl s (repeat (UndoKey h 1 nav) k) in
  utext (kbuf s') = utext (iter_op Undo k (kbuf s)) /\
  ustack (kbuf s') = ustack (iter_op Undo k (kbuf s)).
Proof. exact undo_key_presses. Qed.
Print Assumptions C07_undo_key_presses.

(* Redo right after an undo KEY (n >= 1 effective undos in one dispatch, then
   the Vi cursor fix-up): n redo() calls restore text, cursor and redo stack. *)
Theorem C07_redo_inverts_undo_key : forall tbl s h n nav,
  r_act (lookup tbl h) = 1 -> r_cls (lookup tbl h) = 0 ->
  wf (kbuf s) -> 1 <= n -> all_effective (kbuf s) (Z.to_nat n) ->
  let s' := krun tbl s (UndoKey h n nav :: repeat DRedo (Z.to_nat n)) in
  here (kbuf s') = here (kbuf s) /\ rstack (kbuf s') = rstack (kbuf s).
Proof. exact redo_inverts_undo_key. Qed.
Print Assumptions C07_redo_inverts_undo_key.

(* ---- several buffers, focus changes, changes from outside (round 6) ---- *)

(* Model/C07_Multi.v: a family of buffers, ONE key processor (one "previous
   handler"), the snapshot taken on the buffer focused at dispatch time,
   handlers that edit / reset any buffer and move the focus, Layout.focus by
   application code, text changes outside a dispatch (asynchronous completion).
   Whatever such a session does, every single buffer sees a buffer-level
   operation list ([mproj_all]) - so every buffer-level theorem above
   (C07_stack_is_history, C07_redo_inverts_undo, C07_no_assert, ...) holds for
   each buffer of an application. *)
Theorem C07_multi_buffer_is_op_list : forall tbl evs s i,
  mbufs (mrun tbl s evs) i = urun (mbufs s i) (mproj_all tbl i s evs).
Proof. exact mrun_proj. Qed.
Print Assumptions C07_multi_buffer_is_op_list.

(* Per buffer, over a history with ONE entry per command (a dispatch wherever
   the focus was, a direct redo(), a change from outside; restarted when the
   buffer is reset), real table: the undo stack is a chronological subsequence
   of the states THAT buffer had when earlier commands began; redo entries are
   such states. *)
Theorem C07_multi_stack_is_history : forall l foc evs i,
  Forall doc_ok l -> Forall mev_ok evs ->
  let g := mgrun c07_rows (mfresh l foc) evs in
  subseq (ustack (mbufs (fst g) i)) (snd g i) /\ incl (rstack (mbufs (fst g) i)) (snd g i).
Proof. exact (fun l foc evs i => multi_stack_is_history c07_rows l foc evs i live_no_redo_handler). Qed.
Print Assumptions C07_multi_stack_is_history.

Theorem C07_multi_undo_lands_in_history : forall l foc evs i,
  Forall doc_ok l -> Forall mev_ok evs ->
  let g := mgrun c07_rows (mfresh l foc) evs in
  let s := mbufs (fst g) i in
  let past := snd g i in
  (utext (undo s) = utext s /\ ucur (undo s) = ucur s /\ ustack (undo s) = [] /\
   rstack (undo s) = rstack s /\ forall e, In e (ustack s) -> fst e = utext s)
  \/
  (exists newer older,
     past = newer ++ here (undo s) :: older /\
     utext (undo s) <> utext s /\
     subseq (ustack (undo s)) older /\
     rstack (undo s) = here s :: rstack s).
Proof. exact (fun l foc evs i => multi_undo_lands_in_history c07_rows l foc evs i live_no_redo_handler). Qed.
Print Assumptions C07_multi_undo_lands_in_history.

(* Grouping with several buffers: a maximal run of one if_no_repeat binding
   typed into the focused buffer - whatever its handlers do to ANY buffer
   (short of resetting the focused one), with terminal reports and changes
   from outside (completion insertions) in between - takes one snapshot of
   that buffer; one undo there restores its pre-run text and cursor. *)
Theorem C07_multi_group : forall tbl h s n effs evs,
  r_cls (lookup tbl h) = 2 -> r_act (lookup tbl h) = 0 -> mprev s <> Some h ->
  existsb (resets (mfoc s)) effs = false -> Forall (in_mrun h (mfoc s)) evs -> wf (mbufs s (mfoc s)) ->
  let f := mfoc s in
  let s' := mrun tbl s (MKey h n effs f :: evs) in
  utext (mbufs s' f) <> utext (mbufs s f) ->
  here (undo (mbufs s' f)) = here (mbufs s f) /\ rstack (undo (mbufs s' f)) = [here (mbufs s' f)].
Proof. exact multi_group. Qed.
Print Assumptions C07_multi_group.

(* A focus change made by a DISPATCH (start_search, accept_search, focus_next,
   a mouse click) resets is_repeat: the next key of any other snapshotting
   binding snapshots the newly focused buffer. *)
Theorem C07_focus_by_dispatch_snapshots : forall tbl s h' n' effs foc' h n effs2 foc2,
  h' <> h -> r_cls (lookup tbl h) <> 0 -> r_act (lookup tbl h) = 0 ->
  existsb (resets foc') effs2 = false ->
  let s1 := mstep tbl s (MKey h' n' effs foc') in
  let s2 := mstep tbl s1 (MKey h n effs2 foc2) in
  ustack (mbufs s2 foc') = ustack (save_to_undo_stack (mbufs s1 foc') true) /\
  ustack (mbufs s2 foc') <> [].
Proof. exact focus_by_dispatch_snapshots. Qed.
Print Assumptions C07_focus_by_dispatch_snapshots.

(* Repeated undo in ANY buffer ends on the text that buffer started with (or
   was last reset to), for every DISCIPLINED session ([disciplined],
   Model/C07_Multi.v): plain handlers behind snapshotting bindings, undo keys
   as modelled, if_no_repeat handlers that neither move the focus nor reset
   their buffer, effects and outside changes that alter a text only where a
   snapshot exists, and application code moving the focus only when the
   previous dispatch was not an if_no_repeat binding (or the target has a
   snapshot). *)
Theorem C07_multi_reaches_start : forall tbl l foc evs i k,
  Forall doc_ok l -> Forall mev_ok evs -> all_disciplined tbl (mfresh l foc) evs ->
  let b := mbufs (mrun tbl (mfresh l foc) evs) i in
  (length (ustack b) <= k)%nat ->
  utext (iter_op Undo k b) = session_start (utext (mk_bufs l i)) (mproj_all tbl i (mfresh l foc) evs).
Proof. exact multi_reaches_start. Qed.
Print Assumptions C07_multi_reaches_start.

(* ... and the last clause of the discipline is needed (observation O4:
   is_repeat is per key processor, not per buffer): type a character in buffer
   0, let application code focus buffer 1, type again - buffer 1 gets no
   snapshot and no number of undos restores its start text.  Model-level: not
   reachable through keys alone (C07_focus_by_dispatch_snapshots). *)
Theorem C07_programmatic_focus_refuted :
  let s0 := mfresh [([65], 1); ([66], 1)] 0 in
  let b := mbufs (mrun o4_tbl s0 o4_session) 1 in
  Forall mev_ok o4_session /\
  utext b = [66; 121] /\ ustack b = [] /\
  (forall k, utext (iter_op Undo k b) <> utext (mbufs s0 1)).
Proof. exact programmatic_focus_refuted. Qed.
Print Assumptions C07_programmatic_focus_refuted.

(* Binding identity is OBJECT identity: when a registry rebuilds its Binding
   objects (ConditionalKeyBindings after a version change) the same row gets a
   new identity, is_repeat is false at the switch and a run typed across the
   rebuild is split into two undo groups.  (Model-level record; the bindings
   of roles 1/2/3/6 of a default PromptSession are never rebuilt - the harness
   checks per dispatch that each Binding object keeps its table position.) *)
Theorem C07_rebuilt_binding_splits_group :
  exists tbl h h' s evs,
    lookup tbl h = lookup tbl h' /\ r_cls (lookup tbl h) = 2 /\ h <> h' /\ wf (kbuf s) /\
    utext (kbuf (krun tbl s evs)) <> utext (kbuf s) /\
    here (undo (kbuf (krun tbl s evs))) <> here (kbuf s).
Proof. exact rebuilt_binding_splits_group. Qed.
Print Assumptions C07_rebuilt_binding_splits_group.

(* ---- undo / redo / undo round trips (round 6) ---- *)

(* undo; the cursor moves without a snapshot; redo: text, cursor, redo stack
   exactly as before the undo.  Undo again: the landing text with the cursor
   as it was left there; redo again: exact once more. *)
Theorem C07_undo_redo_cycle : forall s c',
  wf s -> utext (undo s) <> utext s -> 0 <= c' <= len (utext (undo s)) ->
  let u' := set_state (undo s) (utext (undo s)) c' in
  let r := redo u' in
  same_view r s /\
  here (undo r) = (utext (undo s), c') /\
  rstack (undo r) = here s :: rstack s /\
  same_view (redo (undo r)) s.
Proof. exact undo_redo_cycle. Qed.
Print Assumptions C07_undo_redo_cycle.

(* k times (undo; redo): no drift in text, cursor or redo stack *)
Theorem C07_undo_redo_cycles : forall k s,
  wf s -> utext (undo s) <> utext s -> same_view (cycle k s) s.
Proof. exact undo_redo_cycles. Qed.
Print Assumptions C07_undo_redo_cycles.

(* A cursor KEY between undo and redo is a command behind a snapshotting
   binding: it discards the redo history and redo() then does nothing
   ("immediately after" in the property text is essential). *)
Theorem C07_key_command_discards_redo : forall tbl s h n t c,
  r_act (lookup tbl h) = 0 -> save_before tbl (kprev s) h = true ->
  let s' := kstep tbl s (Key h n t c) in
  rstack (kbuf s') = [] /\ redo (kbuf s') = kbuf s'.
Proof. exact key_command_discards_redo. Qed.
Print Assumptions C07_key_command_discards_redo.

(* ---- editing sessions over COMPUTED texts (round 6) ---- *)

(* Model/C07_Edit.v: a command names C01's model of its handler
   (Model/BufferEdit.v: self-insert, backward-delete-char, delete-char,
   backward-char, forward-char, any count) and the text is what that model
   computes.  Such a session IS a key session ... *)
Theorem C07_edit_session_is_key_session : forall tbl cs s,
  erun tbl s cs = krun tbl s (ecompile tbl s cs).
Proof. exact erun_is_krun. Qed.
Print Assumptions C07_edit_session_is_key_session.

(* ... undo lands on texts the edit model really computed earlier in the
   session, in order ... *)
Theorem C07_edit_undo_lands_on_computed_text : forall t0 c0 cs,
  0 <= c0 <= len t0 ->
  let s := kbuf (erun c07_rows (kfresh t0 c0) cs) in
  let past := ehistory t0 c0 cs in
  subseq (ustack s) past /\
  ((utext (undo s) = utext s /\ ucur (undo s) = ucur s /\ ustack (undo s) = [])
   \/
   (exists newer older,
      past = newer ++ here (undo s) :: older /\ utext (undo s) <> utext s /\
      subseq (ustack (undo s)) older /\ rstack (undo s) = here s :: rstack s)).
Proof. exact edit_undo_lands_on_computed_text. Qed.
Print Assumptions C07_edit_undo_lands_on_computed_text.

(* ... and repeated undo ends on the start text, with no hypothesis left. *)
Theorem C07_edit_reaches_start : forall t0 c0 cs k,
  0 <= c0 <= len t0 -> Forall (ecmd_valid c07_rows) cs ->
  let s := kbuf (erun c07_rows (kfresh t0 c0) cs) in
  (length (ustack s) <= k)%nat -> utext (iter_op Undo k s) = t0.
Proof. exact edit_reaches_start. Qed.
Print Assumptions C07_edit_reaches_start.

(* A run of typed strings through the real <any> self-insert binding: the
   buffer holds the old text with ALL of them inserted at the cursor; ONE undo
   gives back the old text and cursor; redo gives the typed text and cursor
   again, exactly. *)
Theorem C07_typed_run_real_text : forall h s d ds,
  r_role (lookup c07_rows h) = 1 -> kprev s <> Some h -> wf (kbuf s) -> concat (d :: ds) <> [] ->
  let t := utext (kbuf s) in
  let c := ucur (kbuf s) in
  let s' := erun c07_rows s (map (EEdit h) (typed (d :: ds))) in
  here (kbuf s') = (firstn (Z.to_nat c) t ++ concat (d :: ds) ++ skipn (Z.to_nat c) t, c + len (concat (d :: ds))) /\
  here (undo (kbuf s')) = (t, c) /\
  here (redo (undo (kbuf s'))) = here (kbuf s').
Proof. exact typed_run_real_text. Qed.
Print Assumptions C07_typed_run_real_text.

(* ---- kills, yanks and Vi operators as computed commands (round 7) ---- *)

(* Model/C07_Edit2.v: a command may also name a command of C09's model
   (kill-line, kill-word, unix-word-rubout, backward-kill-word,
   unix-line-discard, yank, yank-pop; Vi x X D dd yy p P; Vi Escape): its text
   is C09_Kill.exec on the text the buffer holds, with the kill ring C09's state
   carries and is_repeat as this key model computes it.  Still a key session: *)
Theorem C07_edit2_session_is_key_session : forall tbl cs e,
  ek (e2run tbl e cs) = krun tbl (ek e) (e2compile tbl e cs).
Proof. exact e2run_is_krun. Qed.
Print Assumptions C07_edit2_session_is_key_session.

(* C07_edit_undo_lands_on_computed_text extended to them *)
Theorem C07_edit2_undo_lands_on_computed_text : forall t0 c0 cs,
  0 <= c0 <= len t0 ->
  let s := kbuf (ek (e2run c07_rows (e2fresh t0 c0) cs)) in
  let past := e2history t0 c0 cs in
  subseq (ustack s) past /\
  ((utext (undo s) = utext s /\ ucur (undo s) = ucur s /\ ustack (undo s) = [])
   \/
   (exists newer older,
      past = newer ++ here (undo s) :: older /\ utext (undo s) <> utext s /\
      subseq (ustack (undo s)) older /\ rstack (undo s) = here s :: rstack s)).
Proof. exact edit2_undo_lands_on_computed_text. Qed.
Print Assumptions C07_edit2_undo_lands_on_computed_text.

Theorem C07_edit2_reaches_start : forall t0 c0 cs k,
  0 <= c0 <= len t0 -> Forall (ecmd2_valid c07_rows) cs ->
  let s := kbuf (ek (e2run c07_rows (e2fresh t0 c0) cs)) in
  (length (ustack s) <= k)%nat -> utext (iter_op Undo k s) = t0.
Proof. exact edit2_reaches_start. Qed.
Print Assumptions C07_edit2_reaches_start.

(* Non-vacuity: a reachable state with two stacked snapshots and a redo entry
   is well-formed; the real table has every role. *)
Example C07_hypotheses_satisfiable :
  wf (urun (fresh [97] 1) [Cmd true [97; 98] 2; Cmd true [97; 98; 99] 3; Cmd true [] 0; Undo]) /\
  all_effective (urun (fresh [97] 1) [Cmd true [97; 98] 2; Cmd true [97; 98; 99] 3; Cmd true [] 0]) 2 /\
  has_role c07_rows 1 = true /\ has_role c07_rows 2 = true /\ has_role c07_rows 3 = true /\
  has_role c07_rows 4 = true /\ has_role c07_rows 5 = true /\ has_role c07_rows 6 = true /\
  has_role c07_rows 7 = true /\ has_role c07_rows 8 = true /\ has_role c07_rows 9 = true /\ has_role c07_rows 10 = true /\
  has_role c07_rows 11 = true /\ has_role c07_rows 12 = true.
Proof.
  split; [apply wf_run; [apply wf_fresh; vm_compute; split; discriminate|
                         repeat constructor; vm_compute; discriminate]|].
  split; [vm_compute; repeat split; discriminate|].
  vm_compute. repeat split.
Qed.
Print Assumptions C07_hypotheses_satisfiable.
