(* C17 - No keystroke is lost, duplicated or misapplied across the accept boundary.
   Statements only; proofs are in Proofs/C17_*.v.

   Model/C17_Typeahead.v is a labelled transition system over
     parser state, OS pipe, KeyProcessor.input_queue / key_buffer, the
     type-ahead store, the application life cycle (detached -> running ->
     result set -> waiting for cursor position reports -> detached), the log
     of key presses that reached handlers, the results of the prompts;
   labels: LWrite bytes, LRead n, LFlushInput (ttimeoutlen), LFlushKeys
   (timeoutlen), LStart, LExit, LExitEnd, LCprRequest, LClose, LCprTimeout.
   [run ls (init e p r)] is the state after ANY sequence of labels (all
   chunkings, all interleavings, unbounded).  The system is generic in the
   parser (pfeed/pflush), the binding dispatch (lookup, lookup_scan, waits),
   the handlers (eff; Some r = the handler called app.exit(r)) and the
   per-prompt edit state E; Model/C17_Emacs.v instantiates it with the
   regenerated binding table of a real PromptSession and the C03 parser.

   nc l          = l without CPRResponse key presses
   logged c      = every key press that reached a handler, was dropped, or was
                   thrown away by a reset, oldest first (all prompts, in order;
                   prompt_logs cuts it at the EStart markers)
   decoded s     = every key press the parser produced, in order *)
From Coq Require Import ZArith List Bool.
From PTK Require Import Lib.Sx Lib.Py Gen.C17_Bindings Model.C03_Vt100Parser Model.C17_Typeahead Model.C17_Emacs
  Proofs.C17_Core Proofs.C17_Conserve Proofs.C17_Accept Proofs.C17_Main Proofs.C17_Script Proofs.C17_Witness.
Import ListNotations.


(* Conservation, for every binding set, handler set, parser, chunking and
   label order: the non-report key presses processed by prompt 1 ++ those
   processed by prompt 2 ++ ... ++ key buffer ++ type-ahead store ++ input
   queue are exactly the non-report key presses decoded so far, in order,
   without duplication.  (What a reset() throws away is logged as ELost;
   C17_nothing_after_accept shows that is always nothing.) *)
Theorem C17_conservation : forall (E bid res PS : Type)
  (lookup lookup_scan : E -> list kp -> option bid) (waits : E -> list kp -> bool)
  (eff : bid -> list kp -> E -> E * option res) (is_cprh : bid -> bool) (restart : E -> E)
  (pfeed : str -> PS -> PS * list kp) (pflush : PS -> PS * list kp) (res_eof : res),
  let run := @run E bid res PS lookup lookup_scan waits eff is_cprh restart pfeed pflush res_eof in
  let init := @init E bid res PS in
   forall ls e p r,
  let s := run ls (init e p r) in
  nc (logged (co s)) ++ nc (kbuf (co s)) ++ nc (ikeys (store s)) ++ nc (ikeys (queue s)) = nc (decoded s).
Proof. exact conservation. Qed.
Print Assumptions C17_conservation.

(* A cursor position report is never stored as type-ahead. *)
Theorem C17_cpr_never_stored : forall (E bid res PS : Type)
  (lookup lookup_scan : E -> list kp -> option bid) (waits : E -> list kp -> bool)
  (eff : bid -> list kp -> E -> E * option res) (is_cprh : bid -> bool) (restart : E -> E)
  (pfeed : str -> PS -> PS * list kp) (pflush : PS -> PS * list kp) (res_eof : res),
  let run := @run E bid res PS lookup lookup_scan waits eff is_cprh restart pfeed pflush res_eof in
  let init := @init E bid res PS in
   forall ls e p r,
  Forall (fun i => item_is_cpr i = false) (store (run ls (init e p r))).
Proof. exact cpr_never_stored. Qed.
Print Assumptions C17_cpr_never_stored.

(* The fuelled retry loop of the key processor never runs out. *)
Theorem C17_fuel : forall (E bid res PS : Type)
  (lookup lookup_scan : E -> list kp -> option bid) (waits : E -> list kp -> bool)
  (eff : bid -> list kp -> E -> E * option res) (is_cprh : bid -> bool) (restart : E -> E)
  (pfeed : str -> PS -> PS * list kp) (pflush : PS -> PS * list kp) (res_eof : res),
  let run := @run E bid res PS lookup lookup_scan waits eff is_cprh restart pfeed pflush res_eof in
  let init := @init E bid res PS in
   forall ls e p r, oof (co (run ls (init e p r))) = false.
Proof. exact fuel_suffices. Qed.
Print Assumptions C17_fuel.

(* Between the accepting invocation and the end of the application only
   cursor position reports reach handlers, each alone; nothing is dropped;
   no reset() throws keys away; exit() is never called twice; the key buffer
   is empty from the moment the result is set; no _Flush marker is left in
   the queue or stored as type-ahead.
   Hypotheses on the binding set:
     exit_clean  - a binding that ends the prompt fires with nothing left in
                   the key buffer (true when no such binding can match keys
                   lying inside a longer binding: C17_exit_criterion);
     cpr_fires   - a report alone in the key buffer is matched at once by a
                   binding that does not end the prompt (C17_emacs_cpr_fires).
   Prompts ended by closing the input are excluded (LClose). *)
Theorem C17_nothing_after_accept : forall (E bid res PS : Type)
  (lookup lookup_scan : E -> list kp -> option bid) (waits : E -> list kp -> bool)
  (eff : bid -> list kp -> E -> E * option res) (is_cprh : bid -> bool) (restart : E -> E)
  (pfeed : str -> PS -> PS * list kp) (pflush : PS -> PS * list kp) (res_eof : res),
  let run := @run E bid res PS lookup lookup_scan waits eff is_cprh restart pfeed pflush res_eof in
  let init := @init E bid res PS in
  
  exit_clean lookup lookup_scan waits eff is_cprh -> cpr_fires lookup waits eff ->
  forall ls e p r, ~ In LClose ls ->
  let s := run ls (init e p r) in
  Forall ok_ev (rlog (co s)) /\ cph (co s) <> CBroken res /\
  (late (co s) = true -> kbuf (co s) = []) /\
  Forall nf (store s) /\ Forall nf (queue s).
Proof. exact nothing_after_accept. Qed.
Print Assumptions C17_nothing_after_accept.

(* Script theorem.  [lines_ok e lines rs]: typed into a fresh prompt in edit
   state e, the keys of the first line do not end the prompt before their
   last key, which ends it with result r1; the second line likewise from the
   restarted state; and so on.  Then, for every way of writing, reading and
   chunking, every moment of starting and ending prompts and every arrival of
   reports such that (a) no timeout label fires and the input is not closed,
   (b) every report was consumed by the report handler alone (cpr_bad = false:
   no pending multi-key prefix, no other binding shadowing it), and (c) what
   has been decoded so far is, reports apart, a prefix of the script:
   the prompts that have returned so far returned exactly the first lines'
   results, in order.  *)
Theorem C17_script : forall (E bid res PS : Type)
  (lookup lookup_scan : E -> list kp -> option bid) (waits : E -> list kp -> bool)
  (eff : bid -> list kp -> E -> E * option res) (is_cprh : bid -> bool) (restart : E -> E)
  (pfeed : str -> PS -> PS * list kp) (pflush : PS -> PS * list kp) (res_eof : res),
  let run := @run E bid res PS lookup lookup_scan waits eff is_cprh restart pfeed pflush res_eof in
  let init := @init E bid res PS in
  
  exit_clean lookup lookup_scan waits eff is_cprh -> cpr_fires lookup waits eff ->
  (forall b ks e, is_cprh b = true -> eff b ks e = (e, None)) ->
  forall ls e p r lines rs,
  quiet ls ->
  let s := run ls (init e p r) in
  cpr_bad (co s) = false ->
  @lines_ok E bid res lookup lookup_scan waits eff is_cprh restart (restart e) lines rs ->
  (exists tail, nc (decoded s) ++ tail = concat lines) ->
  results s = firstn (length (results s)) rs.
Proof. exact script. Qed.
Print Assumptions C17_script.

(* The hypotheses of C17_nothing_after_accept are satisfiable. *)
Example C17_hypotheses_satisfiable :
  cpr_fires t_lookup t_waits t_eff /\ exit_clean t_lookup t_lookup t_waits t_eff (fun _ => false).
Proof. exact (conj tiny_cpr_fires tiny_exit_clean). Qed.
Print Assumptions C17_hypotheses_satisfiable.

(* The real table (regenerated): the report binding fires in every state ... *)
Theorem C17_emacs_cpr_fires : cpr_fires e_lookup e_waits e_eff.
Proof. exact emacs_cpr_fires. Qed.
Print Assumptions C17_emacs_cpr_fires.

(* ... and no binding that can end the prompt can match keys lying strictly
   inside a longer binding (filters ignored: conservative). *)
Theorem C17_exit_criterion : forall p q,
  In p c17_bindings -> In q c17_bindings -> may_exit p = true ->
  inside (r_pats p) (r_pats q) (S (length (r_pats q))) = false.
Proof. exact exit_criterion_rows. Qed.
Print Assumptions C17_exit_criterion.

(* "Reports are consumed silently and change nothing" is FALSE for the code
   as it is.  (1) DESIGN F11: the same bytes with one report inserted between
   ESC and b decode to the same non-report keys but the prompt returns
   'foo barbX' instead of 'foo Xbar': the report flushes the pending Escape
   out of the key buffer. *)
Theorem C17_cpr_transparent_refuted :
  exists a b rep,
    nc (decoded (e_run (one_prompt (a ++ rep ++ b)) (e_init_sys false))) =
    nc (decoded (e_run (one_prompt (a ++ b)) (e_init_sys false)))
    /\ results_of (one_prompt (a ++ rep ++ b)) <> results_of (one_prompt (a ++ b)).
Proof. exact cpr_not_transparent. Qed.
Print Assumptions C17_cpr_transparent_refuted.

Theorem C17_cpr_transparent_witness :
  results_of (one_prompt w_plain) = [RText [102; 111; 111; 32; 88; 98; 97; 114]] /\
  results_of (one_prompt w_split) = [RText [102; 111; 111; 32; 98; 97; 114; 98; 88]].
Proof. exact (conj witness_plain witness_split). Qed.
Print Assumptions C17_cpr_transparent_witness.

(* (2) after c-q (quoted-insert) the report is inserted into the line as text. *)
Theorem C17_cpr_silent_refuted :
  results_of (one_prompt w_quoted) = [RText ([102; 111] ++ w_report)].
Proof. exact cpr_inserted. Qed.
Print Assumptions C17_cpr_silent_refuted.
