(* C17 - No keystroke is lost, duplicated or misapplied across the accept boundary.
   Statements only; proofs are in Proofs/C17_*.v.

   Model/C17_Typeahead.v is a labelled transition system over
     parser state, OS pipe, KeyProcessor.input_queue / key_buffer, the
     type-ahead store, the application life cycle (detached -> running ->
     result set -> waiting for cursor position reports -> detached), the log
     of key presses that reached handlers, the results of the prompts;
   labels: LWrite bytes, LRead n, LFlushInput (ttimeoutlen), LFlushKeys
   (timeoutlen), LStart, LExit, LExitEnd, LCprRequest, LClose, LCprTimeout.
   [run ls (init e p r)] is the state after ANY sequence of labels (all
   chunkings, all interleavings, unbounded).  The system is generic in the
   parser (pfeed/pflush), the binding dispatch (lookup, lookup_scan, waits),
   the handlers (eff; Some r = the handler called app.exit(r)), the binding a
   cursor position report is delivered to (cpr_lookup: process_keys hands
   reports straight to it, without the key buffer) and the per-prompt edit
   state E; Model/C17_Emacs.v instantiates it with the regenerated binding
   table of a real PromptSession and the C03 parser.

   nc l          = l without CPRResponse key presses
   logged c      = every key press that reached a handler, was dropped, or was
                   thrown away by a reset, oldest first (all prompts, in order;
                   prompt_logs cuts it at the EStart markers)
   decoded s     = every key press the parser produced, in order *)
From Coq Require Import ZArith List Bool Permutation.
From PTK Require Import Lib.Sx Lib.Py Gen.C17_Bindings Model.C03_Vt100Parser Model.C03_Vt100Input Model.C17_Typeahead Model.C17_Emacs
  Proofs.C17_Core Proofs.C17_Conserve Proofs.C17_Accept Proofs.C17_Silent Proofs.C17_Main Proofs.C17_Script Proofs.C17_Witness
  Proofs.C17_ExitClean.
Import ListNotations.

(* Conservation, for every binding set, handler set, parser, chunking and
   label order: the non-report key presses processed by prompt 1 ++ those
   processed by prompt 2 ++ ... ++ key buffer ++ type-ahead store ++ input
   queue are exactly the non-report key presses decoded so far, in order,
   without duplication.  (Keys the coroutine pushes back when a handler has set
   the result return to the front of the queue.  What a reset() throws away is
   logged as ELost; C17_nothing_after_accept shows that is always nothing.)
   Stated for binding sets whose handlers feed no key presses of their own into
   the processor (no_feeds): a fed key press is an extra key.  The one feeding
   handler of the real table (C-j feeds ControlM with first=True) is covered by
   C17_script, whose reference machine delivers the fed key right after C-j. *)
Theorem C17_conservation : forall (E bid res PS : Type)
  (lookup lookup_scan : E -> list kp -> option bid) (waits : E -> list kp -> bool)
  (eff : bid -> list kp -> E -> E * option res) (is_cprh : bid -> bool) (cpr_lookup : E -> option bid)
  (feeds : bid -> list kp -> E -> list kp) (restart : E -> E)
  (pfeed : str -> PS -> PS * list kp) (pflush : PS -> PS * list kp) (res_eof : res),
  let run := @run E bid res PS lookup lookup_scan waits eff is_cprh cpr_lookup feeds restart pfeed pflush res_eof in
  let init := @init E bid res PS in
  no_feeds feeds ->
  forall ls e p r,
  let s := run ls (init e p r) in
  nc (logged (co s)) ++ nc (kbuf (co s)) ++ nc (ikeys (store s)) ++ nc (ikeys (queue s)) = nc (decoded s).
Proof. exact conservation. Qed.
Print Assumptions C17_conservation.

(* A cursor position report is never stored as type-ahead. *)
Theorem C17_cpr_never_stored : forall (E bid res PS : Type)
  (lookup lookup_scan : E -> list kp -> option bid) (waits : E -> list kp -> bool)
  (eff : bid -> list kp -> E -> E * option res) (is_cprh : bid -> bool) (cpr_lookup : E -> option bid)
  (feeds : bid -> list kp -> E -> list kp) (restart : E -> E)
  (pfeed : str -> PS -> PS * list kp) (pflush : PS -> PS * list kp) (res_eof : res),
  let run := @run E bid res PS lookup lookup_scan waits eff is_cprh cpr_lookup feeds restart pfeed pflush res_eof in
  let init := @init E bid res PS in
  forall ls e p r,
  Forall (fun i => item_is_cpr i = false) (store (run ls (init e p r))).
Proof. exact cpr_never_stored. Qed.
Print Assumptions C17_cpr_never_stored.

(* The fuelled retry loop of the key processor never runs out. *)
Theorem C17_fuel : forall (E bid res PS : Type)
  (lookup lookup_scan : E -> list kp -> option bid) (waits : E -> list kp -> bool)
  (eff : bid -> list kp -> E -> E * option res) (is_cprh : bid -> bool) (cpr_lookup : E -> option bid)
  (feeds : bid -> list kp -> E -> list kp) (restart : E -> E)
  (pfeed : str -> PS -> PS * list kp) (pflush : PS -> PS * list kp) (res_eof : res),
  let run := @run E bid res PS lookup lookup_scan waits eff is_cprh cpr_lookup feeds restart pfeed pflush res_eof in
  let init := @init E bid res PS in
  forall ls e p r, oof (co (run ls (init e p r))) = false.
Proof. exact fuel_suffices. Qed.
Print Assumptions C17_fuel.

(* Cursor position reports are consumed silently, for every binding set and
   every label sequence: a report never enters the key buffer, is never
   dropped or thrown away by a reset, and the only handler call whose key
   sequence contains a report is the report binding called with that report
   alone. *)
Theorem C17_cpr_silent : forall (E bid res PS : Type)
  (lookup lookup_scan : E -> list kp -> option bid) (waits : E -> list kp -> bool)
  (eff : bid -> list kp -> E -> E * option res) (is_cprh : bid -> bool) (cpr_lookup : E -> option bid)
  (feeds : bid -> list kp -> E -> list kp) (restart : E -> E)
  (pfeed : str -> PS -> PS * list kp) (pflush : PS -> PS * list kp) (res_eof : res),
  let run := @run E bid res PS lookup lookup_scan waits eff is_cprh cpr_lookup feeds restart pfeed pflush res_eof in
  let init := @init E bid res PS in
  forall ls e p r,
  let s := run ls (init e p r) in
  Forall (sil_ev cpr_lookup) (rlog (co s)) /\ noc (kbuf (co s)).
Proof. exact cpr_silent_log. Qed.
Print Assumptions C17_cpr_silent.

(* Reports are transparent: when the report binding neither ends the prompt
   nor edits (cpr_silent; C17_emacs_cpr_silent for the real table), delivering
   a report in ANY state of the key processor - also with a multi-key prefix
   pending in the key buffer, also right after quoted-insert - leaves the edit
   state, the key buffer and the result phase exactly as they were. *)
Theorem C17_cpr_transparent : forall (E bid res : Type)
  (lookup lookup_scan : E -> list kp -> option bid) (waits : E -> list kp -> bool)
  (eff : bid -> list kp -> E -> E * option res) (is_cprh : bid -> bool) (cpr_lookup : E -> option bid)
  (feeds : bid -> list kp -> E -> list kp),
  cpr_silent eff cpr_lookup feeds ->
  forall (c : core E bid res) k, is_cpr k = true ->
  let c' := deliver lookup lookup_scan waits eff is_cprh cpr_lookup feeds (IKey k) c in
  est c' = est c /\ kbuf c' = kbuf c /\ cph c' = cph c /\ pb c' = pb c.
Proof. exact cpr_transparent. Qed.
Print Assumptions C17_cpr_transparent.

(* Between the accepting invocation and the end of the application only
   cursor position reports reach handlers, each alone; nothing is dropped;
   no reset() throws keys away; exit() is never called twice; the key buffer
   is empty from the moment the result is set (keys left in it go back to the
   front of the queue and become type-ahead); no _Flush marker is left in the
   queue or stored as type-ahead.  The only hypothesis is cpr_silent.
   Prompts ended by closing the input are excluded (LClose). *)
Theorem C17_nothing_after_accept : forall (E bid res PS : Type)
  (lookup lookup_scan : E -> list kp -> option bid) (waits : E -> list kp -> bool)
  (eff : bid -> list kp -> E -> E * option res) (is_cprh : bid -> bool) (cpr_lookup : E -> option bid)
  (feeds : bid -> list kp -> E -> list kp) (restart : E -> E)
  (pfeed : str -> PS -> PS * list kp) (pflush : PS -> PS * list kp) (res_eof : res),
  let run := @run E bid res PS lookup lookup_scan waits eff is_cprh cpr_lookup feeds restart pfeed pflush res_eof in
  let init := @init E bid res PS in
  cpr_silent eff cpr_lookup feeds ->
  forall ls e p r, ~ In LClose ls ->
  let s := run ls (init e p r) in
  Forall ok_ev (rlog (co s)) /\ cph (co s) <> CBroken res /\
  (late (co s) = true -> kbuf (co s) = []) /\
  Forall nf (store s) /\ Forall nf (queue s).
Proof. exact nothing_after_accept. Qed.
Print Assumptions C17_nothing_after_accept.

(* Script theorem.  [lines_ok e lines rs]: typed into a fresh prompt in edit
   state e, the keys of the first line - each delivered together with what its
   handler feeds with first=True, as process_keys does - do not end the prompt
   before their last key, which ends it with result r1; the second line likewise from the
   restarted state; and so on.  Then, for every way of writing, reading and
   chunking, every moment of starting and ending prompts and reports arriving
   ANYWHERE between key presses, such that (a) no timeout label fires and the
   input is not closed and (b) what has been decoded so far is, reports
   apart, a prefix of the script: the prompts that have returned so far
   returned exactly the first lines' results, in order.
   Handlers may feed key presses to the front of the queue (the C-j binding:
   a line ended by LF is accepted exactly like one ended by CR, also when more
   keys are already waiting behind it).
   Hypotheses on the binding set: cpr_silent, and no_pushback - when a key
   press ends the prompt nothing is left to go back to the queue: no binding
   that ends the prompt fires from the retry scan with keys left in the
   buffer (C17_exit_criterion is the static form checked on the real table)
   or before everything fed together with it has been delivered. *)
Theorem C17_script : forall (E bid res PS : Type)
  (lookup lookup_scan : E -> list kp -> option bid) (waits : E -> list kp -> bool)
  (eff : bid -> list kp -> E -> E * option res) (is_cprh : bid -> bool) (cpr_lookup : E -> option bid)
  (feeds : bid -> list kp -> E -> list kp) (restart : E -> E)
  (pfeed : str -> PS -> PS * list kp) (pflush : PS -> PS * list kp) (res_eof : res),
  let run := @run E bid res PS lookup lookup_scan waits eff is_cprh cpr_lookup feeds restart pfeed pflush res_eof in
  let init := @init E bid res PS in
  cpr_silent eff cpr_lookup feeds -> no_pushback lookup lookup_scan waits eff is_cprh cpr_lookup feeds ->
  forall ls e p r lines rs,
  quiet ls ->
  let s := run ls (init e p r) in
  @lines_ok E bid res lookup lookup_scan waits eff is_cprh cpr_lookup feeds restart (restart e) lines rs ->
  (exists tail, nc (decoded s) ++ tail = concat lines) ->
  results s = firstn (length (results s)) rs.
Proof. exact script. Qed.
Print Assumptions C17_script.

(* The hypotheses of C17_script are satisfiable. *)
Example C17_hypotheses_satisfiable :
  cpr_silent t_eff t_cpr_lookup t_feeds /\ no_pushback t_lookup t_lookup t_waits t_eff (fun _ => false) t_cpr_lookup t_feeds.
Proof. exact (conj tiny_cpr_silent tiny_no_pushback). Qed.
Print Assumptions C17_hypotheses_satisfiable.

(* The real table (regenerated): in every state a report is delivered to the
   handler of bindings/cpr.py, which neither ends the prompt nor edits ... *)
Theorem C17_emacs_cpr_silent :
  cpr_silent e_eff e_cpr_lookup e_feeds /\ forall e, exists b, e_cpr_lookup e = Some b /\ e_is_cprh b = true.
Proof. exact (conj emacs_cpr_silent emacs_cpr_bound). Qed.
Print Assumptions C17_emacs_cpr_silent.

(* ... and no binding that can end the prompt can match keys lying strictly
   inside a longer binding (filters ignored: conservative). *)
Theorem C17_exit_criterion : forall p q,
  In p c17_bindings -> In q c17_bindings -> may_exit p = true ->
  inside (r_pats p) (r_pats q) (S (length (r_pats q))) = false.
Proof. exact exit_criterion_rows. Qed.
Print Assumptions C17_exit_criterion.

(* Regression witnesses on the instance with the real table (the inputs of
   the repaired findings C17-F1 = DESIGN F11 and C17-F2): 'foo bar' ESC b X CR
   returns 'foo Xbar' with or without a report between ESC and b; 'fo' c-q
   <report> 'ar' CR returns 'foar'. *)
Theorem C17_cpr_transparent_witness :
  results_of (one_prompt w_plain) = [RText [102; 111; 111; 32; 88; 98; 97; 114]] /\
  results_of (one_prompt w_split) = [RText [102; 111; 111; 32; 88; 98; 97; 114]] /\
  results_of (one_prompt w_quoted) = [RText [102; 111; 97; 114]].
Proof. exact (conj witness_plain (conj witness_split witness_quoted)). Qed.
Print Assumptions C17_cpr_transparent_witness.

(* 'one' LF 'two' LF 'three' LF read at once by the first of three prompts:
   ['one'; 'two'; 'three'] (seeded change C17-7: without first=True the result
   is ['onetwothree'; ''; '']). *)
Theorem C17_line_feed_witness :
  results_of [LWrite w_lf; LStart; LRead 1024; LExit; LStart; LExit; LStart; LExit]
  = [RText [111; 110; 101]; RText [116; 119; 111]; RText [116; 104; 114; 101; 101]].
Proof. exact witness_lf. Qed.
Print Assumptions C17_line_feed_witness.

(* The hypotheses of C17_script hold for the regenerated binding table of a
   default PromptSession (dispatch d_lookup / d_lookup_scan / d_waits /
   d_cpr_lookup = the instance's dispatch over the table without the user
   binding of the 'extra' scenarios): proved from the criterion computed on
   the table - a binding that may end the prompt or that feeds a key press
   (effects 13 14 15 20) cannot match keys lying strictly inside a longer
   binding; feeding rows are exactly the one-key C-j rows - by following the
   retry loop: such a binding can only fire on the whole buffer, after which
   the buffer is empty and the activation ends. *)
Theorem C17_real_table_no_pushback :
  cpr_silent e_eff d_cpr_lookup e_feeds /\
  no_pushback d_lookup d_lookup_scan d_waits e_eff e_is_cprh d_cpr_lookup e_feeds.
Proof. exact (conj d_cpr_silent d_no_pushback). Qed.
Print Assumptions C17_real_table_no_pushback.

(* Hence the script theorem for the real table, with no hypothesis left on the
   binding set: for every schedule without timeout labels / close, with reports
   anywhere, if what has been decoded is (reports apart) a prefix of the
   script, the prompts that have returned, returned the script's lines. *)
Theorem C17_script_real_table : forall ls e r lines rs,
  quiet ls ->
  let s := @run estate bid result pstate d_lookup d_lookup_scan d_waits e_eff e_is_cprh d_cpr_lookup e_feeds
                e_restart e_pfeed e_pflush REof ls (@init estate bid result pstate e Model.C03_Vt100Parser.init r) in
  @lines_ok estate bid result d_lookup d_lookup_scan d_waits e_eff e_is_cprh d_cpr_lookup e_feeds e_restart (e_restart e) lines rs ->
  (exists tail, nc (decoded s) ++ tail = concat lines) ->
  results s = firstn (length (results s)) rs.
Proof. exact script_real_table. Qed.
Print Assumptions C17_script_real_table.

(* The same over BYTES: the parser component is C03's byte-level input model
   (Model/C03_Vt100Input.v: incremental UTF-8 decoder with surrogateescape +
   parser + Vt100Input._buffer), the pipe holds bytes and a read may end inside
   a multi-byte character or an escape sequence.  [decoded s] is then what
   Vt100Input.read_keys() returned for the byte chunks actually read;
   C03_bytes_chunk_independent / C03_input_conservation (Props/C03.v) say it is
   the decoding of the concatenated bytes, whatever the cuts.  (Not yet stated
   as one formula: decoded s = the key presses of the bytes consumed so far.) *)
Theorem C17_script_real_table_bytes : forall ls e r lines rs,
  quiet ls ->
  let s := @run estate bid result vstate d_lookup d_lookup_scan d_waits e_eff e_is_cprh d_cpr_lookup e_feeds
                e_restart read_keys flush_keys REof ls (@init estate bid result vstate e vinit r) in
  @lines_ok estate bid result d_lookup d_lookup_scan d_waits e_eff e_is_cprh d_cpr_lookup e_feeds e_restart (e_restart e) lines rs ->
  (exists tail, nc (decoded s) ++ tail = concat lines) ->
  results s = firstn (length (results s)) rs.
Proof. exact script_real_table_bytes. Qed.
Print Assumptions C17_script_real_table_bytes.

(* Queue-level conservation for EVERY label sequence - flush timeouts
   (ttimeoutlen / timeoutlen) and closing the input included - with handlers
   that feed key presses allowed: the key presses popped from input_queue
   (ghost list rpops) ++ type-ahead store ++ input_queue are, reports apart,
   exactly the key presses decoded, in order: between the parser and the key
   processor nothing is lost, duplicated or reordered across any number of
   prompts, and nothing is ever waiting to be pushed back.  (What is popped
   reaches handlers or waits in the key buffer: C17_conservation states that
   part as an equation for handlers that feed nothing.)
   Hypotheses: cpr_silent and no_pushback, proved for the real table. *)
Theorem C17_queue_conservation : forall (E bid res PS : Type)
  (lookup lookup_scan : E -> list kp -> option bid) (waits : E -> list kp -> bool)
  (eff : bid -> list kp -> E -> E * option res) (is_cprh : bid -> bool) (cpr_lookup : E -> option bid)
  (feeds : bid -> list kp -> E -> list kp) (restart : E -> E)
  (pfeed : str -> PS -> PS * list kp) (pflush : PS -> PS * list kp) (res_eof : res),
  let run := @run E bid res PS lookup lookup_scan waits eff is_cprh cpr_lookup feeds restart pfeed pflush res_eof in
  let init := @init E bid res PS in
  cpr_silent eff cpr_lookup feeds -> no_pushback lookup lookup_scan waits eff is_cprh cpr_lookup feeds ->
  forall ls e p r,
  let s := run ls (init e p r) in
  nc (rpops (co s)) ++ nc (ikeys (store s)) ++ nc (ikeys (queue s)) = nc (decoded s) /\ pb (co s) = [].
Proof. exact queue_conservation. Qed.
Print Assumptions C17_queue_conservation.

(* ... and for the regenerated table of a default session over C03's byte-level
   input, with no hypothesis: every schedule, timeouts and EOF included. *)
Theorem C17_conservation_real_table : forall ls e r,
  let s := @run estate bid result vstate d_lookup d_lookup_scan d_waits e_eff e_is_cprh d_cpr_lookup e_feeds
                e_restart read_keys flush_keys REof ls (@init estate bid result vstate e vinit r) in
  nc (rpops (co s)) ++ nc (ikeys (store s)) ++ nc (ikeys (queue s)) = nc (decoded s) /\ pb (co s) = [].
Proof. exact conservation_real_table. Qed.
Print Assumptions C17_conservation_real_table.

(* On the real table one activation never reaches the model's "nested feed"
   give-up branch ([deep]): the only fed key press is ControlM and no feeding
   row can match it.  (The generic theorems follow ONE level of feeding.) *)
Theorem C17_real_table_no_deep : forall (c : core estate bid result) it,
  cph c = CRun result -> pb c = [] -> (kbuf c = [] \/ d_waits (est c) (kbuf c) = true) ->
  deep (deliver_d d_lookup d_lookup_scan d_waits e_eff e_is_cprh d_cpr_lookup e_feeds it c) = deep c.
Proof. exact d_no_deep. Qed.
Print Assumptions C17_real_table_no_deep.

(* Handler-level conservation WITH feeding handlers, for EVERY label sequence
   (ttimeoutlen / timeoutlen flushes and closing the input included):
     handled c = every key press that was handed to a handler, dropped as
                 unbound, or thrown out of the key buffer by a reset(), oldest
                 first, all prompts;
     fedl c    = every key press a handler fed with first=True, in call order.
   There is a tagged list t whose key presses (tl_all t) are exactly
   handled ++ key_buffer, whose untagged sub-list (tl_pop t) is exactly the
   key presses popped from input_queue, in order, and whose tagged sub-list
   (tl_fed t) is a permutation of the fed key presses: every popped key press
   reaches a handler exactly once, in order, or waits in the key buffer - also
   across a flush timeout - and the only extra key presses handlers see are the
   fed ones, each exactly once.  With C17_queue_conservation (decoded = popped
   ++ type-ahead ++ queue) this is the whole chain from the parser to the
   handlers.  Also: the model's one-level-of-feeding give-up flag [deep] is
   never set on any run.  Hypotheses on the binding set: cpr_silent,
   no_pushback, no_deep (an activation never nests feeds) - all three proved
   for the real table. *)
Theorem C17_handler_conservation : forall (E bid res PS : Type)
  (lookup lookup_scan : E -> list kp -> option bid) (waits : E -> list kp -> bool)
  (eff : bid -> list kp -> E -> E * option res) (is_cprh : bid -> bool) (cpr_lookup : E -> option bid)
  (feeds : bid -> list kp -> E -> list kp) (restart : E -> E)
  (pfeed : str -> PS -> PS * list kp) (pflush : PS -> PS * list kp) (res_eof : res),
  let run := @run E bid res PS lookup lookup_scan waits eff is_cprh cpr_lookup feeds restart pfeed pflush res_eof in
  let init := @init E bid res PS in
  cpr_silent eff cpr_lookup feeds -> no_pushback lookup lookup_scan waits eff is_cprh cpr_lookup feeds ->
  no_deep lookup lookup_scan waits eff is_cprh cpr_lookup feeds ->
  forall ls e p r,
  let s := run ls (init e p r) in
  deep (co s) = false /\
  exists t, nc (tl_all t) = nc (handled (co s)) ++ nc (kbuf (co s)) /\
            nc (tl_pop t) = nc (rpops (co s)) /\ Permutation (tl_fed t) (fedl (co s)).
Proof. exact handler_conservation. Qed.
Print Assumptions C17_handler_conservation.

(* ... and for the regenerated table of a default session (C-j feeds ControlM)
   over C03's byte-level input, with no hypothesis: every schedule, timeouts
   and EOF included; [deep] is never set on any run of the real table. *)
Theorem C17_handler_conservation_real_table : forall ls e r,
  let s := @run estate bid result vstate d_lookup d_lookup_scan d_waits e_eff e_is_cprh d_cpr_lookup e_feeds
                e_restart read_keys flush_keys REof ls (@init estate bid result vstate e vinit r) in
  deep (co s) = false /\
  exists t, nc (tl_all t) = nc (handled (co s)) ++ nc (kbuf (co s)) /\
            nc (tl_pop t) = nc (rpops (co s)) /\ Permutation (tl_fed t) (fedl (co s)).
Proof. exact handler_conservation_real_table. Qed.
Print Assumptions C17_handler_conservation_real_table.

(* ... and the fed key presses of the real table are all ControlM (fed by the
   C-j binding): the tagged part of the interleaving above consists of
   ControlM key presses only. *)
Theorem C17_fed_keys_real_table : forall ls e r,
  let s := @run estate bid result vstate d_lookup d_lookup_scan d_waits e_eff e_is_cprh d_cpr_lookup e_feeds
                e_restart read_keys flush_keys REof ls (@init estate bid result vstate e vinit r) in
  Forall (fun k => k = (KKey key_ControlM, [13%Z])) (fedl (co s)).
Proof. exact fed_real_table. Qed.
Print Assumptions C17_fed_keys_real_table.

(* The accept boundary for EVERY schedule, closing the input (EOF) included.
   Three clauses of C17_nothing_after_accept are false once the input may be
   closed (C17_eof_witness below); what holds for every label sequence, under
   cpr_silent only: after the result is set only reports reach handlers, each
   alone; nothing is dropped late; a reset() never throws away anything from
   input_queue (ok_ev_w); exit() is never called twice; and the key buffer can
   be non-empty with the result set only if that result is the EOF one. *)
Theorem C17_after_accept_any_schedule : forall (E bid res PS : Type)
  (lookup lookup_scan : E -> list kp -> option bid) (waits : E -> list kp -> bool)
  (eff : bid -> list kp -> E -> E * option res) (is_cprh : bid -> bool) (cpr_lookup : E -> option bid)
  (feeds : bid -> list kp -> E -> list kp) (restart : E -> E)
  (pfeed : str -> PS -> PS * list kp) (pflush : PS -> PS * list kp) (res_eof : res),
  let run := @run E bid res PS lookup lookup_scan waits eff is_cprh cpr_lookup feeds restart pfeed pflush res_eof in
  let init := @init E bid res PS in
  cpr_silent eff cpr_lookup feeds ->
  forall ls e p r,
  let s := run ls (init e p r) in
  Forall (@ok_ev_w bid) (rlog (co s)) /\ cph (co s) <> CBroken res /\
  (forall x, cph (co s) = CDone x -> x <> res_eof -> kbuf (co s) = []).
Proof. exact after_accept_any. Qed.
Print Assumptions C17_after_accept_any_schedule.

(* The clauses that EOF breaks, on the instance with the real table: c-x typed,
   then the write end closed - the prompt ends with EOFError while c-x is still
   in the key buffer; the next prompt's reset() throws it away; a timeoutlen
   flush that arrives before the application has finished is stored as
   type-ahead.  (No effect on any returned line: see design.d, round 7.) *)
Theorem C17_eof_witness :
  (let s := e_run w_eof (e_init_sys false false) in
   late (co s) = true /\ length (kbuf (co s)) = 1%nat /\
   results (e_run (w_eof ++ [LExit]) (e_init_sys false false)) = [REof]) /\
  has_lost (co (e_run (w_eof ++ [LExit; LStart]) (e_init_sys false false))) = true /\
  has_flush (store (e_run (w_eof ++ [LFlushKeys; LExit]) (e_init_sys false false))) = true.
Proof. exact (conj witness_eof_kbuf (conj witness_eof_lost witness_eof_flush_stored)). Qed.
Print Assumptions C17_eof_witness.
