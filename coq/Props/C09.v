(* C09 - Whatever a kill or cut removes is exactly what the next paste inserts.
   Statements only; proofs are in Proofs/C09_Ring.v, C09_KillFacts.v,
   C09_YankFacts.v; the model is Model/C09_Kill.v.

   [Inv b] is 0 <= cursor <= len(text).  [killed fwd s o acc] says: the text of
   s was pre ++ removed ++ post, the command returned normally, the text is now
   pre ++ post with the cursor between them, removed was next to the old cursor
   (after it when fwd, before it otherwise) and the new kill ring is the old one
   with [acc removed] pushed as CHARACTERS data (ring_set = appendleft + drop
   beyond max_size 60). *)
From Coq Require Import ZArith List Bool Permutation Lia.
From PTK Require Import Lib.Sx Lib.Py Model.Document Model.BufferEdit Proofs.BufferEditFacts
  Proofs.C02_Base
  Model.C09_Kill Model.C09_KillPatched Proofs.C09_Ring Proofs.C09_KillFacts Proofs.C09_YankFacts
  Proofs.C09_CutFacts Proofs.C09_LinesFacts Proofs.C09_RingBound Proofs.C09_RegFacts Proofs.C09_BlockFacts Proofs.C09_StepFacts
  Proofs.C09_RunFacts Proofs.C09_OpFacts Proofs.C09_PopFacts Proofs.C09_SpanFacts Proofs.C09_BlockAccept Proofs.C09_BlockSpan Proofs.C09_WordOpFacts Proofs.C09_BlockRemain.
From PTK Require Model.C02_DocQueries Proofs.C02_Words Proofs.C02_WordsExact.
Import ListNotations.
Open Scope Z_scope.

(* ---- the ring ---- *)

(* set_data: newest first, at most max_size entries, nothing dropped while there is room *)
Theorem C09_ring_set : forall r d,
  ring_get (ring_set r d) = d /\ (length (ring_set r d) <= MAX_SIZE)%nat /\
  ((length r < MAX_SIZE)%nat -> ring_set r d = d :: r) /\
  (forall x, In x (ring_set r d) -> x = d \/ In x r).
Proof.
  intros r d. split; [apply ring_get_set|]. split; [apply ring_set_length|].
  split; [apply ring_set_not_full|apply ring_set_keeps].
Qed.
Print Assumptions C09_ring_set.

(* rotate permutes the ring (no entry lost or invented), any number of times *)
Theorem C09_ring_rotation_perm : forall k r,
  Permutation (rotate_n k r) r /\ length (rotate_n k r) = length r.
Proof. intros k r. split; [apply rotate_n_perm|apply rotate_n_length]. Qed.
Print Assumptions C09_ring_rotation_perm.

(* n rotations of an n-ring are the identity; k rotations expose entry k mod n *)
Theorem C09_ring_rotation_cycle : forall r,
  rotate_n (length r) r = r /\
  forall k d0, r <> [] -> ring_get (rotate_n k r) = nth (k mod length r) r d0.
Proof. intros r. split; [apply rotate_n_full|]. intros k d0. apply rotate_n_head. Qed.
Print Assumptions C09_ring_rotation_cycle.

(* ---- kill exactness ---- *)

(* kill-line (C-k): forward for arg >= 0, backward to the line start for arg < 0 *)
Theorem C09_kill_line_exact : forall s arg,
  Inv (sb s) -> killed (negb (arg <? 0)) s (kill_line s arg) (fun x => x).
Proof. exact kill_line_exact. Qed.
Print Assumptions C09_kill_line_exact.

(* kill-word (M-d, C-Delete), any argument (positive, negative, oversized):
   nothing found = nothing changes; otherwise a span after the cursor is
   removed and stored; a repeat stores previous-head ++ removed (text order) *)
Theorem C09_kill_word_exact : forall s arg rep,
  Inv (sb s) ->
  kill_word s arg rep = ok s \/
  killed true s (kill_word s arg rep)
         (fun del => if rep then ctext (ring_get (sring s)) ++ del else del).
Proof. exact kill_word_exact. Qed.
Print Assumptions C09_kill_word_exact.

(* unix-word-rubout (C-w) and backward-kill-word (M-Backspace): a repeat stores
   removed ++ previous-head (text order) *)
Theorem C09_backward_kill_word_exact : forall s arg rep big,
  Inv (sb s) ->
  unix_word_rubout s arg rep big = ok s \/
  killed false s (unix_word_rubout s arg rep big)
         (fun del => if rep then del ++ ctext (ring_get (sring s)) else del).
Proof. exact unix_word_rubout_exact. Qed.
Print Assumptions C09_backward_kill_word_exact.

(* unix-line-discard (C-u): kills the line before the cursor ... *)
Theorem C09_unix_line_discard_exact : forall s,
  Inv (sb s) ->
  (cursor_position_col (bdoc (sb s)) =? 0) && (0 <? bcur (sb s)) = false ->
  killed false s (unix_line_discard s) (fun x => x)
  /\ exists s', unix_line_discard s = (0, s') /\
       ctext (ring_get (sring s')) = current_line_before_cursor (bdoc (sb s)).
Proof. exact unix_line_discard_else. Qed.
Print Assumptions C09_unix_line_discard_exact.

(* ... the single exception: at column 0 (not at the start of the buffer) it
   deletes the one character before the cursor and does not touch the ring *)
Theorem C09_unix_line_discard_column0 : forall s,
  Inv (sb s) ->
  cursor_position_col (bdoc (sb s)) = 0 -> 0 < bcur (sb s) ->
  exists s', unix_line_discard s = (0, s') /\
    btext (sb s') = firstn (Z.to_nat (bcur (sb s) - 1)) (btext (sb s))
                    ++ skipn (Z.to_nat (bcur (sb s))) (btext (sb s)) /\
    bcur (sb s') = bcur (sb s) - 1 /\
    sring s' = sring s.
Proof. exact unix_line_discard_col0. Qed.
Print Assumptions C09_unix_line_discard_column0.

(* ---- kill then yank ---- *)

(* after ANY exact kill, yanking (argument 1) at the resulting cursor restores
   the original text and leaves the ring as the kill left it *)
Theorem C09_yank_restores : forall fwd s o,
  killed fwd s o (fun x => x) ->
  exists s2, yank (snd o) 1 = (0, s2) /\ btext (sb s2) = btext (sb s) /\ sring s2 = sring (snd o).
Proof. exact kill_then_yank_restores. Qed.
Print Assumptions C09_yank_restores.

(* two consecutive forward word kills: the ring head is r1 ++ r2 where the
   text was pre ++ r1 ++ r2 ++ post, and one yank restores that text *)
Theorem C09_repeated_forward_kills : forall s o1 o2,
  killed true s o1 (fun x => x) ->
  killed true (snd o1) o2 (fun del => ctext (ring_get (sring (snd o1))) ++ del) ->
  (exists r1 r2, ctext (ring_get (sring (snd o2))) = r1 ++ r2 /\
                 ctext (ring_get (sring (snd o1))) = r1 /\
                 exists pre post, btext (sb s) = pre ++ r1 ++ r2 ++ post /\ len pre = bcur (sb s)) /\
  exists s3, yank (snd o2) 1 = (0, s3) /\ btext (sb s3) = btext (sb s).
Proof. exact two_forward_kills_then_yank. Qed.
Print Assumptions C09_repeated_forward_kills.

(* two consecutive backward word kills: head r2 ++ r1, text pre ++ r2 ++ r1 ++ post *)
Theorem C09_repeated_backward_kills : forall s o1 o2,
  killed false s o1 (fun x => x) ->
  killed false (snd o1) o2 (fun del => del ++ ctext (ring_get (sring (snd o1)))) ->
  (exists r1 r2, ctext (ring_get (sring (snd o2))) = r2 ++ r1 /\
                 ctext (ring_get (sring (snd o1))) = r1 /\
                 exists pre post, btext (sb s) = pre ++ r2 ++ r1 ++ post /\
                                  len pre + len r2 + len r1 = bcur (sb s)) /\
  exists s3, yank (snd o2) 1 = (0, s3) /\ btext (sb s3) = btext (sb s).
Proof. exact two_backward_kills_then_yank. Qed.
Print Assumptions C09_repeated_backward_kills.

(* The repeat rule is keyed on "same binding as the previous key", not on "the
   previous kill removed something": after a kill-word that found nothing, the
   next one still prepends the (unrelated) ring head and the yank does not
   restore the text (finding C09-F1). *)
Theorem C09_repeat_after_noop_kill_refuted :
  exists s, Inv (sb s) /\ kill_word s 5 false = ok s /\
    exists s2 s3, kill_word s 1 true = (0, s2) /\ yank s2 1 = (0, s3) /\
      btext (sb s3) <> btext (sb s).
Proof. exact kill_word_repeat_after_noop_refuted. Qed.
Print Assumptions C09_repeat_after_noop_kill_refuted.

(* ---- yank-pop ---- *)

(* yank; yank-pop^k shows ring[k mod n] at the yank position; the ring is the
   original rotated k times (a permutation: no kill is lost) *)
Theorem C09_yank_pop_cycle : forall s k d0,
  Inv (sb s) -> sring s <> [] -> all_chars (sring s) ->
  let sk := pops k (snd (yank s 1)) in
  btext (sb sk) = firstn (Z.to_nat (bcur (sb s))) (btext (sb s))
                  ++ ctext (nth (k mod length (sring s)) (sring s) d0)
                  ++ skipn (Z.to_nat (bcur (sb s))) (btext (sb s))
  /\ sring sk = rotate_n k (sring s)
  /\ Permutation (sring sk) (sring s)
  /\ sdbp sk = Some (btext (sb s), bcur (sb s)).
Proof. exact yank_pops_cycle. Qed.
Print Assumptions C09_yank_pop_cycle.

(* yank-pop only works after a paste: any setter call that changes text or
   cursor forgets the snapshot, and without a snapshot yank-pop is a no-op *)
Theorem C09_yank_pop_only_after_yank : forall s,
  (sdbp s = None -> yank_pop s = ok s) /\
  (forall b', (btext b' <> btext (sb s) \/ bcur b' <> bcur (sb s)) -> sdbp (upd s b') = None).
Proof. intros s. split; [apply yank_pop_without_yank|apply upd_forgets]. Qed.
Print Assumptions C09_yank_pop_only_after_yank.

(* ---- Vi ---- *)

(* x / X / D store exactly the removed characters (type CHARACTERS) *)
Theorem C09_vi_x_X_D_exact : forall s arg,
  Inv (sb s) ->
  (vi_x s arg = ok s \/ killed true s (vi_x s arg) (fun x => x)) /\
  (0 <= arg -> vi_X s arg = ok s \/ killed false s (vi_X s arg) (fun x => x)) /\
  killed true s (vi_D s) (fun x => x).
Proof.
  intros s arg Hi. split; [now apply vi_x_exact|]. split; [now apply vi_X_exact|now apply vi_D_exact].
Qed.
Print Assumptions C09_vi_x_X_D_exact.

(* x or D followed by a paste, THROUGH [step] (the cursor fix-up that runs after
   every Vi handler included): if the fix-up left the cursor where the kill
   happened, P restores the text; if it moved it (the kill emptied the rest of
   the line), p restores it. *)
Theorem C09_vi_D_then_paste_restores : forall s,
  svi s = true -> ssel s = None -> Inv (sb s) ->
  exists s1, step s ViD None = (0, s1) /\
    (bcur (sb s1) = bcur (sb s) ->
     exists s3, step s1 ViBigP None = (0, s3) /\ btext (sb s3) = btext (sb s)) /\
    (bcur (sb s1) <> bcur (sb s) ->
     exists s3, step s1 ViP None = (0, s3) /\ btext (sb s3) = btext (sb s)).
Proof. exact vi_D_then_paste_step. Qed.
Print Assumptions C09_vi_D_then_paste_restores.

Theorem C09_vi_x_then_paste_restores : forall s,
  svi s = true -> ssel s = None -> Inv (sb s) ->
  0 < len (current_line_after_cursor (bdoc (sb s))) ->
  exists s1, step s ViX None = (0, s1) /\
    (bcur (sb s1) = bcur (sb s) ->
     exists s3, step s1 ViBigP None = (0, s3) /\ btext (sb s3) = btext (sb s)) /\
    (bcur (sb s1) <> bcur (sb s) ->
     exists s3, step s1 ViP None = (0, s3) /\ btext (sb s3) = btext (sb s)).
Proof. exact vi_x_then_paste_step. Qed.
Print Assumptions C09_vi_x_then_paste_restores.

(* ... and "D then P restores" without that case distinction is false: "abc",
   cursor 1, D P gives "bca" (the fix-up moved the cursor onto "a") *)
Theorem C09_vi_D_then_P_refuted :
  exists s, svi s = true /\ ssel s = None /\ Inv (sb s) /\
    btext (sb (snd (step (snd (step s ViD None)) ViBigP None))) <> btext (sb s).
Proof. exact vi_D_then_P_refuted. Qed.
Print Assumptions C09_vi_D_then_P_refuted.

(* yy stores the addressed lines with type LINES and changes nothing *)
Theorem C09_vi_yy_pure : forall s arg,
  exists s', vi_yy s arg = (0, s') /\ sb s' = sb s /\
    ring_get (sring s') =
      mkclip (join [NL] (slice_to (slice_from (lines (cur_doc s)) (cursor_position_row (cur_doc s))) arg)) LINES.
Proof. exact vi_yy_pure. Qed.
Print Assumptions C09_vi_yy_pure.

(* pasting CHARACTERS data n times (p, P, yank with argument n) inserts exactly
   n copies, unchanged, at the position the mode defines (cursor for P / emacs,
   one past the cursor, clamped, for p) and changes nothing else.  For any n:
   n < 1 returns the document unchanged (zero copies). *)
Theorem C09_paste_characters_n : forall t c data mode n,
  0 <= c <= len t -> ctype data = CHARACTERS ->
  mode = EMACS \/ mode = VI_BEFORE \/ mode = VI_AFTER ->
  exists c',
    doc_paste (mkdoc t c) data mode n =
    Some (firstn (Z.to_nat (paste_at mode c (len t))) t
          ++ repeat_str (ctext data) (Z.to_nat n)
          ++ skipn (Z.to_nat (paste_at mode c (len t))) t, c').
Proof. exact doc_paste_chars_n. Qed.
Print Assumptions C09_paste_characters_n.

(* dd (after fix deb887f), for every document, cursor and count: the text that
   remains is exactly the remaining lines and the register holds exactly the
   removed lines with type LINES.  (Was refuted before the fix: finding C09-F4.) *)
Theorem C09_vi_dd_lines : forall s arg,
  exists s', vi_dd s arg = (0, s') /\
    btext (sb s') = dd_spec s arg /\
    ring_get (sring s') =
      mkclip (join [NL] (slice2 (lines (cur_doc s)) (cursor_position_row (cur_doc s))
                                (cursor_position_row (cur_doc s) + arg))) LINES.
Proof. exact vi_dd_exact. Qed.
Print Assumptions C09_vi_dd_lines.

(* visual block (after fixes e0cf816 + f3ffc71 + 0578190): the operators d / y /
   "rd / "ry (TextObject.cut) store exactly the block that x
   (Buffer.cut_selection) stores, for every text and every two corners, equal
   or not.  (Was refuted: C09-F3, then C09-F5 for a one-cell block.) *)
Theorem C09_vi_visual_block_operator : forall t cur orig nd data,
  tobj_cut (mkdoc t cur) (orig - cur) 0 TBLOCK = Some (nd, data) ->
  data = snd (doc_cut_selection (mkdoc t cur) (orig, BLOCK) true).
Proof. exact visual_block_operator_stores_block. Qed.
Print Assumptions C09_vi_visual_block_operator.

(* the one-cell block of the former finding C09-F5: "abc", C-v y at 0 stores "a" *)
Example C09_vi_visual_block_single_cell :
  let s := mkst (mkbuf [97; 98; 99] 0) None [] None 0 [] true in
  ctext (ring_get (sring (snd (vi_visual s (0, BLOCK) 1 0)))) = [97] /\
  ctext (snd (doc_cut_selection (cur_doc s) (0, BLOCK) true)) = [97].
Proof. exact visual_block_single_cell_example. Qed.
Print Assumptions C09_vi_visual_block_single_cell.

(* ---- round 3: region, visual mode, registers, line-wise paste, repaired kill-word ---- *)

(* Document.cut_selection for a CHARACTERS selection, emacs (vi = false: [min, max))
   or Vi (vi = true: [min, max]): the new document is the text without the span,
   the clipboard data is exactly the span *)
Theorem C09_cut_selection_characters : forall t cur orig vi,
  0 <= cur <= len t -> 0 <= orig <= len t ->
  let a := sel_lo cur orig in
  let b := sel_hi cur orig vi (len t) in
  doc_cut_selection (mkdoc t cur) (orig, CHARACTERS) vi =
  (Some (firstn (Z.to_nat a) t ++ skipn (Z.to_nat b) t, a),
   mkclip (firstn (Z.to_nat (b - a)) (skipn (Z.to_nat a) t)) CHARACTERS).
Proof. exact cut_chars. Qed.
Print Assumptions C09_cut_selection_characters.

(* kill-region (C-w / C-x r k with a mark) is an exact kill (so C09_yank_restores
   applies to it) and clears the selection *)
Theorem C09_region_cut_exact : forall s m,
  Inv (sb s) -> svi s = false -> ssel s = Some (m, CHARACTERS) -> 0 <= m <= len (btext (sb s)) ->
  killed (bcur (sb s) <=? m) s (region_cmd s true) (fun x => x)
  /\ ssel (snd (region_cmd s true)) = None.
Proof. exact region_cut_exact. Qed.
Print Assumptions C09_region_cut_exact.

(* copy-region (M-w) pushes the same text and leaves the buffer alone *)
Theorem C09_region_copy_exact : forall s m,
  Inv (sb s) -> svi s = false -> ssel s = Some (m, CHARACTERS) -> 0 <= m <= len (btext (sb s)) ->
  exists s', region_cmd s false = (0, s') /\ sb s' = sb s /\ ssel s' = None /\
    sring s' = ring_set (sring s)
      (mkclip (firstn (Z.to_nat (sel_hi (bcur (sb s)) m false (len (btext (sb s))) - sel_lo (bcur (sb s)) m))
                      (skipn (Z.to_nat (sel_lo (bcur (sb s)) m)) (btext (sb s)))) CHARACTERS).
Proof. exact region_copy_exact. Qed.
Print Assumptions C09_region_copy_exact.

(* Vi visual mode (v): TextObject.cut, used by d / y / reg-d / reg-y, yields the
   text without the characters min..max and exactly those characters *)
Theorem C09_vi_visual_characters_cut : forall t cur orig,
  0 <= cur <= len t -> 0 <= orig <= len t ->
  let a := sel_lo cur orig in
  let b := sel_hi cur orig true (len t) in
  tobj_cut (mkdoc t cur) (orig - cur) 0 INCLUSIVE =
  Some (Some (firstn (Z.to_nat a) t ++ skipn (Z.to_nat b) t, a),
        mkclip (firstn (Z.to_nat (b - a)) (skipn (Z.to_nat a) t)) CHARACTERS).
Proof. exact visual_chars_tobj_cut. Qed.
Print Assumptions C09_vi_visual_characters_cut.

(* d / y / x in visual mode: the unnamed register gets exactly the selected
   characters (type CHARACTERS), registers untouched, y leaves the text alone,
   d and x remove exactly the selection *)
Theorem C09_vi_visual_unnamed : forall s orig key,
  Inv (sb s) -> svi s = true -> 0 <= orig <= len (btext (sb s)) -> key = 0 \/ key = 1 \/ key = 2 ->
  selected_chars s orig <> [] ->
  exists s', vi_visual s (orig, CHARACTERS) key 0 = (0, s') /\
    ring_get (sring s') = mkclip (selected_chars s orig) CHARACTERS /\
    sregs s' = sregs s /\
    btext (sb s') =
      if key =? 1 then btext (sb s)
      else firstn (Z.to_nat (sel_lo (bcur (sb s)) orig)) (btext (sb s))
           ++ skipn (Z.to_nat (sel_hi (bcur (sb s)) orig true (len (btext (sb s))))) (btext (sb s)).
Proof. exact visual_unnamed. Qed.
Print Assumptions C09_vi_visual_unnamed.

(* named registers, every register name: reg-y stores exactly the selected
   characters in register r and in no other place ... *)
Theorem C09_vi_register_fidelity_yank : forall s orig r,
  Inv (sb s) -> 0 <= orig <= len (btext (sb s)) -> is_register_name r = true ->
  selected_chars s orig <> [] ->
  exists s', vi_visual s (orig, CHARACTERS) 4 r = (0, s') /\
    sb s' = sb s /\ sring s' = sring s /\ ssel s' = None /\
    reg_get (sregs s') r = Some (mkclip (selected_chars s orig) CHARACTERS) /\
    (forall r', r' <> r -> reg_get (sregs s') r' = reg_get (sregs s) r').
Proof. exact visual_register_yank. Qed.
Print Assumptions C09_vi_register_fidelity_yank.

(* ... reg-d stores them and removes exactly them ... *)
Theorem C09_vi_register_fidelity_delete : forall s orig r,
  Inv (sb s) -> 0 <= orig <= len (btext (sb s)) -> is_register_name r = true ->
  selected_chars s orig <> [] ->
  exists s', vi_visual s (orig, CHARACTERS) 3 r = (0, s') /\
    btext (sb s') = firstn (Z.to_nat (sel_lo (bcur (sb s)) orig)) (btext (sb s))
                    ++ skipn (Z.to_nat (sel_hi (bcur (sb s)) orig true (len (btext (sb s))))) (btext (sb s)) /\
    sring s' = sring s /\
    reg_get (sregs s') r = Some (mkclip (selected_chars s orig) CHARACTERS).
Proof. exact visual_register_delete. Qed.
Print Assumptions C09_vi_register_fidelity_delete.

(* ... and reg-p / reg-P with a count n then inserts exactly n unchanged copies.
   Both commands THROUGH [step]: the yank leaves the cursor where it was or one
   to the left (fix-up after the operator), the count digits run the fix-up once
   more, and the copies go in at the position the mode defines for THAT cursor. *)
Theorem C09_vi_register_yank_step : forall s orig r,
  svi s = true -> ssel s = None -> Inv (sb s) -> 0 <= orig <= len (btext (sb s)) ->
  is_register_name r = true -> selected_chars s orig <> [] ->
  exists s1, step s (ViVisual orig CHARACTERS 4 r) None = (0, s1) /\
    btext (sb s1) = btext (sb s) /\ sring s1 = sring s /\ svi s1 = true /\ ssel s1 = None /\
    reg_get (sregs s1) r = Some (mkclip (selected_chars s orig) CHARACTERS) /\
    bcur (sb s) - 1 <= bcur (sb s1) <= bcur (sb s).
Proof. exact step_visual_register_yank. Qed.
Print Assumptions C09_vi_register_yank_step.

Theorem C09_vi_register_paste_step : forall s1 r (before : bool) n data,
  svi s1 = true -> ssel s1 = None -> Inv (sb s1) -> is_register_name r = true ->
  reg_get (sregs s1) r = Some data -> ctype data = CHARACTERS -> n < 1000000 ->
  let s0 := fix_vi_cursor s1 in
  let mode := if before then VI_BEFORE else VI_AFTER in
  let at_ := paste_at mode (bcur (sb s0)) (len (btext (sb s1))) in
  exists s2, step s1 (ViPasteReg r before) (Some n) = (0, s2) /\
    btext (sb s2) = firstn (Z.to_nat at_) (btext (sb s1))
                    ++ repeat_str (ctext data) (Z.to_nat n)
                    ++ skipn (Z.to_nat at_) (btext (sb s1)) /\
    sregs s2 = sregs s1 /\ sring s2 = sring s1 /\
    bcur (sb s1) - 1 <= bcur (sb s0) <= bcur (sb s1).
Proof. exact step_register_paste. Qed.
Print Assumptions C09_vi_register_paste_step.

(* pasting LINES data n >= 1 times: the new text is the old line list with n
   copies of the data inserted below (p, emacs yank) or above (P) the cursor
   line; every old line is kept, in order (row bounds from C02) *)
Theorem C09_paste_lines_n : forall d data mode n,
  valid d -> ctype data = LINES -> 1 <= n ->
  mode = EMACS \/ mode = VI_BEFORE \/ mode = VI_AFTER ->
  let ls := lines d in
  let at_ := if mode =? VI_BEFORE then cursor_position_row d else cursor_position_row d + 1 in
  exists c',
    doc_paste d data mode n =
    Some (join [NL] (firstn (Z.to_nat at_) ls ++ repeat_list (ctext data) (Z.to_nat n)
                     ++ skipn (Z.to_nat at_) ls), c').
Proof. exact doc_paste_lines. Qed.
Print Assumptions C09_paste_lines_n.

(* dd / yy against the line list (mathematical firstn/skipn, no Python slices) *)
Theorem C09_vi_dd_span : forall s arg,
  Inv (sb s) -> 0 <= arg ->
  let ls := lines (cur_doc s) in
  let row := cursor_position_row (cur_doc s) in
  exists s', vi_dd s arg = (0, s') /\
    btext (sb s') = join [NL] (firstn (Z.to_nat row) ls ++ skipn (Z.to_nat (row + arg)) ls) /\
    ring_get (sring s') = mkclip (join [NL] (firstn (Z.to_nat arg) (skipn (Z.to_nat row) ls))) LINES.
Proof. exact vi_dd_firstn. Qed.
Print Assumptions C09_vi_dd_span.

Theorem C09_vi_yy_span : forall s arg,
  Inv (sb s) -> 0 <= arg ->
  exists s', vi_yy s arg = (0, s') /\ sb s' = sb s /\
    ring_get (sring s') =
      mkclip (join [NL] (firstn (Z.to_nat arg)
                (skipn (Z.to_nat (cursor_position_row (cur_doc s))) (lines (cur_doc s))))) LINES.
Proof. exact vi_yy_firstn. Qed.
Print Assumptions C09_vi_yy_span.

(* kill-word as repaired by fixes/C09-kill-word-repeat-after-noop.patch (a
   model of the PATCHED code, not of /repo HEAD): it continues a kill only when
   its previous call killed; then for ANY first call (killing or not, any
   arguments) a repeated call followed by one yank restores the text from
   before the first call - the statement that C09_repeat_after_noop_kill_refuted
   refutes for the code as it is *)
Theorem C09_kill_word_patched_accumulates : forall s a1 r1 p1 a2,
  Inv (sb s) -> r1 && p1 = false ->
  let c1 := kill_word_patched s a1 r1 p1 in
  let c2 := kill_word_patched (snd (fst c1)) a2 true (snd c1) in
  fst (fst c1) = 0 /\ fst (fst c2) = 0 /\
  (sring (snd (fst c2)) = sring s \/
   exists s3, yank (snd (fst c2)) 1 = (0, s3) /\ btext (sb s3) = btext (sb s)).
Proof. exact kill_word_patched_two_calls_restore. Qed.
Print Assumptions C09_kill_word_patched_accumulates.

Theorem C09_kill_word_patched_exact : forall s arg rep pk,
  Inv (sb s) ->
  (kill_word_patched s arg rep pk = (ok s, false)) \/
  (snd (kill_word_patched s arg rep pk) = true /\
   killed true s (fst (kill_word_patched s arg rep pk))
          (fun del => if rep && pk then ctext (ring_get (sring s)) ++ del else del)).
Proof. exact kill_word_patched_exact. Qed.
Print Assumptions C09_kill_word_patched_exact.

(* ---- round 4: the bounded ring (max_size a parameter), registers of any type, s / C / S ---- *)

(* after ANY sequence of pushes (set_data) and rotations the ring holds at most
   max_size entries, for every max_size m *)
Theorem C09_ring_bounded : forall m ops r,
  (length r <= m)%nat -> (length (rrun m ops r) <= m)%nat.
Proof. intros m ops r. apply rrun_bounded. Qed.
Print Assumptions C09_ring_bounded.

(* a push with room keeps everything; a push on an EXACTLY full ring drops
   exactly the oldest entry and nothing else *)
Theorem C09_ring_push_full : forall m r d,
  ((length r < m)%nat -> ring_set_n m r d = d :: r) /\
  ((1 <= m)%nat -> length r = m -> ring_set_n m r d = d :: removelast r).
Proof. intros m r d. split; [apply ring_set_n_room|apply ring_set_n_full]. Qed.
Print Assumptions C09_ring_push_full.

(* yank-pop (any number of rotations) on a full ring loses nothing *)
Theorem C09_yank_pop_full_ring_loses_nothing : forall m k r,
  length r = m -> Permutation (rotate_n k r) r /\ length (rotate_n k r) = m.
Proof. exact rotations_lose_nothing. Qed.
Print Assumptions C09_yank_pop_full_ring_loses_nothing.

(* every command of the editor model (emacs and Vi, any argument, terminal
   reports included) changes the ring by pushes and rotations only, so after any
   command sequence the ring is within max_size *)
Theorem C09_ring_bounded_sessions : forall cs s,
  ring_evolves (sring s) (sring (run_steps s cs)) /\
  ((length (sring s) <= MAX_SIZE)%nat -> (length (sring (run_steps s cs)) <= MAX_SIZE)%nat).
Proof. intros cs s. split; [apply run_steps_ev|apply run_steps_bounded]. Qed.
Print Assumptions C09_ring_bounded_sessions.

(* registers holding data of any type (CHARACTERS / LINES / BLOCK): reg-y stores,
   unchanged, the data (text and type) that TextObject.cut computed ... *)
Theorem C09_vi_register_stores_cut_any_type : forall s orig ty r nd data,
  is_register_name r = true ->
  tobj_cut (mkdoc (btext (sb s)) (bcur (sb s))) (orig - bcur (sb s)) 0 (visual_tt ty) = Some (Some nd, data) ->
  ctext data <> [] ->
  exists s', vi_visual s (orig, ty) 4 r = (0, s') /\
    sb s' = sb s /\ sring s' = sring s /\
    reg_get (sregs s') r = Some data /\
    (forall r', r' <> r -> reg_get (sregs s') r' = reg_get (sregs s) r').
Proof. exact visual_register_yank_any. Qed.
Print Assumptions C09_vi_register_stores_cut_any_type.

(* ... and reg-p hands exactly the stored data to the paste *)
Theorem C09_vi_register_paste_any_type : forall s r data mode n,
  is_register_name r = true -> reg_get (sregs s) r = Some data ->
  vi_paste_reg s r mode n = buf_paste s data mode n.
Proof. exact register_paste_any. Qed.
Print Assumptions C09_vi_register_paste_any_type.

(* a register holding LINES data pasted n >= 1 times: n whole lines *)
Theorem C09_vi_register_lines_paste : forall s r data (before : bool) n,
  Inv (sb s) -> is_register_name r = true -> reg_get (sregs s) r = Some data ->
  ctype data = LINES -> 1 <= n ->
  let d := cur_doc s in
  let at_ := if before then cursor_position_row d else cursor_position_row d + 1 in
  exists s', vi_paste_reg s r (if before then VI_BEFORE else VI_AFTER) n = (0, s') /\
    btext (sb s') = join [NL] (firstn (Z.to_nat at_) (lines d)
                               ++ repeat_list (ctext data) (Z.to_nat n)
                               ++ skipn (Z.to_nat at_) (lines d)) /\
    sregs s' = sregs s /\ sring s' = sring s.
Proof. exact register_lines_paste. Qed.
Print Assumptions C09_vi_register_lines_paste.

(* s and C store exactly what they remove; S / cc stores the whole line, line-wise *)
Theorem C09_vi_s_C_S : forall s arg,
  Inv (sb s) ->
  killed true s (vi_subst_core s arg) (fun x => x) /\
  killed true s (vi_bigC_core s) (fun x => x) /\
  ring_get (sring (snd (vi_bigS_core s))) = mkclip (current_line (cur_doc s)) LINES.
Proof. intros s arg Hi. split; [now apply vi_s_exact|]. split; [now apply vi_C_exact|apply vi_S_register]. Qed.
Print Assumptions C09_vi_s_C_S.

(* pasting BLOCK data n >= 1 times: whenever paste_clipboard_data returns a
   document, its text is the join of a line list in which block line i has been
   inserted n times into row cursor_row + i at the start column (cursor column for
   P, one further for p; the row is padded with spaces up to it), every row
   outside cursor_row .. cursor_row + k - 1 is unchanged, and rows that did not
   exist are appended.  (That the Document constructor never refuses the result
   is tied by correspondence, not proved.) *)
Theorem C09_paste_block_n : forall d data mode n t' c',
  valid d -> ctype data = BLOCK -> 1 <= n ->
  doc_paste d data mode n = Some (t', c') ->
  let row := cursor_position_row d in
  let sc := cursor_position_col d + (if mode =? VI_BEFORE then 0 else 1) in
  let parts := split_on NL (ctext data) in
  exists res,
    t' = join [NL] res /\
    len res = Z.max (len (lines d)) (row + len parts) /\
    (forall j, 0 <= j -> (j < row \/ row + len parts <= j) -> nthZ res j = nthZ (lines d) j) /\
    (forall i, 0 <= i < len parts ->
       nthZ res (row + i) = block_ins sc n (nthZ (lines d) (row + i)) (nth (Z.to_nat i) parts [])).
Proof. exact doc_paste_block. Qed.
Print Assumptions C09_paste_block_n.

(* ---- round 5: is_repeat through [step], runs of n consecutive kills ---- *)

(* after any successfully handled key command the key processor's "previous
   handler" is that command's binding (reports and direct cursor assignments
   are not key commands and leave it alone) *)
Theorem C09_step_sets_previous_handler : forall s c a s1,
  (match c with SetCursor _ | Cpr => False | _ => True end) ->
  step s c a = (0, s1) -> sprev s1 = binding_id (has_sel s) c.
Proof. exact step_sets_prev. Qed.
Print Assumptions C09_step_sets_previous_handler.

(* M-d through [step]: without a typed argument the handler's repeat flag is
   "previous handler = this binding"; with a typed argument it is false *)
Theorem C09_kill_word_repeat_flag : forall s a,
  svi s = false -> ssel s = None ->
  step s KillWordMd a =
  (let arg := match a with Some x => if 1000000 <=? x then 1 else x | None => 1 end in
   let rep := match a with Some _ => false | None => sprev s =? 2 end in
   let '(code, s') := kill_word s arg rep in
   if code =? 0 then (0, with_prev (fix_vi_cursor s') 2)
   else if code =? E_UNMODELLED then (code, s) else (code, with_prev s' 0)).
Proof. exact step_kill_word_rep. Qed.
Print Assumptions C09_kill_word_repeat_flag.

(* a run of consecutive M-d presses of ANY length, through [step]: if the first
   press is not itself a repeat and kills something, then after n further
   presses the ring head is everything the run removed, in text order (run_inv:
   text0 = pre ++ R ++ post with pre ending at the cursor, text = pre ++ post,
   head = R), and one yank restores the text from before the run *)
Theorem C09_consecutive_kill_words_accumulate : forall n s s1,
  svi s = false -> ssel s = None -> Inv (sb s) -> sprev s <> 2 ->
  step s KillWordMd None = (0, s1) -> sring s1 <> sring s ->
  run_inv s (md_run n s1) /\
  exists s3, yank (md_run n s1) 1 = (0, s3) /\ btext (sb s3) = btext (sb s).
Proof. exact md_run_accumulates. Qed.
Print Assumptions C09_consecutive_kill_words_accumulate.

(* ---- round 6 ---- *)

(* a run of consecutive presses of ANY of the four word-kill keys (M-d, C-Delete:
   forward; C-w, M-Backspace: backward), of ANY length, through [step]: if the first
   press is not itself a repeat and kills something, then after n further presses of
   the same key the ring head is everything the run removed, in text order
   (wrun_inv: text0 = pre ++ R ++ post, text = pre ++ post, head = R, R starting at
   the original cursor for forward kills and ending there for backward kills), and
   one yank restores the text from before the run *)
Theorem C09_consecutive_word_kills_accumulate : forall c n s s1,
  is_wk c = true ->
  svi s = false -> ssel s = None -> Inv (sb s) -> sprev s <> cmd_id c ->
  step s c None = (0, s1) -> sring s1 <> sring s ->
  wrun_inv c s (wk_run c n s1) /\
  exists s3, yank (wk_run c n s1) 1 = (0, s3) /\ btext (sb s3) = btext (sb s).
Proof. exact wk_run_accumulates. Qed.
Print Assumptions C09_consecutive_word_kills_accumulate.

Example C09_consecutive_backward_kills_example :
  let s := mkst (mkbuf [97; 98; 32; 99; 100] 5) None [] None 0 [] false in
  let s1 := snd (step s CtrlW None) in
  sring s1 <> sring s /\
  ctext (ring_get (sring (wk_run CtrlW 2 s1))) = [97; 98; 32; 99; 100] /\
  btext (sb (wk_run CtrlW 2 s1)) = [].
Proof. exact wk_run_example. Qed.
Print Assumptions C09_consecutive_backward_kills_example.

(* KeyProcessor._fix_vi_cursor_position is idempotent: a second fix-up (the one
   the count digits run) finds nothing to do *)
Theorem C09_fix_vi_cursor_idempotent : forall s,
  Inv (sb s) -> fix_vi_cursor (fix_vi_cursor s) = fix_vi_cursor s.
Proof. exact fix_vi_cursor_idem. Qed.
Print Assumptions C09_fix_vi_cursor_idempotent.

(* reg-y in visual mode then <n> reg-p / reg-P as ONE chain of two [step]s: exactly n
   unchanged copies of the selected characters, at the position the mode defines for
   the cursor the yank left (no reference to an intermediate fix-up any more) *)
Theorem C09_vi_register_yank_then_counted_paste : forall s orig r (before : bool) n,
  svi s = true -> ssel s = None -> Inv (sb s) -> 0 <= orig <= len (btext (sb s)) ->
  is_register_name r = true -> selected_chars s orig <> [] -> n < 1000000 ->
  exists s1 s2,
    step s (ViVisual orig CHARACTERS 4 r) None = (0, s1) /\
    step s1 (ViPasteReg r before) (Some n) = (0, s2) /\
    bcur (sb s) - 1 <= bcur (sb s1) <= bcur (sb s) /\
    let at_ := paste_at (if before then VI_BEFORE else VI_AFTER) (bcur (sb s1)) (len (btext (sb s))) in
    btext (sb s2) = firstn (Z.to_nat at_) (btext (sb s))
                    ++ repeat_str (selected_chars s orig) (Z.to_nat n)
                    ++ skipn (Z.to_nat at_) (btext (sb s)).
Proof. exact register_yank_then_counted_paste. Qed.
Print Assumptions C09_vi_register_yank_then_counted_paste.

(* Vi navigation mode, [count] [register] d / y / c + motion (op 0 / 1 / 2; reg < 0:
   no register prefix), ANY motion of the model (l h $ 0 ^ e b B): the non-empty data
   TextObject.cut computed goes, unchanged (text and type), into the register the
   keys name and nowhere else (op_stored: named register set, other registers and
   the unnamed ring untouched; an invalid name stores nothing; without a prefix
   the data is pushed on the unnamed ring); d / c install the cut document, y
   leaves the text alone *)
Theorem C09_vi_operator_motion_stores_cut : forall s op reg m arg start oty t c data,
  op = 0 \/ op = 1 \/ op = 2 ->
  motion_obj (cur_doc s) m arg = Some (start, oty) ->
  (oty =? EXCLUSIVE) && (start =? 0) = false ->
  (op = 1 -> 0 <= reg -> is_register_name reg = true) ->
  tobj_cut (cur_doc s) start 0 oty = Some (Some (t, c), data) -> ctext data <> [] ->
  exists s', vi_op s op reg m arg = (0, s') /\
    op_stored s s' reg data /\
    btext (sb s') = (if op =? 1 then btext (sb s) else t).
Proof. exact vi_op_stores_cut. Qed.
Print Assumptions C09_vi_operator_motion_stores_cut.

(* ... and for the motions that stay on the cursor line (l h $ 0 ^), through [step],
   typed with or without a count: the register receives EXACTLY the characters
   between the cursor and the motion's target (text[x:y]), type CHARACTERS; d / c
   remove exactly those characters; y changes nothing; a motion that does not move
   (k = 0) cancels the operator and nothing changes.  Round 7: marg is a count typed
   between operator and motion (0 = none); the motion sees op_count = the clamped
   product of the two counts *)
Theorem C09_vi_operator_inline_motions : forall s op reg m marg (argp : option Z),
  svi s = true -> ssel s = None -> Inv (sb s) ->
  (match argp with Some a => fix_vi_cursor s = s /\ 0 <= a | None => True end) -> 0 <= marg ->
  op = 0 \/ op = 1 \/ op = 2 -> 0 <= m <= 4 ->
  (op = 1 -> 0 <= reg -> is_register_name reg = true) ->
  let arg := op_count (match argp with Some a => if 1000000 <=? a then 1 else a | None => 1 end) marg in
  exists k, motion_obj (cur_doc s) m arg = Some (k, EXCLUSIVE) /\
    - len (current_line_before_cursor (cur_doc s)) <= k <= len (current_line_after_cursor (cur_doc s)) /\
    (k = 0 -> exists s1, step s (ViOp op reg m marg) argp = (0, s1) /\
              btext (sb s1) = btext (sb s) /\ sring s1 = sring s /\ sregs s1 = sregs s) /\
    (k <> 0 ->
     let x := bcur (sb s) + Z.min k 0 in
     let y := bcur (sb s) + Z.max k 0 in
     let span := firstn (Z.to_nat (y - x)) (skipn (Z.to_nat x) (btext (sb s))) in
     exists s1, step s (ViOp op reg m marg) argp = (0, s1) /\
       op_stored s s1 reg (mkclip span CHARACTERS) /\
       btext (sb s1) = (if op =? 1 then btext (sb s)
                        else firstn (Z.to_nat x) (btext (sb s)) ++ skipn (Z.to_nat y) (btext (sb s)))).
Proof. exact step_vi_op_inline. Qed.
Print Assumptions C09_vi_operator_inline_motions.

Example C09_vi_operator_example :
  let s := mkst (mkbuf [97; 98; 32; 99; 100] 1) None [] None 0 [] true in
  btext (sb (snd (vi_op s 0 97 0 2))) = [97; 99; 100] /\
  reg_get (sregs (snd (vi_op s 0 97 0 2))) 97 = Some (mkclip [98; 32] CHARACTERS) /\
  sring (snd (vi_op s 0 97 0 2)) = [].
Proof. exact vi_op_example. Qed.
Print Assumptions C09_vi_operator_example.

(* yank; yank-pop^k with entries of ANY type in the ring (CHARACTERS, LINES, BLOCK):
   the buffer shows what pasting ring[k mod n] into the ORIGINAL document gives, the
   ring is the original rotated k times (a permutation), the snapshot is kept -
   provided every entry can be pasted there (the Document constructor accepts) ... *)
Theorem C09_yank_pop_cycle_any_type : forall s k d0,
  Inv (sb s) -> sring s <> [] -> pastes_ok (cur_doc s) (sring s) ->
  let sk := pops k (snd (yank s 1)) in
  btext (sb sk) = paste_text (cur_doc s) (nth (k mod length (sring s)) (sring s) d0)
  /\ sring sk = rotate_n k (sring s)
  /\ Permutation (sring sk) (sring s)
  /\ sdbp sk = Some (btext (sb s), bcur (sb s)).
Proof. exact yank_pops_cycle_any. Qed.
Print Assumptions C09_yank_pop_cycle_any_type.

(* ... which is always so for CHARACTERS and LINES entries; a LINES entry shows up
   as one whole line below the cursor line, a CHARACTERS entry at the cursor *)
Theorem C09_yank_pop_cycle_chars_lines_ok : forall d r,
  valid d -> Forall (fun e => ctype e = CHARACTERS \/ ctype e = LINES) r ->
  pastes_ok d r /\
  (forall e, ctype e = LINES ->
     paste_text d e = join [NL] (firstn (Z.to_nat (cursor_position_row d + 1)) (lines d) ++ [ctext e]
                                 ++ skipn (Z.to_nat (cursor_position_row d + 1)) (lines d))) /\
  (forall e, ctype e = CHARACTERS ->
     paste_text d e = firstn (Z.to_nat (dcur d)) (dtext d) ++ ctext e ++ skipn (Z.to_nat (dcur d)) (dtext d)).
Proof.
  intros d r Hv Hall. split; [now apply pastes_ok_chars_lines|]. split.
  - intros e He. now apply paste_text_lines.
  - intros e He. destruct d as [t c]. now apply paste_text_chars.
Qed.
Print Assumptions C09_yank_pop_cycle_chars_lines_ok.

(* the span of a LINES selection (visual V; LINEWISE objects): selection_ranges
   yields one range [a, e] (+1 in Vi mode): a is the start of the line holding the
   lower end (no separator between a and it; a = 0 or the character before a is a
   separator), e is the separator ending the line of the upper end (none between),
   or the last index of the text when no separator follows *)
Theorem C09_visual_lines_span : forall t cur orig vi,
  0 <= cur <= len t -> 0 <= orig <= len t ->
  let lo := Z.min cur orig in
  let hi := Z.max cur orig in
  exists a e,
    selection_ranges (mkdoc t cur) (orig, LINES) vi = [(a, e + (if vi then 1 else 0))] /\
    0 <= a <= lo /\
    mem_Z NL (firstn (Z.to_nat (lo - a)) (skipn (Z.to_nat a) t)) = false /\
    (a = 0 \/ nth_error t (Z.to_nat (a - 1)) = Some NL) /\
    ((hi <= e < len t /\ nth_error t (Z.to_nat e) = Some NL /\
      mem_Z NL (firstn (Z.to_nat (e - hi)) (skipn (Z.to_nat hi) t)) = false) \/
     (e = len t - 1 /\ mem_Z NL (skipn (Z.to_nat hi) t) = false)).
Proof. exact lines_selection_range. Qed.
Print Assumptions C09_visual_lines_span.

(* ... and cut_selection (visual V x / d / y) yields the text without t[a .. e] and,
   as data, t[a .. e] less one trailing separator, type LINES *)
Theorem C09_visual_lines_cut : forall t cur orig,
  0 <= cur <= len t -> 0 <= orig <= len t ->
  exists a e, selection_ranges (mkdoc t cur) (orig, LINES) true = [(a, e + 1)] /\
    0 <= a <= e + 1 /\ e + 1 <= len t /\
    let span := firstn (Z.to_nat (e + 1 - a)) (skipn (Z.to_nat a) t) in
    doc_cut_selection (mkdoc t cur) (orig, LINES) true =
    (mk_document (firstn (Z.to_nat a) t ++ skipn (Z.to_nat (e + 1)) t) a,
     mkclip (if ends_with_nl span then slice_to span (-1) else span) LINES).
Proof. exact cut_lines_vi. Qed.
Print Assumptions C09_visual_lines_cut.

(* pasting BLOCK data (n >= 1) never trips the Document constructor: the new cursor
   lies inside the new text, so C09_paste_block_n always applies ... *)
Theorem C09_paste_block_accepted : forall d data mode n,
  valid d -> ctype data = BLOCK -> 1 <= n ->
  mode = EMACS \/ mode = VI_BEFORE \/ mode = VI_AFTER ->
  doc_paste d data mode n <> None.
Proof. exact doc_paste_block_accepts. Qed.
Print Assumptions C09_paste_block_accepted.

(* ... and the yank / yank-pop cycle holds for rings of entries of all three types
   with no acceptance hypothesis left *)
Theorem C09_yank_pop_cycle_all_types : forall s k d0,
  Inv (sb s) -> sring s <> [] ->
  Forall (fun e => ctype e = CHARACTERS \/ ctype e = LINES \/ ctype e = BLOCK) (sring s) ->
  let sk := pops k (snd (yank s 1)) in
  btext (sb sk) = paste_text (cur_doc s) (nth (k mod length (sring s)) (sring s) d0)
  /\ sring sk = rotate_n k (sring s)
  /\ Permutation (sring sk) (sring s)
  /\ sdbp sk = Some (btext (sb s), bcur (sb s)).
Proof.
  intros s k d0 Hi Hne Hall. apply yank_pops_cycle_any; [exact Hi|exact Hne|].
  apply pastes_ok_all; [exact Hi|exact Hall].
Qed.
Print Assumptions C09_yank_pop_cycle_all_types.

(* a word kill typed right after any OTHER key command (a different binding - e.g.
   M-d then C-Delete - or anything when the previous handler was another one) is
   not a repeat: it stores exactly what it removed, nothing is prepended *)
Theorem C09_word_kill_after_other_command : forall s c,
  is_wk c = true -> svi s = false -> ssel s = None -> Inv (sb s) -> sprev s <> cmd_id c ->
  exists s1, step s c None = (0, s1) /\
    ((btext (sb s1) = btext (sb s) /\ bcur (sb s1) = bcur (sb s) /\ sring s1 = sring s) \/
     killed (wk_fwd c) s (0, s1) (fun x => x)).
Proof. exact wk_not_repeat. Qed.
Print Assumptions C09_word_kill_after_other_command.

(* the span of a BLOCK selection (visual C-v): cut_selection returns, joined by the
   separator, for every row between the two corners that reaches the left column,
   exactly line[left : right] (Python slice; the right column is included in Vi
   mode), type BLOCK; rows shorter than the left column are skipped.  With
   C09_vi_visual_block_operator this is also what d / y / reg-d / reg-y store. *)
Theorem C09_visual_block_span : forall t cur orig (vi : bool),
  0 <= cur <= len t -> 0 <= orig <= len t ->
  let d := mkdoc t cur in
  let p1 := translate_index_to_position d (Z.min cur orig) in
  let p2 := translate_index_to_position d (Z.max cur orig) in
  let fc := Z.min (snd p1) (snd p2) in
  let tc := Z.max (snd p1) (snd p2) + (if vi then 1 else 0) in
  snd (doc_cut_selection d (orig, BLOCK) vi) =
  mkclip (join [NL]
            (flat_map (fun l => if fc <=? len (line_at d l) then [slice2 (line_at d l) fc tc] else [])
                      (range_from (fst p1) (Z.to_nat (fst p2 + 1 - fst p1)))))
         BLOCK.
Proof. exact block_cut_data. Qed.
Print Assumptions C09_visual_block_span.

(* ---- round 7 ---- *)

(* [count] [register] operator [count] motion, through [step], ANY modelled motion
   (l h $ 0 ^ e b B w W), counts typed before the operator and / or between operator
   and motion (d2l, 2 reg-a d 2 w): the text object sees the clamped product of the
   counts (op_count), and the non-empty data TextObject.cut computes for it goes,
   unchanged, into the register named BEFORE the operator (and nowhere else) or on
   the unnamed ring; d / c install the cut document, y leaves the text *)
Theorem C09_vi_operator_counts_register : forall s op reg m marg (argp : option Z) start oty t c data,
  svi s = true -> ssel s = None ->
  (match argp with Some _ => fix_vi_cursor s = s | None => True end) ->
  op = 0 \/ op = 1 \/ op = 2 ->
  (op = 1 -> 0 <= reg -> is_register_name reg = true) ->
  let arg := match argp with Some a => if 1000000 <=? a then 1 else a | None => 1 end in
  let n := op_count arg marg in
  motion_obj (cur_doc s) m n = Some (start, oty) ->
  (oty =? EXCLUSIVE) && (start =? 0) = false ->
  tobj_cut (cur_doc s) start 0 oty = Some (Some (t, c), data) -> ctext data <> [] ->
  exists s1, step s (ViOp op reg m marg) argp = (0, s1) /\
    op_stored s s1 reg data /\
    btext (sb s1) = (if op =? 1 then btext (sb s) else t).
Proof. exact step_vi_op_counted. Qed.
Print Assumptions C09_vi_operator_counts_register.

(* count multiplication as the key processor does it *)
Theorem C09_vi_operator_count_product : forall s op reg m marg (argp : option Z),
  svi s = true -> ssel s = None ->
  (match argp with Some _ => fix_vi_cursor s = s | None => True end) ->
  step s (ViOp op reg m marg) argp =
  (let arg := match argp with Some a => if 1000000 <=? a then 1 else a | None => 1 end in
   let '(code, s') := vi_op s op reg m (op_count arg marg) in
   if code =? 0 then (0, with_prev (fix_vi_cursor s') 60)
   else if code =? E_UNMODELLED then (code, s) else (code, with_prev s' 0)).
Proof. exact step_vi_op. Qed.
Print Assumptions C09_vi_operator_count_product.

(* the word motions under an operator against C02's exactness theorems (the model's
   motion_obj calls C02's scanners; enumerates / pick / word_start / word_end /
   word_cls are C02's): e aims at the n-th word end beyond cursor + 1 ... *)
Theorem C09_motion_e_exact : forall d n l,
  valid d -> 1 <= n ->
  C02_WordsExact.enumerates (fun j => dcur d + 1 < j /\ C02_WordsExact.word_end (C02_DocQueries.word_cls false) (dtext d) j) l ->
  motion_obj d 5 n = match C02_WordsExact.pick l n with Some j => Some (j - dcur d - 1, INCLUSIVE) | None => None end.
Proof. exact motion_e_exact. Qed.
Print Assumptions C09_motion_e_exact.

(* ... b / B at the n-th word / WORD start before the cursor (none: the operator is cancelled) ... *)
Theorem C09_motion_b_exact : forall d (big : bool) n l,
  valid d -> 1 <= n ->
  C02_WordsExact.enumerates (fun j => j < dcur d /\ C02_WordsExact.word_start (C02_DocQueries.word_cls big) (dtext d) j) l ->
  motion_obj d (if big then 7 else 6) n =
  Some (match C02_WordsExact.pick (rev l) n with Some j => j - dcur d | None => 0 end, EXCLUSIVE).
Proof. exact motion_b_exact. Qed.
Print Assumptions C09_motion_b_exact.

(* ... w / W at the n-th word / WORD start after the cursor, else at the end of the text *)
Theorem C09_motion_w_exact : forall d (big : bool) n l,
  valid d -> 1 <= n ->
  C02_WordsExact.enumerates (fun j => dcur d < j /\ C02_WordsExact.word_start (C02_DocQueries.word_cls big) (dtext d) j) l ->
  motion_obj d (if big then 9 else 8) n =
  Some (match C02_WordsExact.pick l n with Some j => j - dcur d | None => len (dtext d) - dcur d end, EXCLUSIVE).
Proof. exact motion_w_exact. Qed.
Print Assumptions C09_motion_w_exact.

(* [register] d / y / c + e: the register receives exactly text[cursor : j), j the n-th
   word end beyond cursor + 1; d / c remove exactly that; no such word end: nothing happens *)
Theorem C09_vi_operator_e_span : forall s op reg n l,
  Inv (sb s) -> op = 0 \/ op = 1 \/ op = 2 -> 1 <= n ->
  (op = 1 -> 0 <= reg -> is_register_name reg = true) ->
  C02_WordsExact.enumerates (fun j => bcur (sb s) + 1 < j /\ C02_WordsExact.word_end (C02_DocQueries.word_cls false) (btext (sb s)) j) l ->
  match C02_WordsExact.pick l n with
  | None => vi_op s op reg 5 n = ok s
  | Some j =>
      bcur (sb s) + 1 < j <= len (btext (sb s)) /\
      exists s', vi_op s op reg 5 n = (0, s') /\
        op_stored s s' reg (mkclip (firstn (Z.to_nat (j - bcur (sb s))) (skipn (Z.to_nat (bcur (sb s))) (btext (sb s)))) CHARACTERS) /\
        btext (sb s') = (if op =? 1 then btext (sb s)
                         else firstn (Z.to_nat (bcur (sb s))) (btext (sb s)) ++ skipn (Z.to_nat j) (btext (sb s)))
  end.
Proof. exact vi_op_e_span. Qed.
Print Assumptions C09_vi_operator_e_span.

(* what REMAINS after a visual BLOCK cut (x / d / reg-d): the new document's text is the
   old text with exactly the index ranges [start(l) + left, start(l) + min(len(line l), right))
   removed - one per row between the corners that reaches the left column, start(l) the
   offset of row l - and everything between them kept ([strip]).  Index level; the
   restatement per line is not proved. *)
Theorem C09_visual_block_remaining : forall t cur orig (vi : bool),
  0 <= cur <= len t -> 0 <= orig <= len t ->
  let d := mkdoc t cur in
  let p1 := translate_index_to_position d (Z.min cur orig) in
  let p2 := translate_index_to_position d (Z.max cur orig) in
  let fc := Z.min (snd p1) (snd p2) in
  let tc := Z.max (snd p1) (snd p2) + (if vi then 1 else 0) in
  exists nc,
    fst (doc_cut_selection d (orig, BLOCK) vi) =
    mk_document (strip t (block_ranges d fc tc (fst p1) (fst p2)) 0) nc.
Proof. exact block_cut_remaining. Qed.
Print Assumptions C09_visual_block_remaining.

Example C09_visual_block_remaining_example :
  let t := [97; 98; 99; 10; 100; 101; 102] in
  strip t (block_ranges (mkdoc t 5) 1 2 0 1) 0 = [97; 99; 10; 100; 102].
Proof. exact block_remaining_example. Qed.
Print Assumptions C09_visual_block_remaining_example.

(* the hypotheses are satisfiable: C-k on "ab\ncd" at 0 kills "ab" *)
Example C09_example_kill_line :
  let s := mkst (mkbuf [97; 98; 10; 99; 100] 0) None [] None 0 [] false in
  Inv (sb s) /\ btext (sb (snd (kill_line s 1))) = [10; 99; 100]
  /\ sring (snd (kill_line s 1)) = [mkclip [97; 98] CHARACTERS].
Proof. cbv zeta. split; [unfold Inv; cbn; lia|]. split; vm_compute; reflexivity. Qed.
Print Assumptions C09_example_kill_line.
