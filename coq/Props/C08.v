(* C08 - Vi operators act exactly on the motion's span; yanking never edits.
   Statements only; proofs are in Proofs/C08_ViFacts.v, C08_Lines.v, C08_Failed.v.

   Notation.  A text object is (start, end_, type), both ends relative to the
   cursor.  [operator_range d o] is the relative range the operators use;
   a = cursor + fst, e = cursor + snd are its absolute ends.  [st] is what an
   operator can touch: buffer (text, cursor), clipboard (Some = set during
   the run), named register (Some (name, data) = written), insert-mode flag.
   The theorems are parametric in the text object, hence cover every motion
   and text object at once; the text-object functions themselves are in
   Model/C08_TextObjects.v (tied by correspondence; their failure cases are
   the subject of C08_failed_motion_noop and of the _refuted theorems).
   The model follows /repo as it is now (fix commits f3ffc71, e0cf816, 1019c4b);
   the *_pinned definitions are the functions of the pinned commit. *)
From Coq Require Import ZArith List Bool.
From PTK Require Import Lib.Sx Lib.Py Model.Document Model.BufferEdit Model.C02_DocQueries
  Model.C08_ViOps Model.C08_TextObjects Model.C08_Session
  Gen.C08_Tables Proofs.BufferEditFacts Proofs.C08_ViFacts Proofs.C08_Lines Proofs.C08_WholeLines Proofs.C08_Failed
  Proofs.C02_Base Proofs.C02_Coords Proofs.C02_WordsExact Proofs.C02_FindExact
  Proofs.C02_Words Proofs.C02_Boundaries
  Proofs.C08_SessionFacts Proofs.C08_LinewiseRange Proofs.C08_Spans Proofs.C08_Commands
  Proofs.C08_LineNumbers Proofs.C02_Find Proofs.C02_Brackets Proofs.C02_Lines
  Proofs.C08_NavCursor Proofs.C08_Spans2 Proofs.C08_FindState
  Proofs.C08_Tables.
Import ListNotations.
Open Scope Z_scope.

(* Yank never edits: for EVERY text object (any start, end, type - in or out
   of bounds) text and cursor are unchanged, with and without register. *)
Theorem C08_yank_pure : forall st o ev,
  vbuf (snd (op_yank st o ev)) = vbuf st /\ vbuf (snd (op_yank_reg st o ev)) = vbuf st.
Proof. intros; split; [apply op_yank_buf | apply op_yank_reg_buf]. Qed.
Print Assumptions C08_yank_pure.

(* The range of a character-wise object: it starts at the smaller end; it ends
   at the larger end, +1 if inclusive, -1 if exclusive, non-empty and the
   larger end is in column 0. *)
Theorem C08_operator_range_charwise : forall d o,
  charwise (ttype o) ->
  let lo := Z.min (tstart o) (tend o) in
  let hi := Z.max (tstart o) (tend o) in
  fst (operator_range d o) = lo /\
  (ttype o = INCL -> snd (operator_range d o) = hi + 1) /\
  (ttype o = EXCL -> snd (operator_range d o) = hi \/
                     (snd (operator_range d o) = hi - 1 /\ lo < hi /\
                      snd (translate_index_to_position d (hi + dcur d)) = 0)).
Proof. exact operator_range_charwise. Qed.
Print Assumptions C08_operator_range_charwise.

(* Adjacent to the cursor: a motion (one end is the cursor) gives a range
   with start <= cursor <= end, except that the exclusive-column-0 rule may
   leave the line ending before the cursor out of a backward motion (end =
   cursor - 1, cursor in column 0, start before it). *)
Theorem C08_range_adjacent : forall d o,
  charwise (ttype o) ->
  Z.min (tstart o) (tend o) <= 0 <= Z.max (tstart o) (tend o) ->
  fst (operator_range d o) <= 0 /\
  (0 <= snd (operator_range d o) \/
   (snd (operator_range d o) = -1 /\ ttype o = EXCL /\ fst (operator_range d o) < 0 /\
    snd (translate_index_to_position d (dcur d)) = 0)).
Proof. exact operator_range_adjacent. Qed.
Print Assumptions C08_range_adjacent.

(* Delete / change, character-wise, non-empty range [a, e) inside the text:
   exactly that span is removed, the cursor lands on a, the clipboard holds
   exactly the removed characters (type CHARACTERS), named registers are
   untouched; change additionally enters insert mode. *)
Theorem C08_delete_span : forall delete_only st o ev,
  charwise (ttype o) ->
  let b := vbuf st in
  let a := bcur b + fst (operator_range (bdoc b) o) in
  let e := bcur b + snd (operator_range (bdoc b) o) in
  0 <= a -> a < e -> e <= len (btext b) ->
  op_delete delete_only false st o ev =
  (0, mkvst (mkbuf (firstn (Z.to_nat a) (btext b) ++ skipn (Z.to_nat e) (btext b)) a)
            (Some (mkcd (firstn (Z.to_nat (e - a)) (skipn (Z.to_nat a) (btext b))) 0))
            (vreg st) (if delete_only then vins st else true)).
Proof. exact op_delete_span. Qed.
Print Assumptions C08_delete_span.

(* ... into a named register, when key_sequence[1] of the event the operator
   body receives is a register name k (see C08_register_receives). *)
Theorem C08_delete_span_register : forall delete_only st o ev k,
  charwise (ttype o) ->
  let b := vbuf st in
  let a := bcur b + fst (operator_range (bdoc b) o) in
  let e := bcur b + snd (operator_range (bdoc b) o) in
  0 <= a -> a < e -> e <= len (btext b) ->
  nth_error (ekeys ev) 1 = Some k -> is_regname k = true ->
  op_delete delete_only true st o ev =
  (0, mkvst (mkbuf (firstn (Z.to_nat a) (btext b) ++ skipn (Z.to_nat e) (btext b)) a)
            (vclip st)
            (Some (k, mkcd (firstn (Z.to_nat (e - a)) (skipn (Z.to_nat a) (btext b))) 0))
            (if delete_only then vins st else true)).
Proof. exact op_delete_span_reg. Qed.
Print Assumptions C08_delete_span_register.

(* Yank stores exactly the span. *)
Theorem C08_yank_span : forall st o ev,
  charwise (ttype o) ->
  let b := vbuf st in
  let a := bcur b + fst (operator_range (bdoc b) o) in
  let e := bcur b + snd (operator_range (bdoc b) o) in
  0 <= a -> a < e -> e <= len (btext b) ->
  op_yank st o ev =
  (0, mkvst b (Some (mkcd (firstn (Z.to_nat (e - a)) (skipn (Z.to_nat a) (btext b))) 0))
            (vreg st) (vins st)).
Proof. exact op_yank_span. Qed.
Print Assumptions C08_yank_span.

(* Linewise delete / change, absolute range f <= t inside the text: the span
   [line_lo f, line_hi t) - from after the last line ending before f (or 0) to
   just after the first line ending at or after t (or the end of the text) -
   is removed; it contains [f, t]; the clipboard holds it without one final
   newline, type LINES (and is left alone when that is empty).  That these
   are whole lines is C08_linewise_whole_lines below. *)
Theorem C08_delete_span_linewise : forall delete_only st o ev,
  ttype o = LINEW ->
  let b := vbuf st in
  let f := bcur b + fst (operator_range (bdoc b) o) in
  let t := bcur b + snd (operator_range (bdoc b) o) in
  0 <= f -> f <= t -> t <= len (btext b) ->
  let a := line_lo (btext b) f in
  let e := line_hi (btext b) t in
  let removed := firstn (Z.to_nat (e - a)) (skipn (Z.to_nat a) (btext b)) in
  0 <= a <= f /\ t <= e <= len (btext b) /\
  vbuf (snd (op_delete delete_only false st o ev)) =
    mkbuf (firstn (Z.to_nat a) (btext b) ++ skipn (Z.to_nat e) (btext b)) a /\
  fst (op_delete delete_only false st o ev) = 0 /\
  vclip (snd (op_delete delete_only false st o ev)) =
    (if nonempty (strip_final_nl removed) then Some (mkcd (strip_final_nl removed) 1) else vclip st) /\
  vreg (snd (op_delete delete_only false st o ev)) = vreg st.
Proof. exact op_delete_linewise. Qed.
Print Assumptions C08_delete_span_linewise.

(* ... and these are whole lines: a line ending (or the start of the text)
   sits right before line_lo and there is none between line_lo and f; a line
   ending sits right before line_hi with none between t and it, or line_hi is
   the end of the text and there is none after t. *)
Theorem C08_linewise_whole_lines : forall text f t,
  0 <= f <= len text -> 0 <= t <= len text ->
  let a := line_lo text f in
  let e := line_hi text t in
  ((a = 0 \/ exists p, firstn (Z.to_nat a) text = p ++ [NL]) /\
   mem_Z NL (firstn (Z.to_nat (f - a)) (skipn (Z.to_nat a) text)) = false) /\
  ((e = len text /\ mem_Z NL (skipn (Z.to_nat t) text) = false) \/
   (exists p, firstn (Z.to_nat e) text = p ++ [NL] /\
              mem_Z NL (firstn (Z.to_nat (e - 1 - t)) (skipn (Z.to_nat t) text)) = false)).
Proof. intros text f t Hf Ht. split; [apply line_lo_whole; exact Hf | apply line_hi_whole; exact Ht]. Qed.
Print Assumptions C08_linewise_whole_lines.

(* Case operators (g? gu gU g~ ~), any string function F: nothing outside
   [a, e) changes. *)
Theorem C08_transform_frame : forall F st o ev,
  Inv (vbuf st) ->
  let b := vbuf st in
  let a := bcur b + fst (operator_range (bdoc b) o) in
  let e := bcur b + snd (operator_range (bdoc b) o) in
  0 <= a -> a < e -> e <= len (btext b) ->
  exists c',
    op_transform F st o ev =
    (0, with_buf st (mkbuf (firstn (Z.to_nat a) (btext b)
                            ++ F (firstn (Z.to_nat (e - a)) (skipn (Z.to_nat a) (btext b)))
                            ++ skipn (Z.to_nat e) (btext b)) c')).
Proof. exact op_transform_frame. Qed.
Print Assumptions C08_transform_frame.

(* ... and on an empty range they change nothing at all (any type, any F). *)
Theorem C08_transform_empty_is_noop : forall F st o ev,
  snd (operator_range (bdoc (vbuf st)) o) <= fst (operator_range (bdoc (vbuf st)) o) ->
  op_transform F st o ev = (0, st).
Proof. exact op_transform_empty. Qed.
Print Assumptions C08_transform_empty_is_noop.

(* Indent operators (definitional step): the new text is transform_lines over
   the rows of get_line_numbers; what those rows are, against the span, and the
   resulting frame statement are C08_line_numbers_* / C08_indent_rows_*. *)
Theorem C08_indent_frame : forall st o ev st',
  op_indent st o ev = (0, st') ->
  let '(f, t) := get_line_numbers (vbuf st) o in
  btext (vbuf st') =
  transform_lines (fun l => str_mul INDENT (earg ev) ++ l) (btext (vbuf st)) f (t + 1).
Proof. exact op_indent_text. Qed.
Print Assumptions C08_indent_frame.

Theorem C08_unindent_frame : forall st o ev st',
  op_unindent st o ev = (0, st') ->
  let '(f, t) := get_line_numbers (vbuf st) o in
  btext (vbuf st') =
  transform_lines (unindent_line (str_mul INDENT (earg ev))) (btext (vbuf st)) f (t + 1).
Proof. exact op_unindent_text. Qed.
Print Assumptions C08_unindent_frame.

(* gq (helper level): reshape_text keeps the list prefix before from_row and the
   suffix after to_row; which rows the operator passes is C08_reshape_rows_*. *)
Theorem C08_reshape_frame : forall b f t,
  reshape_text b f t = b \/
  exists mid,
    btext (reshape_text b f t) =
    concat (slice_to (splitlines_keep (btext b)) f) ++ mid
    ++ concat (slice_from (splitlines_keep (btext b)) (t + 1)).
Proof. exact reshape_frame. Qed.
Print Assumptions C08_reshape_frame.

(* The operator wrapper hands the operator's own key sequence " k d / " k c
   to the body (fix f3ffc71), so the typed register k receives the text. *)
Theorem C08_register_receives : forall (delete_only : bool) st o n k,
  charwise (ttype o) -> is_regname k = true ->
  let ev := mkev n [34; k; if delete_only then 100 else 99] in
  let b := vbuf st in
  let a := bcur b + fst (operator_range (bdoc b) o) in
  let e := bcur b + snd (operator_range (bdoc b) o) in
  0 <= a -> a < e -> e <= len (btext b) ->
  vreg (snd (op_delete delete_only true st o ev)) =
    Some (k, mkcd (firstn (Z.to_nat (e - a)) (skipn (Z.to_nat a) (btext b))) 0) /\
  vclip (snd (op_delete delete_only true st o ev)) = vclip st /\
  fst (op_delete delete_only true st o ev) = 0.
Proof.
  intros delete_only st o n k Hc Hk ev b a e Ha Hae He.
  pose proof (op_delete_span_reg delete_only st o ev k Hc) as H. cbv zeta in H.
  fold b in H. fold a e in H. rewrite (H Ha Hae He eq_refl Hk).
  cbn [fst snd vreg vclip]. repeat split; reflexivity.
Qed.
Print Assumptions C08_register_receives.

(* ------------------------------------------------------------------ *)
(* "If the motion fails or spans nothing, the operator changes nothing". *)

(* Every character-wise (not linewise, not block: a block always covers the
   cell under the cursor, fix 0578190) object with an EMPTY range (any
   start/end, in or out of bounds): d, c and their register variants, y, the register yank and the case operators
   leave text, cursor, clipboard and registers as they were (c still enters
   insert mode). *)
Theorem C08_empty_is_noop : forall delete_only with_register F st o ev,
  is_linew (ttype o) = false -> is_block (ttype o) = false -> 0 <= bcur (vbuf st) ->
  snd (operator_range (bdoc (vbuf st)) o) <= fst (operator_range (bdoc (vbuf st)) o) ->
  op_delete delete_only with_register st o ev =
    (0, mkvst (vbuf st) (vclip st) (vreg st) (if delete_only then vins st else true)) /\
  op_yank st o ev = (0, st) /\
  snd (op_yank_reg st o ev) = st /\
  op_transform F st o ev = (0, st).
Proof.
  intros dl wr F st o ev Hl Hb Hc Hr. split; [apply op_delete_empty; assumption|].
  split; [apply op_yank_empty; assumption|].
  split; [apply op_yank_reg_empty; assumption|apply op_transform_empty; exact Hr].
Qed.
Print Assumptions C08_empty_is_noop.

(* ... which the functions of the pinned commit did not satisfy: "abc def",
   cursor 0, TextObject(0) -> "abc dbc def" (longer); at cursor 6 the two
   characters around the cursor went. *)
Theorem C08_empty_is_noop_pinned_refuted :
  exists text cur o,
    0 <= cur <= len text /\ ttype o = EXCL /\
    0 <= cur + tstart o <= len text /\ 0 <= cur + tend o <= len text /\
    snd (operator_range_pinned (mkdoc text cur) o) <= fst (operator_range_pinned (mkdoc text cur) o) /\
    snd (op_delete_pinned true (st_of text cur) o) <> st_of text cur /\
    len text < len (btext (vbuf (snd (op_delete_pinned true (st_of text cur) o)))).
Proof. exact empty_range_not_noop_pinned. Qed.
Print Assumptions C08_empty_is_noop_pinned_refuted.

Theorem C08_empty_deletes_two_pinned_refuted :
  exists text cur o,
    ttype o = EXCL /\ tstart o = 0 /\ tend o = 0 /\
    op_delete_pinned true (st_of text cur) o =
    (0, mkvst (mkbuf [97; 98; 99; 32; 100] 5) (Some (mkcd [101; 102] 0)) None false).
Proof. exact empty_range_deletes_two_pinned. Qed.
Print Assumptions C08_empty_deletes_two_pinned_refuted.

(* At the level of the operator BODIES (failed_noop m k: whenever the
   text-object function m reports failure - for any document, cursor, count -
   the body of operator k raises nothing and leaves text, cursor, clipboard
   and registers alone): d, c, y, their register variants and the case
   operators, for every text object whose failure is an empty exclusive
   object.  The statement for ALL operators and text objects is
   C08_failed_motion_noop below (at the wrapper, where /repo decides it). *)
Theorem C08_failed_motion_noop_bodies : forall k, cut_or_case k ->
  (forall ch, failed_noop (T_f ch) k /\ failed_noop (T_F ch) k /\
              failed_noop (T_t ch) k /\ failed_noop (T_T ch) k) /\
  (forall rev has ch bw, failed_noop (T_repeat rev has ch bw) k) /\
  (forall W, failed_noop (T_b W) k /\ failed_noop (T_w W) k) /\
  failed_noop T_h k /\ failed_noop T_l k /\ failed_noop T_dollar k /\
  failed_noop T_zero k /\ failed_noop T_caret k /\ failed_noop T_bar k /\
  failed_noop T_lbrace k /\ failed_noop T_rbrace k /\ failed_noop T_percent k /\
  (forall W tr, failed_noop (T_word W tr) k) /\ failed_noop T_ap k /\
  (forall l r inner, failed_noop (T_ci l r inner) k) /\ failed_noop T_gm k.
Proof.
  intros k Hk.
  split; [intros ch; repeat apply conj;
          [apply fam_f|apply fam_F|apply fam_t|apply fam_T]; exact Hk|].
  split; [intros; apply fam_repeat; exact Hk|].
  split; [intros W; split; [apply fam_b|apply fam_w]; exact Hk|].
  split; [apply fam_h; exact Hk|]. split; [apply fam_l; exact Hk|].
  split; [apply fam_dollar; exact Hk|]. split; [apply fam_zero; exact Hk|].
  split; [apply fam_caret; exact Hk|]. split; [apply fam_bar; exact Hk|].
  split; [apply fam_lbrace; exact Hk|]. split; [apply fam_rbrace; exact Hk|].
  split; [apply fam_percent; exact Hk|].
  split; [intros; apply fam_word; exact Hk|]. split; [apply fam_ap; exact Hk|].
  split; [intros; apply fam_ci; exact Hk|apply fam_gm; exact Hk].
Qed.
Print Assumptions C08_failed_motion_noop_bodies.


(* ------------------------------------------------------------------ *)
(* Linewise objects without range hypotheses (C02's coordinate lemmas): with
   both ends of the object inside the text, operator_range expands to the
   start of the first line and the end of the last line, in bounds and in
   order; hence the linewise delete theorem needs only "ends inside the text". *)
Theorem C08_operator_range_linewise : forall d o,
  ttype o = LINEW ->
  let lo := dcur d + Z.min (tstart o) (tend o) in
  let hi := dcur d + Z.max (tstart o) (tend o) in
  0 <= lo -> hi <= len (dtext d) ->
  let f := dcur d + fst (operator_range d o) in
  let t := dcur d + snd (operator_range d o) in
  0 <= f /\ f <= lo /\ hi <= t /\ t <= len (dtext d).
Proof. exact operator_range_linewise. Qed.
Print Assumptions C08_operator_range_linewise.

Theorem C08_delete_span_linewise_inbounds : forall delete_only st o ev,
  ttype o = LINEW ->
  let b := vbuf st in
  let lo := bcur b + Z.min (tstart o) (tend o) in
  let hi := bcur b + Z.max (tstart o) (tend o) in
  0 <= lo -> hi <= len (btext b) ->
  let a := line_lo (btext b) (bcur b + fst (operator_range (bdoc b) o)) in
  let e := line_hi (btext b) (bcur b + snd (operator_range (bdoc b) o)) in
  let removed := firstn (Z.to_nat (e - a)) (skipn (Z.to_nat a) (btext b)) in
  0 <= a <= lo /\ hi <= e <= len (btext b) /\
  vbuf (snd (op_delete delete_only false st o ev)) =
    mkbuf (firstn (Z.to_nat a) (btext b) ++ skipn (Z.to_nat e) (btext b)) a /\
  fst (op_delete delete_only false st o ev) = 0 /\
  vclip (snd (op_delete delete_only false st o ev)) =
    (if nonempty (strip_final_nl removed) then Some (mkcd (strip_final_nl removed) 1) else vclip st) /\
  vreg (snd (op_delete delete_only false st o ev)) = vreg st.
Proof. exact op_delete_linewise_inbounds. Qed.
Print Assumptions C08_delete_span_linewise_inbounds.

(* ------------------------------------------------------------------ *)
(* The count bookkeeping of a session (Model/C08_Session.v). *)

(* <count> operator <count> Esc changes nothing, and no count or operator
   survives it: the keys that follow run from the cleared state, whatever
   counts were typed (patched or not). *)
Theorem C08_cancelled_operator_noop : forall p s ds1 k keys ds2 rest,
  ks_op s = None -> vins (ks_vst s) = false -> nav_cursor (vbuf (ks_vst s)) ->
  is_count (ks_arg s) ds1 -> is_count None ds2 ->
  run_keys_gen p s (map KD ds1 ++ KO k keys :: map KD ds2 ++ KE :: rest) =
  run_keys_gen p (cleared s) rest.
Proof. exact cancelled_operator. Qed.
Print Assumptions C08_cancelled_operator_noop.

(* a completed operator command clears count and operator as well *)
Theorem C08_applied_operator_clears : forall p s m status s',
  ks_op s <> None -> key_step_gen p s (KM m) = (status, s') -> status <> 1 ->
  ks_arg s' = None /\ ks_oparg s' = None /\ ks_op s' = None.
Proof. exact applied_operator_clears. Qed.
Print Assumptions C08_applied_operator_clears.

(* an object that is neither failed nor empty reaches the operator body, with
   count (count before the operator) x (count before the motion) - digits 0
   included, see C08_typed_digits - and "no count" when none was typed *)
Theorem C08_operator_motion_step : forall s k keys m o failed,
  ks_op s = Some (k, keys) ->
  let '(n, hc) := pending_count (ks_oparg s) (ks_arg s) in
  text_object (resolve_tok (ks_find s) m) (bdoc (vbuf (ks_vst s))) n hc = TO o failed ->
  cancelled o failed = false ->
  key_step s (KM m) =
  (let '(status, st1) := run_op k (ks_vst s) o (mkev n keys) in
   (status, mkks (if (status =? 0) && negb (vins st1) then with_buf st1 (fix_vi_cursor (vbuf st1)) else st1)
                 None None None (Some (o, failed)) (upd_find (ks_find s) m))).
Proof. exact operator_motion_step. Qed.
Print Assumptions C08_operator_motion_step.

(* digits typed before or after the operator only extend the count (a 0
   after a non-empty count is a digit, not the start-of-line motion);
   [digits_ok]: an operator is pending, or the cursor is a navigation cursor
   (from a cursor after the end of a line the first digit handler already
   moves it onto the last character - in the model, covered by correspondence) *)
Theorem C08_typed_digits : forall p ds s rest,
  is_count (ks_arg s) ds -> vins (ks_vst s) = false -> digits_ok s ->
  run_keys_gen p s (map KD ds ++ rest) = run_keys_gen p (with_arg s (typed (ks_arg s) ds)) rest.
Proof. exact run_digits. Qed.
Print Assumptions C08_typed_digits.

(* ------------------------------------------------------------------ *)
(* "If the motion fails or spans nothing, the operator changes nothing" -
   for EVERY operator (d c y, register variants, case operators, > < gq) and
   EVERY text object, any pending counts: when the text-object function
   reports failure (for e E ge gE g_ j k: returns None; for the others: an
   exclusive object with equal ends) the wrapper cancels the operator: text,
   cursor, clipboard, registers and input mode stay as they were, and no
   count or operator stays pending (fix ced036e). *)
(* (round 6) the text object is the one the key denotes in the session:
   [resolve_tok] turns ; and , into the search recorded in
   vi_state.last_character_find; [with_find .. (upd_find ..)]: the one thing a
   cancelled f F t T leaves behind is that record (not text, cursor, clipboard,
   registers, mode or anything pending) - see C08_find_recorded below *)
Theorem C08_failed_motion_noop : forall s k keys m o,
  ks_op s = Some (k, keys) ->
  let '(n, hc) := pending_count (ks_oparg s) (ks_arg s) in
  text_object (resolve_tok (ks_find s) m) (bdoc (vbuf (ks_vst s))) n hc = TO o true ->
  key_step s (KM m) = (0, with_find (cleared s) (upd_find (ks_find s) m)).
Proof.
  intros s k keys m o Hop. pose proof (wrapper_cancels s k keys m o true Hop) as H.
  destruct (pending_count (ks_oparg s) (ks_arg s)) as [n hc]. intros Ht. apply H; [exact Ht|reflexivity].
Qed.
Print Assumptions C08_failed_motion_noop.

(* ... and likewise every exclusive object with equal ends ("spans nothing"),
   whatever the failed flag says *)
Theorem C08_empty_exclusive_cancels : forall s k keys m o failed,
  ks_op s = Some (k, keys) ->
  let '(n, hc) := pending_count (ks_oparg s) (ks_arg s) in
  text_object (resolve_tok (ks_find s) m) (bdoc (vbuf (ks_vst s))) n hc = TO o failed ->
  ttype o = EXCL -> tstart o = tend o ->
  key_step s (KM m) = (0, with_find (cleared s) (upd_find (ks_find s) m)).
Proof.
  intros s k keys m o failed Hop. pose proof (wrapper_cancels s k keys m o failed Hop) as H.
  destruct (pending_count (ks_oparg s) (ks_arg s)) as [n hc]. intros Ht Hty Heq. apply H; [exact Ht|].
  unfold cancelled. rewrite Hty, Heq, Z.eqb_refl. cbn [is_excl andb]. apply orb_true_r.
Qed.
Print Assumptions C08_empty_exclusive_cancels.

(* the fix changed nothing for objects that are neither failed nor empty *)
Theorem C08_wrapper_same_as_pinned : forall s k keys m o failed,
  ks_op s = Some (k, keys) ->
  let '(n, hc) := pending_count (ks_oparg s) (ks_arg s) in
  text_object (resolve_tok (ks_find s) m) (bdoc (vbuf (ks_vst s))) n hc = TO o failed ->
  cancelled o failed = false ->
  key_step s (KM m) = key_step_pinned s (KM m).
Proof. exact wrapper_same_as_pinned. Qed.
Print Assumptions C08_wrapper_same_as_pinned.

(* ... which the wrapper of the commit before did not satisfy: 'ab' cursor 1
   de deleted 'b', 'ab' dj deleted the line, 'abc def' cursor 4 >Fx indented it *)
Theorem C08_failed_motion_noop_pinned_refuted :
  (text_object (T_e false) (mkdoc [97; 98] 1) 1 false = TO (mkto 0 0 INCL) true /\
   btext (vbuf (ks_vst (snd (key_step_pinned (pend [97; 98] 1 (OpDelete true false) [100]) (KM (T_e false)))))) = [97]) /\
  (text_object T_j (mkdoc [97; 98] 0) 1 false = TO (mkto 0 0 LINEW) true /\
   btext (vbuf (ks_vst (snd (key_step_pinned (pend [97; 98] 0 (OpDelete true false) [100]) (KM T_j))))) = []) /\
  (text_object (T_F 120) (mkdoc [97; 98; 99; 32; 100; 101; 102] 4) 1 false = TO (mk1 0) true /\
   btext (vbuf (ks_vst (snd (key_step_pinned (pend [97; 98; 99; 32; 100; 101; 102] 4 OpIndent [62]) (KM (T_F 120))))))
   = [32; 32; 32; 32; 97; 98; 99; 32; 100; 101; 102]).
Proof. exact failed_motion_pinned_not_noop. Qed.
Print Assumptions C08_failed_motion_noop_pinned_refuted.

(* The ghost flag [failed] of the model only marks what /repo cancels: either
   the text object is one of those whose function returns None on failure
   (e E ge gE g_ j k), or the object is exclusive with equal ends - the two
   tests of _apply_operator_to_text_object.  Hence the wrapper's decision is
   "None family and failed, or empty exclusive object". *)
Theorem C08_failed_flag_sound : forall m d n hc o,
  text_object m d n hc = TO o true ->
  none_family m = true \/ (ttype o = EXCL /\ tstart o = tend o).
Proof. exact failed_flag_sound. Qed.
Print Assumptions C08_failed_flag_sound.

Theorem C08_cancelled_spec : forall m d n hc o failed,
  text_object m d n hc = TO o failed ->
  cancelled o failed = (none_family m && failed) || (is_excl (ttype o) && (tstart o =? tend o)).
Proof. exact cancelled_spec. Qed.
Print Assumptions C08_cancelled_spec.

(* [cleared s] (the state after a cancelled operator or Escape) has run the
   navigation-mode cursor fix-up like every other handler; for a navigation
   cursor (not after the last character of a non-empty line) it is s with
   nothing pending - "the cursor stays" holds exactly for those cursors
   ('ab' cursor 2 dFx ends with cursor 1, as in /repo). *)
Theorem C08_cleared_nav : forall s,
  nav_cursor (vbuf (ks_vst s)) -> cleared s = mkks (ks_vst s) None None None (ks_last s) (ks_find s).
Proof. exact cleared_nav. Qed.
Print Assumptions C08_cleared_nav.

(* ------------------------------------------------------------------ *)
(* The line operators against the rows of the span.  get_line_numbers is
   (row of the first spanned character, row of the last spanned character)
   for a non-empty exclusive span and for an inclusive span that does not end
   ON a line ending, and (row of lo, row of hi) for a linewise object; then
   > and < rewrite exactly those rows and keep every other line in place, gq
   reshapes exactly those rows.  Exception (known finding C08-F1): an inclusive
   object ending on a line ending also gets the following row. *)
Theorem C08_line_numbers_charwise : forall b o,
  charwise (ttype o) ->
  let d := bdoc b in
  let lo := bcur b + Z.min (tstart o) (tend o) in
  let hi := bcur b + Z.max (tstart o) (tend o) + (if is_incl (ttype o) then 1 else 0) in
  0 <= lo -> lo < hi -> hi <= len (btext b) ->
  (ttype o = INCL -> last_not_nl (btext b) hi) ->
  get_line_numbers b o = (rowof d lo, rowof d (hi - 1)).
Proof. exact line_numbers_charwise. Qed.
Print Assumptions C08_line_numbers_charwise.

Theorem C08_line_numbers_linewise : forall b o,
  ttype o = LINEW ->
  let d := bdoc b in
  let lo := bcur b + Z.min (tstart o) (tend o) in
  let hi := bcur b + Z.max (tstart o) (tend o) in
  0 <= lo -> hi <= len (btext b) ->
  get_line_numbers b o = (rowof d lo, rowof d hi).
Proof. exact line_numbers_linewise. Qed.
Print Assumptions C08_line_numbers_linewise.

Theorem C08_line_numbers_inclusive_on_newline_refuted :
  let b := mkbuf [120; 10; 10] 2 in
  let o := mkto (-2) 0 INCL in
  get_line_numbers b o = (0, 2).
Proof. exact line_numbers_inclusive_on_newline. Qed.
Print Assumptions C08_line_numbers_inclusive_on_newline_refuted.

Theorem C08_indent_rows_charwise : forall st o ev st',
  charwise (ttype o) ->
  let b := vbuf st in
  let d := bdoc b in
  let lo := bcur b + Z.min (tstart o) (tend o) in
  let hi := bcur b + Z.max (tstart o) (tend o) + (if is_incl (ttype o) then 1 else 0) in
  0 <= lo -> lo < hi -> hi <= len (btext b) ->
  (ttype o = INCL -> last_not_nl (btext b) hi) ->
  (op_indent st o ev = (0, st') ->
   rows_rewritten (fun l => str_mul INDENT (earg ev) ++ l) (btext b) (btext (vbuf st')) (rowof d lo) (rowof d (hi - 1))) /\
  (op_unindent st o ev = (0, st') ->
   rows_rewritten (unindent_line (str_mul INDENT (earg ev))) (btext b) (btext (vbuf st')) (rowof d lo) (rowof d (hi - 1))).
Proof. exact indent_rows_charwise. Qed.
Print Assumptions C08_indent_rows_charwise.

Theorem C08_indent_rows_linewise : forall st o ev st',
  ttype o = LINEW ->
  let b := vbuf st in
  let d := bdoc b in
  let lo := bcur b + Z.min (tstart o) (tend o) in
  let hi := bcur b + Z.max (tstart o) (tend o) in
  0 <= lo -> hi <= len (btext b) ->
  (op_indent st o ev = (0, st') ->
   rows_rewritten (fun l => str_mul INDENT (earg ev) ++ l) (btext b) (btext (vbuf st')) (rowof d lo) (rowof d hi)) /\
  (op_unindent st o ev = (0, st') ->
   rows_rewritten (unindent_line (str_mul INDENT (earg ev))) (btext b) (btext (vbuf st')) (rowof d lo) (rowof d hi)).
Proof. exact indent_rows_linewise. Qed.
Print Assumptions C08_indent_rows_linewise.

Theorem C08_reshape_rows_charwise : forall st o ev,
  charwise (ttype o) ->
  let b := vbuf st in
  let d := bdoc b in
  let lo := bcur b + Z.min (tstart o) (tend o) in
  let hi := bcur b + Z.max (tstart o) (tend o) + (if is_incl (ttype o) then 1 else 0) in
  0 <= lo -> lo < hi -> hi <= len (btext b) ->
  (ttype o = INCL -> last_not_nl (btext b) hi) ->
  op_reshape st o ev = (0, with_buf st (reshape_text b (rowof d lo) (rowof d (hi - 1)))) /\
  0 <= rowof d lo <= rowof d (hi - 1).
Proof. exact reshape_rows_charwise. Qed.
Print Assumptions C08_reshape_rows_charwise.

Theorem C08_reshape_rows_linewise : forall st o ev,
  ttype o = LINEW ->
  let b := vbuf st in
  let d := bdoc b in
  let lo := bcur b + Z.min (tstart o) (tend o) in
  let hi := bcur b + Z.max (tstart o) (tend o) in
  0 <= lo -> hi <= len (btext b) ->
  op_reshape st o ev = (0, with_buf st (reshape_text b (rowof d lo) (rowof d hi))) /\
  0 <= rowof d lo <= rowof d hi.
Proof. exact reshape_rows_linewise. Qed.
Print Assumptions C08_reshape_rows_linewise.

(* ------------------------------------------------------------------ *)
(* The text-object functions return the intended span (core subset; from
   C02's theorems about the Document queries). *)

Theorem C08_span_h : forall d n hc,
  valid d -> 0 <= n ->
  let k := Z.min (len (current_line_before_cursor d)) n in
  text_object T_h d n hc = TO (mk1 (- k)) (k =? 0).
Proof. exact span_h. Qed.
Print Assumptions C08_span_h.

Theorem C08_span_l : forall d n hc,
  valid d -> 0 <= n ->
  let k := Z.min n (len (current_line_after_cursor d)) in
  text_object T_l d n hc = TO (mk1 k) (k =? 0).
Proof. exact span_l. Qed.
Print Assumptions C08_span_l.

Theorem C08_span_zero : forall d n hc,
  valid d ->
  let k := len (current_line_before_cursor d) in
  text_object T_zero d n hc = TO (mk1 (- k)) (k =? 0) /\
  mem_Z NL (current_line_before_cursor d) = false.
Proof. exact span_zero. Qed.
Print Assumptions C08_span_zero.

Theorem C08_span_dollar : forall d n hc,
  valid d ->
  let k := len (current_line_after_cursor d) in
  text_object T_dollar d n hc = TO (mk1 k) (k =? 0) /\
  mem_Z NL (current_line_after_cursor d) = false /\
  (dcur d + k = len (dtext d) \/ nth_error (dtext d) (Z.to_nat (dcur d + k)) = Some NL).
Proof. exact span_dollar. Qed.
Print Assumptions C08_span_dollar.

Theorem C08_span_caret : forall d n hc,
  valid d ->
  exists v, text_object T_caret d n hc = TO (mk1 v) (v =? 0) /\
            - len (current_line_before_cursor d) <= v <= len (current_line_after_cursor d).
Proof. exact span_caret. Qed.
Print Assumptions C08_span_caret.

(* w / W: the count-th word start after the cursor, else the end of the text *)
Theorem C08_span_w : forall d n hc W l,
  valid d -> 1 <= n ->
  enumerates (fun j => dcur d < j /\ word_start (word_cls W) (dtext d) j) l ->
  text_object (T_w W) d n hc =
  match pick l n with
  | Some j => TO (mk1 (j - dcur d)) false
  | None => TO (mk1 (len (dtext d) - dcur d)) (len (dtext d) - dcur d =? 0)
  end.
Proof. exact span_w. Qed.
Print Assumptions C08_span_w.

(* b / B: the count-th word start before the cursor, nearest first; else failure *)
Theorem C08_span_b : forall d n hc W l,
  valid d -> 1 <= n ->
  enumerates (fun j => j < dcur d /\ word_start (word_cls W) (dtext d) j) l ->
  text_object (T_b W) d n hc =
  match pick (rev l) n with
  | Some j => TO (mk1 (j - dcur d)) false
  | None => TO (mk1 0) true
  end.
Proof. exact span_b. Qed.
Print Assumptions C08_span_b.

(* e / E: inclusive, the last character of the count-th word ending after the
   character under the cursor; else failure (with the inclusive default) *)
Theorem C08_span_e : forall d n hc W l,
  valid d -> 1 <= n ->
  enumerates (fun j => dcur d + 1 < j /\ word_end (word_cls W) (dtext d) j) l ->
  text_object (T_e W) d n hc =
  match pick l n with
  | Some j => TO (mkto (j - 1 - dcur d) 0 INCL) false
  | None => TO (mkto 0 0 INCL) true
  end.
Proof. exact span_e. Qed.
Print Assumptions C08_span_e.

(* f / t / F: the count-th occurrence on the cursor line (l = the greedy list
   of occurrences in the scanned text, C02's find_exact) *)
Theorem C08_span_f : forall d n hc ch l,
  greedy (occ ceq_exact [ch] (find_scanned d true false)) (fstep [ch]) 0 l ->
  text_object (T_f ch) d n hc =
  if len (current_line_after_cursor d) =? 0 then TO (mk1 0) true
  else match nth_match l n with
       | Some p => if p + 1 =? 0 then TO (mk1 0) true else TO (mkto (p + 1) 0 INCL) false
       | None => TO (mk1 0) true
       end.
Proof. exact span_f. Qed.
Print Assumptions C08_span_f.

Theorem C08_span_t : forall d n hc ch l,
  greedy (occ ceq_exact [ch] (find_scanned d true false)) (fstep [ch]) 0 l ->
  text_object (T_t ch) d n hc =
  if len (current_line_after_cursor d) =? 0 then TO (mk1 0) true
  else match nth_match l n with
       | Some p => if p + 1 =? 0 then TO (mk1 0) true else TO (mkto (p + 1 - 1) 0 INCL) false
       | None => TO (mk1 0) true
       end.
Proof. exact span_t. Qed.
Print Assumptions C08_span_t.

Theorem C08_span_F : forall d n hc ch l,
  greedy (occ ceq_exact (rev [ch]) (rev (current_line_before_cursor d))) (fstep [ch]) 0 l ->
  text_object (T_F ch) d n hc =
  match nth_match l n with
  | Some p => excl0 (- p - 1)
  | None => TO (mk1 0) true
  end.
Proof. exact span_F. Qed.
Print Assumptions C08_span_F.

Theorem C08_span_T : forall d n hc ch l,
  greedy (occ ceq_exact (rev [ch]) (rev (current_line_before_cursor d))) (fstep [ch]) 0 l ->
  text_object (T_T ch) d n hc =
  match nth_match l n with
  | Some p => if - p - 1 =? 0 then TO (mk1 0) true else excl0 (- p - 1 + 1)
  | None => TO (mk1 0) true
  end.
Proof. exact span_T. Qed.
Print Assumptions C08_span_T.

(* ; and , repeat the stored search: forwards they are f on the stored
   character, backwards the exclusive F; without a stored search they fail *)
Theorem C08_span_repeat : forall d n hc reverse ch backwards,
  (xorb backwards reverse = false ->
   text_object (T_repeat reverse true ch backwards) d n hc = text_object (T_f ch) d n hc) /\
  (xorb backwards reverse = true ->
   text_object (T_repeat reverse true ch backwards) d n hc =
   if_match (dfind_backwards ceq_exact d [ch] true n) (fun v => v) EXCL) /\
  text_object (T_repeat reverse false ch backwards) d n hc = TO (mk1 0) true.
Proof.
  intros. split; [apply span_repeat_forward|]. split; [apply span_repeat_backward|apply span_repeat_none].
Qed.
Print Assumptions C08_span_repeat.

(* ------------------------------------------------------------------ *)
(* Per-command statements (d as the representative operator): the span
   theorems composed with C08_delete_span.  [removes st r a e]: r is "no
   exception, text without [a, e), cursor a, clipboard exactly text[a:e]
   CHARACTERS, registers untouched"; [at_doc st d]: the buffer of st is d. *)

Theorem C08_cmd_d_dollar : forall st d n hc ev,
  at_doc st d -> valid d -> 0 < len (current_line_after_cursor d) ->
  exists o, text_object T_dollar d n hc = TO o false /\
    removes st (op_delete true false st o ev) (dcur d) (dcur d + len (current_line_after_cursor d)).
Proof. exact cmd_d_dollar. Qed.
Print Assumptions C08_cmd_d_dollar.

Theorem C08_cmd_d_zero : forall st d n hc ev,
  at_doc st d -> valid d -> 0 < len (current_line_before_cursor d) ->
  exists o, text_object T_zero d n hc = TO o false /\
    removes st (op_delete true false st o ev) (dcur d - len (current_line_before_cursor d)) (dcur d).
Proof. exact cmd_d_zero. Qed.
Print Assumptions C08_cmd_d_zero.

(* dw: up to the count-th next word start j; when j is the first column of a
   line the line ending before it stays *)
Theorem C08_cmd_d_w : forall st d n hc W l j ev,
  at_doc st d -> valid d -> 1 <= n ->
  enumerates (fun j => dcur d < j /\ word_start (word_cls W) (dtext d) j) l ->
  pick l n = Some j ->
  text_object (T_w W) d n hc = TO (mk1 (j - dcur d)) false /\
  (snd (translate_index_to_position d j) <> 0 ->
     removes st (op_delete true false st (mk1 (j - dcur d)) ev) (dcur d) j) /\
  (snd (translate_index_to_position d j) = 0 -> dcur d + 1 < j ->
     removes st (op_delete true false st (mk1 (j - dcur d)) ev) (dcur d) (j - 1)).
Proof. exact cmd_d_w. Qed.
Print Assumptions C08_cmd_d_w.

Theorem C08_cmd_d_b : forall st d n hc W l j ev,
  at_doc st d -> valid d -> 1 <= n ->
  enumerates (fun j => j < dcur d /\ word_start (word_cls W) (dtext d) j) l ->
  pick (rev l) n = Some j ->
  0 < len (current_line_before_cursor d) ->
  text_object (T_b W) d n hc = TO (mk1 (j - dcur d)) false /\
  removes st (op_delete true false st (mk1 (j - dcur d)) ev) j (dcur d).
Proof. exact cmd_d_b. Qed.
Print Assumptions C08_cmd_d_b.

Theorem C08_cmd_d_e : forall st d n hc W l j ev,
  at_doc st d -> valid d -> 1 <= n ->
  enumerates (fun j => dcur d + 1 < j /\ word_end (word_cls W) (dtext d) j) l ->
  pick l n = Some j ->
  text_object (T_e W) d n hc = TO (mkto (j - 1 - dcur d) 0 INCL) false /\
  removes st (op_delete true false st (mkto (j - 1 - dcur d) 0 INCL) ev) (dcur d) j.
Proof. exact cmd_d_e. Qed.
Print Assumptions C08_cmd_d_e.

Theorem C08_cmd_d_f : forall st d n hc ch l p ev,
  at_doc st d -> valid d ->
  greedy (occ ceq_exact [ch] (find_scanned d true false)) (fstep [ch]) 0 l ->
  0 < len (current_line_after_cursor d) -> nth_match l n = Some p ->
  text_object (T_f ch) d n hc = TO (mkto (p + 1) 0 INCL) false /\
  removes st (op_delete true false st (mkto (p + 1) 0 INCL) ev) (dcur d) (dcur d + p + 2).
Proof. exact cmd_d_f. Qed.
Print Assumptions C08_cmd_d_f.

(* diw on a word: exactly the maximal run of the cursor character's class *)
Theorem C08_cmd_d_iw : forall st d n hc W s e ev,
  at_doc st d -> valid d ->
  find_boundaries_of_current_word d W false false = (s, e) -> 0 < e ->
  text_object (T_word W false) d n hc = TO (mkto s e EXCL) false /\
  is_run (word_cls W) (dtext d) (dcur d + s) (dcur d + e) /\
  removes st (op_delete true false st (mkto s e EXCL) ev) (dcur d + s) (dcur d + e).
Proof. exact cmd_d_iw. Qed.
Print Assumptions C08_cmd_d_iw.

(* ------------------------------------------------------------------ *)
(* Round 6.  [spans st o a e]: the operator range of the object o in state st
   is exactly the non-empty absolute span [a, e) inside the text.  ONE
   statement then covers every character-wise operator: d / c remove exactly
   text[a:e], put the cursor at a and store exactly text[a:e]; the register
   variants store it in the typed register and leave the clipboard alone;
   y and its register variant store exactly text[a:e] and change nothing; the
   case operators rewrite exactly text[a:e] in place.  The per-command
   theorems below establish [spans] for the object the text-object function
   returns, so each of them holds for c, y, the register variants and the
   case operators as well (the C08_cmd_d_* theorems above are the d instances). *)
Theorem C08_spans_all_operators : forall st o a e,
  spans st o a e ->
  (forall del ev,
     op_delete del false st o ev =
     (0, mkvst (mkbuf (text_without st a e) a) (Some (mkcd (span_text st a e) 0)) (vreg st)
               (if del then vins st else true))) /\
  (forall del ev k, nth_error (ekeys ev) 1 = Some k -> is_regname k = true ->
     op_delete del true st o ev =
     (0, mkvst (mkbuf (text_without st a e) a) (vclip st) (Some (k, mkcd (span_text st a e) 0))
               (if del then vins st else true))) /\
  (forall ev,
     op_yank st o ev = (0, mkvst (vbuf st) (Some (mkcd (span_text st a e) 0)) (vreg st) (vins st))) /\
  (forall ev k, nth_error (ekeys ev) 1 = Some k -> is_regname k = true ->
     op_yank_reg st o ev =
     (0, mkvst (vbuf st) (vclip st) (Some (k, mkcd (span_text st a e) 0)) (vins st))) /\
  (forall F ev, Inv (vbuf st) ->
     exists c',
       op_transform F st o ev =
       (0, with_buf st (mkbuf (firstn (Z.to_nat a) (btext (vbuf st)) ++ F (span_text st a e)
                               ++ skipn (Z.to_nat e) (btext (vbuf st))) c'))).
Proof. exact spans_all_operators. Qed.
Print Assumptions C08_spans_all_operators.

(* the hypotheses of C08_spans_all_operators are satisfiable: 'ab cd', cursor 0, w *)
Example C08_spans_applies :
  spans (st_of [97; 98; 32; 99; 100] 0) (mk1 3) 0 3.
Proof. unfold spans. vm_compute. repeat split; try discriminate. left; reflexivity. Qed.

(* $ 0 w b e f iw at the [spans] level (every character-wise operator) *)
Theorem C08_cmd_dollar : forall st d n hc,
  at_doc st d -> valid d -> 0 < len (current_line_after_cursor d) ->
  exists o, text_object T_dollar d n hc = TO o false /\
    spans st o (dcur d) (dcur d + len (current_line_after_cursor d)).
Proof. exact cmd_dollar. Qed.
Print Assumptions C08_cmd_dollar.

Theorem C08_cmd_zero : forall st d n hc,
  at_doc st d -> valid d -> 0 < len (current_line_before_cursor d) ->
  exists o, text_object T_zero d n hc = TO o false /\
    spans st o (dcur d - len (current_line_before_cursor d)) (dcur d).
Proof. exact cmd_zero. Qed.
Print Assumptions C08_cmd_zero.

Theorem C08_cmd_w : forall st d n hc W l j,
  at_doc st d -> valid d -> 1 <= n ->
  enumerates (fun j => dcur d < j /\ word_start (word_cls W) (dtext d) j) l ->
  pick l n = Some j ->
  text_object (T_w W) d n hc = TO (mk1 (j - dcur d)) false /\
  (snd (translate_index_to_position d j) <> 0 -> spans st (mk1 (j - dcur d)) (dcur d) j) /\
  (snd (translate_index_to_position d j) = 0 -> dcur d + 1 < j ->
     spans st (mk1 (j - dcur d)) (dcur d) (j - 1)).
Proof. exact cmd_w. Qed.
Print Assumptions C08_cmd_w.

Theorem C08_cmd_b : forall st d n hc W l j,
  at_doc st d -> valid d -> 1 <= n ->
  enumerates (fun j => j < dcur d /\ word_start (word_cls W) (dtext d) j) l ->
  pick (rev l) n = Some j ->
  0 < len (current_line_before_cursor d) ->
  text_object (T_b W) d n hc = TO (mk1 (j - dcur d)) false /\
  spans st (mk1 (j - dcur d)) j (dcur d).
Proof. exact cmd_b. Qed.
Print Assumptions C08_cmd_b.

(* db from the first column of a line: the line ending before the cursor stays *)
Theorem C08_cmd_b_col0 : forall st d n hc W l j,
  at_doc st d -> valid d -> 1 <= n ->
  enumerates (fun j => j < dcur d /\ word_start (word_cls W) (dtext d) j) l ->
  pick (rev l) n = Some j ->
  col d (dcur d) = 0 -> j < dcur d - 1 ->
  text_object (T_b W) d n hc = TO (mk1 (j - dcur d)) false /\
  spans st (mk1 (j - dcur d)) j (dcur d - 1).
Proof. exact cmd_b_col0. Qed.
Print Assumptions C08_cmd_b_col0.

Theorem C08_cmd_e : forall st d n hc W l j,
  at_doc st d -> valid d -> 1 <= n ->
  enumerates (fun j => dcur d + 1 < j /\ word_end (word_cls W) (dtext d) j) l ->
  pick l n = Some j ->
  text_object (T_e W) d n hc = TO (mkto (j - 1 - dcur d) 0 INCL) false /\
  spans st (mkto (j - 1 - dcur d) 0 INCL) (dcur d) j.
Proof. exact cmd_e. Qed.
Print Assumptions C08_cmd_e.

(* fx: through the count-th x; that character IS x and lies on the cursor line
   (no side conditions left: they follow from membership in the greedy list) *)
Theorem C08_cmd_f : forall st d n hc ch l p,
  at_doc st d -> valid d ->
  greedy (occ ceq_exact [ch] (find_scanned d true false)) (fstep [ch]) 0 l ->
  0 < len (current_line_after_cursor d) -> nth_match l n = Some p ->
  text_object (T_f ch) d n hc = TO (mkto (p + 1) 0 INCL) false /\
  spans st (mkto (p + 1) 0 INCL) (dcur d) (dcur d + p + 2) /\
  nth_error (dtext d) (Z.to_nat (dcur d + p + 1)) = Some ch /\
  p + 2 <= len (current_line_after_cursor d).
Proof. exact cmd_f. Qed.
Print Assumptions C08_cmd_f.

Theorem C08_cmd_iw : forall st d n hc W s e,
  at_doc st d -> valid d ->
  find_boundaries_of_current_word d W false false = (s, e) -> 0 < e ->
  text_object (T_word W false) d n hc = TO (mkto s e EXCL) false /\
  is_run (word_cls W) (dtext d) (dcur d + s) (dcur d + e) /\
  spans st (mkto s e EXCL) (dcur d + s) (dcur d + e).
Proof. exact cmd_iw. Qed.
Print Assumptions C08_cmd_iw.

(* EVERY exclusive motion TextObject(v) with the target inside the text: the
   span lies between cursor and target; when its larger end is the first
   column of a line, the line ending before it stays (both directions; covers
   h l w b 0 $ ^ | F T { } ...) *)
Theorem C08_cmd_excl_motion : forall st d v,
  at_doc st d -> valid d -> 0 <= dcur d + v <= len (dtext d) -> v <> 0 ->
  let a := Z.min (dcur d) (dcur d + v) in
  let e := Z.max (dcur d) (dcur d + v) in
  (col d e <> 0 -> spans st (mk1 v) a e) /\
  (col d e = 0 -> a < e - 1 -> spans st (mk1 v) a (e - 1)).
Proof. exact cmd_excl_motion. Qed.
Print Assumptions C08_cmd_excl_motion.

(* EVERY two-ended exclusive object TextObject(s, e), s < e, inside the text *)
Theorem C08_cmd_excl_object : forall st d s e,
  at_doc st d -> s < e -> 0 <= dcur d + s -> dcur d + e <= len (dtext d) ->
  (col d (dcur d + e) <> 0 -> spans st (mkto s e EXCL) (dcur d + s) (dcur d + e)) /\
  (col d (dcur d + e) = 0 -> s < e - 1 -> spans st (mkto s e EXCL) (dcur d + s) (dcur d + e - 1)).
Proof. exact cmd_excl_object. Qed.
Print Assumptions C08_cmd_excl_object.

(* aw / aW on a word: the maximal run of the cursor character's class [s, e0)
   plus the blanks (no line ending) that follow it on the line, up to a
   non-blank character or the line end *)
Theorem C08_cmd_aw : forall st d n hc W s e,
  at_doc st d -> valid d ->
  find_boundaries_of_current_word d W false true = (s, e) -> 0 < e ->
  text_object (T_word W true) d n hc = TO (mkto s e EXCL) false /\
  spans st (mkto s e EXCL) (dcur d + s) (dcur d + e) /\
  exists e0, 0 < e0 <= e /\
    is_run (word_cls W) (dtext d) (dcur d + s) (dcur d + e0) /\
    (forall j, dcur d + e0 <= j < dcur d + e ->
       exists x, nth_error (dtext d) (Z.to_nat j) = Some x /\ re_space x = true /\ x <> NL) /\
    (forall x, index (dtext d) (dcur d + e) = Some x -> re_space x = false \/ x = NL).
Proof. exact cmd_aw. Qed.
Print Assumptions C08_cmd_aw.

(* the bracket objects, any pair l <> r (r not a line ending): s' / e' are the
   offsets of the enclosing brackets (C02: the nearest unbalanced ones); the
   characters there are l and r; a( spans from l through r; i( spans strictly
   between them (column-0 rule at the far end) *)
Theorem C08_cmd_bracket : forall st d n hc l r (inner : bool) s' e',
  at_doc st d -> valid d -> (l =? r) = false -> r <> NL ->
  find_enclosing_bracket_left d l r None = Some s' ->
  find_enclosing_bracket_right d l r None = Some e' ->
  let off := if inner then 0 else 1 in
  text_object (T_ci l r inner) d n hc =
    TO (mkto (s' + 1 - off) (e' + off) EXCL) (e' + off =? s' + 1 - off) /\
  s' <= 0 <= e' /\
  nth_error (dtext d) (Z.to_nat (dcur d + s')) = Some l /\
  nth_error (dtext d) (Z.to_nat (dcur d + e')) = Some r /\
  (inner = false ->
     spans st (mkto s' (e' + 1) EXCL) (dcur d + s') (dcur d + e' + 1)) /\
  (inner = true -> s' + 1 < e' -> col d (dcur d + e') <> 0 ->
     spans st (mkto (s' + 1) e' EXCL) (dcur d + s' + 1) (dcur d + e')) /\
  (inner = true -> s' + 1 < e' - 1 -> col d (dcur d + e') = 0 ->
     spans st (mkto (s' + 1) e' EXCL) (dcur d + s' + 1) (dcur d + e' - 1)).
Proof. exact cmd_bracket. Qed.
Print Assumptions C08_cmd_bracket.

(* ge / gE, cursor not at the end of the text: from the last character of the
   count-th word ending at or before the cursor through the cursor character *)
Theorem C08_cmd_ge : forall st d n hc W l,
  at_doc st d -> valid d -> 1 <= n -> dcur d < len (dtext d) ->
  enumerates (fun j => j <= dcur d /\ word_end (word_cls W) (dtext d) j) l ->
  match pick (rev l) n with
  | Some j =>
      text_object (T_ge W) d n hc = TO (mkto (j - 1 - dcur d) 0 INCL) false /\
      spans st (mkto (j - 1 - dcur d) 0 INCL) (j - 1) (dcur d + 1)
  | None => text_object (T_ge W) d n hc = TO (mkto 0 0 INCL) true
  end.
Proof. exact cmd_ge. Qed.
Print Assumptions C08_cmd_ge.

(* { } ap: spans between the cursor and where start_of_paragraph /
   end_of_paragraph lead (C02p_start_of_paragraph_lands / _end_: the count-th
   blank line, else the text boundary) *)
Theorem C08_cmd_lbrace : forall st d n hc v,
  at_doc st d -> valid d -> start_of_paragraph d n true = Some v ->
  text_object T_lbrace d n hc = excl0 v /\ v <= 0 /\ 0 <= dcur d + v /\
  (v < 0 -> col d (dcur d) <> 0 -> spans st (mk1 v) (dcur d + v) (dcur d)) /\
  (v < -1 -> col d (dcur d) = 0 -> spans st (mk1 v) (dcur d + v) (dcur d - 1)).
Proof. exact cmd_lbrace. Qed.
Print Assumptions C08_cmd_lbrace.

Theorem C08_cmd_rbrace : forall st d n hc v,
  at_doc st d -> valid d -> end_of_paragraph d n true = Some v ->
  text_object T_rbrace d n hc = excl0 v /\ 0 <= v /\ dcur d + v <= len (dtext d) /\
  (0 < v -> col d (dcur d + v) <> 0 -> spans st (mk1 v) (dcur d) (dcur d + v)) /\
  (1 < v -> col d (dcur d + v) = 0 -> spans st (mk1 v) (dcur d) (dcur d + v - 1)).
Proof. exact cmd_rbrace. Qed.
Print Assumptions C08_cmd_rbrace.

Theorem C08_cmd_ap : forall st d n hc s e,
  at_doc st d -> valid d ->
  start_of_paragraph d 1 false = Some s -> end_of_paragraph d n false = Some e ->
  text_object T_ap d n hc = TO (mkto s e EXCL) (s =? e) /\ s <= 0 <= e /\
  (s < e -> col d (dcur d + e) <> 0 -> spans st (mkto s e EXCL) (dcur d + s) (dcur d + e)) /\
  (s < e - 1 -> col d (dcur d + e) = 0 -> spans st (mkto s e EXCL) (dcur d + s) (dcur d + e - 1)).
Proof. exact cmd_ap. Qed.
Print Assumptions C08_cmd_ap.

(* ------------------------------------------------------------------ *)
(* Round 6.  The cursor fix-up that runs after every navigation-mode handler
   is idempotent on every valid cursor, so the count theorems hold from ANY
   valid cursor (also one after the last character of a line: temporary
   navigation mode, documents set by program), no navigation-cursor
   hypothesis left. *)
Theorem C08_fix_vi_cursor_idem : forall b,
  valid (bdoc b) -> fix_vi_cursor (fix_vi_cursor b) = fix_vi_cursor b.
Proof. exact fix_vi_cursor_idem. Qed.
Print Assumptions C08_fix_vi_cursor_idem.

(* digits only extend the count; in navigation mode the first digit typed
   runs the cursor fix-up ([after_digits]), and that is all *)
Theorem C08_typed_digits_any : forall p ds s rest,
  is_count (ks_arg s) ds -> vins (ks_vst s) = false -> valid (bdoc (vbuf (ks_vst s))) ->
  run_keys_gen p s (map KD ds ++ rest) =
  run_keys_gen p (with_arg (after_digits s ds) (typed (ks_arg s) ds)) rest.
Proof. exact run_digits_any. Qed.
Print Assumptions C08_typed_digits_any.

Theorem C08_cancelled_operator_noop_any : forall p s ds1 k keys ds2 rest,
  ks_op s = None -> vins (ks_vst s) = false -> valid (bdoc (vbuf (ks_vst s))) ->
  is_count (ks_arg s) ds1 -> is_count None ds2 ->
  run_keys_gen p s (map KD ds1 ++ KO k keys :: map KD ds2 ++ KE :: rest) =
  run_keys_gen p (cleared s) rest.
Proof. exact cancelled_operator_any. Qed.
Print Assumptions C08_cancelled_operator_noop_any.

(* ------------------------------------------------------------------ *)
(* Round 6 (seeded C08-12).  vi_state.last_character_find is session state:
   EVERY f F t T key records its search - found or not, under an operator
   (applied, cancelled) or typed alone; no other key touches the record; ; and
   , under an operator are exactly the recorded search, so when the recorded
   search finds nothing they cancel the operator - also right after a FAILED
   find (they do not fall back to an older successful one). *)
Theorem C08_find_recorded : forall p s m status s',
  key_step_gen p s (KM m) = (status, s') -> ks_find s' = upd_find (ks_find s) m.
Proof. exact find_recorded. Qed.
Print Assumptions C08_find_recorded.

Theorem C08_other_keys_keep_find : forall p s key status s',
  (forall m, key <> KM m) -> key_step_gen p s key = (status, s') -> ks_find s' = ks_find s.
Proof. exact other_keys_keep_find. Qed.
Print Assumptions C08_other_keys_keep_find.

Theorem C08_repeat_fails_cancels : forall s k keys rv ch bw o,
  ks_op s = Some (k, keys) -> ks_find s = Some (ch, bw) ->
  let '(n, hc) := pending_count (ks_oparg s) (ks_arg s) in
  text_object (T_repeat rv true ch bw) (bdoc (vbuf (ks_vst s))) n hc = TO o true ->
  key_step s (KM (T_rep rv)) = (0, cleared s).
Proof. exact repeat_fails_cancels. Qed.
Print Assumptions C08_repeat_fails_cancels.

Theorem C08_repeat_without_find_cancels : forall s k keys rv,
  ks_op s = Some (k, keys) -> ks_find s = None ->
  key_step s (KM (T_rep rv)) = (0, cleared s).
Proof. exact repeat_without_find_cancels. Qed.
Print Assumptions C08_repeat_without_find_cancels.

(* f ch (whatever it did), then operator + ; with no ch after the cursor on
   its line: the operator is cancelled *)
Theorem C08_failed_find_then_repeat : forall s ch status s1 k keys o,
  key_step s (KM (T_f ch)) = (status, s1) -> ks_op s1 = Some (k, keys) ->
  let '(n, hc) := pending_count (ks_oparg s1) (ks_arg s1) in
  text_object (T_f ch) (bdoc (vbuf (ks_vst s1))) n hc = TO o true ->
  key_step s1 (KM (T_rep false)) = (0, cleared s1).
Proof. exact failed_find_then_repeat. Qed.
Print Assumptions C08_failed_find_then_repeat.

(* ------------------------------------------------------------------ *)
(* Tables regenerated from the repo on every run (gen/gen_t_c08.py). *)

(* is_regname is exactly membership in the real vi_register_names *)
Theorem C08_register_names_table :
  forallb is_regname vi_register_names_table = true /\
  forall c, is_regname c = true -> mem_Z c vi_register_names_table = true.
Proof. split; [exact regname_table_sound | exact regname_table_complete]. Qed.
Print Assumptions C08_register_names_table.

(* the model's ASCII case maps are the real callbacks on every ASCII character *)
Theorem C08_transform_tables :
  list_Z_eqb (apply_T 1 (zrange 0 128)) c08_rot13_tab = true /\
  list_Z_eqb (apply_T 2 (zrange 0 128)) c08_lower_tab = true /\
  list_Z_eqb (apply_T 3 (zrange 0 128)) c08_upper_tab = true /\
  list_Z_eqb (apply_T 4 (zrange 0 128)) c08_swapcase_tab = true.
Proof. exact transform_tables_agree. Qed.
Print Assumptions C08_transform_tables.

(* the registry holds exactly the operators and text objects covered here *)
Theorem C08_binding_tables :
  list_list_Z_eqb operator_keys expected_operator_keys = true /\
  list_list_Z_eqb text_object_keys expected_text_object_keys = true.
Proof. exact binding_tables_agree. Qed.
Print Assumptions C08_binding_tables.

(* Non-vacuity: the hypotheses of C08_delete_span are met by dw on "abc def"
   at the 'd' of "def"... and by a linewise object. *)
Example C08_delete_span_applies :
  let st := st_of [97; 98; 99; 32; 100; 101; 102] 0 in
  let o := mkto 4 0 EXCL in
  charwise (ttype o) /\
  0 <= bcur (vbuf st) + fst (operator_range (bdoc (vbuf st)) o) /\
  bcur (vbuf st) + fst (operator_range (bdoc (vbuf st)) o) <
  bcur (vbuf st) + snd (operator_range (bdoc (vbuf st)) o) /\
  bcur (vbuf st) + snd (operator_range (bdoc (vbuf st)) o) <= len (btext (vbuf st)).
Proof. vm_compute. repeat split; try (left; reflexivity); intros H; discriminate H. Qed.
