(* C08 - Vi operators act exactly on the motion's span; yanking never edits.
   Statements only; proofs are in Proofs/C08_ViFacts.v, C08_Lines.v, C08_Failed.v.

   Notation.  A text object is (start, end_, type), both ends relative to the
   cursor.  [operator_range d o] is the relative range the operators use;
   a = cursor + fst, e = cursor + snd are its absolute ends.  [st] is what an
   operator can touch: buffer (text, cursor), clipboard (Some = set during
   the run), named register (Some (name, data) = written), insert-mode flag.
   The theorems are parametric in the text object, hence cover every motion
   and text object at once; the text-object functions themselves are in
   Model/C08_TextObjects.v (tied by correspondence; their failure cases are
   the subject of the _refuted theorems below). *)
From Coq Require Import ZArith List Bool.
From PTK Require Import Lib.Sx Lib.Py Model.Document Model.BufferEdit Model.C02_DocQueries
  Model.C08_ViOps Model.C08_TextObjects
  Gen.C08_Tables Proofs.BufferEditFacts Proofs.C08_ViFacts Proofs.C08_Lines Proofs.C08_WholeLines Proofs.C08_Failed
  Proofs.C08_Tables.
Import ListNotations.
Open Scope Z_scope.

(* Yank never edits: for EVERY text object (any start, end, type - in or out
   of bounds) text and cursor are unchanged, with and without register. *)
Theorem C08_yank_pure : forall st o ev,
  vbuf (snd (op_yank st o ev)) = vbuf st /\ vbuf (snd (op_yank_reg st o ev)) = vbuf st.
Proof. intros; split; [apply op_yank_buf | apply op_yank_reg_buf]. Qed.
Print Assumptions C08_yank_pure.

(* The range of a character-wise object: it starts at the smaller end; it ends
   at the larger end, +1 if inclusive, -1 if exclusive and the larger end is
   in column 0. *)
Theorem C08_operator_range_charwise : forall d o,
  charwise (ttype o) ->
  let lo := Z.min (tstart o) (tend o) in
  let hi := Z.max (tstart o) (tend o) in
  fst (operator_range d o) = lo /\
  (ttype o = INCL -> snd (operator_range d o) = hi + 1) /\
  (ttype o = EXCL -> snd (operator_range d o) = hi \/
                     (snd (operator_range d o) = hi - 1 /\
                      snd (translate_index_to_position d (hi + dcur d)) = 0)).
Proof. exact operator_range_charwise. Qed.
Print Assumptions C08_operator_range_charwise.

(* Adjacent to the cursor: a motion (one end is the cursor) gives a range
   with start <= cursor <= end, except that the exclusive-column-0 rule may
   leave the line ending before the cursor out (end = cursor - 1, cursor in
   column 0). *)
Theorem C08_range_adjacent : forall d o,
  charwise (ttype o) ->
  Z.min (tstart o) (tend o) <= 0 <= Z.max (tstart o) (tend o) ->
  fst (operator_range d o) <= 0 /\
  (0 <= snd (operator_range d o) \/
   (snd (operator_range d o) = -1 /\ ttype o = EXCL /\
    snd (translate_index_to_position d (dcur d)) = 0)).
Proof. exact operator_range_adjacent. Qed.
Print Assumptions C08_range_adjacent.

(* Delete / change, character-wise, non-empty range [a, e) inside the text:
   exactly that span is removed, the cursor lands on a, the clipboard holds
   exactly the removed characters (type CHARACTERS), named registers are
   untouched; change additionally enters insert mode. *)
Theorem C08_delete_span : forall delete_only st o ev,
  charwise (ttype o) ->
  let b := vbuf st in
  let a := bcur b + fst (operator_range (bdoc b) o) in
  let e := bcur b + snd (operator_range (bdoc b) o) in
  0 <= a -> a < e -> e <= len (btext b) ->
  op_delete delete_only false st o ev =
  (0, mkvst (mkbuf (firstn (Z.to_nat a) (btext b) ++ skipn (Z.to_nat e) (btext b)) a)
            (Some (mkcd (firstn (Z.to_nat (e - a)) (skipn (Z.to_nat a) (btext b))) 0))
            (vreg st) (if delete_only then vins st else true)).
Proof. exact op_delete_span. Qed.
Print Assumptions C08_delete_span.

(* ... into a named register, when key_sequence[1] of the event the operator
   body receives is a register name k (see C08_register_name_refuted). *)
Theorem C08_delete_span_register : forall delete_only st o ev k,
  charwise (ttype o) ->
  let b := vbuf st in
  let a := bcur b + fst (operator_range (bdoc b) o) in
  let e := bcur b + snd (operator_range (bdoc b) o) in
  0 <= a -> a < e -> e <= len (btext b) ->
  nth_error (ekeys ev) 1 = Some k -> is_regname k = true ->
  op_delete delete_only true st o ev =
  (0, mkvst (mkbuf (firstn (Z.to_nat a) (btext b) ++ skipn (Z.to_nat e) (btext b)) a)
            (vclip st)
            (Some (k, mkcd (firstn (Z.to_nat (e - a)) (skipn (Z.to_nat a) (btext b))) 0))
            (if delete_only then vins st else true)).
Proof. exact op_delete_span_reg. Qed.
Print Assumptions C08_delete_span_register.

(* Yank stores exactly the span. *)
Theorem C08_yank_span : forall st o ev,
  charwise (ttype o) ->
  let b := vbuf st in
  let a := bcur b + fst (operator_range (bdoc b) o) in
  let e := bcur b + snd (operator_range (bdoc b) o) in
  0 <= a -> a < e -> e <= len (btext b) ->
  op_yank st o ev =
  (0, mkvst b (Some (mkcd (firstn (Z.to_nat (e - a)) (skipn (Z.to_nat a) (btext b))) 0))
            (vreg st) (vins st)).
Proof. exact op_yank_span. Qed.
Print Assumptions C08_yank_span.

(* Linewise delete / change, absolute range f <= t inside the text: the span
   [line_lo f, line_hi t) - from after the last line ending before f (or 0) to
   just after the first line ending at or after t (or the end of the text) -
   is removed; it contains [f, t]; the clipboard holds it without one final
   newline, type LINES (and is left alone when that is empty).  That these
   are whole lines is C08_linewise_whole_lines below. *)
Theorem C08_delete_span_linewise : forall delete_only st o ev,
  ttype o = LINEW ->
  let b := vbuf st in
  let f := bcur b + fst (operator_range (bdoc b) o) in
  let t := bcur b + snd (operator_range (bdoc b) o) in
  0 <= f -> f <= t -> t <= len (btext b) ->
  let a := line_lo (btext b) f in
  let e := line_hi (btext b) t in
  let removed := firstn (Z.to_nat (e - a)) (skipn (Z.to_nat a) (btext b)) in
  0 <= a <= f /\ t <= e <= len (btext b) /\
  vbuf (snd (op_delete delete_only false st o ev)) =
    mkbuf (firstn (Z.to_nat a) (btext b) ++ skipn (Z.to_nat e) (btext b)) a /\
  fst (op_delete delete_only false st o ev) = 0 /\
  vclip (snd (op_delete delete_only false st o ev)) =
    (if nonempty (strip_final_nl removed) then Some (mkcd (strip_final_nl removed) 1) else vclip st) /\
  vreg (snd (op_delete delete_only false st o ev)) = vreg st.
Proof. exact op_delete_linewise. Qed.
Print Assumptions C08_delete_span_linewise.

(* ... and these are whole lines: a line ending (or the start of the text)
   sits right before line_lo and there is none between line_lo and f; a line
   ending sits right before line_hi with none between t and it, or line_hi is
   the end of the text and there is none after t. *)
Theorem C08_linewise_whole_lines : forall text f t,
  0 <= f <= len text -> 0 <= t <= len text ->
  let a := line_lo text f in
  let e := line_hi text t in
  ((a = 0 \/ exists p, firstn (Z.to_nat a) text = p ++ [NL]) /\
   mem_Z NL (firstn (Z.to_nat (f - a)) (skipn (Z.to_nat a) text)) = false) /\
  ((e = len text /\ mem_Z NL (skipn (Z.to_nat t) text) = false) \/
   (exists p, firstn (Z.to_nat e) text = p ++ [NL] /\
              mem_Z NL (firstn (Z.to_nat (e - 1 - t)) (skipn (Z.to_nat t) text)) = false)).
Proof. intros text f t Hf Ht. split; [apply line_lo_whole; exact Hf | apply line_hi_whole; exact Ht]. Qed.
Print Assumptions C08_linewise_whole_lines.

(* Case operators (g? gu gU g~ ~), any string function F: nothing outside
   [a, e) changes. *)
Theorem C08_transform_frame : forall F st o ev,
  Inv (vbuf st) ->
  let b := vbuf st in
  let a := bcur b + fst (operator_range (bdoc b) o) in
  let e := bcur b + snd (operator_range (bdoc b) o) in
  0 <= a -> a < e -> e <= len (btext b) ->
  exists c',
    op_transform F st o ev =
    (0, with_buf st (mkbuf (firstn (Z.to_nat a) (btext b)
                            ++ F (firstn (Z.to_nat (e - a)) (skipn (Z.to_nat a) (btext b)))
                            ++ skipn (Z.to_nat e) (btext b)) c')).
Proof. exact op_transform_frame. Qed.
Print Assumptions C08_transform_frame.

(* ... and on an empty range they change nothing at all (any type, any F). *)
Theorem C08_transform_empty_is_noop : forall F st o ev,
  snd (operator_range (bdoc (vbuf st)) o) <= fst (operator_range (bdoc (vbuf st)) o) ->
  op_transform F st o ev = (0, st).
Proof. exact op_transform_empty. Qed.
Print Assumptions C08_transform_empty_is_noop.

(* Indent operators: the new text is the old one with exactly the rows
   from_row..to_row of get_line_numbers rewritten (transform_lines; its
   frame property is C01's transform_lines_spec). *)
Theorem C08_indent_frame : forall st o ev st',
  op_indent st o ev = (0, st') ->
  let '(f, t) := get_line_numbers (vbuf st) o in
  btext (vbuf st') =
  transform_lines (fun l => str_mul INDENT (earg ev) ++ l) (btext (vbuf st)) f (t + 1).
Proof. exact op_indent_text. Qed.
Print Assumptions C08_indent_frame.

Theorem C08_unindent_frame : forall st o ev st',
  op_unindent st o ev = (0, st') ->
  let '(f, t) := get_line_numbers (vbuf st) o in
  btext (vbuf st') =
  transform_lines (unindent_line (str_mul INDENT (earg ev))) (btext (vbuf st)) f (t + 1).
Proof. exact op_unindent_text. Qed.
Print Assumptions C08_unindent_frame.

(* gq keeps the lines before from_row and after to_row. *)
Theorem C08_reshape_frame : forall b f t,
  reshape_text b f t = b \/
  exists mid,
    btext (reshape_text b f t) =
    concat (slice_to (splitlines_keep (btext b)) f) ++ mid
    ++ concat (slice_from (splitlines_keep (btext b)) (t + 1)).
Proof. exact reshape_frame. Qed.
Print Assumptions C08_reshape_frame.

(* ------------------------------------------------------------------ *)
(* "If the motion fails or spans nothing, the operator changes nothing":
   false for the code as it is. *)

(* An in-bounds exclusive object with an EMPTY range: delete makes the text
   LONGER ("abc def", cursor 0, TextObject(0) -> "abc dbc def"). *)
Theorem C08_empty_is_noop_refuted :
  exists text cur o,
    0 <= cur <= len text /\ ttype o = EXCL /\
    0 <= cur + tstart o <= len text /\ 0 <= cur + tend o <= len text /\
    snd (operator_range (mkdoc text cur) o) <= fst (operator_range (mkdoc text cur) o) /\
    snd (op_delete true false (st_of text cur) o (mkev 1 [])) <> st_of text cur /\
    len text < len (btext (vbuf (snd (op_delete true false (st_of text cur) o (mkev 1 []))))).
Proof. exact empty_range_not_noop. Qed.
Print Assumptions C08_empty_is_noop_refuted.

(* ... mid-line it deletes the two characters around the cursor, and a yank
   overwrites the clipboard with them. *)
Theorem C08_empty_deletes_two_refuted :
  exists text cur o,
    ttype o = EXCL /\ tstart o = 0 /\ tend o = 0 /\
    op_delete true false (st_of text cur) o (mkev 1 []) =
    (0, mkvst (mkbuf [97; 98; 99; 32; 100] 5) (Some (mkcd [101; 102] 0)) None false).
Proof. exact empty_range_deletes_two. Qed.
Print Assumptions C08_empty_deletes_two_refuted.

Theorem C08_empty_yank_refuted :
  exists text cur o,
    ttype o = EXCL /\ tstart o = 0 /\ tend o = 0 /\
    vclip (snd (op_yank (st_of text cur) o (mkev 1 []))) <> None.
Proof. exact empty_range_yank_sets_clipboard. Qed.
Print Assumptions C08_empty_yank_refuted.

(* Per family of failing text objects (failed_noop m k: whenever the text-object
   function m reports failure, operator k leaves text, cursor, clipboard and
   registers alone).  One witness each; the harness replays them on /repo. *)
Theorem C08_failed_motion_noop_refuted :
  ~ failed_noop (T_F 120) del /\ ~ failed_noop (T_T 120) del /\
  ~ failed_noop (T_f 120) del /\ ~ failed_noop (T_t 120) del /\
  ~ failed_noop (T_repeat false false 120 false) del /\
  ~ failed_noop (T_repeat true true 120 false) del /\
  ~ failed_noop (T_b false) del /\ ~ failed_noop (T_b true) del /\
  ~ failed_noop T_h del /\ ~ failed_noop T_l del /\ ~ failed_noop T_dollar del /\
  ~ failed_noop (T_w false) del /\
  ~ failed_noop T_zero del /\ ~ failed_noop T_caret del /\ ~ failed_noop T_bar del /\
  ~ failed_noop (T_e false) del /\ ~ failed_noop (T_ge false) del /\ ~ failed_noop T_g_ del /\
  ~ failed_noop T_j del /\ ~ failed_noop T_k del /\
  ~ failed_noop (T_word false false) del /\
  ~ failed_noop (T_ci 40 41 true) del /\ ~ failed_noop (T_ci 34 34 false) del /\
  ~ failed_noop T_lbrace del /\ ~ failed_noop T_rbrace del /\ ~ failed_noop T_percent del.
Proof.
  repeat apply conj.
  - exact failed_backward_find_refuted.
  - exact failed_backward_till_refuted.
  - exact failed_forward_find_refuted.
  - exact failed_forward_till_refuted.
  - exact failed_repeat_find_refuted.
  - exact failed_repeat_find_rev_refuted.
  - exact backward_word_at_start_refuted.
  - exact backward_WORD_at_start_refuted.
  - exact left_at_line_start_refuted.
  - exact right_on_empty_line_refuted.
  - exact end_of_line_on_empty_line_refuted.
  - exact word_forward_at_end_refuted.
  - exact start_of_line_at_col0_refuted.
  - exact soft_start_of_line_refuted.
  - exact column_same_refuted.
  - exact word_end_failed_refuted.
  - exact word_end_backward_failed_refuted.
  - exact last_non_blank_on_blank_line_refuted.
  - exact down_on_last_line_refuted.
  - exact up_on_first_line_refuted.
  - exact word_object_on_blank_refuted.
  - exact bracket_object_absent_refuted.
  - exact quote_object_absent_refuted.
  - exact paragraph_back_at_start_refuted.
  - exact paragraph_forward_at_end_refuted.
  - exact percent_out_of_range_refuted.
Qed.
Print Assumptions C08_failed_motion_noop_refuted.

(* the other operators on a failed motion: yank overwrites the clipboard,
   change edits, > < indent the cursor line, gq appends a newline, the case
   operators act on one character (inclusive default) or one line (j, k) *)
Theorem C08_failed_motion_other_operators_refuted :
  ~ failed_noop (T_f 120) OpYank /\ ~ failed_noop (T_F 120) (OpDelete false false) /\
  ~ failed_noop (T_F 120) OpIndent /\ ~ failed_noop (T_F 120) OpUnindent /\
  ~ failed_noop (T_F 120) OpReshape /\
  ~ failed_noop (T_e false) (OpTransform 3) /\ ~ failed_noop T_j (OpTransform 3).
Proof.
  repeat apply conj.
  - exact failed_find_yank_refuted.
  - exact failed_find_change_refuted.
  - exact failed_find_indent_refuted.
  - exact failed_find_unindent_refuted.
  - exact failed_find_reshape_refuted.
  - exact failed_word_end_transform_refuted.
  - exact failed_down_transform_refuted.
Qed.
Print Assumptions C08_failed_motion_other_operators_refuted.

(* What holds today: the case operators ignore every failed EXCLUSIVE motion. *)
Theorem C08_failed_motion_transform_noop : forall ch f,
  failed_noop (T_f ch) (OpTransform f) /\ failed_noop (T_F ch) (OpTransform f) /\
  failed_noop (T_t ch) (OpTransform f) /\ failed_noop (T_b false) (OpTransform f) /\
  failed_noop (T_b true) (OpTransform f) /\ failed_noop T_h (OpTransform f) /\
  failed_noop T_l (OpTransform f) /\ failed_noop T_dollar (OpTransform f) /\
  failed_noop T_zero (OpTransform f) /\ failed_noop T_caret (OpTransform f) /\
  failed_noop T_bar (OpTransform f) /\ failed_noop (T_w false) (OpTransform f) /\
  failed_noop (T_w true) (OpTransform f).
Proof. exact transform_failed_find_noop. Qed.
Print Assumptions C08_failed_motion_transform_noop.

(* The named-register operators take the register name from key_sequence[1]
   of the TEXT OBJECT's event: with a one-key motion they raise IndexError
   (after the text was already cut, for d and c). *)
Theorem C08_register_name_refuted :
  exists text cur o,
    fst (op_yank_reg (st_of text cur) o (mkev 1 [119])) = 2 /\
    fst (op_delete true true (st_of text cur) o (mkev 1 [119])) = 2 /\
    btext (vbuf (snd (op_delete true true (st_of text cur) o (mkev 1 [119])))) <> text.
Proof.
  exists [97; 98; 99; 32; 100; 101; 102], 4, (mkto 3 0 EXCL).
  vm_compute. repeat split. intros H; discriminate H.
Qed.
Print Assumptions C08_register_name_refuted.

(* ------------------------------------------------------------------ *)
(* After fixes/C08-empty-span-noop.patch (operator_range_fixed / to_cut_fixed):
   an empty range is a no-op for delete, and non-empty ranges are cut exactly
   as before. *)
Theorem C08_empty_is_noop_after_fix : forall st o,
  is_linew (ttype o) = false -> 0 <= bcur (vbuf st) ->
  snd (operator_range_fixed (bdoc (vbuf st)) o) <= fst (operator_range_fixed (bdoc (vbuf st)) o) ->
  op_delete_fixed true st o = (0, st).
Proof. exact op_delete_fixed_empty. Qed.
Print Assumptions C08_empty_is_noop_after_fix.

Theorem C08_fix_preserves_nonempty : forall b o,
  tstart o <> tend o ->
  fst (operator_range (bdoc b) o) < snd (operator_range (bdoc b) o) ->
  operator_range_fixed (bdoc b) o = operator_range (bdoc b) o /\ to_cut_fixed b o = to_cut b o.
Proof.
  intros b o H Hr. split; [apply operator_range_fixed_same; exact H | apply to_cut_fixed_same; assumption].
Qed.
Print Assumptions C08_fix_preserves_nonempty.

(* ------------------------------------------------------------------ *)
(* Tables regenerated from the repo on every run (gen/gen_t_c08.py). *)

(* is_regname is exactly membership in the real vi_register_names *)
Theorem C08_register_names_table :
  forallb is_regname vi_register_names_table = true /\
  forall c, is_regname c = true -> mem_Z c vi_register_names_table = true.
Proof. split; [exact regname_table_sound | exact regname_table_complete]. Qed.
Print Assumptions C08_register_names_table.

(* the model's ASCII case maps are the real callbacks on every ASCII character *)
Theorem C08_transform_tables :
  list_Z_eqb (apply_T 1 (zrange 0 128)) c08_rot13_tab = true /\
  list_Z_eqb (apply_T 2 (zrange 0 128)) c08_lower_tab = true /\
  list_Z_eqb (apply_T 3 (zrange 0 128)) c08_upper_tab = true /\
  list_Z_eqb (apply_T 4 (zrange 0 128)) c08_swapcase_tab = true.
Proof. exact transform_tables_agree. Qed.
Print Assumptions C08_transform_tables.

(* the registry holds exactly the operators and text objects covered here *)
Theorem C08_binding_tables :
  list_list_Z_eqb operator_keys expected_operator_keys = true /\
  list_list_Z_eqb text_object_keys expected_text_object_keys = true.
Proof. exact binding_tables_agree. Qed.
Print Assumptions C08_binding_tables.

(* Non-vacuity: the hypotheses of C08_delete_span are met by dw on "abc def"
   at the 'd' of "def"... and by a linewise object. *)
Example C08_delete_span_applies :
  let st := st_of [97; 98; 99; 32; 100; 101; 102] 0 in
  let o := mkto 4 0 EXCL in
  charwise (ttype o) /\
  0 <= bcur (vbuf st) + fst (operator_range (bdoc (vbuf st)) o) /\
  bcur (vbuf st) + fst (operator_range (bdoc (vbuf st)) o) <
  bcur (vbuf st) + snd (operator_range (bdoc (vbuf st)) o) /\
  bcur (vbuf st) + snd (operator_range (bdoc (vbuf st)) o) <= len (btext (vbuf st)).
Proof. vm_compute. repeat split; try (left; reflexivity); intros H; discriminate H. Qed.
