(* C19 - Style resolution is a deterministic last-wins cascade, faithfully
   encoded.  Statements only; proofs are in Proofs/C19_*.v.
   Strings are code point lists; colours (r, g, b) are Python ints. *)
From Coq Require Import ZArith List Bool Sorting.Permutation Sorting.Sorted.
From PTK Require Import Lib.Sx Lib.Py Lib.C19_Str Gen.C19_Palette
     Model.C19_Palette Model.C19_Style Model.C19_Sgr
     Proofs.C19_PaletteFacts Proofs.C19_StrFacts Proofs.C19_StyleFacts Proofs.C19_SgrFacts
     Proofs.C19_StyleStringFacts Proofs.C19_ResolvedFacts
     Model.C19_FromDict Model.C19_Transform Model.C19_Cache
     Proofs.C19_FromDictFacts Proofs.C19_TransformFacts Proofs.C19_CacheFacts
     Model.C19_Merged Proofs.C19_MergedFacts Model.C19_Memoized Proofs.C19_MemoizedFacts
     Model.C19_Xterm Proofs.C19_XtermFacts Proofs.C19_EncodeFacts
     Proofs.C19_NoinheritFacts Proofs.C19_Vt100Facts Model.C19_Nested Proofs.C19_NestedFacts.
Import ListNotations.
Open Scope Z_scope.

(* ---- 256-colour map ---------------------------------------------------- *)

(* For ALL r g b in 0..255 the index returned by _256ColorCache is >= 16,
   addresses the regenerated table, minimises the squared distance over the
   entries with index >= 16, and is the lowest such index. *)
Theorem C19_256_nearest : forall r g b,
  0 <= r <= 255 -> 0 <= g <= 255 -> 0 <= b <= 255 ->
  exists c,
    16 <= color256 r g b < len colors_256 /\
    nth_error colors_256 (Z.to_nat (color256 r g b)) = Some c /\
    (forall j cj, 16 <= j -> nth_error colors_256 (Z.to_nat j) = Some cj ->
                  dist r g b c <= dist r g b cj) /\
    (forall j cj, 16 <= j < color256 r g b ->
                  nth_error colors_256 (Z.to_nat j) = Some cj ->
                  dist r g b c < dist r g b cj).
Proof. exact color256_nearest. Qed.
Print Assumptions C19_256_nearest.

(* A colour of the table (index >= 16) maps to the first index >= 16 holding
   it - for any table, any values. *)
Theorem C19_256_fixpoint : forall table i r g b,
  16 <= i -> nth_error table (Z.to_nat i) = Some (r, g, b) ->
  let k := color256_in table r g b in
  16 <= k <= i /\ nth_error table (Z.to_nat k) = Some (r, g, b) /\
  (forall j, 16 <= j < k -> nth_error table (Z.to_nat j) <> Some (r, g, b)).
Proof. exact color256_in_fixpoint. Qed.
Print Assumptions C19_256_fixpoint.

(* ---- 16-colour map ----------------------------------------------------- *)

(* For ALL r g b in 0..255 and any exclusion list: if some palette name is a
   candidate (not "ansidefault", not excluded - the exclusion list as coded,
   stale names included), the result is a candidate at minimal squared
   distance, the first such in the scan order of ANSI_COLORS_TO_RGB. *)
Theorem C19_16_nearest : forall r g b exclude,
  0 <= r <= 255 -> 0 <= g <= 255 -> 0 <= b <= 255 ->
  (exists n c, In (n, c) ansi_colors_to_rgb /\ candidate r g b exclude n = true) ->
  exists l1 c l2,
    ansi_colors_to_rgb = l1 ++ (closest_ansi r g b exclude, c) :: l2 /\
    candidate r g b exclude (closest_ansi r g b exclude) = true /\
    (forall n' c', In (n', c') l1 -> candidate r g b exclude n' = true ->
                   dist r g b c < dist r g b c') /\
    (forall n' c', In (n', c') l2 -> candidate r g b exclude n' = true ->
                   dist r g b c <= dist r g b c').
Proof. exact closest_ansi_nearest. Qed.
Print Assumptions C19_16_nearest.

(* The encoder excludes at most one name; then a candidate always exists. *)
Theorem C19_16_candidate_exists : forall r g b exclude,
  (List.length exclude <= 1)%nat ->
  exists n c, In (n, c) ansi_colors_to_rgb /\ candidate r g b exclude n = true.
Proof. exact candidate_exists_small_exclude. Qed.
Print Assumptions C19_16_candidate_exists.

(* The 16 palette colours map to themselves (finite; regenerated table). *)
Theorem C19_16_fixpoint : forall name r g b,
  In (name, (r, g, b)) ansi_colors_to_rgb -> name <> s_ansidefault ->
  closest_ansi r g b [] = name.
Proof. exact closest_ansi_fixpoint. Qed.
Print Assumptions C19_16_fixpoint.

(* ---- cascade ------------------------------------------------------------ *)
(* [table] is Style.class_names_and_attrs (any table, any style string, any
   default, also one with None fields). *)

(* Every resolved attribute is concrete (never None). *)
Theorem C19_concrete : forall table s d a,
  get_attrs table s d = Ok a ->
  a_color a <> None /\ a_bgcolor a <> None /\ a_bold a <> None /\ a_underline a <> None /\
  a_strike a <> None /\ a_italic a <> None /\ a_blink a <> None /\ a_reverse a <> None /\
  a_hidden a <> None.
Proof. exact get_attrs_concrete. Qed.
Print Assumptions C19_concrete.

(* The itertools.combinations enumeration as written: at the step introducing
   class c (with the classes [seen] before it) a rule with class set [names] is
   applied iff c is one of its classes and all the others are present. *)
Theorem C19_combo_iff_subset : forall seen c names,
  in_combos names (combos seen c) = true <-> (In c names /\ incl names (c :: seen)).
Proof. exact combo_iff_subset. Qed.
Print Assumptions C19_combo_iff_subset.

(* The list of applied entries is: default; the rules without class names in
   sheet order; then for the parts left to right - an inline part's parsed
   attributes, or for each expanded class name in order the rules that the
   subset criterion selects, in sheet order (entries_spec). *)
Theorem C19_application_order : forall table s d,
  list_of_attrs table s d = entries_spec table s d.
Proof. exact application_order. Qed.
Print Assumptions C19_application_order.

(* Every attribute of the result is the value of the LAST entry, in that
   order, that sets it (or "" / False if none does). *)
Theorem C19_last_wins : forall table s d a,
  get_attrs table s d = Ok a ->
  exists l, entries_spec table s d = Some l /\ all_last_wins l a.
Proof. exact get_attrs_last_wins. Qed.
Print Assumptions C19_last_wins.

(* merge_styles([Style(s1), ..., Style(sn)]) behaves as Style(s1 + ... + sn):
   same attributes, same exception, for every style string and default. *)
Theorem C19_merge_is_concat : forall sheets s d,
  merged_get sheets s d = style_get (List.concat sheets) s d.
Proof. exact merge_is_concat. Qed.
Print Assumptions C19_merge_is_concat.

Theorem C19_merged_table_is_concat : forall sheets ts,
  tables_of sheets = Ok ts -> mk_style (List.concat sheets) = Ok (List.concat ts).
Proof. exact merged_table_is_concat. Qed.
Print Assumptions C19_merged_table_is_concat.

(* ---- SGR encoding ------------------------------------------------------- *)

(* 24-bit round trip: for every attribute tuple whose colours are None, "",
   "default", an ANSI colour name or six hexadecimal digits (either case),
   the text emitted by _EscapeCodeCache(DEPTH_24_BIT), read by the CSI parser
   and _select_graphic_rendition from ANY prior decoder state, leaves the
   decoder holding exactly these attributes (state_of a: colours as the name
   or "#" + lower-case digits, flags by truth value), and the following text
   is parsed in the ground state with the corresponding style string. *)
Theorem C19_sgr_roundtrip_24 : forall a rest st style acc,
  rt_dom a ->
  parse_loop (escape_code 24 a ++ rest) Ground st style acc =
  parse_loop rest Ground (state_of a) (create_style_string (state_of a)) acc.
Proof. exact sgr_roundtrip_24_state. Qed.
Print Assumptions C19_sgr_roundtrip_24.

Theorem C19_sgr_roundtrip_24_fragment : forall a,
  rt_dom a ->
  ansi_fragments (escape_code 24 a ++ [120]) = Some [(create_style_string (state_of a), [120])].
Proof. exact sgr_roundtrip_24_fragment. Qed.
Print Assumptions C19_sgr_roundtrip_24_fragment.

(* The whole trip, back to an Attrs tuple: ANSI(emitted + "x"), the style of
   the "x" fragment resolved by an empty Style, is the canonical form of the
   original tuple (colours: "" for None/""/"default", the ANSI name, or the six
   digits in lower case; flags by truth value). *)
Theorem C19_sgr_roundtrip_24_attrs : forall a,
  rt_dom a -> decode_seq (escape_code 24 a) = Ok (canon a).
Proof. exact sgr_roundtrip_24_attrs. Qed.
Print Assumptions C19_sgr_roundtrip_24_attrs.

(* Every colour parse_color returns lies in that domain (ANSI name, six
   hexadecimal digits, "" or "default") ... *)
Theorem C19_parse_color_in_domain : forall t c,
  parse_color t = Some c -> color_ok (Some c) = true.
Proof. exact parse_color_in_domain. Qed.
Print Assumptions C19_parse_color_in_domain.

(* ... hence so do the colours of every RESOLVED Attrs, for any sheet and
   style string (and any default that does, e.g. DEFAULT_ATTRS) ... *)
Theorem C19_resolved_in_domain : forall rules s d a,
  rt_dom d -> style_get rules s d = Ok a -> rt_dom a.
Proof. exact resolved_in_domain. Qed.
Print Assumptions C19_resolved_in_domain.

(* ... and the sequence emitted for resolved attributes decodes back to the
   same attributes at 24-bit depth. *)
Theorem C19_sgr_roundtrip_resolved : forall rules s d a,
  rt_dom d -> style_get rules s d = Ok a ->
  decode_seq (escape_code 24 a) = Ok (canon a).
Proof. exact sgr_roundtrip_resolved. Qed.
Print Assumptions C19_sgr_roundtrip_resolved.

Example C19_default_in_domain : rt_dom DEFAULT_ATTRS.
Proof. exact default_in_domain. Qed.
Print Assumptions C19_default_in_domain.

(* parse_color as it stood before the fix d87ad65 did not have this property
   (finding C19-F1, repaired): "#zzzzzz" was accepted, now it is rejected. *)
Theorem C19_parse_color_pinned_refuted :
  exists t c, parse_color_pinned t = Some c /\ color_ok (Some c) = false /\ parse_color t = None.
Proof. exact parse_color_pinned_refuted. Qed.
Print Assumptions C19_parse_color_pinned_refuted.

(* 1-bit depth: no colour code at all. *)
Theorem C19_depth1_no_colour : forall fg bg, colors_to_code 1 fg bg = [].
Proof. exact depth1_no_colour. Qed.
Print Assumptions C19_depth1_no_colour.

(* The fuel of the digit printer always suffices. *)
Theorem C19_digits_fuel : forall base n, 2 <= base -> 0 <= n -> digits base n <> None.
Proof. exact digits_never_out_of_fuel. Qed.
Print Assumptions C19_digits_fuel.

(* Non-vacuity of the round-trip domain. *)
Example C19_rt_dom_example :
  rt_dom (mkA (Some [70; 70; 48; 48; 97; 98]) (Some (97 :: 110 :: 115 :: 105 :: [114; 101; 100]))
              (Some true) None (Some false) (Some true) None None (Some true)).
Proof. exact rt_dom_example. Qed.
Print Assumptions C19_rt_dom_example.

(* ---- Style.from_dict --------------------------------------------------- *)

(* Priority.MOST_PRECISE: the same rules, ordered by the number of class-name
   elements, rules of equal precision in dictionary order (stable sort). *)
Theorem C19_most_precise_order : forall items,
  Permutation (from_dict_rules true items) items /\
  StronglySorted (le_key precision_key) (from_dict_rules true items) /\
  (forall v, filter (key_is precision_key v) (from_dict_rules true items)
             = filter (key_is precision_key v) items).
Proof. exact most_precise_order. Qed.
Print Assumptions C19_most_precise_order.

(* ... and the cascade theorems hold for the order from_dict builds: the result
   is concrete and every attribute is the value of the last applicable entry
   in THAT order (for MOST_PRECISE: the most precise applicable rule wins, among
   equally precise ones the later dictionary entry). *)
Theorem C19_from_dict_last_wins : forall mp items s d a,
  from_dict_get mp items s d = Ok a ->
  exists table l,
    mk_style (from_dict_rules mp items) = Ok table /\
    entries_spec table s d = Some l /\ all_last_wins l a /\ concrete a.
Proof. exact from_dict_last_wins. Qed.
Print Assumptions C19_from_dict_last_wins.

(* ---- style transformations --------------------------------------------- *)
(* [opp], [adj]: the floating point kernels of get_opposite_color and
   AdjustBrightness (colorsys round trips), arbitrary functions here;
   kernel_ok = "returns six hexadecimal digits" (checked on the real code by
   the harness). *)

Theorem C19_transform_in_domain : forall opp adj, kernel_ok opp -> (forall mn mx, kernel_ok (adj mn mx)) ->
  forall t a a', rt_dom a -> transform opp adj t a = Ok a' -> rt_dom a'.
Proof. exact transform_in_domain. Qed.
Print Assumptions C19_transform_in_domain.

Theorem C19_transform_concrete : forall opp adj t a a',
  concrete a -> transform opp adj t a = Ok a' -> concrete a'.
Proof. exact transform_concrete. Qed.
Print Assumptions C19_transform_concrete.

(* The round trip extends through any transformation (swap light/dark, reverse,
   default colours, brightness, conditional, merged, dynamic) of resolved
   attributes. *)
Theorem C19_sgr_roundtrip_transformed : forall opp adj rules s d a t a',
  kernel_ok opp -> (forall mn mx, kernel_ok (adj mn mx)) -> rt_dom d ->
  style_get rules s d = Ok a -> transform opp adj t a = Ok a' ->
  concrete a' /\ decode_seq (escape_code 24 a') = Ok (canon a').
Proof. exact sgr_roundtrip_transformed. Qed.
Print Assumptions C19_sgr_roundtrip_transformed.

(* Totality: with valid brightness bounds and parseable default colours no
   transformation fails on in-domain (e.g. resolved) attributes. *)
Theorem C19_transform_total : forall opp adj,
  kernel_ok opp -> kernel_total_hex opp ->
  (forall mn mx, kernel_ok (adj mn mx)) -> (forall mn mx, kernel_total (adj mn mx)) ->
  forall t a, well_formed t = true -> rt_dom a -> exists a', transform opp adj t a = Ok a'.
Proof. exact transform_total. Qed.
Print Assumptions C19_transform_total.

(* Before the fix 65ab1ba AdjustBrightnessStyleTransformation raised ValueError
   on the resolved colour "default" (finding C19-F2, repaired). *)
Theorem C19_adjust_pinned_refuted :
  exists rules s a,
    style_get rules s DEFAULT_ATTRS = Ok a /\
    kernel_ok const_kernel /\ kernel_total const_kernel /\
    adjust_brightness_pinned const_kernel true false a = Err 1 /\
    adjust_brightness const_kernel true false a = Ok a.
Proof. exact adjust_pinned_refuted. Qed.
Print Assumptions C19_adjust_pinned_refuted.

(* ---- caches ------------------------------------------------------------- *)
(* _EscapeCodeCache (one per depth), _16ColorCache (fg, bg) and _256ColorCache
   as memo tables, the encoder running over them: after ANY history of
   queries, from any state satisfying the invariant (e.g. empty caches), every
   cached answer equals the uncached one. *)
Theorem C19_caches_transparent : forall qs w,
  world_inv w -> run_queries w qs = map pure_answer qs.
Proof. exact caches_transparent. Qed.
Print Assumptions C19_caches_transparent.

Theorem C19_caches_transparent_fresh : forall qs, run_queries EMPTY_W qs = map pure_answer qs.
Proof. exact caches_transparent_fresh. Qed.
Print Assumptions C19_caches_transparent_fresh.

(* ---- merged styles with dynamic sheets ---------------------------------- *)
(* Style objects with their invalidation hashes (Style: its identity; Dummy: 1;
   DynamicStyle: the hash of the sheet it returns now; merged: the tuple of the
   members' hashes) and _MergedStyle's one-entry cache of the combined Style,
   keyed by that hash. *)

(* The hash determines the rules: equal hashes, equal style_rules. *)
Theorem C19_hash_determines_rules : forall pool t env1 env2,
  inv_hash env1 t = inv_hash env2 t -> style_rules pool env1 t = style_rules pool env2 t.
Proof. exact hash_determines_rules. Qed.
Print Assumptions C19_hash_determines_rules.

(* After ANY history of look-ups interleaved with switches of the dynamic
   sheets (nested merges included), every look-up answers like a freshly built
   object for the sheets as they are NOW ... *)
Theorem C19_merged_cache_transparent : forall pool objs es env caches,
  Forall2 (cache_inv pool) objs caches ->
  run_events pool objs (env, caches) es = run_events_fresh pool objs env es.
Proof. exact merged_cache_transparent. Qed.
Print Assumptions C19_merged_cache_transparent.

Theorem C19_merged_cache_transparent_fresh : forall pool objs es,
  run_events pool objs ([], map (fun _ => None) objs) es = run_events_fresh pool objs [] es.
Proof. exact merged_cache_transparent_fresh. Qed.
Print Assumptions C19_merged_cache_transparent_fresh.

(* ... and a fresh merge is one sheet with the current rules concatenated. *)
Theorem C19_fresh_merged_is_concat : forall pool env l s,
  fresh_lookup pool env (SMerged l) s
  = style_get (flat_map (style_rules pool env) l) s DEFAULT_ATTRS.
Proof. exact fresh_merged_is_concat. Qed.
Print Assumptions C19_fresh_merged_is_concat.

(* ---- memoized get_opposite_color ---------------------------------------- *)
(* cache.memoized (SimpleCache, 1024 entries, first-in first-out eviction,
   exceptions not stored) around get_opposite_color: after any history of
   SwapLightAndDark transformations every answer is the unmemoised one. *)
Theorem C19_memoized_swap_transparent : forall opp l c, opp_inv opp c ->
  swap_history opp c l = map (transform opp (fun _ _ _ => None) TSwap) l.
Proof. exact memoized_swap_transparent. Qed.
Print Assumptions C19_memoized_swap_transparent.

Theorem C19_memoized_swap_transparent_fresh : forall opp l,
  swap_history opp [] l = map (transform opp (fun _ _ _ => None) TSwap) l.
Proof. exact memoized_swap_transparent_fresh. Qed.
Print Assumptions C19_memoized_swap_transparent_fresh.

(* ---- the palette is the fixed xterm-256 palette -------------------------- *)
(* xterm_256 (Model/C19_Xterm.v) is written down independently of the
   implementation: a terminal shows THIS colour for `38;5;n`. *)

Theorem C19_table_is_xterm : colors_256 = xterm_256.
Proof. exact colors_256_is_xterm. Qed.
Print Assumptions C19_table_is_xterm.

(* the decoder's table is "#rrggbb" of xterm colour n for every n in 0..255 *)
Theorem C19_decoder_table_is_xterm :
  forallb (fun ic : Z * rgb =>
             let '(r, g, b) := snd ic in
             match assocZ (fst ic) ansi_256_hex with
             | Some h => str_eqb h (35 :: hex02 r ++ hex02 g ++ hex02 b)
             | None => false
             end) (enumerate_from 0 xterm_256) = true
  /\ List.length ansi_256_hex = 256%nat.
Proof. exact ansi_256_hex_is_xterm. Qed.
Print Assumptions C19_decoder_table_is_xterm.

(* nearest colour OF THE XTERM PALETTE, for all r g b *)
Theorem C19_256_nearest_xterm : forall r g b,
  0 <= r <= 255 -> 0 <= g <= 255 -> 0 <= b <= 255 ->
  exists c,
    16 <= color256 r g b < 256 /\
    nth_error xterm_256 (Z.to_nat (color256 r g b)) = Some c /\
    (forall j cj, 16 <= j -> nth_error xterm_256 (Z.to_nat j) = Some cj ->
                  dist r g b c <= dist r g b cj) /\
    (forall j cj, 16 <= j < color256 r g b ->
                  nth_error xterm_256 (Z.to_nat j) = Some cj ->
                  dist r g b c < dist r g b cj).
Proof. exact color256_nearest_xterm. Qed.
Print Assumptions C19_256_nearest_xterm.

(* every xterm colour with index >= 16 maps to its own index *)
Theorem C19_256_xterm_fixpoint : forall i r g b,
  16 <= i -> nth_error xterm_256 (Z.to_nat i) = Some (r, g, b) -> color256 r g b = i.
Proof. exact color256_xterm_fixpoint. Qed.
Print Assumptions C19_256_xterm_fixpoint.

(* the table as coded before the fix 9cc52db (254 entries; 232 = (0,0,0);
   254, 255 missing) was not the xterm palette: (238,238,238) -> 231 although
   xterm colour 255 is exact, (8,8,8) -> 16 although xterm colour 232 is exact *)
Theorem C19_table_pinned_refuted :
  List.length colors_256_pinned = 254%nat /\
  nth_error colors_256_pinned 232 = Some (0, 0, 0) /\ nth_error xterm_256 232 = Some (8, 8, 8) /\
  color256_in colors_256_pinned 238 238 238 = 231 /\ color256_in xterm_256 238 238 238 = 255 /\
  nth_error xterm_256 255 = Some (238, 238, 238) /\
  color256_in colors_256_pinned 8 8 8 = 16 /\ color256_in xterm_256 8 8 8 = 232.
Proof. exact colors_256_pinned_refuted. Qed.
Print Assumptions C19_table_pinned_refuted.

(* ---- the lower-depth clause at the level of the ENCODER ------------------ *)

(* 8 bit: an RGB colour (six hexadecimal digits) is emitted as 38;5;n / 48;5;n
   with n the index (>= 16, lowest on ties) of a nearest xterm colour, and the
   decoder reads "#rrggbb" of exactly that xterm colour. *)
Theorem C19_encode8_nearest : forall bg fgc bgc s fa,
  hex6_b s = true ->
  exists r g b c,
    color_name_to_rgb s = Some (r, g, b) /\
    get_codes 8 fgc bgc s bg fa = ([(if bg then 48 else 38); 5; color256 r g b], fa) /\
    16 <= color256 r g b < 256 /\
    nth_error xterm_256 (Z.to_nat (color256 r g b)) = Some c /\
    (forall j cj, 16 <= j -> nth_error xterm_256 (Z.to_nat j) = Some cj -> dist r g b c <= dist r g b cj) /\
    (forall j cj, 16 <= j < color256 r g b -> nth_error xterm_256 (Z.to_nat j) = Some cj ->
                  dist r g b c < dist r g b cj) /\
    (forall rest st,
        sgr_loop ([(if bg then 48 else 38); 5; color256 r g b] ++ rest) st =
        sgr_loop rest (set_col bg (Some (let '(r2, g2, b2) := c in color_str r2 g2 b2)) st)).
Proof. exact encode8_nearest. Qed.
Print Assumptions C19_encode8_nearest.

(* 8 bit: an exact xterm colour (index >= 16) is emitted as its own index *)
Theorem C19_encode8_fixpoint : forall bg fgc bgc s fa i r g b,
  hex6_b s = true -> color_name_to_rgb s = Some (r, g, b) ->
  16 <= i -> nth_error xterm_256 (Z.to_nat i) = Some (r, g, b) ->
  get_codes 8 fgc bgc s bg fa = ([(if bg then 48 else 38); 5; i], fa).
Proof. exact encode8_fixpoint. Qed.
Print Assumptions C19_encode8_fixpoint.

(* 4 bit: the foreground is sent as the code of its nearest palette name; the
   background as the code of the nearest palette name EXCLUDING the
   foreground's name whenever the two colour strings differ (C19_16_nearest
   says what "nearest among the non-excluded" means). *)
Theorem C19_encode4_codes : forall fs bs rf gf bf rb gb bb,
  hex6_b fs = true -> hex6_b bs = true ->
  color_name_to_rgb fs = Some (rf, gf, bf) -> color_name_to_rgb bs = Some (rb, gb, bb) ->
  let nf := closest_ansi rf gf bf [] in
  let nb := closest_ansi rb gb bb (if negb (str_eqb fs bs) then [nf] else []) in
  colors_to_code 4 fs bs = [code_of false nf; code_of true nb].
Proof. exact encode4_codes. Qed.
Print Assumptions C19_encode4_codes.

(* the chosen name is a palette name and the decoder reads it back *)
Theorem C19_encode4_name : forall r g b ex,
  0 <= r <= 255 -> 0 <= g <= 255 -> 0 <= b <= 255 -> (List.length ex <= 1)%nat ->
  mem_str (closest_ansi r g b ex) ansi_color_names = true.
Proof. exact closest_is_name. Qed.
Print Assumptions C19_encode4_name.

Theorem C19_encode4_decode : forall n, mem_str n ansi_color_names = true ->
  (forall rest st, sgr_loop (code_of false n :: rest) st = sgr_loop rest (st_color (Some n) st)) /\
  (forall rest st, sgr_loop (code_of true n :: rest) st = sgr_loop rest (st_bgcolor (Some n) st)).
Proof. exact decode_name_codes. Qed.
Print Assumptions C19_encode4_decode.

(* the deliberate exception to "palette colours map to themselves": bg ff0000
   alone is ansibrightred (itself); with fg FE0000 (a different string that
   took ansibrightred) the same background is sent as ansired. *)
Theorem C19_encode4_exclusion_witness :
  exists fs bs,
    hex6_b fs = true /\ hex6_b bs = true /\
    (exists name, In (name, (255, 0, 0)) ansi_colors_to_rgb /\ color_name_to_rgb bs = Some (255, 0, 0) /\
                  colors_to_code 4 [] bs = [code_of true name] /\
                  colors_to_code 4 fs bs = [code_of false name; code_of true w_red]).
Proof. exact encode4_exclusion_witness. Qed.
Print Assumptions C19_encode4_exclusion_witness.

(* ---- round 6 ------------------------------------------------------------ *)

(* _parse_style_str: "noinherit" at ANY position of the rule string (words =
   non-empty, blank-free strings, joined by single spaces): the other words
   applied left to right to DEFAULT_ATTRS. *)
Theorem C19_noinherit_any_position : forall ws1 ws2,
  forallb word_ok ws1 = true -> forallb word_ok ws2 = true ->
  parse_style_str (join [32] (ws1 ++ s_noinherit :: ws2)) = apply_parts (ws1 ++ ws2) DEFAULT_ATTRS.
Proof. exact noinherit_any_position. Qed.
Print Assumptions C19_noinherit_any_position.

Theorem C19_noinherit_position_independent : forall ws1 ws2 ws1' ws2',
  forallb word_ok ws1 = true -> forallb word_ok ws2 = true ->
  forallb word_ok ws1' = true -> forallb word_ok ws2' = true ->
  ws1 ++ ws2 = ws1' ++ ws2' ->
  parse_style_str (join [32] (ws1 ++ s_noinherit :: ws2)) =
  parse_style_str (join [32] (ws1' ++ s_noinherit :: ws2')).
Proof. exact noinherit_position_independent. Qed.
Print Assumptions C19_noinherit_position_independent.

(* ONE Vt100_Output: the text set_attributes writes is a function of attrs and
   depth only, whatever was emitted before. *)
Theorem C19_vt100_history : forall calls : list (Z * attrs),
  run_queries EMPTY_W (map call_query calls) = map (fun c => AStr (escape_code (fst c) (snd c))) calls.
Proof. exact vt100_history. Qed.
Print Assumptions C19_vt100_history.

Theorem C19_vt100_after_any_history : forall pre depth a,
  run_queries EMPTY_W (pre ++ [QEsc depth a]) = map pure_answer pre ++ [AStr (escape_code depth a)].
Proof. exact vt100_after_any_history. Qed.
Print Assumptions C19_vt100_after_any_history.

(* ---- round 7: nested dynamic styles -------------------------------------- *)
(* A DynamicStyle may return a persistent object that is itself a _MergedStyle or a
   DynamicStyle (Model/C19_Nested.v; two layers).  The invalidation hash
   determines the rules across DIFFERENT objects and environments ... *)
Theorem C19_hash_rules_cross : forall pool t t' e e',
  inv_hash e t = inv_hash e' t' -> style_rules pool e t = style_rules pool e' t'.
Proof. exact hash_rules_cross. Qed.
Print Assumptions C19_hash_rules_cross.

(* ... so for an outer object (whose dynamic members may return inner merged /
   dynamic objects: tuple hashes inside tuple hashes) equal hashes in two
   situations mean equal style_rules ... *)
Theorem C19_nested_hash_determines_rules : forall pool inner t e0 e1 e0' e1',
  inv_hash1 e0 e1 inner t = inv_hash1 e0' e1' inner t ->
  style_rules1 pool e0 e1 inner t = style_rules1 pool e0' e1' inner t.
Proof. exact hash1_determines_rules. Qed.
Print Assumptions C19_nested_hash_determines_rules.

(* ... and after ANY history of switches of inner and outer slots, look-ups on
   the outer objects (which go through the inner objects' own caches) and
   look-ups on the inner objects directly, every answer is that of objects all
   built anew for the sheets as they are now. *)
Theorem C19_nested_cache_transparent : forall pool inner objs es st,
  Forall2 (cache_inv pool) inner (ns_c0 st) ->
  Forall2 (cache1_inv pool inner) objs (ns_c1 st) ->
  run_events1 pool inner objs st es = run_events1_fresh pool inner objs (ns_env0 st) (ns_env1 st) es.
Proof. exact nested_cache_transparent. Qed.
Print Assumptions C19_nested_cache_transparent.

Theorem C19_nested_cache_transparent_fresh : forall pool inner objs es,
  run_events1 pool inner objs (EMPTY_NS inner objs) es = run_events1_fresh pool inner objs [] [] es.
Proof. exact nested_cache_transparent_fresh. Qed.
Print Assumptions C19_nested_cache_transparent_fresh.

Theorem C19_fresh_nested_is_concat : forall pool e0 e1 inner l s,
  fresh_lookup1 pool e0 e1 inner (N1Merged l) s
  = style_get (flat_map (style_rules1 pool e0 e1 inner) l) s DEFAULT_ATTRS.
Proof. exact fresh_nested_is_concat. Qed.
Print Assumptions C19_fresh_nested_is_concat.

(* The theorems about the float kernels on Coq's primitive binary64 floats
   (C19_opposite_all_colours, C19_opposite_kernel_ok, C19_sgr_roundtrip_swap_real,
   C19_transform_real_total, C19_adjust_kernel_ansi_partial) are stated in
   Proofs/C19_FloatProps.v: they rest on vm_compute over the 2^24 colour cube,
   which coqc's kernel checks with its VM in under a minute but coqchk (no VM)
   would re-evaluate for about 40 minutes; harness/c19.py builds and gates that
   file on every run. *)
