(* C15 - Asynchronous completions, validation and suggestions are never applied
   stale.  Statements only; proofs are in Proofs/C15_*.v.

   [reach c t p ls] is the state of the transition system Model/C15_Async.v
   (the code of /repo as it is now) after the label list [ls] (user actions
   and scheduler steps in ANY order, any length, any arguments) from a fresh
   buffer with configuration [c], text [t] and cursor [p].  "All
   interleavings" = all label lists.  [reach_pinned] is the same for the code
   as it was at the pinned snapshot, before /repo commit 8bc6590 (finding
   C15-F1, repaired); it only appears in the `_pinned` theorems.
   [ntp cs] is CompletionState.new_text_and_position: the original text with
   the selected completion applied (the original when none is selected);
   None = IndexError. *)
From Coq Require Import ZArith List Bool.
From PTK Require Import Lib.Sx Lib.Py Model.C15_HistLines Model.C15_Async Proofs.C15_Base Proofs.C15_User
  Proofs.C15_Sched Proofs.C15_Cfg Proofs.C15_Theorems Proofs.C15_Rebase Proofs.C15_Round4 Proofs.C15_Det
  Proofs.C15_HistLines Proofs.C15_DetComp Proofs.C15_Round6 Model.C15_Thread Proofs.C15_Thread.
Import ListNotations.
Open Scope Z_scope.

(* Whenever a completion menu exists, buffer text and cursor are the original
   with the selected completion applied. *)
Theorem C15_menu_consistent : forall c t p ls,
  0 <= p <= len t ->
  forall cs, cst (reach c t p ls) = Some cs ->
    ntp cs = Some (text (reach c t p ls), cur (reach c t p ls)).
Proof. exact menu_consistent. Qed.
Print Assumptions C15_menu_consistent.

(* At the pinned snapshot this was false (C15-F1): Tab, a no-op completion
   arrives, Tab/Down selects it, the completer finishes and deletes it: a menu
   with complete_index = 0 and no completions. *)
Theorem C15_menu_consistent_pinned_refuted :
  exists c t p ls, 0 <= p <= len t /\
    ~ (forall cs, cst (reach_pinned c t p ls) = Some cs ->
         ntp cs = Some (text (reach_pinned c t p ls), cur (reach_pinned c t p ls))).
Proof. exact menu_consistent_pinned_refuted. Qed.
Print Assumptions C15_menu_consistent_pinned_refuted.

(* What did hold there: consistent, or exactly that broken shape. *)
Theorem C15_menu_consistent_pinned_partial : forall c t p ls,
  0 <= p <= len t ->
  forall cs, cst (reach_pinned c t p ls) = Some cs ->
    ntp cs = Some (text (reach_pinned c t p ls), cur (reach_pinned c t p ls)) \/
    (cs_comps cs = [] /\ cs_idx cs <> None).
Proof. exact menu_consistent_pinned_partial. Qed.
Print Assumptions C15_menu_consistent_pinned_partial.

(* Every completion in the menu was yielded by a generator that was called
   with the menu's original document (after insert_common_part: with the
   document the common part was then typed into); and while nothing is
   selected the buffer still holds exactly that original document: no text or
   cursor change happened since the menu was installed. *)
Theorem C15_completions_fresh : forall c t p ls,
  0 <= p <= len t ->
  forall cs, cst (reach c t p ls) = Some cs ->
    Forall (fun k => (cs_shift cs = [] /\ csrc k = cs_orig cs) \/
                     (cs_shift cs <> [] /\ cs_orig cs = doc_insert (csrc k) (cs_shift cs)))
           (cs_comps cs) /\
    (cs_idx cs = None -> cs_orig cs = cur_doc (reach c t p ls)).
Proof. exact (fun c => completions_fresh (current c)). Qed.
Print Assumptions C15_completions_fresh.

(* insert_common_part: every entry of the re-based menu
   (Completion.new_completion_from_position, applied to the document with the
   common part typed in) produces exactly the text and cursor that the
   completer's completion produced on the document it was computed from.
   [common_suffix] is get_common_complete_suffix (with _commonprefix = common
   prefix of the min and the max suffix); [apply_comp] is what
   new_text_and_position does with one completion. *)
Theorem C15_rebase_same_result : forall d l common c,
  0 <= dcur d <= len (dtext d) ->
  common_suffix d l = common -> common <> [] -> In c l -> cstart c <= 0 ->
  apply_comp (doc_insert d common) (new_from_pos (len common) c) = apply_comp d c.
Proof. exact rebase_same_result. Qed.
Print Assumptions C15_rebase_same_result.

(* A published verdict was computed from a document with the current text. *)
Theorem C15_verdict_fresh : forall c t p ls,
  0 <= p <= len t -> vst (reach c t p ls) <> 0 ->
  exists d, vsrc (reach c t p ls) = Some d /\ dtext d = text (reach c t p ls).
Proof. exact (fun c => verdict_fresh (current c)). Qed.
Print Assumptions C15_verdict_fresh.

(* A displayed suggestion was computed from a document with the current text. *)
Theorem C15_suggestion_fresh : forall c t p ls,
  0 <= p <= len t ->
  forall sg d, sug (reach c t p ls) = Some (sg, d) -> dtext d = text (reach c t p ls).
Proof. exact (fun c => suggestion_fresh (current c)). Qed.
Print Assumptions C15_suggestion_fresh.

(* From "nothing selected", k+1 x complete_next selects completion k (k < n),
   the text being the original with completion k applied ... *)
Theorem C15_cycle_next : forall c t p ls cs (k : nat),
  0 <= p <= len t ->
  cst (reach c t p ls) = Some cs -> cs_idx cs = None -> Z.of_nat k < len (cs_comps cs) ->
  let s' := run (reach c t p ls) (repeat (CompleteNext 1 false) (S k)) in
  cst s' = Some (cs_with_idx cs (Some (Z.of_nat k))) /\
  ntp (cs_with_idx cs (Some (Z.of_nat k))) = Some (text s', cur s').
Proof. exact (fun c => cycle_next (current c)). Qed.
Print Assumptions C15_cycle_next.

(* ... and n+1 x complete_next wraps to "nothing selected", the original text
   and cursor, the same menu object. *)
Theorem C15_cycle_next_wraps : forall c t p ls cs,
  0 <= p <= len t ->
  cst (reach c t p ls) = Some cs -> cs_idx cs = None -> 1 <= len (cs_comps cs) ->
  let s' := run (reach c t p ls) (repeat (CompleteNext 1 false) (S (Z.to_nat (len (cs_comps cs))))) in
  cst s' = Some cs /\ text s' = dtext (cs_orig cs) /\ cur s' = dcur (cs_orig cs).
Proof. exact (fun c => cycle_next_wraps (current c)). Qed.
Print Assumptions C15_cycle_next_wraps.

(* complete_previous visits them in the reverse order n-1, n-2, ... *)
Theorem C15_cycle_prev : forall c t p ls cs (k : nat),
  0 <= p <= len t ->
  cst (reach c t p ls) = Some cs -> cs_idx cs = None -> Z.of_nat k < len (cs_comps cs) ->
  let s' := run (reach c t p ls) (repeat (CompletePrev 1 false) (S k)) in
  cst s' = Some (cs_with_idx cs (Some (len (cs_comps cs) - 1 - Z.of_nat k))) /\
  ntp (cs_with_idx cs (Some (len (cs_comps cs) - 1 - Z.of_nat k))) = Some (text s', cur s').
Proof. exact (fun c => cycle_prev (current c)). Qed.
Print Assumptions C15_cycle_prev.

(* ... and is the inverse of complete_next from any selection (every
   selection is valid: C15_menu_consistent). *)
Theorem C15_cycle_inverse : forall c t p ls cs,
  0 <= p <= len t ->
  cst (reach c t p ls) = Some cs ->
  match cs_idx cs with None => True | Some i => 0 <= i < len (cs_comps cs) end ->
  1 <= len (cs_comps cs) ->
  let s1 := run (reach c t p ls) [CompleteNext 1 false; CompletePrev 1 false] in
  let s2 := run (reach c t p ls) [CompletePrev 1 false; CompleteNext 1 false] in
  (cst s1 = Some cs /\ ntp cs = Some (text s1, cur s1)) /\
  (cst s2 = Some cs /\ ntp cs = Some (text s2, cur s2)).
Proof. exact (fun c => next_prev_inverse (current c)). Qed.
Print Assumptions C15_cycle_inverse.

(* Cancelling restores the original text and cursor and closes the menu,
   without raising. *)
Theorem C15_cancel : forall c t p ls,
  0 <= p <= len t ->
  forall cs, cst (reach c t p ls) = Some cs ->
    snd (step (reach c t p ls) Cancel) = 0 /\ cst (apply (reach c t p ls) Cancel) = None /\
    text (apply (reach c t p ls) Cancel) = dtext (cs_orig cs) /\
    cur (apply (reach c t p ls) Cancel) = dcur (cs_orig cs).
Proof. exact cancel_restores. Qed.
Print Assumptions C15_cancel.

(* At the pinned snapshot cancel_completion could raise IndexError (status 2)
   with the menu left open (same witness, C15-F1) ... *)
Theorem C15_cancel_pinned_refuted :
  exists c t p ls, 0 <= p <= len t /\
    (exists cs, cst (reach_pinned c t p ls) = Some cs) /\ snd (step (reach_pinned c t p ls) Cancel) = 2.
Proof. exact cancel_pinned_refuted. Qed.
Print Assumptions C15_cancel_pinned_refuted.

(* ... and only there. *)
Theorem C15_cancel_pinned_partial : forall c t p ls,
  0 <= p <= len t ->
  forall cs, cst (reach_pinned c t p ls) = Some cs -> ~ (cs_comps cs = [] /\ cs_idx cs <> None) ->
    snd (step (reach_pinned c t p ls) Cancel) = 0 /\ cst (apply (reach_pinned c t p ls) Cancel) = None /\
    text (apply (reach_pinned c t p ls) Cancel) = dtext (cs_orig cs) /\
    cur (apply (reach_pinned c t p ls) Cancel) = dcur (cs_orig cs).
Proof. exact cancel_pinned_partial. Qed.
Print Assumptions C15_cancel_pinned_partial.

(* --- counts other than 1 (complete_next(count) of Up/Down with a numeric
   argument, the menu's mouse scrolling) -----------------------------------------
   For EVERY count (zero and negative included: Meta-minus), from a selection i
   that is not the last, complete_next(count) selects i + count clamped to
   0..n-1 - it never wraps within one call and never raises ... *)
Theorem C15_next_count : forall c t p ls cs i count w,
  0 <= p <= len t ->
  cst (reach c t p ls) = Some cs -> cs_idx cs = Some i -> i <> len (cs_comps cs) - 1 ->
  exists s', step (reach c t p ls) (CompleteNext count w) = (s', 0) /\
    cst s' = Some (cs_with_idx cs (Some (Z.max 0 (Z.min (len (cs_comps cs) - 1) (i + count))))) /\
    ntp (cs_with_idx cs (Some (Z.max 0 (Z.min (len (cs_comps cs) - 1) (i + count))))) = Some (text s', cur s').
Proof. exact reach_next_count. Qed.
Print Assumptions C15_next_count.

(* ... and complete_previous(count) from a selection i > 0 selects i - count
   clamped to 0..n-1. *)
Theorem C15_prev_count : forall c t p ls cs i count w,
  0 <= p <= len t ->
  cst (reach c t p ls) = Some cs -> cs_idx cs = Some i -> i <> 0 ->
  exists s', step (reach c t p ls) (CompletePrev count w) = (s', 0) /\
    cst s' = Some (cs_with_idx cs (Some (Z.max 0 (Z.min (len (cs_comps cs) - 1) (i - count))))) /\
    ntp (cs_with_idx cs (Some (Z.max 0 (Z.min (len (cs_comps cs) - 1) (i - count))))) = Some (text s', cur s').
Proof. exact reach_prev_count. Qed.
Print Assumptions C15_prev_count.

(* From the last entry complete_next(count, disable_wrap_around=True) does
   nothing, and with wrapping allowed it goes to "nothing selected" (original
   text and cursor) - for every count; ... *)
Theorem C15_next_from_last : forall c t p ls cs count,
  0 <= p <= len t ->
  cst (reach c t p ls) = Some cs -> cs_idx cs = Some (len (cs_comps cs) - 1) ->
  step (reach c t p ls) (CompleteNext count true) = (reach c t p ls, 0) /\
  exists s', step (reach c t p ls) (CompleteNext count false) = (s', 0) /\
    cst s' = Some (cs_with_idx cs None) /\ text s' = dtext (cs_orig cs) /\ cur s' = dcur (cs_orig cs).
Proof. exact reach_next_from_last. Qed.
Print Assumptions C15_next_from_last.

(* ... symmetrically complete_previous from the first entry; ... *)
Theorem C15_prev_from_first : forall c t p ls cs count,
  0 <= p <= len t ->
  cst (reach c t p ls) = Some cs -> cs_idx cs = Some 0 ->
  step (reach c t p ls) (CompletePrev count true) = (reach c t p ls, 0) /\
  exists s', step (reach c t p ls) (CompletePrev count false) = (s', 0) /\
    cst s' = Some (cs_with_idx cs None) /\ text s' = dtext (cs_orig cs) /\ cur s' = dcur (cs_orig cs).
Proof. exact reach_prev_from_first. Qed.
Print Assumptions C15_prev_from_first.

(* ... and from "nothing selected" next selects the first and previous the
   last entry, whatever count and disable_wrap_around are.  With
   C15_next_count / C15_prev_count this covers every selection, every count,
   both values of the flag. *)
Theorem C15_next_prev_from_none : forall c t p ls cs count w,
  0 <= p <= len t ->
  cst (reach c t p ls) = Some cs -> cs_idx cs = None -> 1 <= len (cs_comps cs) ->
  (exists s', step (reach c t p ls) (CompleteNext count w) = (s', 0) /\
     cst s' = Some (cs_with_idx cs (Some 0)) /\ ntp (cs_with_idx cs (Some 0)) = Some (text s', cur s')) /\
  (exists s', step (reach c t p ls) (CompletePrev count w) = (s', 0) /\
     cst s' = Some (cs_with_idx cs (Some (len (cs_comps cs) - 1))) /\
     ntp (cs_with_idx cs (Some (len (cs_comps cs) - 1))) = Some (text s', cur s')).
Proof. exact reach_from_none. Qed.
Print Assumptions C15_next_prev_from_none.

(* Before /repo commit c676c2a the index was clamped on one side only and a
   negative count raised AssertionError from go_to_index (findings C15-F2 /
   C15-F3, repaired): complete_next as it was, on a reachable consistent menu. *)
Theorem C15_negative_count_pinned_refuted :
  exists c t p ls count, 0 <= p <= len t /\
    (exists cs, cst (reach c t p ls) = Some cs /\ ntp cs = Some (text (reach c t p ls), cur (reach c t p ls))) /\
    complete_next_pinned (reach c t p ls) count false = (reach c t p ls, 1).
Proof. exact negative_count_pinned_raises. Qed.
Print Assumptions C15_negative_count_pinned_refuted.

(* --- reset(): the next prompt ------------------------------------------------------
   reset() clears menu, verdict and suggestion but leaves the coroutines of the
   previous prompt suspended where they are ... *)
Theorem C15_reset_clears : forall c t p ls t' p',
  0 <= p' <= len t' ->
  let s := reach c t p ls in let s' := apply s (Reset t' p') in
  text s' = t' /\ cur s' = p' /\ cst s' = None /\ vst s' = 0 /\ sug s' = None /\
  ccos s' = ccos s /\ vcos s' = vcos s /\ scos s' = scos s.
Proof. exact reach_reset. Qed.
Print Assumptions C15_reset_clears.

(* ... and when they resume they publish nothing unless the buffer's document
   is (again) the one they were called with: [reach] includes Reset and
   ValidateAndHandle, so C15_completions_fresh / C15_verdict_fresh /
   C15_suggestion_fresh / C15_menu_consistent hold across prompts.  In detail
   (any state): a validator or suggester whose document differs publishes
   nothing and asks again for the current document; *)
Theorem C15_late_validator : forall s k ok d,
  get_nth (vcos s) k = Some d -> doc_eqb (cur_doc s) d = false ->
  let s' := fst (vreturn s k ok) in
  vst s' = vst s /\ vsrc s' = vsrc s /\ sug s' = sug s /\ cst s' = cst s /\ text s' = text s /\ cur s' = cur s /\
  (vst s = 0 -> vcos s' = replace_nth (vcos s) k (cur_doc s)).
Proof. exact late_validator. Qed.
Print Assumptions C15_late_validator.

Theorem C15_late_suggester : forall s k v d,
  get_nth (scos s) k = Some d -> doc_eqb (cur_doc s) d = false ->
  let s' := fst (sreturn s k v) in
  sug s' = sug s /\ vst s' = vst s /\ cst s' = cst s /\ text s' = text s /\ cur s' = cur s /\
  (sug s = None -> scos s' = remove_nth (scos s) k ++ [cur_doc s]).
Proof. exact late_suggester. Qed.
Print Assumptions C15_late_suggester.

(* a completer whose menu is gone installs none of the completions it
   delivers: no menu afterwards, or (the text before the cursor only grew:
   _Retry) a new empty menu for the document as it is now. *)
Theorem C15_late_completer : forall s k t st s' e,
  cst s = None -> (cyield s k t st = (s', e) \/ cend s k = (s', e)) ->
  (cst s' = None \/
   exists cs, cst s' = Some cs /\ cs_comps cs = [] /\ cs_idx cs = None /\ cs_orig cs = cur_doc s') /\
  text s' = text s /\ cur s' = cur s /\ vst s' = vst s /\ sug s' = sug s.
Proof.
  intros s k t st s' e H [A|A]; [exact (late_completer_yield s k t st s' e H A)|exact (late_completer_end s k s' e H A)].
Qed.
Print Assumptions C15_late_completer.

(* --- the threaded wrappers ------------------------------------------------------
   ThreadedValidator / ThreadedAutoSuggest run a function of the document in a
   worker thread; run_in_executor hands the value to the event loop, where it
   arrives as a VReturn / SReturn label.  If every such label (and every
   synchronous validate) carries the function's value for the document the
   call was made with ([det_run]), then at every moment the verdict shown is
   the validator's verdict for the text shown and the suggestion shown is the
   suggester's suggestion for the text shown - the oracle of the real-thread
   stress stream, for every label list. *)
Theorem C15_threaded_values : forall (fvalid : list Z -> bool) (fsugg : list Z -> option (list Z)) c t p ls,
  0 <= p <= len t -> hval c = true -> det_run fvalid fsugg (init c t p) ls ->
  let s := run (init c t p) ls in
  (vst s <> 0 -> vst s = (if fvalid (text s) then 1 else 2)) /\
  (forall sg d, sug s = Some (sg, d) -> fsugg (text s) = Some sg).
Proof. exact det_shown. Qed.
Print Assumptions C15_threaded_values.

(* At most one completer, validator and suggester is past its
   `_only_one_at_a_time` guard, and none when the guard's flag is clear. *)
Theorem C15_single_flight : forall c t p ls,
  0 <= p <= len t ->
  (length (ccos (reach c t p ls)) <= 1)%nat /\
  (length (vcos (reach c t p ls)) <= 1)%nat /\
  (length (scos (reach c t p ls)) <= 1)%nat /\
  (crun (reach c t p ls) = false -> ccos (reach c t p ls) = []) /\
  (vrun (reach c t p ls) = false -> vcos (reach c t p ls) = []) /\
  (srun (reach c t p ls) = false -> scos (reach c t p ls) = []).
Proof. exact (fun c => single_flight (current c)). Qed.
Print Assumptions C15_single_flight.

(* Non-vacuity: a menu with two completions, the second selected and applied
   while the completer is still loading (with validator and suggester having
   run), is reachable; and so is the menu that used to break: the single no-op
   completion selected, completer finished - still there, still selected. *)
Example C15_reachable :
  let s := reach (mkcfg true true true true 10000 true) [97] 1
             [Insert [98]; Tick; VReturn 0 true; SReturn 0 (Some [120]);
              CYield 0 [97; 98; 99] (-2); CYield 0 [97; 98; 100] (-2);
              CompletePrev 1 false] in
  text s = [97; 98; 100] /\ length (ccos s) = 1%nat /\
  exists cs, cst s = Some cs /\ cs_idx cs = Some 1 /\ len (cs_comps cs) = 2.
Proof. vm_compute. split; [reflexivity|]. split; [reflexivity|]. eexists. repeat split. Qed.

(* the synchronous validate() of the Enter key racing with the asynchronous
   validator: the ValidationError moves the cursor, the late answer of the
   validator in flight is dropped (its document is no longer the buffer's) *)
Example C15_sync_validate_race :
  let s := reach (mkcfg false true true false 10000 true) [97; 98] 2
             [Insert [99]; Tick; Validate false 1 true; VReturn 0 true] in
  vst s = 2 /\ cur s = 1 /\ vcos s = [] /\ vrun s = false /\
  exists d, vsrc s = Some d /\ dtext d = text s.
Proof. vm_compute. repeat split. eexists. split; reflexivity. Qed.

(* Enter while completer, validator and suggester of the accepted line are
   still in flight: the next prompt starts empty, their late results are all
   dropped *)
Example C15_accept_with_everything_in_flight :
  let s := reach (mkcfg true true true true 10000 true) [97] 1
             [Insert [98]; Tick; ValidateAndHandle true 0 false;
              CYield 0 [97; 98; 99] (-2); VReturn 0 false; SReturn 0 (Some [120])] in
  text s = [] /\ cst s = None /\ vst s = 0 /\ sug s = None /\ ccos s = [] /\ length (vcos s) = 1%nat.
Proof. vm_compute. repeat split. Qed.

(* a validator WITHOUT validate_while_typing: no validator task is ever
   created, the synchronous validate() still raises and moves the cursor *)
Example C15_validator_not_while_typing :
  let s := reach (mkcfg false true false false 10000 true) [97] 1 [Insert [98]; Tick; Validate false 0 true] in
  vst s = 2 /\ cur s = 0 /\ pending s = [] /\ vcos s = [].
Proof. vm_compute. repeat split. Qed.

(* a cursor move forgets a VALID verdict (commit 826cb7e) and keeps an error *)
Example C15_cursor_move_forgets_valid :
  let c := mkcfg false true true false 10000 true in
  vst (reach c [97] 1 [Insert [98]; Tick; VReturn 0 true]) = 1 /\
  vst (reach c [97] 1 [Insert [98]; Tick; VReturn 0 true; MoveCursor 0]) = 0 /\
  vst (reach c [97] 1 [Insert [98]; Tick; VReturn 0 false; MoveCursor 0]) = 2.
Proof. vm_compute. repeat split. Qed.

Example C15_former_witness_now_fine :
  let s := reach w_cfg [97; 98] 2 w_labels in
  exists cs, cst s = Some cs /\ cs_idx cs = Some 0 /\ len (cs_comps cs) = 1 /\
             ntp cs = Some (text s, cur s).
Proof. vm_compute. eexists. repeat split. Qed.

(* ---- round 6: the list start_history_lines_completion computes ------------
   [hist_lines wl t p]: (text, start_position) of the completions the method
   hands to _set_completions for the working lines [wl] and the document
   (t, p) (Model/C15_HistLines.v, white space = the regenerated str.isspace
   table).  [hl_current_line t p] = document.current_line_before_cursor.lstrip(). *)

(* every entry is a stripped non-empty line of a working line that starts with
   the left-stripped current line before the cursor, and replaces exactly it *)
Theorem C15_history_lines_sound : forall wl t p l st,
  In (l, st) (hist_lines wl t p) ->
  st = - len (hl_current_line t p) /\ st <= 0 /\ l <> [] /\
  startswith l (hl_current_line t p) = true /\
  exists s l0, In s wl /\ In l0 (split_on NL s) /\ l = strip_by hl_space l0.
Proof. exact hist_sound. Qed.
Print Assumptions C15_history_lines_sound.

(* every such line is in the menu ... *)
Theorem C15_history_lines_complete : forall wl t p s l0,
  In s wl -> In l0 (split_on NL s) ->
  strip_by hl_space l0 <> [] -> startswith (strip_by hl_space l0) (hl_current_line t p) = true ->
  In (strip_by hl_space l0, - len (hl_current_line t p)) (hist_lines wl t p).
Proof. exact hist_complete. Qed.
Print Assumptions C15_history_lines_complete.

(* ... once *)
Theorem C15_history_lines_nodup : forall wl t p, NoDup (map fst (hist_lines wl t p)).
Proof. exact hist_nodup. Qed.
Print Assumptions C15_history_lines_nodup.

(* selecting an entry keeps the whole text before the cursor and inserts the
   rest of the found line at the cursor ([apply_comp] = new_text_and_position
   for one completion) *)
Theorem C15_history_lines_extends : forall wl t p l st src,
  0 <= p <= len t -> In (l, st) (hist_lines wl t p) ->
  apply_comp (mkdoc t p) (mkc l st src) =
  (slice_to t p ++ skipn (length (hl_current_line t p)) l ++ slice_from t p,
   p + len l - len (hl_current_line t p)).
Proof. exact hist_apply_extends. Qed.
Print Assumptions C15_history_lines_extends.

(* after ANY schedule, with ANY history window: the call never raises and
   installs a new menu for the CURRENT document (not for an older one) whose
   entries are exactly that list, each computed from the current document,
   entry 0 selected and applied (none when the list is empty) *)
Theorem C15_history_lines_menu : forall c t p ls before after s' e,
  0 <= p <= len t ->
  let s := reach c t p ls in
  step s (HistoryLines before after) = (s', e) ->
  let l := hist_lines (before ++ [text s] ++ after) (text s) (cur s) in
  e = 0 /\
  exists cs, cst s' = Some cs /\ cs_orig cs = cur_doc s /\
             map (fun x => (ctext x, cstart x)) (cs_comps cs) = l /\
             Forall (fun x => csrc x = cur_doc s) (cs_comps cs) /\
             cs_idx cs = (match l with [] => None | _ => Some 0 end) /\
             ntp cs = Some (text s', cur s').
Proof. exact reach_hist_step. Qed.
Print Assumptions C15_history_lines_menu.

(* a multi-line buffer "x\n  a" between an older (" ab \nb") and a newer
   ("ac\nab") working line: the current line before the cursor, left-stripped,
   is "a"; found, most recent first: "ac", the current line "a" itself, "ab"
   (once) *)
Example C15_history_lines_example :
  hist_lines [[32; 97; 98; 32; 10; 98]; [120; 10; 32; 32; 97]; [97; 99; 10; 97; 98]] [120; 10; 32; 32; 97] 5
  = [([97; 99], -1); ([97], -1); ([97; 98], -1)].
Proof. vm_compute. reflexivity. Qed.

(* ---- round 6: the executor hand-off for the completion list ----------------
   The completion-list analogue of C15_threaded_values.  ThreadedCompleter /
   generator_to_async_generator deliver the items of
   completer.get_completions(document) - a function [f] of the document the
   call was made with - one by one.  [dc_run f s ls]: every CYield of [ls]
   that the code is going to append carries the item of [f] at the
   generator's position, and a CEnd comes when the list is exhausted; the
   position is the length of the menu's list (while proceed() holds every
   delivered item was appended and nothing else writes the list).  Nothing
   is asked of the other labels, of their order or of their number. *)

(* while the stream is running, the menu it fills is a prefix of the
   completer's list for the document the menu is for (never items of an
   older call) *)
Theorem C15_threaded_completions : forall (f : doc -> list (str * Z)) c t p ls,
  0 <= p <= len t -> dc_run f (init (current c) t p) ls ->
  let s := reach c t p ls in
  forall co cs, In co (ccos s) -> cst s = Some cs -> cs_id cs = cc_id co ->
    cc_doc co = cs_orig cs /\
    map (fun x => (ctext x, cstart x)) (cs_comps cs) = firstn (length (cs_comps cs)) (f (cs_orig cs)).
Proof. intros f c t p ls. exact (det_loading f (current c) t p ls). Qed.
Print Assumptions C15_threaded_completions.

(* ... and at the moment the generator ends it is the whole list *)
Theorem C15_threaded_completions_loaded : forall (f : doc -> list (str * Z)) c t p ls k,
  0 <= p <= len t -> dc_run f (init (current c) t p) (ls ++ [CEnd k]) ->
  let s := reach c t p ls in
  forall co cs, get_nth (ccos s) k = Some co -> cst s = Some cs -> cs_id cs = cc_id co ->
    map (fun x => (ctext x, cstart x)) (cs_comps cs) = f (cs_orig cs).
Proof. intros f c t p ls k. exact (det_loaded f (current c) t p ls k). Qed.
Print Assumptions C15_threaded_completions_loaded.

(* the hypothesis is satisfiable: a completer with two items, the user types
   while the first stream runs (text only grew: the coroutine restarts for the
   new document and delivers the list for THAT document) *)
Example C15_threaded_completions_example :
  let f := fun d : doc => if dcur d =? 1 then [([97; 98], -1); ([97; 99], -1)] else [([97; 98; 99], -2)] in
  let ls := [StartCompletion 0; Tick; CYield 0 [97; 98] (-1); Insert [98]; CYield 0 [97; 99] (-1);
             CYield 0 [97; 98; 99] (-2); CEnd 0] in
  dc_run f (init (current w_cfg) [97] 1) ls /\
  exists cs, cst (reach w_cfg [97] 1 ls) = Some cs /\ cs_orig cs = mkdoc [97; 98] 2 /\
             map (fun x => (ctext x, cstart x)) (cs_comps cs) = [([97; 98; 99], -2)].
Proof.
  split.
  - cbn [dc_run]. repeat split;
      try (intros co cs Hg Hc Hid; vm_compute in Hg, Hc; inversion Hg; inversion Hc; subst; vm_compute in Hid |- *;
           try discriminate; reflexivity).
  - vm_compute. eexists. repeat split.
Qed.

(* ---- round 6: the single-completion no-op test ------------------------------
   completion_does_nothing(document, completion) - which decides whether the
   only completion of a finished stream is dropped - is True exactly when
   applying the completion leaves text and cursor unchanged, for every start
   position from -len(text_before_cursor) to 0 (0: only the empty text). *)
Theorem C15_does_nothing_exact : forall d c,
  0 <= dcur d <= len (dtext d) -> - len (tbc d) <= cstart c <= 0 ->
  (does_nothing d c = true <-> apply_comp d c = (dtext d, dcur d)).
Proof. exact does_nothing_exact. Qed.
Print Assumptions C15_does_nothing_exact.

(* outside that range (a completer that claims to replace more than there is
   before the cursor) the Python slice text_before_cursor[len + start:] wraps
   around: Completion('b', -3) on 'ab' counts as "does nothing" although
   applying it gives 'b'.  Not a staleness defect; completers are documented
   to keep start_position inside the text. *)
Example C15_does_nothing_wraps_outside :
  let d := mkdoc [97; 98] 2 in let c := mkc [98] (-3) d in
  does_nothing d c = true /\ apply_comp d c = ([98], 1).
Proof. vm_compute. split; reflexivity. Qed.

(* ---- round 7: at most one completer run per buffer at any time ---------------
   Model/C15_Thread.v: the producer thread of generator_to_async_generator
   under ThreadedCompleter and Buffer's async completer (`running` guard,
   aclosing, `quitting`, the join `await runner_f` in the async generator's
   finally, _Retry).  [trun_all (tinit true) ls]: the state after ANY list of
   start_completion / cancel / typing / "the thread of run i computes one more
   item or finds the iterable exhausted" steps, the code as it is.
   [computing s]: the producer threads that are inside
   completer.get_completions() in state s. *)
Theorem C15_one_completer_run : forall ls,
  let s := trun_all (tinit true) ls in
  (length (computing s) <= 1)%nat /\ (computing s <> [] -> t_running s = true).
Proof. exact one_producer. Qed.
Print Assumptions C15_one_completer_run.

(* what the join in aclose() is for ([tinit false]: join only after a normally
   exhausted stream): Tab, one item arrives, the user types, the next item
   makes the consumer abandon the stream and restart for the new text while
   the thread for the old text is still inside the completer *)
Theorem C15_one_completer_run_needs_the_join :
  exists ls, length (computing (trun_all (tinit false) ls)) = 2%nat.
Proof. exact one_producer_needs_join. Qed.
Print Assumptions C15_one_completer_run_needs_the_join.
