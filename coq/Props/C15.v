(* C15 - Asynchronous completions, validation and suggestions are never applied
   stale.  Statements only; proofs are in Proofs/C15_*.v.

   [reach c t p ls] is the state of the transition system Model/C15_Async.v
   (the code of /repo as it is now) after the label list [ls] (user actions
   and scheduler steps in ANY order, any length, any arguments) from a fresh
   buffer with configuration [c], text [t] and cursor [p].  "All
   interleavings" = all label lists.  [reach_pinned] is the same for the code
   as it was at the pinned snapshot, before /repo commit 8bc6590 (finding
   C15-F1, repaired); it only appears in the `_pinned` theorems.
   [ntp cs] is CompletionState.new_text_and_position: the original text with
   the selected completion applied (the original when none is selected);
   None = IndexError. *)
From Coq Require Import ZArith List Bool.
From PTK Require Import Lib.Sx Lib.Py Model.C15_Async Proofs.C15_Base Proofs.C15_User
  Proofs.C15_Sched Proofs.C15_Cfg Proofs.C15_Theorems Proofs.C15_Rebase.
Import ListNotations.
Open Scope Z_scope.

(* Whenever a completion menu exists, buffer text and cursor are the original
   with the selected completion applied. *)
Theorem C15_menu_consistent : forall c t p ls,
  0 <= p <= len t ->
  forall cs, cst (reach c t p ls) = Some cs ->
    ntp cs = Some (text (reach c t p ls), cur (reach c t p ls)).
Proof. exact menu_consistent. Qed.
Print Assumptions C15_menu_consistent.

(* At the pinned snapshot this was false (C15-F1): Tab, a no-op completion
   arrives, Tab/Down selects it, the completer finishes and deletes it: a menu
   with complete_index = 0 and no completions. *)
Theorem C15_menu_consistent_pinned_refuted :
  exists c t p ls, 0 <= p <= len t /\
    ~ (forall cs, cst (reach_pinned c t p ls) = Some cs ->
         ntp cs = Some (text (reach_pinned c t p ls), cur (reach_pinned c t p ls))).
Proof. exact menu_consistent_pinned_refuted. Qed.
Print Assumptions C15_menu_consistent_pinned_refuted.

(* What did hold there: consistent, or exactly that broken shape. *)
Theorem C15_menu_consistent_pinned_partial : forall c t p ls,
  0 <= p <= len t ->
  forall cs, cst (reach_pinned c t p ls) = Some cs ->
    ntp cs = Some (text (reach_pinned c t p ls), cur (reach_pinned c t p ls)) \/
    (cs_comps cs = [] /\ cs_idx cs <> None).
Proof. exact menu_consistent_pinned_partial. Qed.
Print Assumptions C15_menu_consistent_pinned_partial.

(* Every completion in the menu was yielded by a generator that was called
   with the menu's original document (after insert_common_part: with the
   document the common part was then typed into); and while nothing is
   selected the buffer still holds exactly that original document: no text or
   cursor change happened since the menu was installed. *)
Theorem C15_completions_fresh : forall c t p ls,
  0 <= p <= len t ->
  forall cs, cst (reach c t p ls) = Some cs ->
    Forall (fun k => (cs_shift cs = [] /\ csrc k = cs_orig cs) \/
                     (cs_shift cs <> [] /\ cs_orig cs = doc_insert (csrc k) (cs_shift cs)))
           (cs_comps cs) /\
    (cs_idx cs = None -> cs_orig cs = cur_doc (reach c t p ls)).
Proof. exact (fun c => completions_fresh (current c)). Qed.
Print Assumptions C15_completions_fresh.

(* insert_common_part: every entry of the re-based menu
   (Completion.new_completion_from_position, applied to the document with the
   common part typed in) produces exactly the text and cursor that the
   completer's completion produced on the document it was computed from.
   [common_suffix] is get_common_complete_suffix (with _commonprefix = common
   prefix of the min and the max suffix); [apply_comp] is what
   new_text_and_position does with one completion. *)
Theorem C15_rebase_same_result : forall d l common c,
  0 <= dcur d <= len (dtext d) ->
  common_suffix d l = common -> common <> [] -> In c l -> cstart c <= 0 ->
  apply_comp (doc_insert d common) (new_from_pos (len common) c) = apply_comp d c.
Proof. exact rebase_same_result. Qed.
Print Assumptions C15_rebase_same_result.

(* A published verdict was computed from a document with the current text. *)
Theorem C15_verdict_fresh : forall c t p ls,
  0 <= p <= len t -> vst (reach c t p ls) <> 0 ->
  exists d, vsrc (reach c t p ls) = Some d /\ dtext d = text (reach c t p ls).
Proof. exact (fun c => verdict_fresh (current c)). Qed.
Print Assumptions C15_verdict_fresh.

(* A displayed suggestion was computed from a document with the current text. *)
Theorem C15_suggestion_fresh : forall c t p ls,
  0 <= p <= len t ->
  forall sg d, sug (reach c t p ls) = Some (sg, d) -> dtext d = text (reach c t p ls).
Proof. exact (fun c => suggestion_fresh (current c)). Qed.
Print Assumptions C15_suggestion_fresh.

(* From "nothing selected", k+1 x complete_next selects completion k (k < n),
   the text being the original with completion k applied ... *)
Theorem C15_cycle_next : forall c t p ls cs (k : nat),
  0 <= p <= len t ->
  cst (reach c t p ls) = Some cs -> cs_idx cs = None -> Z.of_nat k < len (cs_comps cs) ->
  let s' := run (reach c t p ls) (repeat (CompleteNext 1 false) (S k)) in
  cst s' = Some (cs_with_idx cs (Some (Z.of_nat k))) /\
  ntp (cs_with_idx cs (Some (Z.of_nat k))) = Some (text s', cur s').
Proof. exact (fun c => cycle_next (current c)). Qed.
Print Assumptions C15_cycle_next.

(* ... and n+1 x complete_next wraps to "nothing selected", the original text
   and cursor, the same menu object. *)
Theorem C15_cycle_next_wraps : forall c t p ls cs,
  0 <= p <= len t ->
  cst (reach c t p ls) = Some cs -> cs_idx cs = None -> 1 <= len (cs_comps cs) ->
  let s' := run (reach c t p ls) (repeat (CompleteNext 1 false) (S (Z.to_nat (len (cs_comps cs))))) in
  cst s' = Some cs /\ text s' = dtext (cs_orig cs) /\ cur s' = dcur (cs_orig cs).
Proof. exact (fun c => cycle_next_wraps (current c)). Qed.
Print Assumptions C15_cycle_next_wraps.

(* complete_previous visits them in the reverse order n-1, n-2, ... *)
Theorem C15_cycle_prev : forall c t p ls cs (k : nat),
  0 <= p <= len t ->
  cst (reach c t p ls) = Some cs -> cs_idx cs = None -> Z.of_nat k < len (cs_comps cs) ->
  let s' := run (reach c t p ls) (repeat (CompletePrev 1 false) (S k)) in
  cst s' = Some (cs_with_idx cs (Some (len (cs_comps cs) - 1 - Z.of_nat k))) /\
  ntp (cs_with_idx cs (Some (len (cs_comps cs) - 1 - Z.of_nat k))) = Some (text s', cur s').
Proof. exact (fun c => cycle_prev (current c)). Qed.
Print Assumptions C15_cycle_prev.

(* ... and is the inverse of complete_next from any selection (every
   selection is valid: C15_menu_consistent). *)
Theorem C15_cycle_inverse : forall c t p ls cs,
  0 <= p <= len t ->
  cst (reach c t p ls) = Some cs ->
  match cs_idx cs with None => True | Some i => 0 <= i < len (cs_comps cs) end ->
  1 <= len (cs_comps cs) ->
  let s1 := run (reach c t p ls) [CompleteNext 1 false; CompletePrev 1 false] in
  let s2 := run (reach c t p ls) [CompletePrev 1 false; CompleteNext 1 false] in
  (cst s1 = Some cs /\ ntp cs = Some (text s1, cur s1)) /\
  (cst s2 = Some cs /\ ntp cs = Some (text s2, cur s2)).
Proof. exact (fun c => next_prev_inverse (current c)). Qed.
Print Assumptions C15_cycle_inverse.

(* Cancelling restores the original text and cursor and closes the menu,
   without raising. *)
Theorem C15_cancel : forall c t p ls,
  0 <= p <= len t ->
  forall cs, cst (reach c t p ls) = Some cs ->
    snd (step (reach c t p ls) Cancel) = 0 /\ cst (apply (reach c t p ls) Cancel) = None /\
    text (apply (reach c t p ls) Cancel) = dtext (cs_orig cs) /\
    cur (apply (reach c t p ls) Cancel) = dcur (cs_orig cs).
Proof. exact cancel_restores. Qed.
Print Assumptions C15_cancel.

(* At the pinned snapshot cancel_completion could raise IndexError (status 2)
   with the menu left open (same witness, C15-F1) ... *)
Theorem C15_cancel_pinned_refuted :
  exists c t p ls, 0 <= p <= len t /\
    (exists cs, cst (reach_pinned c t p ls) = Some cs) /\ snd (step (reach_pinned c t p ls) Cancel) = 2.
Proof. exact cancel_pinned_refuted. Qed.
Print Assumptions C15_cancel_pinned_refuted.

(* ... and only there. *)
Theorem C15_cancel_pinned_partial : forall c t p ls,
  0 <= p <= len t ->
  forall cs, cst (reach_pinned c t p ls) = Some cs -> ~ (cs_comps cs = [] /\ cs_idx cs <> None) ->
    snd (step (reach_pinned c t p ls) Cancel) = 0 /\ cst (apply (reach_pinned c t p ls) Cancel) = None /\
    text (apply (reach_pinned c t p ls) Cancel) = dtext (cs_orig cs) /\
    cur (apply (reach_pinned c t p ls) Cancel) = dcur (cs_orig cs).
Proof. exact cancel_pinned_partial. Qed.
Print Assumptions C15_cancel_pinned_partial.

(* At most one completer, validator and suggester is past its
   `_only_one_at_a_time` guard, and none when the guard's flag is clear. *)
Theorem C15_single_flight : forall c t p ls,
  0 <= p <= len t ->
  (length (ccos (reach c t p ls)) <= 1)%nat /\
  (length (vcos (reach c t p ls)) <= 1)%nat /\
  (length (scos (reach c t p ls)) <= 1)%nat /\
  (crun (reach c t p ls) = false -> ccos (reach c t p ls) = []) /\
  (vrun (reach c t p ls) = false -> vcos (reach c t p ls) = []) /\
  (srun (reach c t p ls) = false -> scos (reach c t p ls) = []).
Proof. exact (fun c => single_flight (current c)). Qed.
Print Assumptions C15_single_flight.

(* Non-vacuity: a menu with two completions, the second selected and applied
   while the completer is still loading (with validator and suggester having
   run), is reachable; and so is the menu that used to break: the single no-op
   completion selected, completer finished - still there, still selected. *)
Example C15_reachable :
  let s := reach (mkcfg true true true 10000 true) [97] 1
             [Insert [98]; Tick; VReturn 0 true; SReturn 0 (Some [120]);
              CYield 0 [97; 98; 99] (-2); CYield 0 [97; 98; 100] (-2);
              CompletePrev 1 false] in
  text s = [97; 98; 100] /\ length (ccos s) = 1%nat /\
  exists cs, cst s = Some cs /\ cs_idx cs = Some 1 /\ len (cs_comps cs) = 2.
Proof. vm_compute. split; [reflexivity|]. split; [reflexivity|]. eexists. repeat split. Qed.

(* the synchronous validate() of the Enter key racing with the asynchronous
   validator: the ValidationError moves the cursor, the late answer of the
   validator in flight is dropped (its document is no longer the buffer's) *)
Example C15_sync_validate_race :
  let s := reach (mkcfg false true false 10000 true) [97; 98] 2
             [Insert [99]; Tick; Validate false 1 true; VReturn 0 true] in
  vst s = 2 /\ cur s = 1 /\ vcos s = [] /\ vrun s = false /\
  exists d, vsrc s = Some d /\ dtext d = text s.
Proof. vm_compute. repeat split. eexists. split; reflexivity. Qed.

Example C15_former_witness_now_fine :
  let s := reach w_cfg [97; 98] 2 w_labels in
  exists cs, cst s = Some cs /\ cs_idx cs = Some 0 /\ len (cs_comps cs) = 1 /\
             ntp cs = Some (text s, cur s).
Proof. vm_compute. eexists. repeat split. Qed.
