(* C18 - Formatted-text conversions preserve text; interpolated values are inert.
   Statements only; proofs are in Proofs/C18_*.v (FragmentsFacts, AnsiFacts, AnsiStrip,
   AnsiSeq, HtmlFacts, HtmlTemplate, HtmlPlain, HtmlAny, ConvertFacts, ExplodedFacts,
   WidthFacts, ModFacts).

   Vocabulary (defined in the Proofs files):
     view frs          the characters of a fragment list, each with the style and
                       tuple tail of its fragment; a newline is a bare line break
     join_lines        joining lists of styled characters with line breaks
     as_text sty w     one (sty, c) fragment per character of w
     no_intro w        w contains none of ESC, \x9b, \001
     is_ctl / neutralise   the five control characters ESC \b \x9b \001 \002 -> '?'
     esc1 / dat        html_escape per character / the character it delivers as data
   [cfg_now] is the code that is in /repo now (with the eight 'fix:' commits
   86103a9 baf43a1 afcdc3a 8fdddd4 74c3a15 7fe5e6f ae5d17b 44b4e9c); the headline theorems are
   about it.  [cfg_pinned] is the pinned snapshot: each `_pinned_refuted`
   theorem is the witness that the same statement was false there. *)
From Coq Require Import ZArith List Bool.
From PTK Require Import Lib.Sx Lib.Py Gen.C18_Tables Gen.Whitespace Model.C18_Fragments Model.C18_Ansi Model.C18_Html
  Model.C18_Convert Model.C18_AnsiGrammar Model.C18_Exploded Model.C18_Width Model.C18_Mod
  Model.C18_HtmlAny Model.C18_AnsiSeq Proofs.C18_HtmlAny Proofs.C18_AnsiSeq
  Proofs.C18_FragmentsFacts Proofs.C18_AnsiFacts Proofs.C18_HtmlFacts Proofs.C18_ConvertFacts Proofs.C18_AnsiStrip Proofs.C18_HtmlTemplate
  Proofs.C18_ExplodedFacts Proofs.C18_WidthFacts Proofs.C18_ModFacts Proofs.C18_HtmlPlain.
Import ListNotations.
Open Scope Z_scope.

(* ---- fragment lists -------------------------------------------------- *)

(* Splitting into lines and re-joining with newlines is the identity on
   characters, and every character keeps its style (and mouse handler). *)
Theorem C18_split_join : forall frs,
  join_lines (map view (split_lines frs)) = view frs.
Proof. exact split_lines_join. Qed.
Print Assumptions C18_split_join.

(* No line contains a newline. *)
Theorem C18_split_no_newline : forall frs line f,
  In line (split_lines frs) -> In f line -> mem_Z NL (ftext f) = false.
Proof. exact split_lines_no_newline. Qed.
Print Assumptions C18_split_no_newline.

(* fragment_list_len is the length of fragment_list_to_text. *)
Theorem C18_len_text : forall frs, fragment_list_len frs = len (fragment_list_to_text frs).
Proof. exact fragment_list_len_text. Qed.
Print Assumptions C18_len_text.

(* Exploding keeps the plain text, every character's style, yields
   one-character fragments and is idempotent. *)
Theorem C18_explode_text : forall frs, fragment_list_to_text (explode frs) = fragment_list_to_text frs.
Proof. exact explode_text. Qed.
Print Assumptions C18_explode_text.

Theorem C18_explode_view : forall frs, view (explode frs) = view frs.
Proof. exact explode_view. Qed.
Print Assumptions C18_explode_view.

Theorem C18_explode_single_chars : forall frs f, In f (explode frs) -> exists c, ftext f = [c].
Proof. exact explode_single_chars. Qed.
Print Assumptions C18_explode_single_chars.

Theorem C18_explode_idempotent : forall frs, explode (explode frs) = explode frs.
Proof. exact explode_idempotent. Qed.
Print Assumptions C18_explode_idempotent.

(* to_formatted_text(style=...) does not touch the text. *)
Theorem C18_apply_style_text : forall st frs, map ftext (apply_style st frs) = map ftext frs.
Proof. exact apply_style_text. Qed.
Print Assumptions C18_apply_style_text.

(* ---- _ExplodedList, fragment_list_width, PygmentsTokens ---------------- *)

(* Item assignment (any int index) and slice assignment (any lo:hi slice; slices
   with a step are not modelled), append and extend keep every element of an
   exploded list a single character. *)
Theorem C18_exploded_invariant : forall l o,
  all_single l -> (forall vs, o <> EIadd vs) -> all_single (el_step l o).
Proof. exact el_invariant. Qed.
Print Assumptions C18_exploded_invariant.

(* lst[i] = v replaces exactly item i for 0 <= i < len and for -len <= i < -1
   (for i >= len or i < -len the code appends / prepends instead of raising: no
   theorem, mentioned in finding C18-F10) ... *)
Theorem C18_exploded_setitem : forall l i v,
  0 <= i < len l ->
  setitem_int l i v = firstn (Z.to_nat i) l ++ explode [v] ++ skipn (Z.to_nat (i + 1)) l.
Proof. exact setitem_int_replaces. Qed.
Print Assumptions C18_exploded_setitem.

Theorem C18_exploded_setitem_negative : forall l i v,
  - len l <= i < -1 ->
  setitem_int l i v = firstn (Z.to_nat (i + len l)) l ++ explode [v] ++ skipn (Z.to_nat (i + len l + 1)) l.
Proof. exact setitem_int_replaces_negative. Qed.
Print Assumptions C18_exploded_setitem_negative.

(* ... but lst[-1] = v inserts before the last item (finding C18-F10), *)
Theorem C18_exploded_setitem_minus_one_refuted :
  exists l v, all_single l /\
    setitem_int l (-1) v <> firstn (Z.to_nat (len l - 1)) l ++ explode [v] /\
    setitem_int l (-1) v = firstn (Z.to_nat (len l - 1)) l ++ explode [v] ++ skipn (Z.to_nat (len l - 1)) l.
Proof. exact setitem_int_minus_one_refuted. Qed.
Print Assumptions C18_exploded_setitem_minus_one_refuted.

(* and `lst += items` breaks the invariant (finding C18-F11). *)
Theorem C18_exploded_iadd_refuted :
  exists l vs, all_single l /\ ~ all_single (explode_exploded (el_iadd l vs)).
Proof. exact iadd_invariant_refuted. Qed.
Print Assumptions C18_exploded_iadd_refuted.

(* lst[i] = v for EVERY int index, as the code is (`slice(i, i + 1)`): i >= len
   appends, 0 <= i < len replaces item i, i = -1 inserts before the last item
   (C18-F10), -len <= i < -1 replaces item i + len, i < -len prepends; no index
   raises. *)
Theorem C18_exploded_setitem_total : forall l i v,
  setitem_int l i v =
  if len l <=? i then l ++ explode [v]
  else if 0 <=? i then firstn (Z.to_nat i) l ++ explode [v] ++ skipn (Z.to_nat (i + 1)) l
  else if i =? -1 then firstn (Z.to_nat (len l - 1)) l ++ explode [v] ++ skipn (Z.to_nat (len l - 1)) l
  else if - len l <=? i then
    firstn (Z.to_nat (i + len l)) l ++ explode [v] ++ skipn (Z.to_nat (i + len l + 1)) l
  else explode [v] ++ l.
Proof. exact setitem_int_total. Qed.
Print Assumptions C18_exploded_setitem_total.

(* Measured against the semantics of a plain Python list ([setitem_int_listsem]:
   a SPECIFICATION - IndexError outside -len..len-1, negative indices from the
   end): wherever a plain list accepts the index and i <> -1, the code does the
   same. *)
Theorem C18_exploded_setitem_vs_list : forall l i v r,
  setitem_int_listsem l i v = Some r -> i <> -1 -> setitem_int l i v = r.
Proof. exact setitem_int_vs_list. Qed.
Print Assumptions C18_exploded_setitem_vs_list.

(* fragment_list_width, for ANY wcwidth: the width of the plain text; exploding keeps it. *)
Theorem C18_width_is_text_width : forall w frs,
  fragment_list_width w frs = str_width w (fragment_list_to_text frs).
Proof. exact width_is_text_width. Qed.
Print Assumptions C18_width_is_text_width.

Theorem C18_explode_width : forall w frs, fragment_list_width w (explode frs) = fragment_list_width w frs.
Proof. exact explode_width. Qed.
Print Assumptions C18_explode_width.

(* PygmentsTokens: the plain text of the fragments is the concatenation of the token texts. *)
Theorem C18_pygments_plain_text : forall toks,
  fragment_list_to_text (pygments_frags toks) = concat (map snd toks).
Proof. exact pygments_plain_text. Qed.
Print Assumptions C18_pygments_plain_text.

(* ---- the % operator ---------------------------------------------------- *)

(* __mod__ applies the conversions to the ESCAPED values.  Whenever a
   conversion commutes with escaping (plain %s always; for ANSI also
   truncation, since ansi_escape is a character map) that is the same as
   escaping each conversion's output; *)
Theorem C18_html_mod_commuting : forall conv parts specs vals,
  (forall sp s, conv sp (html_escape cfg_now s) = html_escape cfg_now (conv sp s)) ->
  html_mod_markup conv parts specs vals = html_mod_markup_spec conv parts specs vals.
Proof. exact html_mod_commuting. Qed.
Print Assumptions C18_html_mod_commuting.

Theorem C18_ansi_mod_commuting : forall conv parts specs vals,
  (forall sp s, conv sp (ansi_escape cfg_now s) = ansi_escape cfg_now (conv sp s)) ->
  ansi_mod_text conv parts specs vals = ansi_mod_text_spec conv parts specs vals.
Proof. exact ansi_mod_commuting. Qed.
Print Assumptions C18_ansi_mod_commuting.

(* for HTML a truncating conversion does not commute and the code misses the
   specification (finding C18-F9): '<b>%.3s</b>' % '&&&&'. *)
Theorem C18_html_mod_refuted :
  exists conv parts specs vals,
    html_parse cfg_now (html_mod_markup conv parts specs vals) = Err 2 /\
    html_parse cfg_now (html_mod_markup_spec conv parts specs vals)
    = Ok [mkfrag [99; 108; 97; 115; 115; 58; 98] [38; 38; 38] []].
Proof. exact html_mod_refuted. Qed.
Print Assumptions C18_html_mod_refuted.

(* ---- to_formatted_text / merge_formatted_text ------------------------ *)

(* (C18_merge_concat restates the model's loop as a fold: close to definitional;
   C18_merge_plain_text is the consequence that matters.)
   merge_formatted_text: the conversion of the merged value is the
   concatenation of the conversions of its items (a pure function of what the
   items are: converting the same object again gives the same list), *)
Theorem C18_merge_concat : forall ac items,
  convert ac (VMerge items) = concat_res (map (convert false) items).
Proof. exact convert_merge. Qed.
Print Assumptions C18_merge_concat.

(* so its plain text is the concatenation of the items' plain texts, in order. *)
Theorem C18_merge_plain_text : forall ac items r,
  convert ac (VMerge items) = Ok r ->
  exists rs, map (convert false) items = map Ok rs /\
             fragment_list_to_text r = concat (map fragment_list_to_text rs).
Proof. exact merge_plain_text. Qed.
Print Assumptions C18_merge_plain_text.

(* DEFINITIONAL (holds by unfolding the model; it documents the dispatch, it
   is not evidence about the code beyond the correspondence): a list of
   fragments converts to itself, so converting a conversion result again is
   the identity. *)
Theorem C18_to_formatted_text_idempotent : forall r ac',
  to_formatted_text [] ac' (VList r) = Ok r.
Proof. exact to_formatted_text_list. Qed.
Print Assumptions C18_to_formatted_text_idempotent.

(* DEFINITIONAL: a callable is transparent (auto_convert is not passed on).  Not
   definitional: the extra style never touches the text. *)
Theorem C18_convert_call : forall ac v, convert ac (VCall v) = convert false v.
Proof. exact convert_call. Qed.
Print Assumptions C18_convert_call.

Theorem C18_to_formatted_text_style_text : forall st ac v r0 r,
  to_formatted_text [] ac v = Ok r0 -> to_formatted_text st ac v = Ok r ->
  map ftext r = map ftext r0.
Proof. exact to_formatted_text_style_text. Qed.
Print Assumptions C18_to_formatted_text_style_text.

(* ---- ANSI ------------------------------------------------------------- *)

(* The plain text of ANSI(s), for EVERY string s: the input with its
   recognised sequences removed ([ansi_strip]: defined on the grammar-level
   tokeniser of Model/C18_AnsiGrammar.v - ordinary characters, ESC x, 7/8-bit
   CSI + parameters + final character with `CSI n C` = min(n, 9999) spaces,
   \001..\002 regions, an unterminated sequence at the end), and the
   zero-width fragments are exactly the payloads of the \001..\002 regions. *)
Theorem C18_ansi_plain : forall s,
  exists o, ansi_parse cfg_now s = Ok o /\
            fragment_list_to_text o = ansi_strip s /\
            zw_payloads o = ansi_zero_width s.
Proof. exact ansi_plain_text. Qed.
Print Assumptions C18_ansi_plain.

(* the tokens are a partition of the input: nothing is skipped or invented *)
Theorem C18_ansi_tokens_partition : forall s, concat (map raw (tokens s)) = s.
Proof. exact tokens_partition. Qed.
Print Assumptions C18_ansi_tokens_partition.

(* a string without ESC, \x9b, \001 is its own plain text, one unstyled
   fragment per character *)
Theorem C18_ansi_strip_plain : forall s, no_intro s = true -> ansi_strip s = s.
Proof. exact ansi_strip_plain. Qed.
Print Assumptions C18_ansi_strip_plain.

Theorem C18_ansi_plain_fragments : forall k s,
  no_intro s = true ->
  ansi_parse k s = Ok (as_text [] s) /\ fragment_list_to_text (as_text [] s) = s.
Proof. exact ansi_plain. Qed.
Print Assumptions C18_ansi_plain_fragments.

(* Sequences of escapes (round 6).  ANSI(s) is, fragment for fragment and
   style for style, the denotation [ansi_sem s] of the token sequence of s
   (Model/C18_AnsiSeq.v: a fold over the grammar-level tokens that threads the
   SGR state - an SGR sequence changes the state for everything after it,
   `CSI n C` shows its spaces in the style in effect, ESC x / zero-width
   regions / unsupported or unterminated sequences leave the state alone).
   For EVERY string; strictly stronger than C18_ansi_plain (styles included). *)
Theorem C18_ansi_sequence : forall s, ansi_parse cfg_now s = Ok (ansi_sem s).
Proof. exact ansi_sequence. Qed.
Print Assumptions C18_ansi_sequence.

(* the state after a prefix of tokens is all the rest depends on, *)
Theorem C18_ansi_sem_compositional : forall g a b,
  sem g (a ++ b) = sem g a ++ sem (sgr_after g a) b.
Proof. exact sem_app. Qed.
Print Assumptions C18_ansi_sem_compositional.

(* only SGR sequences change it, *)
Theorem C18_ansi_state_only_sgr : forall g ts,
  forallb (fun t => negb (is_sgr t)) ts = true -> sgr_after g ts = g.
Proof. exact sgr_after_no_sgr. Qed.
Print Assumptions C18_ansi_state_only_sgr.

(* so a character after `SGR, then any number of other tokens` (text,
   cursor-forward, ESC x, zero-width regions, unsupported sequences) still
   carries that SGR's style, and cursor-forward right after an SGR shows its
   spaces in that style. *)
Theorem C18_ansi_style_persists : forall g e ps mid c,
  forallb (fun t => negb (is_sgr t)) mid = true ->
  exists o, sem g (TCsi e ps 109 :: mid ++ [TChar c])
            = o ++ [mkfrag (create_style_string (select_graphic_rendition (csi_params ps) g)) [c] []].
Proof. exact sem_style_persists. Qed.
Print Assumptions C18_ansi_style_persists.

Theorem C18_ansi_cuf_after_sgr : forall g e1 ps1 e2 ps2,
  sem g [TCsi e1 ps1 109; TCsi e2 ps2 67]
  = spaces (create_style_string (select_graphic_rendition (csi_params ps1) g)) (Z.to_nat (hd 0 (csi_params ps2))).
Proof. exact sem_cuf_after_sgr. Qed.
Print Assumptions C18_ansi_cuf_after_sgr.

(* The parser accepts every string. *)
Theorem C18_ansi_total : forall s, exists o, ansi_parse cfg_now s = Ok o.
Proof. exact ansi_total_now. Qed.
Print Assumptions C18_ansi_total.

(* Pinned snapshot: ESC [ superscript-two m raised ValueError, *)
Theorem C18_ansi_total_pinned_refuted : exists s, ansi_parse cfg_pinned s = Err 1.
Proof. exact ansi_total_refuted. Qed.
Print Assumptions C18_ansi_total_pinned_refuted.

(* so did a parameter with one digit more than int() converts. *)
Theorem C18_ansi_total_digit_limit_pinned_refuted :
  (0 <? c18_int_max_str_digits) = true ->
  ansi_parse cfg_pinned
    (27 :: 91 :: repeat 49 (Z.to_nat (c18_int_max_str_digits + 1)) ++ [109]) = Err 1.
Proof. exact ansi_total_digit_limit_refuted. Qed.
Print Assumptions C18_ansi_total_digit_limit_pinned_refuted.

(* A parser in its ground state fed introducer-free text emits it with the
   current style and returns to the very same state (mode, style string and
   every SGR flag). *)
Theorem C18_ansi_inert : forall k w st,
  p_mode st = Ground -> no_intro w = true ->
  run k st w = Ok (st, as_text (p_style st) w).
Proof. exact run_inert. Qed.
Print Assumptions C18_ansi_inert.

(* ansi_escape: same length, only the five control characters change (into
   '?'), none of them and no introducer is left. *)
Theorem C18_ansi_escape_safe : forall v,
  ansi_escape cfg_now v = map neutralise v /\
  length (ansi_escape cfg_now v) = length v /\
  forallb (fun c => negb (is_ctl c)) (ansi_escape cfg_now v) = true /\
  no_intro (ansi_escape cfg_now v) = true.
Proof. exact ansi_escape_safe_now. Qed.
Print Assumptions C18_ansi_escape_safe.

(* Pinned snapshot: the 8-bit CSI (and the zero-width marker) passed. *)
Theorem C18_ansi_escape_safe_pinned_refuted : exists v, no_intro (ansi_escape cfg_pinned v) = false.
Proof. exact ansi_escape_safe_refuted. Qed.
Print Assumptions C18_ansi_escape_safe_pinned_refuted.

(* Interpolation: if the template text before a field leaves the parser in
   its ground state, the text after the field is parsed from exactly that
   state whatever the value; the value contributes its own (neutralised)
   characters with the surrounding style and nothing else. *)
Theorem C18_ansi_template_inert : forall st0 pre v post st o1,
  run cfg_now st0 pre = Ok (st, o1) -> p_mode st = Ground ->
  run cfg_now st0 (pre ++ ansi_escape cfg_now v ++ post) =
  match run cfg_now st post with
  | Err e => Err e
  | Ok (st2, o2) => Ok (st2, o1 ++ as_text (p_style st) (ansi_escape cfg_now v) ++ o2)
  end.
Proof. exact ansi_template_inert_now. Qed.
Print Assumptions C18_ansi_template_inert.

Theorem C18_ansi_template_inert_pinned_refuted :
  exists pre v post st o1,
    run cfg_pinned pst0 pre = Ok (st, o1) /\ p_mode st = Ground /\
    run cfg_pinned pst0 (pre ++ ansi_escape cfg_pinned v ++ post) <>
    match run cfg_pinned st post with
    | Err e => Err e
    | Ok (st2, o2) => Ok (st2, o1 ++ as_text (p_style st) (ansi_escape cfg_pinned v) ++ o2)
    end.
Proof. exact ansi_template_inert_refuted. Qed.
Print Assumptions C18_ansi_template_inert_pinned_refuted.

(* A zero-width region met in the ground state yields one zero-width fragment
   and leaves the parser where it was; so do two adjacent ones. *)
Theorem C18_ansi_zero_width_region : forall st body,
  p_mode st = Ground -> mem_Z STX body = false ->
  run cfg_now st (SOH :: body ++ [STX]) = Ok (st, [mkfrag ZWE body []]).
Proof. exact ansi_zero_width_region_now. Qed.
Print Assumptions C18_ansi_zero_width_region.

Theorem C18_ansi_zero_width_adjacent : forall st b1 b2,
  p_mode st = Ground -> mem_Z STX b1 = false -> mem_Z STX b2 = false ->
  run cfg_now st ((SOH :: b1 ++ [STX]) ++ (SOH :: b2 ++ [STX])) =
  Ok (st, [mkfrag ZWE b1 []; mkfrag ZWE b2 []]).
Proof. exact ansi_zero_width_adjacent_now. Qed.
Print Assumptions C18_ansi_zero_width_adjacent.

(* Pinned snapshot: the second of two adjacent regions became visible text. *)
Theorem C18_ansi_zero_width_adjacent_pinned_refuted :
  exists s o, ansi_parse cfg_pinned s = Ok o /\ fragment_list_to_text o = [1; 98; 2; 99].
Proof. exact ansi_zero_width_adjacent_refuted. Qed.
Print Assumptions C18_ansi_zero_width_adjacent_pinned_refuted.

(* ---- HTML ------------------------------------------------------------- *)

(* html_escape works character by character and leaves no LT, no double
   quote and no apostrophe in its output. *)
Theorem C18_html_escape_flat : forall k v, html_escape k v = flat_map (esc1 k) v.
Proof. exact html_escape_flat. Qed.
Print Assumptions C18_html_escape_flat.

Theorem C18_html_escape_no_markup : forall k v,
  forallb (fun x => negb ((x =? LT) || (x =? DQ))) (html_escape k v) = true.
Proof. exact html_escape_no_markup. Qed.
Print Assumptions C18_html_escape_no_markup.

Theorem C18_html_escape_no_apos : forall v, mem_Z SQ (html_escape cfg_now v) = false.
Proof. exact html_escape_no_apos_now. Qed.
Print Assumptions C18_html_escape_no_apos.

(* Round trip and inertness at a text position: the XML machine, inside an
   element and between tokens, fed the escaped value, decodes it back to the
   value (characters XML cannot carry as '?') and consumes all of it as data
   of the text node being built; stacks, output so far and error flags are
   untouched and no markup state is entered.  No side condition any more: since
   44b4e9c a \r travels as the character reference &#13; and arrives verbatim. *)
Theorem C18_html_text_inert : forall v h acc rb,
  h_mode h = HText acc false rb -> h_stack h <> [] ->
  exists rb', hrun cfg_now h (html_escape cfg_now v)
              = Ok (set_hmode h (HText (acc ++ map (dat cfg_now) v) false rb')).
Proof. exact html_text_inert_cr. Qed.
Print Assumptions C18_html_text_inert.

(* Inertness at an attribute position, either quote style: the escaped value
   extends that attribute's value and nothing else (values without \t \n,
   which attribute-value normalisation turns into spaces; \r arrives verbatim). *)
Theorem C18_html_attr_inert : forall nm ats an q v h acc,
  h_mode h = HAttrVal nm ats an q acc false ->
  (q = DQ \/ q = SQ) ->
  (forall c, In c v -> c <> 10 /\ c <> 9) ->
  hrun cfg_now h (html_escape cfg_now v)
  = Ok (set_hmode h (HAttrVal nm ats an q (acc ++ map (dat cfg_now) v) false)).
Proof. exact html_attr_inert_cr. Qed.
Print Assumptions C18_html_attr_inert.

(* The fg/bg guard: a value it lets through has no str.isspace character,
   so it cannot add a word to the style string. *)
Theorem C18_html_space_guard : forall v,
  has_space cfg_now v = false ->
  forall c, In c v -> mem_Z c Gen.Whitespace.py_isspace_table = false.
Proof. exact html_space_guard_now. Qed.
Print Assumptions C18_html_space_guard.

(* Whole templates.  A template is a sequence of text segments, start tags
   (attributes in either quote style) and end tags; literal text is given by
   the characters it stands for, holes may occur in text and in attribute
   values.  [render] substitutes the ESCAPED values and produces markup;
   [denote] is the tree walk of the same template with the values as DATA (no
   parsing of values at all).  Parsing the rendered markup reaches the state
   the template denotes (equal up to the bookkeeping of "]]>" detection): the
   same tree with the values as data.  [tpl_ok]: the template stays inside the
   document element, names are well formed, attribute names distinct, no \r in
   text data and no \t \n \r in attribute data. *)
Theorem C18_html_whole_template : forall tpl vals h1 h2,
  same_tree h1 h2 -> tpl_ok tpl vals h2 ->
  match denote tpl vals h2 with
  | Ok hd => exists h', hrun cfg_now h1 (render tpl vals) = Ok h' /\ same_tree h' hd
  | Err e => hrun cfg_now h1 (render tpl vals) = Err e
  end.
Proof. exact whole_template. Qed.
Print Assumptions C18_html_whole_template.

(* its building blocks: a start tag with holes in its attribute values, an end tag *)
Theorem C18_html_start_tag : forall h nm ats vals,
  inside h -> valid_name nm -> ats_ok [] ats vals ->
  hrun cfg_now h (fst (render_item (TOpen nm ats) vals))
  = fst (denote_item (TOpen nm ats) vals h).
Proof. exact start_tag. Qed.
Print Assumptions C18_html_start_tag.

Theorem C18_html_end_tag : forall h nm,
  inside h -> valid_name nm ->
  hrun cfg_now h (fst (render_item (TClose nm) [])) = fst (denote_item (TClose nm) [] h).
Proof. exact end_tag. Qed.
Print Assumptions C18_html_end_tag.

(* HTML(markup) -> fragments -> plain text, composed all the way (root wrap,
   whole template, closing of the root, the final tests of HTML.__init__,
   fragment_list_to_text): for a balanced template of the grammar and ANY
   values, if HTML(template with the ESCAPED values) does not raise the fg/bg
   ValueError (h_verr = false) it succeeds and its plain text is the
   concatenation of the template's text data with the values as data.  No
   side condition on '[' any more: the guard of ae5d17b enforces it.
   ([render tpl vals] is the markup [html_template cfg_now] parses for the
   template's parts and values.) *)
Theorem C18_html_plain_text : forall tpl vals hd,
  tpl_ok tpl vals h_root ->
  denote tpl vals h_root = Ok hd ->
  inside hd -> h_stack hd = h_stack h_root -> h_verr hd = false ->
  exists out, html_parse cfg_now (render tpl vals) = Ok out /\
              fragment_list_to_text out = denote_text tpl vals.
Proof. exact html_plain_text. Qed.
Print Assumptions C18_html_plain_text.

(* ANY template (round 6): no normal form.  [parts] are pieces of arbitrary
   literal markup (raw GT / quotes in text, &#N; references, spaces around '=',
   empty elements <x/>, anything the machine covers) with one hole between
   neighbours.  [trun] (Model/C18_HtmlAny.v) is the specification: it runs the
   literal pieces through the machine as written and inserts each value as
   DATA into the text node / quoted attribute value under construction -
   values are never parsed.  The real pipeline (html_escape each value, paste,
   parse everything) computes exactly that, whenever the specification makes a
   claim (every hole at a data position: character data inside the document
   element or a quoted attribute value; no \t \n in an attribute value - every
   value, \r included, at a text hole). *)
Theorem C18_html_any_template : forall parts vals h,
  match trun h parts vals with
  | TOk h' => hrun cfg_now h (fill parts (map (html_escape cfg_now) vals)) = Ok h'
  | TErr e => hrun cfg_now h (fill parts (map (html_escape cfg_now) vals)) = Err e
  | TNoClaim => True
  end.
Proof. exact any_template. Qed.
Print Assumptions C18_html_any_template.

(* its single step: at a data position the escaped value is the value as data *)
Theorem C18_html_inject : forall h v h2,
  inject h v = Some h2 -> hrun cfg_now h (html_escape cfg_now v) = Ok h2.
Proof. exact inject_correct. Qed.
Print Assumptions C18_html_inject.

(* composed with the root wrap and the final tests of HTML.__init__ *)
Theorem C18_html_values_as_data : forall parts vals r,
  html_values_as_data parts vals = Some r -> html_template cfg_now parts vals = r.
Proof. exact values_as_data. Qed.
Print Assumptions C18_html_values_as_data.

(* For EVERY markup string (no grammar, no side condition): if HTML(s)
   succeeds, no style it built contains '[' - in particular no fragment is
   zero-width raw output or carries any other "[...]" token - and its plain text
   is the concatenation of its fragments' texts.  (The XML name grammar keeps
   '[' out of class names, the guard of ae5d17b out of fg/bg.)  So no template
   and no value can make text disappear from to_plain_text. *)
Theorem C18_html_never_zero_width : forall s out,
  html_parse cfg_now s = Ok out ->
  Forall (fun f => mem_Z 91 (fstyle f) = false) out /\
  zw_payloads out = [] /\
  fragment_list_to_text out = concat (map ftext out).
Proof. exact html_never_zero_width. Qed.
Print Assumptions C18_html_never_zero_width.

(* Pinned snapshot (finding C18-F14, repaired by 44b4e9c): a \r in a value at a
   text position was rewritten by XML line-end normalisation and swallowed a
   template newline right after the hole: HTML('<b>%s\nx</b>') % 'a\r' -> 'a\nx'.
   The code that is in /repo now delivers 'a\r\nx', as the specification says. *)
Theorem C18_html_cr_pinned_refuted :
  exists parts v,
    html_template cfg_pinned parts [v] = Ok [mkfrag [99; 108; 97; 115; 115; 58; 98] [97; 10; 120] []] /\
    v = [97; 13] /\
    html_template cfg_now parts [v] = Ok [mkfrag [99; 108; 97; 115; 115; 58; 98] [97; 13; 10; 120] []] /\
    html_values_as_data parts [v] = Some (Ok [mkfrag [99; 108; 97; 115; 115; 58; 98] [97; 13; 10; 120] []]).
Proof. exact html_cr_pinned_refuted. Qed.
Print Assumptions C18_html_cr_pinned_refuted.

(* The guard: an element whose fg/bg/color datum contains '[' sets the
   ValueError flag (HTML() raises ValueError), so no style with a special
   "[...]" token can come from an attribute value. *)
Theorem C18_html_bracket_guard : forall h nm ats,
  mem_Z 91 (fst (scan_fg_bg ats [] [])) = true \/ mem_Z 91 (snd (scan_fg_bg ats [] [])) = true ->
  h_verr (open_element cfg_now h nm ats) = true.
Proof. exact html_bracket_guard. Qed.
Print Assumptions C18_html_bracket_guard.

(* Pinned snapshot (finding C18-F13, repaired by ae5d17b): the value
   "[ZeroWidthEscape]" at an fg hole passed the guard and the text 'x' of its
   element disappeared from the plain text (it would be written raw). *)
Theorem C18_html_attr_zero_width_pinned_refuted :
  exists out,
    html_template cfg_pinned [S_style_fg_dq; S_x_end_dq_y] [ZWE] = Ok out /\
    map ftext out = [[120]; [121]] /\ fragment_list_to_text out = [121] /\
    has_space cfg_pinned ZWE = false.
Proof. exact html_attr_zero_width_pinned_refuted. Qed.
Print Assumptions C18_html_attr_zero_width_pinned_refuted.

(* Pinned snapshot: a single-quoted attribute was closed by the value, which added bg. *)
Theorem C18_html_attr_inert_single_quote_pinned_refuted :
  html_template cfg_pinned [S_style_fg_sq; S_x_end_sq] [S_red_bg_blue]
  = Ok [mkfrag S_fg_red_bg_blue [120] []].
Proof. exact html_attr_inert_single_quote_refuted. Qed.
Print Assumptions C18_html_attr_inert_single_quote_pinned_refuted.

(* Pinned snapshot: a value character XML cannot carry made the call raise. *)
Theorem C18_html_text_value_raises_pinned_refuted :
  html_template cfg_pinned [[60; 105; 62]; [60; 47; 105; 62]] [[27; 91; 48; 109]] = Err 2.
Proof. exact html_text_value_raises_refuted. Qed.
Print Assumptions C18_html_text_value_raises_pinned_refuted.

(* Pinned snapshot: the fg/bg guard let a no-break space through. *)
Theorem C18_html_attr_space_guard_pinned_refuted :
  html_template cfg_pinned [S_style_fg_dq; S_x_end_dq] [S_red_nbsp_bold]
  = Ok [mkfrag ([102; 103; 58] ++ S_red_nbsp_bold) [120] []].
Proof. exact html_attr_space_guard_refuted. Qed.
Print Assumptions C18_html_attr_space_guard_pinned_refuted.
