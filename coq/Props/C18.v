(* C18 - Formatted-text conversions preserve text; interpolated values are inert.
   Statements only; proofs are in Proofs/C18_{Fragments,Ansi,Html}Facts.v.

   Vocabulary (defined in the Proofs files):
     view frs          the characters of a fragment list, each with the style and
                       tuple tail of its fragment; a newline is a bare line break
     join_lines        joining lists of styled characters with line breaks
     as_text sty w     one (sty, c) fragment per character of w
     no_intro w        w contains none of ESC, \x9b, \001
     is_ctl / neutralise   the five control characters ESC \b \x9b \001 \002 -> '?'
     esc1 / dat        html_escape per character / the character it delivers as data
   [cfg] selects the code as it stands (cfg_as_coded) or with the repairs of
   /verif/fixes/C18-*.patch; theorems that need a repair carry it as a
   hypothesis and are paired with a `_refuted` witness for the code as it stands. *)
From Coq Require Import ZArith List Bool.
From PTK Require Import Lib.Sx Lib.Py Gen.C18_Tables Model.C18_Fragments Model.C18_Ansi Model.C18_Html
  Proofs.C18_FragmentsFacts Proofs.C18_AnsiFacts Proofs.C18_HtmlFacts.
Import ListNotations.
Open Scope Z_scope.

(* ---- fragment lists -------------------------------------------------- *)

(* Splitting into lines and re-joining with newlines is the identity on
   characters, and every character keeps its style (and mouse handler). *)
Theorem C18_split_join : forall frs,
  join_lines (map view (split_lines frs)) = view frs.
Proof. exact split_lines_join. Qed.
Print Assumptions C18_split_join.

(* No line contains a newline. *)
Theorem C18_split_no_newline : forall frs line f,
  In line (split_lines frs) -> In f line -> mem_Z NL (ftext f) = false.
Proof. exact split_lines_no_newline. Qed.
Print Assumptions C18_split_no_newline.

(* fragment_list_len is the length of fragment_list_to_text. *)
Theorem C18_len_text : forall frs, fragment_list_len frs = len (fragment_list_to_text frs).
Proof. exact fragment_list_len_text. Qed.
Print Assumptions C18_len_text.

(* Exploding keeps the plain text, every character's style, yields
   one-character fragments and is idempotent. *)
Theorem C18_explode_text : forall frs, fragment_list_to_text (explode frs) = fragment_list_to_text frs.
Proof. exact explode_text. Qed.
Print Assumptions C18_explode_text.

Theorem C18_explode_view : forall frs, view (explode frs) = view frs.
Proof. exact explode_view. Qed.
Print Assumptions C18_explode_view.

Theorem C18_explode_single_chars : forall frs f, In f (explode frs) -> exists c, ftext f = [c].
Proof. exact explode_single_chars. Qed.
Print Assumptions C18_explode_single_chars.

Theorem C18_explode_idempotent : forall frs, explode (explode frs) = explode frs.
Proof. exact explode_idempotent. Qed.
Print Assumptions C18_explode_idempotent.

(* to_formatted_text(style=...) does not touch the text. *)
Theorem C18_apply_style_text : forall st frs, map ftext (apply_style st frs) = map ftext frs.
Proof. exact apply_style_text. Qed.
Print Assumptions C18_apply_style_text.

(* ---- ANSI ------------------------------------------------------------- *)

(* Plain text (no ESC, \x9b, \001) comes back as itself, unstyled, one
   fragment per character; converting back to plain text gives the input.
   PARTIAL with respect to the property text: for strings WITH control
   sequences the equation `plain text = input minus its sequences` is not
   proved in Coq (it needs a second, grammar-level definition of the
   sequences); it is checked by the oracle of harness/c18.py against an
   independent regular-expression tokeniser on every generated input. *)
Theorem C18_ansi_plain_partial : forall k s,
  no_intro s = true ->
  ansi_parse k s = Ok (as_text [] s) /\ fragment_list_to_text (as_text [] s) = s.
Proof. exact ansi_plain. Qed.
Print Assumptions C18_ansi_plain_partial.

(* The parser accepts every string (after fixes/C18-ansi-csi-digits.patch) ... *)
Theorem C18_ansi_total_repaired : forall k s,
  cfg_ascii_digits k = true -> exists o, ansi_parse k s = Ok o.
Proof. exact ansi_total_repaired. Qed.
Print Assumptions C18_ansi_total_repaired.

(* ... and does not as the code stands: ESC [ superscript-two m raises ValueError, *)
Theorem C18_ansi_total_refuted : exists s, ansi_parse cfg_as_coded s = Err 1.
Proof. exact ansi_total_refuted. Qed.
Print Assumptions C18_ansi_total_refuted.

(* so does a parameter with one digit more than int() converts. *)
Theorem C18_ansi_total_digit_limit_refuted :
  (0 <? c18_int_max_str_digits) = true ->
  ansi_parse cfg_as_coded
    (27 :: 91 :: repeat 49 (Z.to_nat (c18_int_max_str_digits + 1)) ++ [109]) = Err 1.
Proof. exact ansi_total_digit_limit_refuted. Qed.
Print Assumptions C18_ansi_total_digit_limit_refuted.

(* A parser in its ground state fed introducer-free text emits it with the
   current style and returns to the very same state (mode, style string and
   every SGR flag).  Holds for the code as it stands and repaired alike. *)
Theorem C18_ansi_inert : forall k w st,
  p_mode st = Ground -> no_intro w = true ->
  run k st w = Ok (st, as_text (p_style st) w).
Proof. exact run_inert. Qed.
Print Assumptions C18_ansi_inert.

(* ansi_escape (after fixes/C18-ansi-escape-c1.patch): same length, only
   the five control characters change, none of them and no introducer is left. *)
Theorem C18_ansi_escape_safe_repaired : forall k v,
  cfg_esc_c1 k = true ->
  ansi_escape k v = map neutralise v /\
  length (ansi_escape k v) = length v /\
  forallb (fun c => negb (is_ctl c)) (ansi_escape k v) = true /\
  no_intro (ansi_escape k v) = true.
Proof. exact ansi_escape_safe_repaired_full. Qed.
Print Assumptions C18_ansi_escape_safe_repaired.

(* As the code stands the 8-bit CSI and the zero-width marker pass. *)
Theorem C18_ansi_escape_safe_refuted : exists v, no_intro (ansi_escape cfg_as_coded v) = false.
Proof. exact ansi_escape_safe_refuted. Qed.
Print Assumptions C18_ansi_escape_safe_refuted.

(* Interpolation: if the template text before a field leaves the parser in
   its ground state, the text after the field is parsed from exactly that
   state whatever the value; the value contributes its own (neutralised)
   characters with the surrounding style and nothing else. *)
Theorem C18_ansi_template_inert_repaired : forall k st0 pre v post st o1,
  cfg_esc_c1 k = true ->
  run k st0 pre = Ok (st, o1) -> p_mode st = Ground ->
  run k st0 (pre ++ ansi_escape k v ++ post) =
  match run k st post with
  | Err e => Err e
  | Ok (st2, o2) => Ok (st2, o1 ++ as_text (p_style st) (ansi_escape k v) ++ o2)
  end.
Proof. exact ansi_template_inert_repaired. Qed.
Print Assumptions C18_ansi_template_inert_repaired.

Theorem C18_ansi_template_inert_refuted :
  exists pre v post st o1,
    run cfg_as_coded pst0 pre = Ok (st, o1) /\ p_mode st = Ground /\
    run cfg_as_coded pst0 (pre ++ ansi_escape cfg_as_coded v ++ post) <>
    match run cfg_as_coded st post with
    | Err e => Err e
    | Ok (st2, o2) => Ok (st2, o1 ++ as_text (p_style st) (ansi_escape cfg_as_coded v) ++ o2)
    end.
Proof. exact ansi_template_inert_refuted. Qed.
Print Assumptions C18_ansi_template_inert_refuted.

(* A zero-width region met in the ground state yields one zero-width
   fragment and leaves the parser where it was (after
   fixes/C18-ansi-zero-width-adjacent.patch) ... *)
Theorem C18_ansi_zero_width_region_repaired : forall k st body,
  cfg_zw_loop k = true -> p_mode st = Ground -> mem_Z STX body = false ->
  run k st (SOH :: body ++ [STX]) = Ok (st, [mkfrag ZWE body []]).
Proof. exact ansi_zero_width_region_repaired. Qed.
Print Assumptions C18_ansi_zero_width_region_repaired.

(* ... as the code stands the second of two adjacent regions becomes visible text. *)
Theorem C18_ansi_zero_width_adjacent_refuted :
  exists s o, ansi_parse cfg_as_coded s = Ok o /\ fragment_list_to_text o = [1; 98; 2; 99].
Proof. exact ansi_zero_width_adjacent_refuted. Qed.
Print Assumptions C18_ansi_zero_width_adjacent_refuted.

(* ---- HTML ------------------------------------------------------------- *)

(* html_escape works character by character and leaves no LT and no double
   quote in its output. *)
Theorem C18_html_escape_flat : forall k v, html_escape k v = flat_map (esc1 k) v.
Proof. exact html_escape_flat. Qed.
Print Assumptions C18_html_escape_flat.

Theorem C18_html_escape_no_markup : forall k v,
  forallb (fun x => negb ((x =? LT) || (x =? DQ))) (html_escape k v) = true.
Proof. exact html_escape_no_markup. Qed.
Print Assumptions C18_html_escape_no_markup.

Theorem C18_html_escape_no_apos_repaired : forall k v,
  cfg_html_apos k = true -> mem_Z SQ (html_escape k v) = false.
Proof. exact html_escape_no_apos_repaired. Qed.
Print Assumptions C18_html_escape_no_apos_repaired.

(* Round trip and inertness at a text position: the XML machine, inside an
   element and between tokens, fed the escaped value, decodes it back to the
   value and consumes all of it as data of the text node being built; stacks,
   output so far and error flags are untouched and no markup state is entered.
   Side condition: the value's characters are ones XML can carry (with
   fixes/C18-html-escape-xmlchars.patch: every character) and not \r. *)
Theorem C18_html_text_inert : forall k v h acc rb,
  h_mode h = HText acc false rb -> h_stack h <> [] ->
  Forall (ok_text_char k) v ->
  exists rb', hrun k h (html_escape k v) = Ok (set_hmode h (HText (acc ++ map (dat k) v) false rb')).
Proof. exact html_text_inert. Qed.
Print Assumptions C18_html_text_inert.

(* Inertness at an attribute position: inside a double-quoted value (or a
   single-quoted one once the apostrophe is escaped) the escaped value extends
   that attribute's value and nothing else. *)
Theorem C18_html_attr_inert : forall k nm ats an q v h acc,
  h_mode h = HAttrVal nm ats an q acc false ->
  (q = DQ \/ (q = SQ /\ cfg_html_apos k = true)) ->
  Forall (ok_attr_char k) v ->
  hrun k h (html_escape k v) = Ok (set_hmode h (HAttrVal nm ats an q (acc ++ map (dat k) v) false)).
Proof. exact html_attr_inert. Qed.
Print Assumptions C18_html_attr_inert.

(* As the code stands: a single-quoted attribute is closed by the value, which adds bg. *)
Theorem C18_html_attr_inert_single_quote_refuted :
  html_template cfg_as_coded [S_style_fg_sq; S_x_end_sq] [S_red_bg_blue]
  = Ok [mkfrag S_fg_red_bg_blue [120] []].
Proof. exact html_attr_inert_single_quote_refuted. Qed.
Print Assumptions C18_html_attr_inert_single_quote_refuted.

(* As the code stands: a value character XML cannot carry makes the call raise. *)
Theorem C18_html_text_value_raises_refuted :
  html_template cfg_as_coded [[60; 105; 62]; [60; 47; 105; 62]] [[27; 91; 48; 109]] = Err 2.
Proof. exact html_text_value_raises_refuted. Qed.
Print Assumptions C18_html_text_value_raises_refuted.

(* As the code stands: the fg/bg guard lets a no-break space through. *)
Theorem C18_html_attr_space_guard_refuted :
  html_template cfg_as_coded [S_style_fg_dq; S_x_end_dq] [S_red_nbsp_bold]
  = Ok [mkfrag ([102; 103; 58] ++ S_red_nbsp_bold) [120] []].
Proof. exact html_attr_space_guard_refuted. Qed.
Print Assumptions C18_html_attr_space_guard_refuted.
