(* C12 - Split containers always terminate and divide space within every
   child's bounds.  Statements only; proofs are in Proofs/C12_*.v.

   A child's size requirement is a [dim] (min, max, preferred, weight) as
   produced by Dimension.__init__ ([valid]: 0 <= min <= preferred <= max,
   weight >= 0).  [divide fuel done ds avail] is the body shared by
   HSplit._divide_heights and VSplit._divide_widths on the dimensions [ds]
   of _all_children; [done] is get_app().is_done; its result is [Sizes l],
   [TooSmall] (the function returned None), [NoWeights] (ValueError from
   take_using_weights) or [OutOfFuel] (a loop ran more than [fuel]
   iterations).  [mins/prefs/maxs/weights ds] are the component lists,
   [le_all a b] is the pointwise <=, [zsum] the sum. *)
From Coq Require Import ZArith List Bool.
From PTK Require Import Lib.Sx Model.C12_Divide Gen.C12_Huge
     Proofs.C12_Safety Proofs.C12_Gen Proofs.C12_Termination Proofs.C12_Fixed.
Import ListNotations.
Open Scope Z_scope.

(* The model's "no maximum" sentinel is the one in /repo (regenerated table). *)
Theorem C12_huge_is_repo_sentinel :
  HUGE = repo_huge /\ repo_default_dim = [dmin flex; dmax flex; dpref flex; dweight flex].
Proof. split; vm_compute; reflexivity. Qed.
Print Assumptions C12_huge_is_repo_sentinel.

(* Dimension(...) either raises or is normalised. *)
Theorem C12_dimension_normalised : forall mn mx w p d,
  dimension mn mx w p = COk d ->
  0 <= dmin d /\ dmin d <= dpref d /\ dpref d <= dmax d /\ 0 <= dweight d.
Proof. exact dimension_valid. Qed.
Print Assumptions C12_dimension_normalised.

(* padding and alignment windows keep the list of requirements well-formed *)
Theorem C12_all_children_valid : forall align pad cs,
  valid pad -> Forall valid cs -> Forall valid (all_children align pad cs).
Proof. exact all_children_valid. Qed.
Print Assumptions C12_all_children_valid.

(* 'too small' exactly when the minimums do not fit (any fuel, any weights). *)
Theorem C12_too_small : forall fuel done ds avail,
  Forall valid ds ->
  (divide fuel done ds avail = TooSmall <-> ds <> [] /\ zsum (mins ds) > avail).
Proof. exact divide_too_small. Qed.
Print Assumptions C12_too_small.

(* Whenever sizes are returned: one per child, each within its own min..max,
   total within the available size; if the preferred sizes fit every child
   has at least its preferred size, and if they do not fit nobody gets more
   than preferred (preferred before extra); and the space is used as far as
   the children can grow: the total is exactly min(avail, sum of max)
   (when the app is done only the first loop runs: min(avail, sum of
   preferred), at least the sum of min). *)
Theorem C12_sizes : forall fuel done ds avail l,
  ds <> [] -> Forall valid ds -> divide fuel done ds avail = Sizes l ->
  length l = length ds /\
  le_all (mins ds) l /\ le_all l (maxs ds) /\
  zsum l <= avail /\
  (zsum (prefs ds) <= avail -> le_all (prefs ds) l) /\
  (avail <= zsum (prefs ds) -> le_all l (prefs ds)) /\
  (done = false -> zsum l = Z.min avail (zsum (maxs ds))) /\
  (done = true -> zsum l = Z.max (zsum (mins ds)) (Z.min avail (zsum (prefs ds)))).
Proof.
  intros fuel done ds avail l H1 H2 H3.
  destruct (divide_good fuel done ds avail l H1 H2 H3); repeat split; assumption.
Qed.
Print Assumptions C12_sizes.

(* Termination.  [reach_pref]/[reach_max] = what the loops can reach when
   weight-0 children stay at their minimum.  On these inputs the division
   returns within [divide_fuel] iterations per loop ... *)
Theorem C12_terminates_on_domain : forall done ds avail fuel,
  Forall valid ds ->
  Z.min avail (zsum (prefs ds)) <= reach_pref ds ->
  (done = true \/ Z.min avail (zsum (maxs ds)) <= reach_max ds) ->
  (divide_fuel ds avail <= fuel)%nat ->
  divide fuel done ds avail <> OutOfFuel.
Proof. intros done ds avail fuel H1 H2 H3 H4. apply divide_terminates; [assumption|split; assumption|assumption]. Qed.
Print Assumptions C12_terminates_on_domain.

(* ... in particular whenever no child has weight 0 but some room to grow *)
Example C12_domain_inhabited :
  in_domain false [mkdim 1 3 2 1; mkdim 0 HUGE 1 2; mkdim 2 2 2 0] 12 /\
  divide (divide_fuel [mkdim 1 3 2 1; mkdim 0 HUGE 1 2; mkdim 2 2 2 0] 12) false
         [mkdim 1 3 2 1; mkdim 0 HUGE 1 2; mkdim 2 2 2 0] 12 = Sizes [3; 7; 2].
Proof. split; [split; [|right]; vm_compute; discriminate|vm_compute; reflexivity]. Qed.
Print Assumptions C12_domain_inhabited.

(* ... and on every other input with fitting minimums and a weighted child it
   never returns, whatever the fuel. *)
Theorem C12_hangs_outside_domain : forall done ds avail,
  Forall valid ds -> zsum (mins ds) <= avail ->
  (exists c, 0 < nth c (weights ds) 0) ->
  ~ (Z.min avail (zsum (prefs ds)) <= reach_pref ds /\
     (done = true \/ Z.min avail (zsum (maxs ds)) <= reach_max ds)) ->
  forall fuel, divide fuel done ds avail = OutOfFuel.
Proof. exact divide_hangs. Qed.
Print Assumptions C12_hangs_outside_domain.

(* The property text ("for ... integer weights including zero ... dividing
   terminates") is therefore FALSE for the code as it is (finding C12-F1,
   DESIGN F4): HSplit([Window(height=D(min=0,max=5,preferred=5,weight=0)),
   Window(height=D(min=0,max=0,preferred=0,weight=1))]) at height 10. *)
Theorem C12_terminates_refuted :
  ~ (forall ds avail, Forall valid ds -> exists fuel, divide fuel false ds avail <> OutOfFuel).
Proof.
  intro H. destruct divide_f4_hangs as (Hv & Hh).
  destruct (H f4_dims 10 Hv) as (fuel & Hf). apply Hf. apply Hh.
Qed.
Print Assumptions C12_terminates_refuted.

(* ... and with only weight-0 children it raises instead of returning sizes
   (finding C12-F2). *)
Theorem C12_zero_weights_raise : forall fuel done ds avail,
  Forall valid ds -> ds <> [] -> zsum (mins ds) <= avail ->
  (forall c, nth c (weights ds) 0 <= 0) ->
  divide fuel done ds avail = NoWeights.
Proof. exact divide_no_weights. Qed.
Print Assumptions C12_zero_weights_raise.

(* The weight generator: every next() returns (within gen_fuel micro-steps)
   from every reachable state. *)
Theorem C12_generator_next_total : forall g, ginv g ->
  exists it g', next g = Some (it, g') /\ ginv g' /\
    exists q, (q < length (g_items g))%nat /\ it = nth q (g_items g) O.
Proof.
  intros g I. destruct (next_total g I) as (it & g' & Hn & I' & _ & _ & _ & _ & q & Hq & Hit & _).
  exists it, g'. split; [exact Hn|]. split; [exact I'|]. exists q. auto.
Qed.
Print Assumptions C12_generator_next_total.

(* HSplit/VSplit run that division on _all_children (HSplit answers [] for
   no children before looking at the padding windows; VSplit ignores
   is_done). *)
Theorem C12_split_divide : forall fuel orient done align pad cs avail,
  split_divide fuel orient done align pad cs avail =
  if (orient =? 0) && (match cs with [] => true | _ => false end) then Sizes []
  else divide fuel (if orient =? 0 then done else false) (all_children align pad cs) avail.
Proof. exact split_divide_eq. Qed.
Print Assumptions C12_split_divide.

(* Regions: child k is drawn at offset start + (sum of the sizes before it)
   with extent size k - disjoint, adjacent, in listed order - and what
   remains is filled by one more region. *)
Theorem C12_regions : forall sizes start,
  chain start (fst (regions_from start sizes)) (snd (regions_from start sizes)) /\
  snd (regions_from start sizes) = start + zsum sizes /\
  map (fun r => snd r) (fst (regions_from start sizes)) = sizes.
Proof. intros. apply regions_chain. Qed.
Print Assumptions C12_regions.

Theorem C12_draw : forall orient cs nall l start avail,
  ((orient =? 1) && (match cs with [] => true | _ => false end) = false) ->
  (length l <= nall)%nat ->
  draw orient cs nall (Sizes l) start avail =
  fst (regions_from start l) ++
  (if start + avail - (start + zsum l) >? 0
   then [(1, start + zsum l, start + avail - (start + zsum l))] else []).
Proof. exact draw_sizes. Qed.
Print Assumptions C12_draw.

(* After fixes/C12-zero-weight-children.patch (Model divide_fixed: without a
   weighted child everybody keeps the minimum; the stops are capped by what
   the weighted children can absorb) the division returns for ALL valid
   inputs within the same fuel: 'too small' iff the minimums do not fit,
   otherwise sizes within min..max and within the available size. *)
Theorem C12_fixed_terminates : forall done ds avail fuel,
  Forall valid ds -> (divide_fuel ds avail <= fuel)%nat ->
  (divide_fixed fuel done ds avail = TooSmall /\ ds <> [] /\ zsum (mins ds) > avail) \/
  exists l, divide_fixed fuel done ds avail = Sizes l /\
    (ds <> [] -> zsum (mins ds) <= avail /\ length l = length ds /\
                 le_all (mins ds) l /\ le_all l (maxs ds) /\ zsum l <= avail).
Proof.
  intros done ds avail fuel Hv Hf.
  destruct (divide_fixed_total done ds avail fuel Hv Hf) as [H|(l & H1 & _ & H2)]; [left; exact H|].
  right. exists l. split; assumption.
Qed.
Print Assumptions C12_fixed_terminates.
