(* C12 - Split containers always terminate and divide space within every
   child's bounds.  Statements only; proofs are in Proofs/C12_*.v.

   A child's size requirement is a [dim] (min, max, preferred, weight) as
   produced by Dimension.__init__ ([valid]: 0 <= min <= preferred <= max,
   weight >= 0).  [divide fuel done ds avail] is the body shared by
   HSplit._divide_heights and VSplit._divide_widths (as in /repo now) on
   the dimensions [ds] of _all_children; [done] is get_app().is_done; its
   result is [Sizes l], [TooSmall] (the function returned None) or
   [OutOfFuel] (a loop ran more than [fuel] iterations).
   [mins/prefs/maxs/weights ds] are the component lists, [le_all a b] is
   the pointwise <=, [zsum] the sum.  [tgts ws caps start] is the list
   that has caps[k] where ws[k] > 0 and start[k] elsewhere;
   [reach_pref ds] / [reach_max ds] = the total with the weighted children
   at preferred / max and the weight-0 children at min.

   [divide_pinned] is the function as it was before commit 8a80803
   ("fix: HSplit/VSplit hung or raised ValueError with zero-weight
   children"); the _pinned theorems characterise exactly where it hung. *)
From Coq Require Import ZArith List Bool Reals.
From PTK Require Import Lib.Sx Model.C12_Divide Model.C12_Layout Model.C12_PrimFloat Gen.C12_Huge Gen.C12_FloatProbes
     Proofs.C12_Safety Proofs.C12_Gen Proofs.C12_Termination Proofs.C12_Fixed Proofs.C12_Cache Proofs.C12_Float
     Proofs.C12_Layout Proofs.C12_LayoutDraw Proofs.C12_LayoutMore Proofs.C12_LayoutTile Proofs.C12_Stale Proofs.C12_PrimFloat.
Import ListNotations.
Open Scope Z_scope.

(* The model's "no maximum" sentinel is the one in /repo (regenerated table). *)
Theorem C12_huge_is_repo_sentinel :
  HUGE = repo_huge /\ repo_default_dim = [dmin flex; dmax flex; dpref flex; dweight flex].
Proof. split; vm_compute; reflexivity. Qed.
Print Assumptions C12_huge_is_repo_sentinel.

(* Dimension(...) either raises or is normalised. *)
Theorem C12_dimension_normalised : forall mn mx w p d,
  dimension mn mx w p = COk d ->
  0 <= dmin d /\ dmin d <= dpref d /\ dpref d <= dmax d /\ 0 <= dweight d.
Proof. exact dimension_valid. Qed.
Print Assumptions C12_dimension_normalised.

(* padding and alignment windows keep the list of requirements well-formed *)
Theorem C12_all_children_valid : forall align pad cs,
  valid pad -> Forall valid cs -> Forall valid (all_children align pad cs).
Proof. exact all_children_valid. Qed.
Print Assumptions C12_all_children_valid.

(* The weight generator: the initial state satisfies the invariant [ginv],
   and from every state satisfying it next() returns (within gen_fuel
   micro-steps) a weighted item and a state satisfying it again - so every
   next() of every reachable state returns. *)
Theorem C12_generator_next_total :
  (forall ws g, gen_init (seq 0 (length ws)) ws = Some g -> ginv g) /\
  (forall g, ginv g ->
     exists it g', next g = Some (it, g') /\ ginv g' /\
       exists q, (q < length (g_items g))%nat /\ it = nth q (g_items g) O).
Proof.
  split.
  - intros ws g H. apply (gen_init_spec ws g H).
  - intros g I. destruct (next_total g I) as (it & g' & Hn & I' & _ & _ & _ & _ & q & Hq & Hit & _).
    exists it, g'. split; [exact Hn|]. split; [exact I'|]. exists q. auto.
Qed.
Print Assumptions C12_generator_next_total.

(* take_using_weights tests `already_taken[k] < i * weight / float(max_weight)`
   in binary64 arithmetic ([rnd64] = round to nearest even, 53 bits, emin
   -1074; the int/float division rounds once; int < float is exact).  Below
   2^53 that is the exact integer comparison the model uses.  (Flocq + Coq
   reals: this is the only theorem resting on the standard axioms of the
   real numbers.) *)
Theorem C12_float_compare_exact : forall g k,
  (0 <= g_i g * nth k (g_weights g) 0 < 2 ^ 53)%Z -> (0 < g_maxw g < 2 ^ 53)%Z ->
  ((IZR (nth k (g_taken g) 0%Z) < rnd64 (IZR (g_i g * nth k (g_weights g) 0%Z) / IZR (g_maxw g)))%R
   <-> eligible g k = true).
Proof. exact eligible_is_float_test. Qed.
Print Assumptions C12_float_compare_exact.

(* The same test on Coq's primitive binary64 floats ([prim_test]: both ints
   converted, one division, one comparison - the kernel's IEEE 754 double
   operations; only Uint63 and PrimFloat are imported, so no axiomatised
   specification: Print Assumptions lists the primitive operations, not
   logical axioms).  (1) exhaustively for taken <= 40, i*weight <= 400,
   max_weight <= 60 it is the model's exact integer test; *)
Theorem C12_float_prim_small_exact : forall taken iw maxw,
  0 <= taken <= 40 -> 0 <= iw <= 400 -> 1 <= maxw <= 60 ->
  prim_test taken iw maxw = exact_test taken iw maxw.
Proof. exact prim_small_exact. Qed.
Print Assumptions C12_float_prim_small_exact.

(* (2) on every probe of the table regenerated on each run - CPython's own
   answer to `taken < i*weight / float(max_weight)` on more than 5000
   adversarial triples (quotients next to an integer, operands next to
   powers of two, below and beyond 2^53) - Coq's binary64 evaluation gives
   CPython's answer, and below 2^53 so does the model's integer test; *)
Theorem C12_float_probes_agree :
  (5000 <= length float_probes)%nat /\
  forall t iw mw r, In (t, iw, mw, r) float_probes ->
    prim_test t iw mw = (r =? 1) /\
    (iw < 2 ^ 53 -> mw < 2 ^ 53 -> exact_test t iw mw = (r =? 1)).
Proof. exact (conj probes_many probes_agree). Qed.
Print Assumptions C12_float_probes_agree.

(* (3) beyond 2^53 the float test is not the exact test (2^53 + 1 converts
   to 2^53): the hypothesis of C12_float_compare_exact cannot be dropped.
   Reaching it needs weights or round counts of the order 2^53. *)
Theorem C12_float_beyond_2p53_refuted :
  exists taken iw maxw, 0 <= taken /\ 0 < maxw /\ prim_test taken iw maxw <> exact_test taken iw maxw.
Proof. exact float_test_beyond_2p53_differs. Qed.
Print Assumptions C12_float_beyond_2p53_refuted.

(* 'too small' exactly when the minimums do not fit (any fuel, any weights). *)
Theorem C12_too_small : forall fuel done ds avail,
  Forall valid ds ->
  (divide fuel done ds avail = TooSmall <-> ds <> [] /\ zsum (mins ds) > avail).
Proof. exact divide_too_small_iff. Qed.
Print Assumptions C12_too_small.

(* TERMINATION, for all child lists, all weights >= 0 (zero included), all
   available sizes: within
     divide_fuel ds avail = (max(0, avail) + 1) * (sum of the weights) + n + 1
   iterations per loop (n children) the division answers 'too small' or
   sizes - never out of fuel, never an exception. *)
Theorem C12_terminates : forall done ds avail fuel,
  Forall valid ds -> (divide_fuel ds avail <= fuel)%nat ->
  (divide fuel done ds avail = TooSmall /\ ds <> [] /\ zsum (mins ds) > avail) \/
  exists l, divide fuel done ds avail = Sizes l.
Proof.
  intros done ds avail fuel Hv Hf.
  destruct (divide_total done ds avail fuel Hv Hf) as [H|(l & H & _)]; [left; exact H|right; eauto].
Qed.
Print Assumptions C12_terminates.

(* The sizes: one per child, each within its own min..max, total within the
   available size.  Children with weight 0 take no part in growing and keep
   their minimum ([le_all l (tgts ...)]).  Preferred before extra: if the
   preferred sizes of the weighted children fit, each of them has at least
   its preferred size; if they do not fit, nobody gets more than preferred.
   Maximal use: the total is exactly min(avail, sum of max, reach_max)
   (when the app is done only the first loop runs: min(avail, sum of
   preferred, reach_pref)). *)
Theorem C12_sizes : forall fuel done ds avail l,
  Forall valid ds -> (divide_fuel ds avail <= fuel)%nat -> ds <> [] ->
  divide fuel done ds avail = Sizes l ->
  zsum (mins ds) <= avail /\
  length l = length ds /\
  le_all (mins ds) l /\ le_all l (maxs ds) /\
  zsum l <= avail /\
  le_all l (tgts (weights ds) (maxs ds) (mins ds)) /\
  (reach_pref ds <= avail -> le_all (tgts (weights ds) (prefs ds) (mins ds)) l) /\
  (avail <= reach_pref ds -> le_all l (prefs ds)) /\
  (done = false -> zsum l = Z.min (Z.min avail (zsum (maxs ds))) (reach_max ds)) /\
  (done = true -> zsum l = Z.min (Z.min avail (zsum (prefs ds))) (reach_pref ds)).
Proof.
  intros fuel done ds avail l Hv Hf Hne Hd.
  destruct (divide_sizes_good fuel done ds avail l Hv Hf Hne Hd). repeat split; assumption.
Qed.
Print Assumptions C12_sizes.

(* with only positive weights this is the unrelaxed reading of the property:
   every child reaches preferred when the preferred sizes fit, and the total
   is min(avail, sum of max) *)
Theorem C12_sizes_all_weighted : forall fuel ds avail l,
  Forall valid ds -> (divide_fuel ds avail <= fuel)%nat -> ds <> [] ->
  (forall c, (c < length ds)%nat -> 0 < nth c (weights ds) 0) ->
  divide fuel false ds avail = Sizes l ->
  (zsum (prefs ds) <= avail -> le_all (prefs ds) l) /\
  zsum l = Z.min avail (zsum (maxs ds)).
Proof. exact divide_all_weighted. Qed.
Print Assumptions C12_sizes_all_weighted.

(* The bound is of the right order.  Below: no generator whatsoever lets a
   loop finish in fewer iterations than the amount by which it has to raise
   the total; and a child of weight 1 next to a saturated child of weight 50
   at 20 available cells needs more than 969 iterations (the bound is 1074):
   the factor "sum of the weights" cannot be dropped. *)
Theorem C12_loop_needs_fuel : forall (G : Type) (nx : G -> option (nat * G)) fuel stop caps sizes i g r,
  grow nx fuel stop caps sizes i g = Some r -> stop - zsum sizes <= Z.of_nat fuel.
Proof. intros G nx. exact (grow_needs_fuel nx). Qed.
Print Assumptions C12_loop_needs_fuel.

Example C12_fuel_bound_nearly_attained :
  let ds := [mkdim 0 0 0 50; mkdim 0 HUGE 0 1] in
  divide_fuel ds 20 = 1074%nat /\ divide 969 false ds 20 = OutOfFuel /\ divide 1000 false ds 20 = Sizes [0; 20].
Proof. vm_compute. repeat split; reflexivity. Qed.
Print Assumptions C12_fuel_bound_nearly_attained.

Example C12_example :
  divide (divide_fuel [mkdim 1 3 2 1; mkdim 0 HUGE 1 2; mkdim 2 2 2 0] 12) false
         [mkdim 1 3 2 1; mkdim 0 HUGE 1 2; mkdim 2 2 2 0] 12 = Sizes [3; 7; 2] /\
  (* the input on which the pinned function hung (DESIGN F4) *)
  divide (divide_fuel f4_dims 10) false f4_dims 10 = Sizes [0; 0] /\
  (* the input on which it raised ValueError *)
  divide (divide_fuel [mkdim 1 1 1 0] 10) false [mkdim 1 1 1 0] 10 = Sizes [1].
Proof. repeat split; vm_compute; reflexivity. Qed.
Print Assumptions C12_example.

(* HSplit/VSplit run that division on _all_children (HSplit answers [] for
   no children before looking at the padding windows; VSplit ignores
   is_done). *)
Theorem C12_split_divide : forall fuel orient done align pad cs avail,
  split_divide fuel orient done align pad cs avail =
  if (orient =? 0) && (match cs with [] => true | _ => false end) then Sizes []
  else divide fuel (if orient =? 0 then done else false) (all_children align pad cs) avail.
Proof. intros. apply split_divide_eq. Qed.
Print Assumptions C12_split_divide.

(* Regions: child k is drawn at offset start + (sum of the sizes before it)
   with extent size k - disjoint, adjacent, in listed order - and what
   remains is filled by one more region. *)
Theorem C12_regions : forall sizes start,
  chain start (fst (regions_from start sizes)) (snd (regions_from start sizes)) /\
  snd (regions_from start sizes) = start + zsum sizes /\
  map (fun r => snd r) (fst (regions_from start sizes)) = sizes.
Proof. intros. apply regions_chain. Qed.
Print Assumptions C12_regions.

Theorem C12_draw : forall orient cs nall l start avail,
  ((orient =? 1) && (match cs with [] => true | _ => false end) = false) ->
  (length l <= nall)%nat ->
  draw orient cs nall (Sizes l) start avail =
  fst (regions_from start l) ++
  (if start + avail - (start + zsum l) >? 0
   then [(1, start + zsum l, start + avail - (start + zsum l))] else []).
Proof. exact draw_sizes. Qed.
Print Assumptions C12_draw.

(* ------------------------------------------------------------------ *)
(* The cached _all_children (SimpleCache(maxsize=1) keyed by
   tuple(self.children)): children are ids, [entries align ids] is the list
   the getter builds for the children [ids], [cache_get] one lookup,
   [cache_after align None history] the cache after any history of renders
   with any children lists (= any in-place edits in between). *)

(* Whatever happened before, a lookup returns exactly what a recomputation
   for the children listed NOW returns ... *)
Theorem C12_cache_transparent : forall align history ids,
  fst (cache_get align (cache_after align None history) ids) = entries align ids.
Proof. exact cache_transparent. Qed.
Print Assumptions C12_cache_transparent.

(* ... which holds exactly the listed children, in their listed order, and
   whose dimensions are _all_children of the listed children. *)
Theorem C12_cached_children : forall pool pad align ids,
  children_of (entries align ids) = ids /\
  map (entry_dim pool pad) (entries align ids) = all_children align pad (map (lookup pool) ids).
Proof. intros. split; [apply entries_children|apply entries_all_children]. Qed.
Print Assumptions C12_cached_children.

(* A sequence of renders of one split object - its children list edited and
   its children's reported requirements changed in between - gives, at
   every step, the render of a split that recomputes _all_children from the
   current children and divides by the requirements reported now. *)
Theorem C12_renders_ignore_cache : forall fuel orient done align pad pool avail start steps,
  render_steps fuel orient done align pad pool avail start None steps =
  render_fresh fuel orient done align pad pool avail start steps.
Proof. intros. apply render_steps_nocache. exact I. Qed.
Print Assumptions C12_renders_ignore_cache.

(* ------------------------------------------------------------------ *)
(* Nested splits: what a split reports to its parent, Window dimensions. *)

(* max_layout_dimensions of well-formed requirements never raises and is
   well-formed (HSplit.preferred_width, VSplit.preferred_height) *)
Theorem C12_max_layout_valid : forall ds, Forall valid ds ->
  exists d, max_layout_dimensions ds = COk d /\ valid d.
Proof. exact max_layout_valid. Qed.
Print Assumptions C12_max_layout_valid.

(* preferred_width / preferred_height of HSplit and VSplit (width=None,
   height=None) never raise and report a well-formed requirement *)
Theorem C12_split_report_valid : forall fuel orient axis align pad cs width r,
  valid pad -> Forall valid (map fst cs) -> Forall valid (map snd cs) ->
  split_report fuel orient axis align pad cs width = inl r ->
  exists d, r = COk d /\ valid d.
Proof. exact split_report_valid. Qed.
Print Assumptions C12_split_report_valid.

(* ... and with enough fuel for VSplit.preferred_height's division of the
   widths the report always exists (never the out-of-fuel / error codes) *)
Theorem C12_split_report_total : forall fuel orient axis align pad cs width,
  valid pad -> Forall valid (map fst cs) -> Forall valid (map snd cs) ->
  (divide_fuel (all_children align pad (map fst cs)) width <= fuel)%nat ->
  exists d, split_report fuel orient axis align pad cs width = inl (COk d) /\ valid d.
Proof. exact split_report_total. Qed.
Print Assumptions C12_split_report_total.

(* ... with an explicit width= / height= on the split (a Dimension built by
   the constructor; an int n is Dimension.exact(n)) the split reports
   exactly that Dimension, which is well-formed *)
Theorem C12_split_report_override_valid : forall mn mx w p fuel orient axis align pad cs width d,
  split_report_ov (Some (dimension mn mx w p)) fuel orient axis align pad cs width = inl (COk d) ->
  valid d /\ dimension mn mx w p = COk d.
Proof. exact split_report_ov_ctor_valid. Qed.
Print Assumptions C12_split_report_override_valid.

(* (A statement of fact about one expression, recorded because it delimits
   the property.)  Across the split axis there is no division: every child is handed the
   full cross extent of the split, whatever it asks for (HSplit passes the
   width on; VSplit computes max(h, min(h, max(heights))) = h).  So for
   nesting ACROSS the axis "within each leaf's bounds" is not a property of
   the split (the Window clips itself via dont_extend_width and dont_extend_height); only same-axis
   nesting is (next theorem). *)
Theorem C12_cross_axis_full_extent : forall orient cross prefs,
  cross_extent orient cross prefs = cross.
Proof. exact cross_extent_full. Qed.
Print Assumptions C12_cross_axis_full_extent.

(* Nested division along the same axis stays within every leaf's bounds:
   if the k-th requirement of the outer split is what an inner split reports
   (the sum over its own children), the size the outer division gives it is
   within the reported min..max and the inner division, run with that size,
   is never 'too small' and keeps each of ITS children within min..max. *)
Theorem C12_nested_same_axis : forall fuel fuel' done done' outer inner k avail l,
  Forall valid outer -> Forall valid inner -> inner <> [] -> (k < length outer)%nat ->
  sum_layout_dimensions inner = COk (nth k outer flex) ->
  (divide_fuel outer avail <= fuel)%nat -> divide fuel done outer avail = Sizes l ->
  (divide_fuel inner (nth k l 0%Z) <= fuel')%nat ->
  dmin (nth k outer flex) <= nth k l 0 <= dmax (nth k outer flex) /\
  exists l', divide fuel' done' inner (nth k l 0) = Sizes l' /\
             length l' = length inner /\ le_all (mins inner) l' /\ le_all l' (maxs inner) /\
             zsum l' <= nth k l 0.
Proof. exact nested_same_axis. Qed.
Print Assumptions C12_nested_same_axis.

(* Window._merge_dimensions (what a Window reports): well-formed whenever it
   returns; and it returns whenever the Window's own Dimension is
   constructible and the content reports a size >= 0, keeping the Window's
   min and weight, never widening its max (max unchanged without
   dont_extend). *)
Theorem C12_merge_valid : forall mn mx w p cp de d,
  merge_dimensions mn mx w p cp de = COk d -> valid d.
Proof. exact merge_valid. Qed.
Print Assumptions C12_merge_valid.

Theorem C12_merge_total : forall mn mx w p cp de d0,
  dimension mn mx w p = COk d0 ->
  (forall v, cp = Some v -> 0 <= v) ->
  exists d, merge_dimensions mn mx w p cp de = COk d /\
            dmin d = dmin d0 /\ dweight d = dweight d0 /\ dmax d <= dmax d0 /\
            (de = false -> dmax d = dmax d0).
Proof. exact merge_total. Qed.
Print Assumptions C12_merge_total.

(* Window.preferred_width/height including margins and
   ignore_content_width/height: total and well-formed, min and weight are
   the Window's own, the max is never widened *)
Theorem C12_window_preferred_total : forall axis mn mx w p cp de margin ignore d0,
  dimension mn mx w p = COk d0 ->
  (forall v, cp = Some v -> 0 <= v) -> 0 <= margin ->
  exists d, window_preferred axis mn mx w p cp de margin ignore = COk d /\ valid d /\
            dmin d = dmin d0 /\ dweight d = dweight d0 /\ dmax d <= dmax d0.
Proof. exact window_preferred_total. Qed.
Print Assumptions C12_window_preferred_total.

(* ------------------------------------------------------------------ *)
(* Nested layouts (Model/C12_Layout.v): a [tree] is a leaf reporting a fixed
   (width, height) requirement or an HSplit/VSplit (orientation, alignment,
   padding, children).  [wf t]: every leaf requirement and every padding is
   a Dimension as the constructor makes them.  [pw t] / [ph fuel t width]
   are preferred_width / preferred_height(width) of the real classes
   (VSplit.preferred_height divides the widths and asks every child for
   its height at its divided width); [write fuel done t x y w h] is
   write_to_screen at WritePosition(x, y, w, h): the list of regions drawn
   (leaves, padding / alignment / remaining-space / too-small windows) in
   drawing order, or a code (3 = a divide loop out of fuel). *)

(* Every Dimension reported anywhere in a tree is well-formed:
   preferred_width always returns 0 <= min <= preferred <= max ... *)
Theorem C12_tree_width_valid : forall t, wf t -> exists d, pw t = RDim d /\ valid d.
Proof. exact pw_valid. Qed.
Print Assumptions C12_tree_width_valid.

(* ... preferred_height never raises: whatever the fuel it is out of fuel or
   a well-formed Dimension ... *)
Theorem C12_tree_height_valid : forall fuel t width, wf t ->
  ph fuel t width = RFuel \/ exists d, ph fuel t width = RDim d /\ valid d.
Proof. intros fuel t width H. exact (ph_good fuel t H width). Qed.
Print Assumptions C12_tree_height_valid.

(* ... and it terminates: some fuel suffices, and every larger fuel gives
   the same well-formed Dimension (nested divisions included). *)
Theorem C12_tree_height_total : forall t width, wf t ->
  exists f0 d, valid d /\ forall fuel, (f0 <= fuel)%nat -> ph fuel t width = RDim d.
Proof.
  intros t width H. destruct (ph_total t H width) as (f0 & d & Hv & Hd). exists f0, d. auto.
Qed.
Print Assumptions C12_tree_height_total.

(* Leaves may wrap ([WLeaf id wd len]: len cells of text, height
   ceil(len / width) at the width offered) and a split may carry width= /
   height= ([Over ow oh split]); [wf] asks len >= 0 and well-formed
   override Dimensions.  A wrapping leaf's report is always a well-formed
   Dimension ... *)
Theorem C12_wrap_height_valid : forall len width, 0 <= len ->
  exists d, wrap_height len width = COk d /\ valid d.
Proof. exact wrap_height_valid. Qed.
Print Assumptions C12_wrap_height_valid.

(* ... and VSplit.preferred_height asks every child at ITS divided width:
   10 cells of text next to a column of exact width 5, in 10 columns, are 2
   rows high (at the whole width they would be 1) *)
Example C12_tree_height_at_divided_width :
  ph 100 (Node 1 3 (mkdim 0 0 0 1) [WLeaf 0 (mkdim 0 HUGE 0 1) 10; Leaf 1 (mkdim 5 5 5 1) (mkdim 0 HUGE 0 1)]) 10
  = RDim (mkdim 0 HUGE 2 1) /\
  wrap_height 10 10 = COk (mkdim 0 HUGE 1 1).
Proof. split; vm_compute; reflexivity. Qed.
Print Assumptions C12_tree_height_at_divided_width.

(* Drawing.  Whatever write_to_screen draws for a nested layout at
   WritePosition(x, y, w, h) (any offsets, w, h >= 0, any nesting, any
   alignment / padding, app done or not): every region lies inside
   (x, y, w, h) with non-negative extents, and the regions are pairwise
   separated by a horizontal or a vertical line - so no two children,
   however deeply nested, are drawn over each other. *)
Theorem C12_tree_draw_inside_disjoint : forall fuel done t x y w h rs,
  wf t -> 0 <= w -> 0 <= h -> write fuel done t x y w h = inl rs ->
  Forall (inside x y w h) rs /\ ForallOrdPairs disj rs.
Proof. intros fuel done t x y w h rs Hwf Hw Hh Hr. exact (write_good fuel done t Hwf x y w h rs Hw Hh Hr). Qed.
Print Assumptions C12_tree_draw_inside_disjoint.

(* One split: each entry of _all_children is drawn with exactly its divided
   size at the sum of the sizes before it, across the full cross extent of
   the parent region (HSplit: (x, y + sum, w, size); VSplit: (x + sum, y,
   size, h)). *)
Theorem C12_entry_region : forall o kind x y w h sizes e,
  entry_rect o kind x y w h sizes e =
  if o =? 0 then mkrect kind x (y + zsum (firstn e sizes)) w (nth e sizes 0)
  else mkrect kind (x + zsum (firstn e sizes)) y (nth e sizes 0) h.
Proof. intros. unfold entry_rect, piece, axis_start. destruct (o =? 0); reflexivity. Qed.
Print Assumptions C12_entry_region.

(* The drawing uses entry [kid_entry al idx] = (1 if there is a leading
   alignment window) + 2 * idx of the sizes for the idx-th child.  That IS
   the child's entry in _all_children (the list that was divided), the entry
   after it is a padding window, and the list has children + paddings +
   alignment windows entries. *)
Theorem C12_all_children_entries : forall al pad cs,
  (cs <> [] ->
   length (all_children al pad cs) = (lead al + 2 * length cs - 1 + (if trail al then 1 else 0))%nat) /\
  (forall idx d0, (idx < length cs)%nat -> nth (kid_entry al idx) (all_children al pad cs) d0 = nth idx cs d0) /\
  (forall idx d0, (S idx < length cs)%nat -> nth (S (kid_entry al idx)) (all_children al pad cs) d0 = pad).
Proof. exact all_children_entries. Qed.
Print Assumptions C12_all_children_entries.

(* Hence every child - leaf or nested split, at any depth - is handed exactly
   its divided size, and that size is within the min..max the child itself
   reported to the split ([ds] = what the children reported along the axis). *)
Theorem C12_child_size_within_reported : forall fuel done al pad ds avail sizes idx,
  valid pad -> Forall valid ds -> (idx < length ds)%nat ->
  divide fuel done (all_children al pad ds) avail = Sizes sizes ->
  dmin (nth idx ds flex) <= nth (kid_entry al idx) sizes 0 <= dmax (nth idx ds flex) /\
  length sizes = length (all_children al pad ds) /\ (kid_entry al idx < length sizes)%nat.
Proof. exact kid_size_bounds. Qed.
Print Assumptions C12_child_size_within_reported.

(* Drawing a nested layout terminates: some fuel suffices, every larger fuel
   draws the same regions, and no exception is possible. *)
Theorem C12_tree_draw_total : forall done t x y w h, wf t ->
  exists f0 rs, forall fuel, (f0 <= fuel)%nat -> write fuel done t x y w h = inl rs.
Proof. intros done t x y w h H. exact (write_total done t H x y w h). Qed.
Print Assumptions C12_tree_draw_total.

(* The regions drawn fill the region of the layout: their areas add up to
   w * h ([full t]: no VSplit without children, which draws nothing at all).
   With "inside" and "pairwise disjoint" above this makes every drawing an
   exact tiling: adjacent regions without gaps or overlaps. *)
Theorem C12_tree_draw_fills : forall fuel done t x y w h rs,
  wf t -> full t -> 0 <= w -> 0 <= h -> write fuel done t x y w h = inl rs ->
  zsum (map (fun r => rw r * rh r) rs) = w * h.
Proof. intros fuel done t x y w h rs H1 H2 Hw Hh Hr. exact (write_fills fuel done t H1 H2 x y w h rs Hw Hh Hr). Qed.
Print Assumptions C12_tree_draw_fills.

(* ... and without the hypothesis it fails: an empty VSplit leaves its whole
   region unpainted (VSplit.write_to_screen returns at once; an empty HSplit
   paints its remaining-space window) *)
Theorem C12_tree_draw_fills_empty_vsplit_refuted :
  ~ (forall fuel done t x y w h rs, wf t -> 0 <= w -> 0 <= h -> write fuel done t x y w h = inl rs ->
       zsum (map (fun r => rw r * rh r) rs) = w * h).
Proof. exact write_fills_needs_full. Qed.
Print Assumptions C12_tree_draw_fills_empty_vsplit_refuted.

(* a nested example, evaluated: HSplit([VSplit([A, B], padding=1), C]) at
   WritePosition(2, 3, 9, 4) *)
Example C12_tree_example :
  write 200 false
    (Node 0 3 (mkdim 0 0 0 1)
       [Node 1 3 (mkdim 1 1 1 1) [Leaf 0 (mkdim 1 HUGE 2 1) (mkdim 1 2 2 1); Leaf 1 (mkdim 0 3 3 1) (mkdim 0 HUGE 1 1)];
        Leaf 2 (mkdim 0 HUGE 0 1) (mkdim 1 1 1 1)]) 2 3 9 4
  = inl [mkrect 0 2 3 5 2; mkrect (-1) 7 3 1 2; mkrect 1 8 3 3 2;      (* the VSplit: A, its padding column, B *)
         mkrect (-1) 2 5 9 0; mkrect 2 2 5 9 1;                          (* the HSplit's padding row (height 0), C *)
         mkrect (-3) 2 6 9 1].                                            (* nobody can grow: remaining-space window *)
Proof. vm_compute. reflexivity. Qed.
Print Assumptions C12_tree_example.

(* ------------------------------------------------------------------ *)
(* split.align / split.padding assigned after construction: they are read
   when the _all_children getter runs (a cache miss) and are not part of the
   key.  [render_steps2]: renders of one split, each preceded by assignments
   of align, padding and children; [render_fresh2]: what a split reading
   its current align / padding at every render would draw. *)

(* with align and padding left alone this is the model of the earlier
   theorems (C12_renders_ignore_cache) *)
Theorem C12_align_padding_fixed : forall fuel orient done align pad pool avail start idss,
  render_steps2 fuel orient done pool avail start None (map (fun ids => (align, pad, ids)) idss) =
  render_steps fuel orient done align pad pool avail start None (map (fun ids => ([], ids)) idss).
Proof. exact render_steps2_fixed. Qed.
Print Assumptions C12_align_padding_fixed.

(* a render whose children tuple is not the cached key uses the current
   align / padding; a render with the cached key uses those of the miss *)
Theorem C12_align_padding_from_last_miss : forall align pad c ids,
  fst (cache2_get align pad c ids) =
  match c with
  | Some (k, v) => if zlist_eqb k ids then v else (align, pad)
  | None => (align, pad)
  end.
Proof. exact cache2_get_spec. Qed.
Print Assumptions C12_align_padding_from_last_miss.

(* hence an assignment to split.padding (or split.align) alone is NOT seen
   by the next render: the cache is not transparent for these two
   attributes (an observation about the API; the division performed is
   still a correct division of the requirement list that is used) *)
Theorem C12_align_padding_stale_refuted :
  ~ (forall fuel orient done pool avail start steps,
       render_steps2 fuel orient done pool avail start None steps =
       render_fresh2 fuel orient done pool avail start steps).
Proof. exact render_steps2_stale. Qed.
Print Assumptions C12_align_padding_stale_refuted.

(* ------------------------------------------------------------------ *)
(* The function before the fix (divide_pinned): where exactly it hung. *)

(* whenever it returned sizes they were right (for any item stream) *)
Theorem C12_sizes_pinned : forall fuel done ds avail l,
  ds <> [] -> Forall valid ds -> divide_pinned fuel done ds avail = Sizes l ->
  length l = length ds /\
  le_all (mins ds) l /\ le_all l (maxs ds) /\
  zsum l <= avail /\
  (zsum (prefs ds) <= avail -> le_all (prefs ds) l) /\
  (avail <= zsum (prefs ds) -> le_all l (prefs ds)) /\
  (done = false -> zsum l = Z.min avail (zsum (maxs ds))) /\
  (done = true -> zsum l = Z.max (zsum (mins ds)) (Z.min avail (zsum (prefs ds)))).
Proof.
  intros fuel done ds avail l H1 H2 H3.
  destruct (divide_good fuel done ds avail l H1 H2 H3); repeat split; assumption.
Qed.
Print Assumptions C12_sizes_pinned.

(* it returned within divide_fuel on these inputs ... *)
Theorem C12_terminates_on_domain_pinned : forall done ds avail fuel,
  Forall valid ds ->
  Z.min avail (zsum (prefs ds)) <= reach_pref ds ->
  (done = true \/ Z.min avail (zsum (maxs ds)) <= reach_max ds) ->
  (divide_fuel ds avail <= fuel)%nat ->
  divide_pinned fuel done ds avail <> OutOfFuel.
Proof. intros done ds avail fuel H1 H2 H3 H4. apply divide_terminates; [assumption|split; assumption|assumption]. Qed.
Print Assumptions C12_terminates_on_domain_pinned.

(* ... and on every other input with fitting minimums and a weighted child it
   never returned, whatever the fuel. *)
Theorem C12_hangs_outside_domain_pinned : forall done ds avail,
  Forall valid ds -> zsum (mins ds) <= avail ->
  (exists c, 0 < nth c (weights ds) 0) ->
  ~ (Z.min avail (zsum (prefs ds)) <= reach_pref ds /\
     (done = true \/ Z.min avail (zsum (maxs ds)) <= reach_max ds)) ->
  forall fuel, divide_pinned fuel done ds avail = OutOfFuel.
Proof. exact divide_hangs. Qed.
Print Assumptions C12_hangs_outside_domain_pinned.

(* so "dividing terminates for weights including zero" was false (fixed
   finding, DESIGN F4): HSplit([Window(height=D(min=0,max=5,preferred=5,
   weight=0)), Window(height=D(min=0,max=0,preferred=0,weight=1))]) at
   height 10 *)
Theorem C12_terminates_pinned_refuted :
  ~ (forall ds avail, Forall valid ds -> exists fuel, divide_pinned fuel false ds avail <> OutOfFuel).
Proof.
  intro H. destruct divide_f4_hangs as (Hv & Hh).
  destruct (H f4_dims 10 Hv) as (fuel & Hf). apply Hf. apply Hh.
Qed.
Print Assumptions C12_terminates_pinned_refuted.

(* and with only weight-0 children it raised instead of returning sizes *)
Theorem C12_zero_weights_raise_pinned : forall fuel done ds avail,
  Forall valid ds -> ds <> [] -> zsum (mins ds) <= avail ->
  (forall c, nth c (weights ds) 0 <= 0) ->
  divide_pinned fuel done ds avail = NoWeights.
Proof. exact divide_no_weights. Qed.
Print Assumptions C12_zero_weights_raise_pinned.
