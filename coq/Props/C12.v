(* C12 - Split containers always terminate and divide space within every
   child's bounds.  Statements only; proofs are in Proofs/C12_*.v.

   A child's size requirement is a [dim] (min, max, preferred, weight) as
   produced by Dimension.__init__ ([valid]: 0 <= min <= preferred <= max,
   weight >= 0).  [divide fuel done ds avail] is the body shared by
   HSplit._divide_heights and VSplit._divide_widths (as in /repo now) on
   the dimensions [ds] of _all_children; [done] is get_app().is_done; its
   result is [Sizes l], [TooSmall] (the function returned None) or
   [OutOfFuel] (a loop ran more than [fuel] iterations).
   [mins/prefs/maxs/weights ds] are the component lists, [le_all a b] is
   the pointwise <=, [zsum] the sum.  [tgts ws caps start] is the list
   that has caps[k] where ws[k] > 0 and start[k] elsewhere;
   [reach_pref ds] / [reach_max ds] = the total with the weighted children
   at preferred / max and the weight-0 children at min.

   [divide_pinned] is the function as it was before commit 8a80803
   ("fix: HSplit/VSplit hung or raised ValueError with zero-weight
   children"); the _pinned theorems characterise exactly where it hung. *)
From Coq Require Import ZArith List Bool.
From PTK Require Import Lib.Sx Model.C12_Divide Gen.C12_Huge
     Proofs.C12_Safety Proofs.C12_Gen Proofs.C12_Termination Proofs.C12_Fixed.
Import ListNotations.
Open Scope Z_scope.

(* The model's "no maximum" sentinel is the one in /repo (regenerated table). *)
Theorem C12_huge_is_repo_sentinel :
  HUGE = repo_huge /\ repo_default_dim = [dmin flex; dmax flex; dpref flex; dweight flex].
Proof. split; vm_compute; reflexivity. Qed.
Print Assumptions C12_huge_is_repo_sentinel.

(* Dimension(...) either raises or is normalised. *)
Theorem C12_dimension_normalised : forall mn mx w p d,
  dimension mn mx w p = COk d ->
  0 <= dmin d /\ dmin d <= dpref d /\ dpref d <= dmax d /\ 0 <= dweight d.
Proof. exact dimension_valid. Qed.
Print Assumptions C12_dimension_normalised.

(* padding and alignment windows keep the list of requirements well-formed *)
Theorem C12_all_children_valid : forall align pad cs,
  valid pad -> Forall valid cs -> Forall valid (all_children align pad cs).
Proof. exact all_children_valid. Qed.
Print Assumptions C12_all_children_valid.

(* The weight generator: every next() returns (within gen_fuel micro-steps)
   from every reachable state. *)
Theorem C12_generator_next_total : forall g, ginv g ->
  exists it g', next g = Some (it, g') /\ ginv g' /\
    exists q, (q < length (g_items g))%nat /\ it = nth q (g_items g) O.
Proof.
  intros g I. destruct (next_total g I) as (it & g' & Hn & I' & _ & _ & _ & _ & q & Hq & Hit & _).
  exists it, g'. split; [exact Hn|]. split; [exact I'|]. exists q. auto.
Qed.
Print Assumptions C12_generator_next_total.

(* 'too small' exactly when the minimums do not fit (any fuel, any weights). *)
Theorem C12_too_small : forall fuel done ds avail,
  Forall valid ds ->
  (divide fuel done ds avail = TooSmall <-> ds <> [] /\ zsum (mins ds) > avail).
Proof. exact divide_too_small_iff. Qed.
Print Assumptions C12_too_small.

(* TERMINATION, for all child lists, all weights >= 0 (zero included), all
   available sizes: within divide_fuel ds avail = n((D+((D+1)W+3))W+1)+1
   iterations per loop (D = max(0,avail), W = max(1, weights), n children)
   the division answers 'too small' or sizes - never out of fuel, never an
   exception. *)
Theorem C12_terminates : forall done ds avail fuel,
  Forall valid ds -> (divide_fuel ds avail <= fuel)%nat ->
  (divide fuel done ds avail = TooSmall /\ ds <> [] /\ zsum (mins ds) > avail) \/
  exists l, divide fuel done ds avail = Sizes l.
Proof.
  intros done ds avail fuel Hv Hf.
  destruct (divide_total done ds avail fuel Hv Hf) as [H|(l & H & _)]; [left; exact H|right; eauto].
Qed.
Print Assumptions C12_terminates.

(* The sizes: one per child, each within its own min..max, total within the
   available size.  Children with weight 0 take no part in growing and keep
   their minimum ([le_all l (tgts ...)]).  Preferred before extra: if the
   preferred sizes of the weighted children fit, each of them has at least
   its preferred size; if they do not fit, nobody gets more than preferred.
   Maximal use: the total is exactly min(avail, sum of max, reach_max)
   (when the app is done only the first loop runs: min(avail, sum of
   preferred, reach_pref)). *)
Theorem C12_sizes : forall fuel done ds avail l,
  Forall valid ds -> (divide_fuel ds avail <= fuel)%nat -> ds <> [] ->
  divide fuel done ds avail = Sizes l ->
  zsum (mins ds) <= avail /\
  length l = length ds /\
  le_all (mins ds) l /\ le_all l (maxs ds) /\
  zsum l <= avail /\
  le_all l (tgts (weights ds) (maxs ds) (mins ds)) /\
  (reach_pref ds <= avail -> le_all (tgts (weights ds) (prefs ds) (mins ds)) l) /\
  (avail <= reach_pref ds -> le_all l (prefs ds)) /\
  (done = false -> zsum l = Z.min (Z.min avail (zsum (maxs ds))) (reach_max ds)) /\
  (done = true -> zsum l = Z.min (Z.min avail (zsum (prefs ds))) (reach_pref ds)).
Proof.
  intros fuel done ds avail l Hv Hf Hne Hd.
  destruct (divide_sizes_good fuel done ds avail l Hv Hf Hne Hd). repeat split; assumption.
Qed.
Print Assumptions C12_sizes.

(* with only positive weights this is the unrelaxed reading of the property:
   every child reaches preferred when the preferred sizes fit, and the total
   is min(avail, sum of max) *)
Theorem C12_sizes_all_weighted : forall fuel ds avail l,
  Forall valid ds -> (divide_fuel ds avail <= fuel)%nat -> ds <> [] ->
  (forall c, (c < length ds)%nat -> 0 < nth c (weights ds) 0) ->
  divide fuel false ds avail = Sizes l ->
  (zsum (prefs ds) <= avail -> le_all (prefs ds) l) /\
  zsum l = Z.min avail (zsum (maxs ds)).
Proof. exact divide_all_weighted. Qed.
Print Assumptions C12_sizes_all_weighted.

Example C12_example :
  divide (divide_fuel [mkdim 1 3 2 1; mkdim 0 HUGE 1 2; mkdim 2 2 2 0] 12) false
         [mkdim 1 3 2 1; mkdim 0 HUGE 1 2; mkdim 2 2 2 0] 12 = Sizes [3; 7; 2] /\
  (* the input on which the pinned function hung (DESIGN F4) *)
  divide (divide_fuel f4_dims 10) false f4_dims 10 = Sizes [0; 0] /\
  (* the input on which it raised ValueError *)
  divide (divide_fuel [mkdim 1 1 1 0] 10) false [mkdim 1 1 1 0] 10 = Sizes [1].
Proof. repeat split; vm_compute; reflexivity. Qed.
Print Assumptions C12_example.

(* HSplit/VSplit run that division on _all_children (HSplit answers [] for
   no children before looking at the padding windows; VSplit ignores
   is_done). *)
Theorem C12_split_divide : forall fuel orient done align pad cs avail,
  split_divide fuel orient done align pad cs avail =
  if (orient =? 0) && (match cs with [] => true | _ => false end) then Sizes []
  else divide fuel (if orient =? 0 then done else false) (all_children align pad cs) avail.
Proof. intros. apply split_divide_eq. Qed.
Print Assumptions C12_split_divide.

(* Regions: child k is drawn at offset start + (sum of the sizes before it)
   with extent size k - disjoint, adjacent, in listed order - and what
   remains is filled by one more region. *)
Theorem C12_regions : forall sizes start,
  chain start (fst (regions_from start sizes)) (snd (regions_from start sizes)) /\
  snd (regions_from start sizes) = start + zsum sizes /\
  map (fun r => snd r) (fst (regions_from start sizes)) = sizes.
Proof. intros. apply regions_chain. Qed.
Print Assumptions C12_regions.

Theorem C12_draw : forall orient cs nall l start avail,
  ((orient =? 1) && (match cs with [] => true | _ => false end) = false) ->
  (length l <= nall)%nat ->
  draw orient cs nall (Sizes l) start avail =
  fst (regions_from start l) ++
  (if start + avail - (start + zsum l) >? 0
   then [(1, start + zsum l, start + avail - (start + zsum l))] else []).
Proof. exact draw_sizes. Qed.
Print Assumptions C12_draw.

(* ------------------------------------------------------------------ *)
(* The function before the fix (divide_pinned): where exactly it hung. *)

(* whenever it returned sizes they were right (for any item stream) *)
Theorem C12_sizes_pinned : forall fuel done ds avail l,
  ds <> [] -> Forall valid ds -> divide_pinned fuel done ds avail = Sizes l ->
  length l = length ds /\
  le_all (mins ds) l /\ le_all l (maxs ds) /\
  zsum l <= avail /\
  (zsum (prefs ds) <= avail -> le_all (prefs ds) l) /\
  (avail <= zsum (prefs ds) -> le_all l (prefs ds)) /\
  (done = false -> zsum l = Z.min avail (zsum (maxs ds))) /\
  (done = true -> zsum l = Z.max (zsum (mins ds)) (Z.min avail (zsum (prefs ds)))).
Proof.
  intros fuel done ds avail l H1 H2 H3.
  destruct (divide_good fuel done ds avail l H1 H2 H3); repeat split; assumption.
Qed.
Print Assumptions C12_sizes_pinned.

(* it returned within divide_fuel on these inputs ... *)
Theorem C12_terminates_on_domain_pinned : forall done ds avail fuel,
  Forall valid ds ->
  Z.min avail (zsum (prefs ds)) <= reach_pref ds ->
  (done = true \/ Z.min avail (zsum (maxs ds)) <= reach_max ds) ->
  (divide_fuel ds avail <= fuel)%nat ->
  divide_pinned fuel done ds avail <> OutOfFuel.
Proof. intros done ds avail fuel H1 H2 H3 H4. apply divide_terminates; [assumption|split; assumption|assumption]. Qed.
Print Assumptions C12_terminates_on_domain_pinned.

(* ... and on every other input with fitting minimums and a weighted child it
   never returned, whatever the fuel. *)
Theorem C12_hangs_outside_domain_pinned : forall done ds avail,
  Forall valid ds -> zsum (mins ds) <= avail ->
  (exists c, 0 < nth c (weights ds) 0) ->
  ~ (Z.min avail (zsum (prefs ds)) <= reach_pref ds /\
     (done = true \/ Z.min avail (zsum (maxs ds)) <= reach_max ds)) ->
  forall fuel, divide_pinned fuel done ds avail = OutOfFuel.
Proof. exact divide_hangs. Qed.
Print Assumptions C12_hangs_outside_domain_pinned.

(* so "dividing terminates for weights including zero" was false (fixed
   finding, DESIGN F4): HSplit([Window(height=D(min=0,max=5,preferred=5,
   weight=0)), Window(height=D(min=0,max=0,preferred=0,weight=1))]) at
   height 10 *)
Theorem C12_terminates_pinned_refuted :
  ~ (forall ds avail, Forall valid ds -> exists fuel, divide_pinned fuel false ds avail <> OutOfFuel).
Proof.
  intro H. destruct divide_f4_hangs as (Hv & Hh).
  destruct (H f4_dims 10 Hv) as (fuel & Hf). apply Hf. apply Hh.
Qed.
Print Assumptions C12_terminates_pinned_refuted.

(* and with only weight-0 children it raised instead of returning sizes *)
Theorem C12_zero_weights_raise_pinned : forall fuel done ds avail,
  Forall valid ds -> ds <> [] -> zsum (mins ds) <= avail ->
  (forall c, nth c (weights ds) 0 <= 0) ->
  divide_pinned fuel done ds avail = NoWeights.
Proof. exact divide_no_weights. Qed.
Print Assumptions C12_zero_weights_raise_pinned.
