(* C20 - Output printed from any thread appears once, in order, outside the
   prompt.  Statements only; proofs in Proofs/C20_*.v.  Model:
   Model/C20_StdoutProxy.v (labelled transition system; a run is
   [run s labels] = fold_left step; all interleavings = all label lists; a
   label that is not enabled changes nothing).
     stream ls   = the texts of all write calls of ls concatenated in the
                   order in which the calls got the lock
     writes ls   = (thread, text) of these calls, same order
     pipeline s  = terminal text ++ text in waiting run-in-terminal sections
                   ++ text in callbacks pending on the loop ++ text held by
                   the flush thread ++ queue ++ _buffer
     drained s   = nothing is on its way any more
     ev_ok       = a write happens with no application running, or inside a
                   run-in-terminal section (app._running_in_terminal)
     brk_run     = scan of the terminal trace: every write comes after an
                   erase with no render in between (None = violated)
     no_lifecycle = the label is not application start/exit/stop/loop-close
     app_alive    = the label is not application start/stop/loop-close
     term_text s = what has reached the TERMINAL: the text written to the Output object before
                   the last flush (write_and_flush's own, or the one ending Renderer.erase/render);
                   pending_text s = written to the Output, not flushed yet
     valid s ls  = loop validity (Model: safe): no application start between a
                   `_get_app_loop() -> None` and the `_write_and_flush` using it, no run_async
                   return between a `-> loop` and its use or with a callback still pending
     get_app_or_none sess e = is there an application in session sess; cb_session w e = the
                   session of the context the loop callback runs in (w = call_soon_threadsafe got
                   context=self._context.copy())
     desugar p ls = ls with every print()/flush() through sys.stdout (LPW/LPFlush) replaced by
                    the proxy.write()/flush() it is while sys.stdout is the proxy, and dropped
                    afterwards (run s ls = run s (desugar (patched s) ls): C20_desugar);
                    no_lifecycle / app_alive lists contain no LPW/LPFlush, i.e. are desugared *)
From Coq Require Import ZArith List Bool.
From PTK Require Import Lib.Sx Model.C20_StdoutProxy
  Proofs.C20_Queue Proofs.C20_Chain Proofs.C20_Order Proofs.C20_Refuted Proofs.C20_Progress
  Proofs.C20_Patch Proofs.C20_Terminal Proofs.C20_Lifecycle Proofs.C20_LoopProgress Proofs.C20_Fair.
Import ListNotations.
Open Scope Z_scope.

(* EVERY schedule (any threads, any writes, any application life cycle):
   what the flush thread has handed on, what it holds, the queue and the
   shared _buffer, concatenated in this order, are exactly the texts of the
   write calls in lock order: queue order = lock order, the single consumer
   hands on in queue order, nothing lost or duplicated up to the hand-over. *)
Theorem C20_queue_order : forall c r ls,
  let s := run (init2 c r) ls in
  concat (handed (px s)) ++ f_text (fth (px s)) ++ queue_text (px s) ++ buf (px s) = stream (desugar true ls).
Proof. exact queue_order_all. Qed.
Print Assumptions C20_queue_order.

(* The stream is made of whole write calls (never split by another thread's
   text), and the calls of one thread occur in it in that thread's own order. *)
Theorem C20_blocks : forall ls,
  stream ls = concat (map snd (writes ls)) /\
  forall t, filter (fun w => Z.eqb (fst w) t) (writes ls) = writes (filter (of_thread t) ls).
Proof. intros ls. split; [apply stream_writes|intros t; apply writes_thread_order]. Qed.
Print Assumptions C20_blocks.

(* No application, every schedule: at every moment the terminal text followed
   by what is still on its way is the stream (so the terminal text is a prefix
   of the stream); every write happens with no application running. *)
Theorem C20_in_order_noapp : forall c r ls,
  forallb no_lifecycle ls = true ->
  let s := run (init2 c r) ls in
  pipeline s = stream ls /\ forallb ev_ok (out s) = true.
Proof. exact in_order_noapp. Qed.
Print Assumptions C20_in_order_noapp.

(* ... hence exactly once, in order, whole, after everything is flushed. *)
Theorem C20_exactly_once_noapp : forall c r ls,
  forallb no_lifecycle ls = true -> drained (run (init2 c r) ls) ->
  out_text (run (init2 c r) ls) = concat (map snd (writes ls)).
Proof.
  intros c r ls H D. rewrite <- stream_writes, <- (drained_out _ D).
  exact (proj1 (in_order_noapp c r ls H)).
Qed.
Print Assumptions C20_exactly_once_noapp.

(* [r] = the output answers cursor position requests: a section then waits in
   renderer.wait_for_cpr_responses() (rendering still enabled) until the
   outstanding reports arrive (LCprAnswer) or time out (LCprTimeout).
   [c] = the AppSession the rig creates the proxy in; NO model step reads it: that the
   callback sees the application of the proxy's own session (fix acce0d8) is built into
   LLoopStep, so the statement for c = false is the same term as for c = true and is tied
   to the code by the other-session replays only.
   One application alive throughout (started before the run; it may exit -
   AppExit is allowed - but is not stopped/restarted and its loop is not
   closed), the proxy created in ANY AppSession (c), every schedule, including
   foreign in_terminal sections and any wake-up order: same, and every write
   made while the application runs lies inside a run-in-terminal section,
   after an erase with no render in between.  (Before the fix commits acce0d8
   and e58361b this failed for a proxy created inside create_app_session()
   and across Application.exit().) *)
Theorem C20_in_order_running : forall c r ls,
  forallb app_alive ls = true ->
  let s := run (init_running2 c r) ls in
  pipeline s = stream ls /\ forallb ev_ok (out s) = true /\ brk_run (out s) <> None.
Proof. exact in_order_running. Qed.
Print Assumptions C20_in_order_running.

Theorem C20_exactly_once_running : forall c r ls,
  forallb app_alive ls = true -> drained (run (init_running2 c r) ls) ->
  out_text (run (init_running2 c r) ls) = concat (map snd (writes ls)).
Proof.
  intros c r ls H D. rewrite <- stream_writes, <- (drained_out _ D).
  exact (proj1 (in_order_running c r ls H)).
Qed.
Print Assumptions C20_exactly_once_running.

(* Model sanity, EVERY schedule (any life cycle, closed loops included): [step]
   has no transition into FCrash.  The only modelled place where the flush
   thread could die - loop.call_soon_threadsafe on a closed loop - is a caught
   RuntimeError at HEAD (fix aa2fd63; deliver branch "write directly").  What this
   excludes is shown by the pinned deliver step below, which had the crash
   transition.  Exceptions from the Output object or user callbacks are not
   modelled; the evidence for the real code is the replay of w_crash and the
   oracle's flush-thread-died clause. *)
Theorem C20_flush_thread_never_dies : forall c r ls, fth (px (run (init2 c r) ls)) <> FCrash.
Proof. exact never_dies. Qed.
Print Assumptions C20_flush_thread_never_dies.

Theorem C20_flush_thread_dies_pinned_refuted : exists ls,
  fth (px (run_pinned (init true) ls)) = FCrash /\
  out_text (run_pinned (init true) ls) = [] /\ queue_text (px (run_pinned (init true) ls)) <> [].
Proof.
  exists w_crash. destruct closed_loop_pinned as [A [B C]]. repeat split; try assumption. rewrite C. discriminate.
Qed.
Print Assumptions C20_flush_thread_dies_pinned_refuted.

(* EVERY schedule: run-in-terminal sections start in submission order (ids are
   handed out at submission), whatever the order of wake-ups. *)
Theorem C20_chain_fifo : forall c r ls,
  let s := run (init2 c r) ls in started (ch s) = seq 0 (length (started (ch s))).
Proof. exact chain_fifo. Qed.
Print Assumptions C20_chain_fifo.

(* EVERY schedule: only the head of the waiting sections can be woken, and
   only when no section is active. *)
Theorem C20_chain_one_at_a_time : forall c r ls i x,
  let s := run (init2 c r) ls in
  nth_error (waitq (ch s)) i = Some x -> fdone (ch s) (s_prev x) = true ->
  i = O /\ active (ch s) = None.
Proof.
  intros c r ls i x s Hn F.
  destruct (wake_head (ch s) i x (CI_run2 ls c r) Hn F) as [A [B _]].
  split; assumption.
Qed.
Print Assumptions C20_chain_one_at_a_time.

(* The hypotheses above are satisfiable. *)
Example C20_example_noapp : forallb no_lifecycle w_ok = true /\ all_enabled (init true) w_ok = true /\
  drained (run (init true) w_ok) /\ out_text (run (init true) w_ok) = [120; 121; 10; 122; 10].
Proof. exact ok_noapp. Qed.
Print Assumptions C20_example_noapp.

Example C20_example_running : forallb no_lifecycle w_ok_running = true /\
  all_enabled (init_running true) w_ok_running = true /\
  drained (run (init_running true) w_ok_running) /\
  out_text (run (init_running true) w_ok_running) = [120; 121; 10; 122; 10].
Proof. exact ok_running. Qed.
Print Assumptions C20_example_running.

(* ---- where the model (the code as it is) violates the property text ---- *)

(* Start race (known finding F3a): an AppStart between _get_app_loop and
   _write_and_flush breaks the bracket. *)
Theorem C20_bracket_start_refuted : exists ls,
  all_enabled (init true) ls = true /\
  forallb ev_ok (out (run (init true) ls)) = false /\ brk_run (out (run (init true) ls)) = None.
Proof. exists w_start. exact start_race. Qed.
Print Assumptions C20_bracket_start_refuted.

(* The witnesses of the three repaired findings, now in order / bracketed /
   delivered (regression examples; the schedules are in corpus/C20). *)
Example C20_example_other_session : forallb no_lifecycle w_ctx = true /\
  all_enabled (init_running false) w_ctx = true /\
  forallb ev_ok (out (run (init_running false) w_ctx)) = true /\
  brk_run (out (run (init_running false) w_ctx)) = Some false /\
  out_text (run (init_running false) w_ctx) = ta.
Proof. exact ctx_bracketed. Qed.
Print Assumptions C20_example_other_session.

Example C20_example_exit_in_terminal : all_enabled (init true) w_exit = true /\
  stream w_exit = ta ++ tb /\ out_text (run (init true) w_exit) = ta ++ tb /\
  lost (run (init true) w_exit) = [] /\
  pipeline (run (init true) w_exit) = out_text (run (init true) w_exit).
Proof. exact exit_in_order. Qed.
Print Assumptions C20_example_exit_in_terminal.

Example C20_example_closed_loop : all_enabled (init true) w_crash = true /\
  fth (px (run (init true) w_crash)) = FExit /\
  out_text (run (init true) w_crash) = ta ++ tb /\ lost (run (init true) w_crash) = [] /\
  drained (run (init true) w_crash).
Proof. exact closed_loop_ok. Qed.
Print Assumptions C20_example_closed_loop.

(* Stop race: text handed to a loop nobody runs any more is overtaken and,
   when that loop is closed, lost; the flush thread exits normally. *)
Theorem C20_stop_race_refuted : exists ls,
  all_enabled (init true) ls = true /\ fth (px (run (init true) ls)) = FExit /\
  out_text (run (init true) ls) <> stream ls /\ lost (run (init true) ls) <> [].
Proof.
  exists w_stop. destruct stop_race as [A [B [C [D E]]]].
  repeat split; try assumption; [rewrite C, D|rewrite E]; discriminate.
Qed.
Print Assumptions C20_stop_race_refuted.


(* Outputs that answer cursor position requests: the print waits (cprwait) for
   the outstanding report; a render during the wait is followed by the erase;
   text printed after exit() queues behind the print that still waits. *)
Example C20_example_cpr :
  all_enabled (init2 true true) w_cpr_exit = true /\
  out_text (run (init2 true true) w_cpr_exit) = ta ++ tb /\
  all_enabled (init2 true true) w_cpr_render = true /\
  out_text (run (init2 true true) w_cpr_render) = ta ++ tb /\
  brk_run (out (run (init2 true true) w_cpr_render)) = Some false /\
  cprwait (cp (run (init2 true true) ([LAppStart; LW 0 ta] ++ batch ++ [LLoopStep]))) = true.
Proof. exact cpr_examples. Qed.
Print Assumptions C20_example_cpr.

(* Progress (bounded fuel): from EVERY state in which the flush thread has not
   died, its own steps alone - fnext = the one enabled flush-thread label, at
   most (length of the queue + 5) of them - empty the queue: the thread ends
   idle on an empty queue, or has met the _Done sentinel and returned.  With
   C20_queue_order (nothing lost up to the hand-over) this is the liveness half
   of "after a flush": flush()/close() only have to put their item. *)
Theorem C20_flush_thread_progress : forall s,
  fth (px s) <> FCrash ->
  settled (fiter (length (queue (px s)) + 5) s).
Proof. exact flush_thread_progress. Qed.
Print Assumptions C20_flush_thread_progress.

(* ... and every such step is a step of the model by an enabled label. *)
Theorem C20_progress_run_is_schedule : forall s,
  fnext s = s \/ exists l, enabled s l = true /\ fnext s = step s l.
Proof. exact fnext_is_step. Qed.
Print Assumptions C20_progress_run_is_schedule.

(* print()/sys.stdout.flush() through the patched stream are exactly
   proxy.write()/flush() while sys.stdout is the proxy and nothing afterwards:
   every theorem above about a desugared list speaks about the original one. *)
Theorem C20_desugar : forall ls s, run s ls = run s (desugar (patched (en s)) ls).
Proof. exact desugar_run. Qed.
Print Assumptions C20_desugar.

(* patch_stdout(): with any number of threads printing through sys.stdout and
   the context manager restoring the streams BEFORE it closes the proxy
   (disciplined: no direct proxy.write, LClose only when sys.stdout is no longer
   the proxy), nothing is ever queued behind the _Done sentinel - for every
   interleaving.  With C20_flush_thread_progress: everything printed while
   sys.stdout was the proxy is handed over before the flush thread returns. *)
Theorem C20_patch_stdout_nothing_behind_done : forall c r ls,
  disciplined (init2 c r) ls = true -> clean (queue (px (run (init2 c r) ls))) = true.
Proof. exact patch_clean. Qed.
Print Assumptions C20_patch_stdout_nothing_behind_done.

(* ... and the order matters: close() before the streams are restored lets a
   print of another thread land behind the sentinel. *)
Theorem C20_patch_stdout_order_matters : exists ls,
  all_enabled (init true) ls = true /\ disciplined (init true) ls = false /\
  clean (queue (px (run (init true) ls))) = false.
Proof. exact close_before_restore. Qed.
Print Assumptions C20_patch_stdout_order_matters.


(* ---- round 6 ---- *)

(* EVERY schedule (any life cycle, races included): nothing written through the proxy is left
   in the Output object's buffer - every path of _write_and_flush (flush thread, in_terminal's
   direct "yield; return" path for an application that is gone or terminating, a
   run-in-terminal section, the closed-loop fallback) ends with self._output.flush() - so what
   the TERMINAL has received is what was written. *)
Theorem C20_terminal_flushed : forall c r ls,
  let s := run (init2 c r) ls in pending_text s = [] /\ term_text s = out_text s.
Proof. exact flushed_always. Qed.
Print Assumptions C20_terminal_flushed.

(* ACROSS application start / exit / stop / loop close / restart, every schedule that respects
   loop validity, proxy in any session, with or without CPR: at every moment terminal text ++
   text in flight = the write calls' texts in lock order, every write outside a running prompt
   or between erase and redraw, nothing is on a loop when it is closed.  The two stable regimes
   (C20_in_order_noapp, C20_in_order_running) are the special cases without / after AppStart. *)
Theorem C20_in_order_lifecycle : forall c r ls,
  valid (init2 c r) ls = true ->
  let s := run (init2 c r) ls in
  pipeline s = stream ls /\ forallb ev_ok (out s) = true /\ brk_run (out s) <> None /\ lost s = [].
Proof. exact in_order_lifecycle. Qed.
Print Assumptions C20_in_order_lifecycle.

(* ... hence after a flush (drained) the terminal has every written character exactly once, the
   text of each write call whole, in lock order. *)
Theorem C20_exactly_once_lifecycle : forall c r ls,
  valid (init2 c r) ls = true -> drained (run (init2 c r) ls) ->
  term_text (run (init2 c r) ls) = concat (map snd (writes ls)) /\ pending_text (run (init2 c r) ls) = [].
Proof. exact exactly_once_lifecycle. Qed.
Print Assumptions C20_exactly_once_lifecycle.

(* the hypothesis is satisfiable by a whole life (two applications, loop closed in between), every
   list without life-cycle labels satisfies it, and the known races are exactly its violations *)
Example C20_example_lifecycle : valid (init true) w_life = true /\ all_enabled (init true) w_life = true /\
  drained (run (init true) w_life) /\ term_text (run (init true) w_life) = (ta ++ tb ++ ta ++ tb)%list.
Proof. exact life_ok. Qed.
Print Assumptions C20_example_lifecycle.

Theorem C20_no_lifecycle_is_valid : forall ls s, forallb no_lifecycle ls = true -> valid s ls = true.
Proof. exact nolife_valid. Qed.
Print Assumptions C20_no_lifecycle_is_valid.

Theorem C20_races_violate_validity : valid (init true) w_start = false /\ valid (init true) w_stop = false.
Proof. exact races_invalid. Qed.
Print Assumptions C20_races_violate_validity.

(* Which application the loop callback sees.  HEAD (context=self._context.copy()): the one of
   the proxy's own session, for a proxy created in ANY session - this is what makes `forall c`
   in C20_in_order_running / C20_in_order_lifecycle hold (LoopStep reads ctx through
   get_app_or_none).  Pre-fix loop step (callback in the flush thread's context = default
   session): blind for a proxy of another session, and the other-session witness is written
   into the drawn prompt; for a proxy of the default session the two steps coincide. *)
Theorem C20_callback_sees_own_session : forall e, get_app_or_none (cb_session true e) e = app e.
Proof. exact sees_own_app. Qed.
Print Assumptions C20_callback_sees_own_session.

Theorem C20_callback_noctx_blind : forall e, ctx e = false -> get_app_or_none (cb_session false e) e = false.
Proof. exact noctx_other_session_blind. Qed.
Print Assumptions C20_callback_noctx_blind.

Theorem C20_bracket_session_noctx_refuted :
  all_enabled (init_running false) w_ctx = true /\
  forallb ev_ok (out (run_noctx (init_running false) w_ctx)) = false /\
  brk_run (out (run_noctx (init_running false) w_ctx)) = None /\
  forallb ev_ok (out (run_noctx (init_running true) w_ctx)) = true.
Proof. exact ctx_unbracketed_noctx. Qed.
Print Assumptions C20_bracket_session_noctx_refuted.

(* StdoutProxy(raw=...) on a Vt100_Output: the BYTES the terminal receives are every write call's
   text, whole, in lock order, each as Output.write_raw (raw: unchanged) or Output.write (ESC
   replaced by "?", nothing else; same length) leaves it - escaping a joined batch never changes
   a neighbouring call's text. *)
Theorem C20_terminal_bytes : forall raw c r ls,
  valid (init2 c r) ls = true -> drained (run (init2 c r) ls) ->
  term_bytes raw (run (init2 c r) ls) = concat (map (fun w => vt_write raw (snd w)) (writes ls)) /\
  length (term_bytes raw (run (init2 c r) ls)) = length (stream ls) /\
  concat (ev_bytes raw (out (run (init2 c r) ls))) = term_bytes raw (run (init2 c r) ls).
Proof. exact terminal_bytes_lifecycle. Qed.
Print Assumptions C20_terminal_bytes.

Theorem C20_vt_write_facts :
  (forall t, vt_write true t = t) /\
  (forall t, forallb (fun c => negb (Z.eqb c 27)) t = true -> vt_write false t = t) /\
  (forall raw t, length (vt_write raw t) = length t).
Proof. exact (conj vt_write_raw (conj vt_write_noesc vt_write_length)). Qed.
Print Assumptions C20_vt_write_facts.

(* Progress of the loop / chain side (bounded fuel), the second half of "after a flush": from
   EVERY reachable state whose loop is not closed, the loop's own steps alone - lnext = a foreign
   in_terminal section ends / wait_for_cpr_responses times out / the head of the waiting
   sections is woken / the oldest pending callback runs; at most 3*|pending callbacks| +
   3*|waiting sections| + 2 of them - leave no callback pending, no section waiting or open and no
   CPR wait: every handed-over batch has been run and every chained section entered.  With
   C20_flush_thread_progress and C20_in_order_lifecycle: a fair continuation drains. *)
Theorem C20_loop_side_progress : forall c r ls,
  let s := run (init2 c r) ls in
  lclosed (en s) = false ->
  lquiet (liter (3 * length (loopq (en s)) + 3 * length (waitq (ch s)) + 2) s).
Proof. exact loop_progress_reachable. Qed.
Print Assumptions C20_loop_side_progress.

(* ... and each such step is a step of the model by an enabled label. *)
Theorem C20_loop_progress_is_schedule : forall s, LP s ->
  lquiet s \/ exists l, enabled s l = true /\ lnext s = step s l.
Proof. exact lnext_is_step. Qed.
Print Assumptions C20_loop_progress_is_schedule.

(* round 7: cursor position requests are keyed on the code's condition (not is_done; the input
   queue is empty at the modelled call sites), not on _is_running: in the window between exit()
   and run_async resuming (LAppDone .. LAppExit) a print is still bracketed and redrawn but
   makes no request.  All theorems above are proved over the model with this window. *)
Example C20_example_exit_window :
  all_enabled (init2 true true) w_window = true /\
  cprq (cp (run (init2 true true) w_window)) = O /\ app (en (run (init2 true true) w_window)) = false /\
  brk_run (out (run (init2 true true) w_window)) = Some false /\
  out_text (run (init2 true true) w_window) = ta /\
  all_enabled (init2 true true) w_nowindow = false /\
  cprq (cp (run (init2 true true) w_nowindow)) = 1%nat /\ app (en (run (init2 true true) w_nowindow)) = true.
Proof. exact window_example. Qed.
Print Assumptions C20_example_exit_window.

(* round 7: the two progress theorems composed with arbitrary writers.  From EVERY reachable
   state whose loop is not closed (any threads, any writes so far, any interleaving) there is a
   finite continuation of ENABLED labels - one flush(), the flush thread's own steps, the loop
   side's own steps (cont_label: no life-cycle label, no further write) - after which the loop
   side is quiet, the flush thread is idle on an empty queue or has returned after close(),
   _buffer is empty, nothing is unflushed in the Output, and (flush thread not closed) the state
   is drained. *)
Theorem C20_fair_drain : forall c r ls,
  lclosed (en (run (init2 c r) ls)) = false ->
  exists ks,
    all_enabled (run (init2 c r) ls) ks = true /\ forallb cont_label ks = true /\
    let s' := run (init2 c r) (ls ++ ks) in
    lquiet s' /\ settled s' /\ buf (px s') = [] /\ pending_text s' = [] /\
    (fth (px s') = FIdle -> drained s').
Proof. exact fair_drain. Qed.
Print Assumptions C20_fair_drain.

(* ... and when the run respects loop validity, after that continuation the TERMINAL has every
   write call's text exactly once, whole, in lock order: under a fair schedule every write
   reaches the terminal. *)
Theorem C20_fair_terminal : forall c r ls,
  valid (init2 c r) ls = true -> lclosed (en (run (init2 c r) ls)) = false ->
  exists ks,
    all_enabled (run (init2 c r) ls) ks = true /\ forallb cont_label ks = true /\
    let s' := run (init2 c r) (ls ++ ks) in
    pending_text s' = [] /\
    (fth (px s') = FIdle -> term_text s' = concat (map snd (writes ls))).
Proof. exact fair_terminal. Qed.
Print Assumptions C20_fair_terminal.
