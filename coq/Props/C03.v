(* C03 - Terminal input decoding is lossless, chunk-independent and fully flushed.
   Statements only; proofs are in Proofs/C03_*.v.  The model is
   Model/C03_Vt100Parser.v (Vt100Parser.feed / flush and the coroutine
   _input_parser_generator as written at /repo HEAD; ANSI_SEQUENCES regenerated).
   A schedule is a list of [Feed data] (one read) and [Flush]; [run_ops ops init]
   is the parser after the schedule, [out] the key presses emitted so far
   (key, data), [pending] = (open paste: start mark ++ paste buffer) ++ prefix. *)
From Coq Require Import ZArith List Bool.
From PTK Require Import Lib.Sx Lib.Py Lib.C03_Regex Gen.C03_AnsiSequences Gen.C03_Regexes
  Model.C03_Vt100Parser Model.C03_Break Model.C03_Vt100Input Model.C03_Cache Model.C03_Utf8Spec Model.C03_Errors Model.C03_RegexMatch Proofs.C03_Regex Proofs.C03_Cache
  Proofs.C03_Table Proofs.C03_Process Proofs.C03_Feed Proofs.C03_Lossless Proofs.C03_Main Proofs.C03_Input Proofs.C03_Shift Proofs.C03_Break Proofs.C03_Decode Proofs.C03_Depth Proofs.C03_Utf8 Proofs.C03_Eof Proofs.C03_Errors Proofs.C03_Deriv Proofs.C03_ErrorsChunk.
Import ListNotations.
Open Scope Z_scope.

(* The fuelled loops of the model (retry loop of the coroutine: fuel
   S(len prefix); recursive self.feed: fuel S(len paste_buffer + len data))
   never run out, for any schedule. *)
Theorem C03_fuel_suffices : forall ops, oof (run_ops ops init) = false.
Proof. exact fuel_suffices. Qed.
Print Assumptions C03_fuel_suffices.

(* feed(data), with its bracketed-paste fast path, early exit of the
   character loop and recursive re-feed, is character-by-character stepping of
   a state machine, in every reachable state. *)
Theorem C03_feed_is_charwise : forall ops d,
  feed d (run_ops ops init) = fold_left step_char d (run_ops ops init).
Proof. exact feed_charwise. Qed.
Print Assumptions C03_feed_is_charwise.

(* Cutting a read in two changes nothing: keys, pending prefix, paste state. *)
Theorem C03_feed_app : forall ops a b,
  feed (a ++ b) (run_ops ops init) = feed b (feed a (run_ops ops init)).
Proof. exact feed_app_reach. Qed.
Print Assumptions C03_feed_app.

(* Chunk independence: inside any schedule (flushes anywhere before and after),
   any way of splitting a stretch of input into successive reads gives the same
   final parser state - emitted key presses included - as one read. *)
Theorem C03_chunk_independent : forall before chunks after,
  run_ops (before ++ map Feed chunks ++ after) init =
  run_ops (before ++ [Feed (concat chunks)] ++ after) init.
Proof. exact chunk_independent. Qed.
Print Assumptions C03_chunk_independent.

(* Losslessness: after any schedule, the data carried by the key presses, in
   order (a paste event = start mark ++ content ++ end mark; a tuple of keys
   carries the sequence once), followed by what is still pending, is exactly
   the concatenation of everything read.  So every input character is carried
   by exactly one key press, in order, and paste content is verbatim in one
   event. *)
Theorem C03_lossless : forall ops,
  render (out (run_ops ops init)) ++ pending (run_ops ops init) = all_fed ops.
Proof. exact lossless. Qed.
Print Assumptions C03_lossless.

(* The coroutine is idle while a paste is open (nothing can be reordered around
   the paste), and whatever is pending can still grow into a longer sequence. *)
Theorem C03_paste_only_when_idle : forall ops,
  in_paste (run_ops ops init) = true -> prefix (run_ops ops init) = [].
Proof. exact paste_only_when_idle. Qed.
Print Assumptions C03_paste_only_when_idle.

Theorem C03_pending_can_grow : forall ops,
  prefix (run_ops ops init) = [] \/ is_prefix_longer (prefix (run_ops ops init)) = true.
Proof. exact pending_can_grow. Qed.
Print Assumptions C03_pending_can_grow.

(* Every sequence of the (regenerated) table, read and flushed, decodes to
   exactly its keys, the sequence being the data of the first. *)
Theorem C03_table_decodes : forall k ks,
  In (k, ks) ansi_table -> mem_Z key_BracketedPaste ks = false ->
  let st := flush (feed k init) in
  out st = expected_events k ks /\ prefix st = [] /\ in_paste st = false /\ paste_buf st = [] /\ oof st = false.
Proof. exact table_decodes. Qed.
Print Assumptions C03_table_decodes.

(* ... and the only entry mentioning BracketedPaste is the start mark, which
   opens a paste and emits nothing. *)
Theorem C03_table_paste_start : forall k ks,
  In (k, ks) ansi_table -> mem_Z key_BracketedPaste ks = true ->
  k = start_mark /\ ks = [key_BracketedPaste] /\ flush (feed k init) = mkst [] true [] [] false.
Proof. exact table_paste_start. Qed.
Print Assumptions C03_table_paste_start.

(* Every emitted key press carries its own sequence: after any schedule the
   output is a concatenation of groups, each group being all keys of
   get_match d with d as data of the first and "" for the others, or one raw
   character carrying itself, or one paste event.  (C03_lossless constrains only
   the concatenated data; this ties every key to its data.) *)
Theorem C03_emitted_keys_match_data : forall ops, wf_out (out (run_ops ops init)).
Proof. exact emitted_keys_match_data. Qed.
Print Assumptions C03_emitted_keys_match_data.

(* A sequence whose proper prefixes can all still grow, which itself cannot,
   and which has a match decodes to exactly that match. *)
Theorem C03_sequence_decodes : forall p ks,
  p <> [] ->
  (forall j, (1 <= j < length p)%nat -> is_prefix_longer (firstn j p) = true) ->
  is_prefix_longer p = false -> get_match p = Some ks -> mem_Z key_BracketedPaste ks = false ->
  feed p init = mkst [] false [] (rev (expected_events p ks)) false /\
  flush (feed p init) = mkst [] false [] (rev (expected_events p ks)) false.
Proof. exact sequence_decodes. Qed.
Print Assumptions C03_sequence_decodes.

(* EVERY cursor-position report (every string of _cpr_response_re, Unicode
   digits and any length included) decodes to one CPRResponse key press
   carrying it, nothing left; likewise every mouse report. *)
Theorem C03_cpr_decodes : forall p,
  cpr_re p = true -> flush (feed p init) = mkst [] false [] [(KKey key_CPRResponse, p)] false.
Proof. exact cpr_decodes. Qed.
Print Assumptions C03_cpr_decodes.

Theorem C03_mouse_decodes : forall p,
  mouse_re p = true -> flush (feed p init) = mkst [] false [] [(KKey key_Vt100MouseEvent, p)] false.
Proof. exact mouse_decodes. Qed.
Print Assumptions C03_mouse_decodes.

(* feed() as it stood before 6a14a13 called itself twice per paste
   ([feed_fuel n] = at most n nested calls, [oof] = stack exhausted): 600 empty
   pastes in one read exceeded 1000 nested calls (CPython's default limit) after
   500 paste events - finding C03-F2, repaired in /repo by 6a14a13 (a loop).
   The model's [feed] (enough fuel, C03_fuel_suffices) is that loop: all 600
   arrive, and the schedule theorems need no assumption on the length of a read. *)
Theorem C03_feed_recursion_depth_pinned_refuted :
  let st := feed_fuel 1000 (empty_pastes 600) init in
  oof st = true /\ length (rout st) = 500%nat.
Proof. exact depth_1000_exceeded. Qed.
Print Assumptions C03_feed_recursion_depth_pinned_refuted.

Theorem C03_feed_loop_delivers_all :
  let st := feed (empty_pastes 600) init in
  oof st = false /\ length (rout st) = 600%nat /\ in_paste st = false /\ prefix st = [].
Proof. exact loop_delivers_all. Qed.
Print Assumptions C03_feed_loop_delivers_all.

(* Longest match: when the pending string has no exact match, the first key
   press emitted by the shift loop carries the longest prefix of it that has a
   match. *)
Theorem C03_longest_first : forall st i ks,
  (1 <= i <= length (prefix st))%nat ->
  get_match (firstn i (prefix st)) = Some ks ->
  (forall j, (i < j <= length (prefix st))%nat -> get_match (firstn j (prefix st)) = None) ->
  mem_Z key_BracketedPaste ks = false ->
  exists later, out (no_match_step st) = out st ++ expected_events (firstn i (prefix st)) ks ++ later.
Proof. exact longest_first. Qed.
Print Assumptions C03_longest_first.

(* Why the shift loop has no "break" and does not need one on this table
   (finite facts re-proved from the regenerated table + disjointness of the
   prefix regexes and the full regexes): no slice of length >= 2 of a string
   that is still a prefix of a longer match has a match ... *)
Theorem C03_pending_slices_have_no_match : forall q j,
  is_prefix_longer q = true -> (2 <= j <= length q)%nat -> get_match (firstn j q) = None.
Proof. exact lp_slices_no_match. Qed.
Print Assumptions C03_pending_slices_have_no_match.

(* ... hence in the pass that follows a new character (pending q, still able to
   grow, plus the character; no exact match) the loop as written and the loop
   with a break after the first match ([match_loop_brk]) are the same function:
   the only slice that can match is the first character.  (Retry passes: a second
   match in one pass does occur there - feed "\x1b[M\x1b\t\n": the retry on
   "\x1b\t\n" matches "\x1b\t" at i = 2 and then "\n" at i = 1 in the same
   pass - so the loops differ as functions; C03_shift_break_equiv below shows the
   PARSERS do not.) *)
Theorem C03_shift_break_equiv_first_pass : forall st q c,
  prefix st = q ++ [c] -> (q = [] \/ is_prefix_longer q = true) -> get_match (q ++ [c]) = None ->
  match_loop (length (prefix st)) st false = match_loop_brk (length (prefix st)) st.
Proof. exact first_pass_break_equiv. Qed.
Print Assumptions C03_shift_break_equiv_first_pass.

(* The missing "break" of the shift loop is not observable: the parser whose
   shift loop leaves at the first match (Model/C03_Break.v: the same coroutine
   and feed() with [match_loop_brk]) and /repo's parser reach the same state
   (keys emitted, prefix, paste flag and buffer) after EVERY schedule of reads
   and flushes - first passes, retry passes and flush passes.  Reason
   (Proofs/C03_Break.v): a second key press in one pass needs a first match of
   length >= 2 strictly inside what was pending; a string that can still grow
   contains such a match only as ESC [ M ESC b (X10 mouse report whose first
   payload byte is ESC), the remainder then is the new character "\n", which the
   retry pass of the loop with a break emits identically.  Table facts
   [table_long_esc], [table_no_inner] are recomputed whenever the table changes. *)
Theorem C03_shift_break_equiv : forall ops, run_ops_brk ops init = run_ops ops init.
Proof. exact shift_break_equiv. Qed.
Print Assumptions C03_shift_break_equiv.

(* ... per activation of the coroutine, in any state whose pending string is
   empty or can still grow (every reachable state: C03_pending_can_grow) *)
Theorem C03_shift_break_equiv_activation : forall st c,
  (prefix st = [] \/ is_prefix_longer (prefix st) = true) ->
  send_char_brk c st = send_char c st /\ flush_brk st = flush st.
Proof. exact break_equiv_activation. Qed.
Print Assumptions C03_shift_break_equiv_activation.

(* ... and that hypothesis is needed: with "ESC \t" pending (a complete key, which
   no schedule leaves pending) a new ESC is emitted at once by /repo's loop and
   kept waiting by the loop with a break. *)
Theorem C03_shift_break_needs_reachable_state :
  send_char_brk 27 (set_prefix [27; 9] init) <> send_char 27 (set_prefix [27; 9] init).
Proof. exact shift_break_needs_reach. Qed.
Print Assumptions C03_shift_break_needs_reachable_state.

(* What the loop without a break does in general (any table, any state, whatever
   was found before): longest match first, repeatedly, with a decreasing length
   bound - after emitting the longest matching slice (length i) it goes on with
   the remainder and the bound i - 1, so a second key press in the same pass is
   the longest matching slice of length < i of the remainder. *)
Theorem C03_shift_loop_bounded_longest_first : forall n i st found ks,
  (1 <= i <= n)%nat ->
  (forall j, (i < j <= n)%nat -> get_match (firstn j (prefix st)) = None) ->
  get_match (firstn i (prefix st)) = Some ks ->
  match_loop n st found =
  match_loop (i - 1) (set_prefix (skipn i (prefix st)) (call_handler ks (firstn i (prefix st)) st)) true.
Proof. exact match_loop_unfold. Qed.
Print Assumptions C03_shift_loop_bounded_longest_first.

(* After a flush nothing remains buffered except an unterminated bracketed
   paste: in EVERY state the coroutine's prefix is empty after flush() (the
   flush flag is kept across the retries since fix e3d939f) ... *)
Theorem C03_flush_empties : forall st,
  prefix (flush st) = [] /\ oof (flush st) = oof st.
Proof. exact flush_empties_any. Qed.
Print Assumptions C03_flush_empties.

(* ... so after any schedule that ends with a flush, the only pending input is
   an open paste (its start mark and content so far). *)
Theorem C03_flush_empties_schedule : forall ops,
  let st := run_ops (ops ++ [Flush]) init in
  prefix st = [] /\ pending st = (if in_paste st then start_mark ++ paste_buf st else []).
Proof. exact flush_empties_schedule. Qed.
Print Assumptions C03_flush_empties_schedule.

(* the former counterexample is now decoded completely *)
Theorem C03_flush_witness :
  let st := flush (feed [27; 91; 77; 27] init) in
  prefix st = [] /\
  out st = [(KKey key_Escape, [27]); (KChar 91, [91]); (KChar 77, [77]); (KKey key_Escape, [27])].
Proof. exact flush_witness. Qed.
Print Assumptions C03_flush_witness.

(* The coroutine as it stood at the pinned commit ("flush = False" at the top of
   every retry; model [process_pinned]) did not satisfy it: finding C03-F1 /
   DESIGN F2, repaired in /repo by e3d939f. *)
Theorem C03_flush_pinned_refuted :
  exists st, st = feed [27; 91; 77; 27] init /\
    in_paste (flush_pinned st) = false /\ prefix (flush_pinned st) <> [].
Proof. exact flush_pinned_not_empty. Qed.
Print Assumptions C03_flush_pinned_refuted.

(* ---------------------------------------------------------------------- *)
(* Byte level: PosixStdinReader + Vt100Input (Model/C03_Vt100Input.v).
   [dec bs] is one call utf_8_decode(bs, "surrogateescape", final=False):
   decoded text, undecoded tail, out-of-fuel flag. *)

Theorem C03_utf8_fuel_suffices : forall bs, doof (dec bs) = false.
Proof. exact dec_oof. Qed.
Print Assumptions C03_utf8_fuel_suffices.

(* Incremental decoding is chunk independent at BYTE level: decoding a ++ b at
   once gives the text of a followed by the text of (undecoded tail of a) ++ b,
   and the same undecoded tail - wherever the cut falls inside a multi-byte or
   invalid sequence. *)
Theorem C03_utf8_chunk_independent : forall a b,
  dec (a ++ b) = dcombine (dec a) (dec (dpend (dec a) ++ b)).
Proof. exact dec_app. Qed.
Print Assumptions C03_utf8_chunk_independent.

Theorem C03_utf8_tail_is_stable : forall bs,
  dec (dpend (dec bs)) = mkd [] (dpend (dec bs)) false.
Proof. exact dec_pend. Qed.
Print Assumptions C03_utf8_tail_is_stable.

(* Vt100Input.read_keys/flush_keys: for every schedule of reads (raw bytes) and
   flushes, the lists handed back, concatenated, are exactly the key presses of
   the parser run on the incrementally decoded text - each once, in order -
   the hand-over buffer is empty between calls, and no fuel runs out. *)
Theorem C03_input_conservation : forall ops,
  let r := run_vops ops vinit in
  concat (snd r) = out (run_ops (text_ops [] ops) init) /\
  vbuf (fst r) = [] /\
  vpar (fst r) = run_ops (text_ops [] ops) init /\
  voof (fst r) = false.
Proof. exact input_conservation. Qed.
Print Assumptions C03_input_conservation.

(* Chunk independence of the whole input path at byte level: inside any
   schedule, cutting a stretch of the byte stream into reads in any way (also
   inside a UTF-8 sequence, an escape sequence or a paste marker) gives the
   same key presses, the same parser state and the same undecoded bytes as one
   read of the whole stretch. *)
Theorem C03_bytes_chunk_independent : forall before chunks after,
  let r1 := run_vops (before ++ map Read chunks ++ after) vinit in
  let r2 := run_vops (before ++ [Read (concat chunks)] ++ after) vinit in
  vcore (fst r1) = vcore (fst r2) /\ concat (snd r1) = concat (snd r2).
Proof. exact bytes_chunk_independent. Qed.
Print Assumptions C03_bytes_chunk_independent.

(* ---------------------------------------------------------------------- *)
(* The four hard-coded regexes.  ast_* are regenerated from /repo's pattern
   strings by re's own parser (Gen/C03_Regexes.v); [matches r s] is the
   standard whole-string language semantics (Proofs/C03_Regex.v).  The hand
   recognisers used by the model accept exactly those languages, for ALL
   strings. *)
Theorem C03_cpr_re_is_regex : forall p, cpr_re p = true <-> matches ast_cpr_response_re p.
Proof. exact cpr_re_regex. Qed.
Print Assumptions C03_cpr_re_is_regex.

Theorem C03_mouse_re_is_regex : forall p, mouse_re p = true <-> matches ast_mouse_event_re p.
Proof. exact mouse_re_regex. Qed.
Print Assumptions C03_mouse_re_is_regex.

Theorem C03_cpr_prefix_re_is_regex : forall p, cpr_prefix_re p = true <-> matches ast_cpr_response_prefix_re p.
Proof. exact cpr_prefix_re_regex. Qed.
Print Assumptions C03_cpr_prefix_re_is_regex.

Theorem C03_mouse_prefix_re_is_regex : forall p, mouse_prefix_re p = true <-> matches ast_mouse_event_prefix_re p.
Proof. exact mouse_prefix_re_regex. Qed.
Print Assumptions C03_mouse_prefix_re_is_regex.

(* ---------------------------------------------------------------------- *)
(* The process-wide memo table _IS_PREFIX_OF_LONGER_MATCH_CACHE
   (Model/C03_Cache.v): after ANY history of queries from the empty table the
   cached answer is the recomputed answer ... *)
Theorem C03_cache_answer_is_recomputed : forall history p,
  fst (cache_query p (query_all history [])) = is_prefix_longer p.
Proof. exact cached_is_recomputed. Qed.
Print Assumptions C03_cache_answer_is_recomputed.

(* ... and the coroutine with a coherent table threaded through computes what
   the table-free model computes and leaves the table coherent (so the model's
   direct use of is_prefix_longer is a refinement of the code with the dict) ... *)
Theorem C03_cache_transparent : forall fuel fl st c,
  Coherent c ->
  fst (process_c fuel fl st c) = process fuel fl st /\ Coherent (snd (process_c fuel fl st c)).
Proof. exact process_c_correct. Qed.
Print Assumptions C03_cache_transparent.

(* ... while coherence is a real obligation: one wrong entry changes the keys. *)
Theorem C03_cache_poisoned_differs :
  fst (send_char_c 27 init [([27], false)]) <> send_char 27 init.
Proof. exact poisoned_cache_differs. Qed.
Print Assumptions C03_cache_poisoned_differs.

(* ---------------------------------------------------------------------- *)
(* PosixStdinReader.read(): over any sequence of calls (select not ready /
   ready / error; os.read data / end of file / error; calls after closing) the
   text handed out is the decoding of exactly the bytes taken from the
   descriptor, in order - none lost, none duplicated - and the reader's
   undecoded tail is the tail of that decoding. *)
Theorem C03_reader_conservation : forall calls,
  let x := reader_run calls rinit in
  snd (fst x) = dout (dec (snd x)) /\ rpend (fst (fst x)) = dpend (dec (snd x)).
Proof.
  intros calls. destruct (reader_run_conservation calls rinit) as (A & B & _); [reflexivity|].
  cbv zeta in *. cbn [rinit rpend app] in A, B. auto.
Qed.
Print Assumptions C03_reader_conservation.

(* End of file closes the reader; a closed reader returns "" and takes nothing, for ever. *)
Theorem C03_reader_eof : forall s st,
  rclosed st = false -> s <> SelNotReady ->
  rclosed (fst (fst (reader_read s (RdData []) st))) = true /\
  snd (fst (reader_read s (RdData []) st)) = [] /\ snd (reader_read s (RdData []) st) = [].
Proof. exact reader_eof_closes. Qed.
Print Assumptions C03_reader_eof.

Theorem C03_reader_closed_is_absorbing : forall calls st,
  rclosed st = true -> reader_run calls st = (st, [], []).
Proof. exact reader_run_closed. Qed.
Print Assumptions C03_reader_closed_is_absorbing.

(* ---------------------------------------------------------------------- *)
(* Round 6: the incremental UTF-8 decoder against a declarative specification
   (Model/C03_Utf8Spec.v: [encode1] = the UTF-8 encoding of a scalar value,
   [Utf8Dec bs text pend] = greedy decoding: a well-formed sequence where one
   starts, keep what can still be completed, escape any other byte to U+DC00+b;
   plus CPython's truncated-surrogate clause). *)

(* The decoder returns the declarative decoding, for EVERY byte string ... *)
Theorem C03_utf8_decoder_meets_spec : forall bs,
  forallb is_byte bs = true -> Utf8Dec bs (dout (dec bs)) (dpend (dec bs)).
Proof. exact dec_complete. Qed.
Print Assumptions C03_utf8_decoder_meets_spec.

(* ... and the specification determines the result (it is functional and the
   decoder computes it). *)
Theorem C03_utf8_spec_determines_decoder : forall bs t p,
  Utf8Dec bs t p -> forallb is_byte bs = true -> dec bs = mkd t p false.
Proof. exact dec_sound. Qed.
Print Assumptions C03_utf8_spec_determines_decoder.

(* ... for every way of cutting the byte stream into reads (undecoded tail
   prepended to the next read, as PosixStdinReader's decoder does). *)
Theorem C03_utf8_spec_any_chunking : forall reads,
  forallb is_byte (concat reads) = true ->
  Utf8Dec (concat reads) (fst (dec_reads [] reads)) (snd (dec_reads [] reads)).
Proof. exact utf8_any_chunking. Qed.
Print Assumptions C03_utf8_spec_any_chunking.

(* Every text of Unicode scalar values, UTF-8 encoded and cut into reads in any
   way (also inside multi-byte characters), is decoded to exactly that text with
   nothing left over. *)
Theorem C03_utf8_text_any_chunking : forall t reads,
  forallb scalar t = true -> concat reads = encode t -> dec_reads [] reads = (t, []).
Proof. exact utf8_text_any_chunking. Qed.
Print Assumptions C03_utf8_text_any_chunking.

(* Byte-level losslessness: the text, re-encoded with the escapes U+DC80..DCFF
   turned back into their bytes, followed by the undecoded tail, is the byte
   string that was read - every byte is carried by exactly one character or is
   still pending, in order. *)
Theorem C03_utf8_bytes_lossless : forall bs,
  forallb is_byte bs = true -> encode_se (dout (dec bs)) ++ dpend (dec bs) = bs.
Proof. exact utf8_bytes_lossless. Qed.
Print Assumptions C03_utf8_bytes_lossless.

(* The truncated-surrogate clause of the specification is a real deviation of
   CPython from Unicode table 3-7 (kept although it cannot be completed). *)
Theorem C03_utf8_truncated_surrogate_kept :
  dec [237; 160] = mkd [] [237; 160] false /\
  dec [237; 160; 128] = mkd [esc 237; esc 160; esc 128] [] false /\
  ~ (exists cp ext, scalar cp = true /\ [237; 160] ++ ext = encode1 cp).
Proof. exact utf8_truncated_surrogate_kept. Qed.
Print Assumptions C03_utf8_truncated_surrogate_kept.

(* End of file with an incomplete sequence pending: read() never finalises the
   decoder.  Over any call sequence, text (re-encoded) ++ undecoded tail = bytes
   taken; the tail is empty or 1-3 bytes that could still have been completed;
   once the reader is closed no later call hands it out.  The property text
   speaks about characters; an incomplete sequence is not one - recorded as an
   observation (design.d/C03.md), not as a violation. *)
Theorem C03_reader_eof_tail_undelivered : forall calls later,
  let x := reader_run calls rinit in
  forallb is_byte (snd x) = true ->
  encode_se (snd (fst x)) ++ rpend (fst (fst x)) = snd x /\
  (rpend (fst (fst x)) = [] \/ (Incomplete (rpend (fst (fst x))) /\ (1 <= length (rpend (fst (fst x))) <= 3)%nat)) /\
  (rclosed (fst (fst x)) = true -> reader_run later (fst (fst x)) = (fst (fst x), [], [])).
Proof. exact reader_tail_undelivered. Qed.
Print Assumptions C03_reader_eof_tail_undelivered.

Theorem C03_reader_eof_witness :
  reader_run [(SelReady, RdData [97; 195]); (SelReady, RdData []); (SelReady, RdData [169])] rinit
  = (mkr true [195], [97], [97; 195]).
Proof. exact reader_eof_witness. Qed.
Print Assumptions C03_reader_eof_witness.

(* PosixStdinReader(errors=...): with "surrogateescape" (the default, and what
   Vt100Input uses) the parametrised decoder is the decoder above; on well-formed
   UTF-8 the handler makes no difference; on malformed input they differ. *)
Theorem C03_errors_surrogateescape_is_dec : forall old bs,
  dec_e ESurrogate old bs = of_dres (dec (old ++ bs)).
Proof. exact dec_e_surrogate. Qed.
Print Assumptions C03_errors_surrogateescape_is_dec.

Theorem C03_errors_irrelevant_on_wellformed : forall m t,
  forallb scalar t = true -> dec_e m [] (encode t) = mke t [] false false.
Proof. exact dec_e_clean. Qed.
Print Assumptions C03_errors_irrelevant_on_wellformed.

Theorem C03_errors_modes_differ :
  dec_e ESurrogate [] [195; 40] = mke [56515; 40] [] false false /\
  dec_e EIgnore [] [195; 40] = mke [40] [] false false /\
  dec_e EReplace [] [195; 40] = mke [65533; 40] [] false false /\
  dec_e EStrict [] [195; 40] = mke [] [] true false.
Proof. exact dec_e_modes_differ. Qed.
Print Assumptions C03_errors_modes_differ.

(* ---------------------------------------------------------------------- *)
(* Round 7 *)

(* An executable matcher (Brzozowski derivatives, Model/C03_RegexMatch.v) decides
   the declarative language of every regular-expression AST, for every string ... *)
Theorem C03_regex_matcher_decides_language : forall s r, dmatch r s = true <-> matches r s.
Proof. exact dmatch_spec. Qed.
Print Assumptions C03_regex_matcher_decides_language.

(* ... and each hand recogniser of the parser model IS that matcher run on the
   AST regenerated from /repo's pattern string by re's own parser, for ALL
   strings.  What stays trusted about the regexes: that re.match on the anchored
   pattern accepts exactly the AST's language (tested each run by running this
   matcher, extracted, against /repo's compiled regexes) and the generator's
   translation of re's parse tree. *)
Theorem C03_cpr_re_is_matcher : forall p, cpr_re p = dmatch ast_cpr_response_re p.
Proof. exact cpr_re_is_dmatch. Qed.
Print Assumptions C03_cpr_re_is_matcher.
Theorem C03_mouse_re_is_matcher : forall p, mouse_re p = dmatch ast_mouse_event_re p.
Proof. exact mouse_re_is_dmatch. Qed.
Print Assumptions C03_mouse_re_is_matcher.
Theorem C03_cpr_prefix_re_is_matcher : forall p, cpr_prefix_re p = dmatch ast_cpr_response_prefix_re p.
Proof. exact cpr_prefix_re_is_dmatch. Qed.
Print Assumptions C03_cpr_prefix_re_is_matcher.
Theorem C03_mouse_prefix_re_is_matcher : forall p, mouse_prefix_re p = dmatch ast_mouse_event_prefix_re p.
Proof. exact mouse_prefix_re_is_dmatch. Qed.
Print Assumptions C03_mouse_prefix_re_is_matcher.

(* PosixStdinReader(errors="ignore" / "replace" / "surrogateescape"): two
   successive decode() calls give the text and the final buffer of one call on
   the concatenation, wherever the cut falls (also inside an error range). *)
Theorem C03_errors_chunk_independent : forall m a b, m <> EStrict ->
  dec_e m [] (a ++ b) = ecombine (dec_e m [] a) (dec_e m (epend (dec_e m [] a)) b).
Proof. exact dec_e_chunk_independent. Qed.
Print Assumptions C03_errors_chunk_independent.

(* "strict" is not chunk independent: b"A\xff" in one read raises and returns
   nothing, cut after "A" the first read hands "A" out. *)
Theorem C03_errors_strict_chunking_refuted :
  dec_e EStrict [] ([65] ++ [255]) <>
  ecombine (dec_e EStrict [] [65]) (dec_e EStrict (epend (dec_e EStrict [] [65])) [255]).
Proof. exact dec_e_strict_not_chunk_independent. Qed.
Print Assumptions C03_errors_strict_chunking_refuted.

(* Non-vacuity: the table has multi-key entries without BracketedPaste. *)
Example C03_table_has_tuples :
  exists k ks, In (k, ks) ansi_table /\ mem_Z key_BracketedPaste ks = false /\ (1 < length ks)%nat.
Proof. exact table_has_tuples. Qed.
