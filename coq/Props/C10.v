(* C10 - Displayed content can never inject control sequences into the terminal.
   Statements only; proofs are in Proofs/C10_TableFacts.v (re-proved over the
   regenerated Char.display_mappings on every run), Proofs/C10_CopyFacts.v and
   Proofs/C10_RenderFacts.v.  Code points are unbounded integers; "control" is
   C0 (0x00-0x1F), DEL (0x7F), C1 (0x80-0x9F).  [wc] is wcwidth, any function
   ([wc_ascii wc]: printable ASCII has width 1); [sty] is the style machinery. *)
From Coq Require Import ZArith List Bool.
From PTK Require Import Lib.Sx Lib.Py Gen.C10_DisplayMappings Model.C13_Utf8 Model.C10_Screen Model.C10_Producers Model.C10_Wire Model.C10_Print Model.C10_Procs
     Proofs.C10_TableFacts Proofs.C10_CopyFacts Proofs.C10_RenderFacts Proofs.C10_ProducerFacts Proofs.C10_WireFacts Proofs.C10_PrintFacts Proofs.C10_ProcFacts Proofs.C10_SiteFacts Proofs.C10_ZweOrder.
Import ListNotations.
Open Scope Z_scope.

(* Every control code point is a key of Char.display_mappings. *)
Theorem C10_table_covers : forall c, is_control c = true -> exists v, dm_lookup c = Some v.
Proof. exact table_covers. Qed.
Print Assumptions C10_table_covers.

(* Every display string is non-empty printable ASCII, hence control-free. *)
Theorem C10_table_values_clean : forall c v, dm_lookup c = Some v ->
  control_free v = true /\ v <> [] /\ forallb printable_ascii v = true.
Proof. exact table_values_summary. Qed.
Print Assumptions C10_table_values_clean.

(* Structural side condition, re-established by the generator's AST scan of
   /repo on every run: every store into a screen cell under layout/ is a
   Char(..)/_CHAR_CACHE[..] of a reviewed text expression (or a cell copied from
   another screen), every store into zero_width_escapes is the `+= text` under
   `if "[ZeroWidthEscape]" in style` (or a copy), and write_raw is called
   outside output/ only at the three reviewed sites. *)
Theorem C10_store_sites_reviewed : store_sites_reviewed = true.
Proof. exact store_sites_reviewed_checked. Qed.
Print Assumptions C10_store_sites_reviewed.

(* For EVERY code point and style, the cell made by Char.__init__ has
   control-free text, and what `write` sends for it is that text. *)
Theorem C10_cell_clean : forall wc c st,
  control_free (cch (char_init wc [c] st)) = true /\
  vt_write (cch (char_init wc [c] st)) = cch (char_init wc [c] st).
Proof. exact cell_clean_write. Qed.
Print Assumptions C10_cell_clean.

(* A control character is shown by its table entry: visible (positive width). *)
Theorem C10_control_visible : forall wc c st, wc_ascii wc -> is_control c = true ->
  exists v, dm_lookup c = Some v /\ cch (char_init wc [c] st) = v /\ 0 < cw (char_init wc [c] st).
Proof. exact control_visible. Qed.
Print Assumptions C10_control_visible.

(* ... in exactly ITS caret or hex notation: "^" + chr(c xor 0x40) for C0 and DEL,
   "<xx>" (two lower-case hex digits of c) for C1 (finite, re-proved per run). *)
Theorem C10_cell_notation : forall wc c st, is_control c = true -> cch (char_init wc [c] st) = notation_of c.
Proof. exact cell_notation. Qed.
Print Assumptions C10_cell_notation.

(* Restyling a cell (Char(cell.char, style'): fill_area, cursor line,
   append_style_to_content) never changes its text. *)
Theorem C10_rewrap_stable : forall wc s st st',
  cch (char_init wc (cch (char_init wc s st)) st') = cch (char_init wc s st).
Proof. exact char_init_rewrap. Qed.
Print Assumptions C10_rewrap_stable.

(* The safe print path: Vt100_Output.write never emits ESC, for any string,
   and introduces no control character that was not in its argument. *)
Theorem C10_safe_print : forall d, ~ In 27 (vt_write d).
Proof. exact vt_write_no_esc. Qed.
Print Assumptions C10_safe_print.

Theorem C10_write_adds_no_control : forall d c, In c (vt_write d) -> is_control c = true -> In c d.
Proof. exact vt_write_controls. Qed.
Print Assumptions C10_write_adds_no_control.

(* The zero-width merge of _copy_body (Char(prev.char + c, ..), not
   re-sanitised) is only reached for characters that are not control. *)
Theorem C10_merge_clean : forall wc c st, wc_ascii wc -> cw (char_init wc [c] st) = 0 -> is_control c = false.
Proof. exact zero_width_not_control. Qed.
Print Assumptions C10_merge_clean.

(* _copy_body of arbitrary fragment lines (any code points, any styles,
   wrapping, prefixes): every stored cell is control-free, and
   zero_width_escapes holds nothing but concatenations of texts of fragments
   whose style carries "[ZeroWidthEscape]" (M lists those texts). *)
Theorem C10_copy_body : forall wc g M pfx lines s,
  wc_ascii wc -> pfx_marked M pfx -> (forall l, In l lines -> frags_marked M l) ->
  screen_ok M s -> screen_ok M (copy_body wc g pfx lines s).
Proof. exact copy_body_screen_ok. Qed.
Print Assumptions C10_copy_body.

(* lines -> _copy_body -> (append_style_to_content) -> _output_screen_diff,
   against any previous screen, from any cursor position / last style: every
   token is control-free cell text through `write`, a sequence of the
   renderer's own repertoire, or a stored zero-width escape through write_raw. *)
Theorem C10_tokens : forall wc sty g M pfx lines app width ri x y last vis,
  wc_ascii wc -> pfx_marked M pfx -> (forall l, In l lines -> frags_marked M l) ->
  Forall (tok_ok sty (zwe_texts (rendered_screen wc g pfx lines app)))
         (rendered_tokens wc sty g pfx lines app width ri x y last vis).
Proof. exact pipeline_tokens_ok. Qed.
Print Assumptions C10_tokens.

(* Every control character in the output stream belongs to a token the
   renderer generated itself or to an explicitly marked zero-width escape. *)
Theorem C10_stream : forall wc sty g M pfx lines app width ri x y last vis,
  wc_ascii wc -> pfx_marked M pfx -> (forall l, In l lines -> frags_marked M l) ->
  forall o c, In (o, c) (tagged_stream (rendered_tokens wc sty g pfx lines app width ri x y last vis)) ->
  is_control c = true -> o = FromRenderer \/ o = FromZWE.
Proof. exact pipeline_stream. Qed.
Print Assumptions C10_stream.

(* [tagged_stream] is the byte stream sent, with tags. *)
Theorem C10_stream_bytes : forall toks, stream toks = map snd (tagged_stream toks).
Proof. exact stream_is_tagged. Qed.
Print Assumptions C10_stream_bytes.

(* Only content explicitly marked as zero-width escape passes through raw. *)
Theorem C10_raw_only_marked : forall wc sty g M pfx lines app width ri x y last vis,
  wc_ascii wc -> pfx_marked M pfx -> (forall l, In l lines -> frags_marked M l) ->
  forall t, In t (rendered_tokens wc sty g pfx lines app width ri x y last vis) ->
  (torigin t = FromZWE -> tkind t = KRaw /\ concat_of M (ttext t)) /\
  (torigin t = FromCell -> tkind t = KWrite /\ control_free (ttext t) = true) /\
  (tkind t = KRaw -> torigin t <> FromCell).
Proof. exact pipeline_zwe_marked. Qed.
Print Assumptions C10_raw_only_marked.

(* ---- the fragment producers (Model/C10_Producers.v) ----
   None of them marks text "[ZeroWidthEscape]" by itself: unmarked application
   styles / supplied fragments in, unmarked fragment lines out.  Displayed text
   only ever lands in the TEXT component of a fragment. *)
Theorem C10_ftc_lines_unmarked : forall st fs,
  unmarked_style st -> all_unmarked fs -> Forall all_unmarked (ftc_lines st fs).
Proof. exact ftc_lines_unmarked. Qed.
Print Assumptions C10_ftc_lines_unmarked.

Theorem C10_buffer_lines_unmarked : forall lexstyle ps text,
  unmarked_style lexstyle -> Forall proc_unmarked ps -> Forall all_unmarked (buffer_lines lexstyle ps text).
Proof. exact buffer_lines_unmarked. Qed.
Print Assumptions C10_buffer_lines_unmarked.

Theorem C10_menu_item_unmarked : forall wc cstyle selstyle display cur width sp,
  unmarked_style cstyle -> unmarked_style selstyle -> all_unmarked display ->
  all_unmarked (menu_item wc cstyle selstyle display cur width sp).
Proof. exact menu_item_unmarked. Qed.
Print Assumptions C10_menu_item_unmarked.

(* Unmarked lines (and prefixes): nothing is passed through raw and every
   control character of the stream was generated by the renderer. *)
Theorem C10_unmarked_lines_stream : forall wc sty g pfx lines app width ri x y last vis,
  wc_ascii wc -> pfx_unmarked pfx -> Forall all_unmarked lines ->
  forall o c, In (o, c) (tagged_stream (rendered_tokens wc sty g pfx lines app width ri x y last vis)) ->
  (o = FromZWE -> False) /\ (is_control c = true -> o = FromRenderer).
Proof. exact unmarked_lines_stream. Qed.
Print Assumptions C10_unmarked_lines_stream.

(* The four placements of the property text, for ANY string (all code points):
   edited text in a BufferControl (any of the modelled processors), the prompt
   message (BeforeInput), a bottom toolbar (FormattedTextControl) and a
   completion's display text in the menu. *)
Theorem C10_plain_buffer : forall wc sty g lexstyle ps text app width ri x y last vis,
  wc_ascii wc -> unmarked_style lexstyle -> Forall proc_unmarked ps ->
  forall o c, In (o, c) (tagged_stream (rendered_tokens wc sty g None (buffer_lines lexstyle ps text) app width ri x y last vis)) ->
  (o = FromZWE -> False) /\ (is_control c = true -> o = FromRenderer).
Proof. exact plain_buffer_stream. Qed.
Print Assumptions C10_plain_buffer.

Theorem C10_plain_message : forall wc sty g lexstyle mstyle message text app width ri x y last vis,
  wc_ascii wc -> unmarked_style lexstyle -> unmarked_style mstyle ->
  forall o c, In (o, c) (tagged_stream (rendered_tokens wc sty g None
        (buffer_lines lexstyle [PBeforeInput mstyle (ft_of_str message)] text) app width ri x y last vis)) ->
  (o = FromZWE -> False) /\ (is_control c = true -> o = FromRenderer).
Proof. exact plain_message_stream. Qed.
Print Assumptions C10_plain_message.

Theorem C10_plain_toolbar : forall wc sty g style text app width ri x y last vis,
  wc_ascii wc -> unmarked_style style ->
  forall o c, In (o, c) (tagged_stream (rendered_tokens wc sty g None (ftc_lines style (ft_of_str text)) app width ri x y last vis)) ->
  (o = FromZWE -> False) /\ (is_control c = true -> o = FromRenderer).
Proof. exact plain_toolbar_stream. Qed.
Print Assumptions C10_plain_toolbar.

Theorem C10_plain_completion : forall wc sty g cstyle selstyle display cur w sp app width ri x y last vis,
  wc_ascii wc -> unmarked_style cstyle -> unmarked_style selstyle ->
  forall o c, In (o, c) (tagged_stream (rendered_tokens wc sty g None
        [menu_item wc cstyle selstyle (ft_of_str display) cur w sp] app width ri x y last vis)) ->
  (o = FromZWE -> False) /\ (is_control c = true -> o = FromRenderer).
Proof. exact plain_menu_stream. Qed.
Print Assumptions C10_plain_completion.

(* Key data (the two store sites whose text is not displayed content): a
   multi-character key sequence never has display width 1 (so the key-buffer
   cell only gets one character, which Char sanitises), and except for ESC TAB
   (Keys.BackTab, bound in every mode) it is control-free after `write`. *)
Theorem C10_key_data_width : forall s w, In (s, w) key_sequences -> w <> 1.
Proof. exact key_data_width. Qed.
Print Assumptions C10_key_data_width.

Theorem C10_key_data_write_clean : forall s w, In (s, w) key_sequences -> s <> [27; 9] ->
  control_free (vt_write s) = true.
Proof. exact key_data_write_clean. Qed.
Print Assumptions C10_key_data_write_clean.

(* Round 4: the prompt message the way PromptSession shows it
   (_split_multiline_prompt + _get_line_prefix + continuation), the meta column
   of the completion menu, AppendAutoSuggestion and HighlightSelectionProcessor
   (inside C10_buffer_lines_unmarked's processor list). *)
Theorem C10_plain_session_input : forall wc sty g lexstyle ps message cont text app width ri x y last vis,
  wc_ascii wc -> unmarked_style lexstyle -> Forall proc_unmarked ps -> all_unmarked cont ->
  forall o c, In (o, c) (tagged_stream (rendered_tokens wc sty g
        (Some (session_prefix (ft_of_str message) cont)) (buffer_lines lexstyle ps text) app width ri x y last vis)) ->
  (o = FromZWE -> False) /\ (is_control c = true -> o = FromRenderer).
Proof. exact plain_session_input_stream. Qed.
Print Assumptions C10_plain_session_input.

Theorem C10_plain_session_before : forall wc sty g message app width ri x y last vis,
  wc_ascii wc ->
  forall o c, In (o, c) (tagged_stream (rendered_tokens wc sty g None
        (session_before_lines (ft_of_str message)) app width ri x y last vis)) ->
  (o = FromZWE -> False) /\ (is_control c = true -> o = FromRenderer).
Proof. exact plain_session_before_stream. Qed.
Print Assumptions C10_plain_session_before.

Theorem C10_plain_completion_meta : forall wc sty g meta cur w app width ri x y last vis,
  wc_ascii wc ->
  forall o c, In (o, c) (tagged_stream (rendered_tokens wc sty g None
        [menu_meta wc (ft_of_str meta) cur w] app width ri x y last vis)) ->
  (o = FromZWE -> False) /\ (is_control c = true -> o = FromRenderer).
Proof. exact plain_meta_stream. Qed.
Print Assumptions C10_plain_completion_meta.

(* ---- the wire: flush_stdout's encode(encoding, "replace") (Model/C10_Wire.v) ----
   A terminal in UTF-8 mode decodes exactly the code points that were sent,
   with every unencodable one (lone surrogates, e.g. U+DC9B) replaced by "?". *)
Theorem C10_wire_utf8_roundtrip : forall data,
  wire_decode_utf8 (encode_utf8_replace data) = map repl_utf8 data.
Proof. exact wire_utf8_roundtrip. Qed.
Print Assumptions C10_wire_utf8_roundtrip.

(* encoded bytes of control-free text decode to control-free text ... *)
Theorem C10_wire_utf8_control_free : forall data, control_free data = true ->
  control_free (wire_decode_utf8 (encode_utf8_replace data)) = true.
Proof. exact wire_utf8_control_free. Qed.
Print Assumptions C10_wire_utf8_control_free.

(* ... and a byte below 0x80 (so every C0/DEL byte) is "?" or a code point that was sent *)
Theorem C10_wire_utf8_ascii_bytes : forall data b, In b (encode_utf8_replace data) -> b < 128 ->
  b = QM \/ In b data.
Proof. exact wire_utf8_ascii_bytes. Qed.
Print Assumptions C10_wire_utf8_ascii_bytes.

(* latin-1 / ascii: the bytes of control-free text contain no C0/C1 byte *)
Theorem C10_wire_8bit_control_free : forall limit data, control_free data = true ->
  control_free (encode_8bit_replace limit data) = true.
Proof. exact wire_8bit_control_free. Qed.
Print Assumptions C10_wire_8bit_control_free.

(* C10_stream carried to the wire: in what the terminal decodes, every control
   character belongs to a renderer token or a marked zero-width escape. *)
Theorem C10_wire_stream : forall wc sty g M pfx lines app width ri x y last vis,
  wc_ascii wc -> pfx_marked M pfx -> (forall l, In l lines -> frags_marked M l) ->
  forall o c, In (o, c) (decoded_tagged (rendered_tokens wc sty g pfx lines app width ri x y last vis)) ->
  is_control c = true -> o = FromRenderer \/ o = FromZWE.
Proof. exact wire_pipeline_stream. Qed.
Print Assumptions C10_wire_stream.

Theorem C10_wire_stream_bytes : forall toks,
  map snd (decoded_tagged toks) = wire_decode_utf8 (encode_utf8_replace (stream toks)).
Proof. exact decoded_tagged_is_wire. Qed.
Print Assumptions C10_wire_stream_bytes.

(* ---- the safe print path (Model/C10_Print.v): renderer.print_formatted_text ----
   For ANY fragments and styles: no ESC byte of the stream comes from printed
   text (only from the function's own SGR/reset sequences or from fragments
   explicitly marked [ZeroWidthEscape]). *)
Theorem C10_print_no_esc : forall sty fs o, In (o, 27) (tagged_stream (print_formatted_text sty fs)) ->
  o = FromRenderer \/ o = FromZWE.
Proof. exact print_no_esc. Qed.
Print Assumptions C10_print_no_esc.

(* The READLINE_LIKE completion listing prints completion display text through
   that path (never a screen cell).  Since /repo commit 1d18ea6 the display
   fragments go through _show_control_characters: the only control characters
   of the printed listing are the CR LF that end its rows. *)
Theorem C10_readline_listing_clean : forall sty rows o c,
  In (o, c) (tagged_stream (print_formatted_text sty (readline_fragments rows))) ->
  is_control c = true -> o = FromRenderer \/ o = FromZWE \/ (o = FromCell /\ (c = 13 \/ c = 10)).
Proof. exact readline_listing_clean. Qed.
Print Assumptions C10_readline_listing_clean.

(* ... and the generator's scan of this run confirms that the listing's
   print_text call is fed through _show_control_characters (fail closed). *)
Theorem C10_readline_listing_mapped : readline_listing_mapped = true.
Proof. exact readline_listing_mapped_checked. Qed.
Print Assumptions C10_readline_listing_mapped.

(* The code before that commit (finding C10-F2, fixed): the print path replaces
   nothing but ESC, so a control character of the display text was sent. *)
Theorem C10_readline_listing_pinned_refuted :
  exists rows sty c, is_control c = true /\
    In (FromCell, c) (tagged_stream (print_formatted_text sty (readline_fragments_pinned rows))).
Proof. exact readline_listing_pinned_refuted. Qed.
Print Assumptions C10_readline_listing_pinned_refuted.

(* The fuelled loops of the model (row loop, "%i") never run out of fuel. *)
Theorem C10_fuel : forall wc sty g M pfx lines app width ri x y last vis,
  wc_ascii wc -> pfx_marked M pfx -> (forall l, In l lines -> frags_marked M l) ->
  roof (rendered_state wc sty g pfx lines app width ri x y last vis) = false.
Proof. exact pipeline_no_oof. Qed.
Print Assumptions C10_fuel.

Theorem C10_dec_fuel : forall n, exists d,
  dec_pos_fuel (S (Z.to_nat (Z.log2 (Z.abs n)))) (Z.abs n) [] = Some d.
Proof. exact dec_fuel_suffices. Qed.
Print Assumptions C10_dec_fuel.

(* The hypotheses are satisfiable and the interesting paths reachable: a line
   with a combining character (merged), ESC (shown ^[), 8-bit CSI (shown <9b>)
   and a marked escape. *)
Example C10_hypotheses_satisfiable :
  wc_ascii (fun _ => 1) /\
  let wc := fun c => if c =? 769 then 0 else 1 in
  let g := mkcfg 10 1 0 0 false 0 0 in
  let s := copy_body wc g None [[([], [101; 769; 27; 155]); (ZWE_MARK, [27; 93])]] blank_screen in
  map (fun x => cch (get_cell wc (get_row (sdata s) 0) x)) [0; 1; 3] = [[101; 769]; [94; 91]; [60; 57; 98; 62]]
  /\ szwe s = [(0, [(7, [27; 93])])].
Proof. exact (conj wc_ascii_example copy_body_example). Qed.
Print Assumptions C10_hypotheses_satisfiable.

(* Limit of the mechanism, stated so that it cannot be overlooked: Char on a
   string of two or more characters replaces nothing.  Cell safety therefore
   needs the text argument of every Char(..) store to be one character or
   already clean - the structural side condition checked by gen/gen_t_c10.py. *)
Example C10_char_multichar_not_sanitised :
  exists s, control_free (cch (char_init (fun _ => 1) s [])) = false.
Proof. exact char_init_multichar_not_sanitised. Qed.
Print Assumptions C10_char_multichar_not_sanitised.

(* ---------------------------------------------------------------- round 6: the remaining producers *)

(* The whole processor chain of a BufferControl (Model/C10_Procs.v: _MergedProcessor with the
   composed source_to_display, Highlight(Incremental)Search, HighlightMatchingBracket,
   DisplayMultipleCursors, Tabs, ShowLeading/TrailingWhiteSpace, AfterInput, ShowArg,
   Conditional/Dynamic wrappers, and the round 3/4 processors at any place): whenever the chain
   does not raise, no produced fragment is marked unless a style the application supplied is. *)
Theorem C10_chain_unmarked : forall lexstyle qs text ls,
  unmarked_style lexstyle -> Forall q_unmarked qs ->
  buffer_lines2 lexstyle qs text = Some ls -> Forall all_unmarked ls.
Proof. exact buffer_lines2_unmarked. Qed.
Print Assumptions C10_chain_unmarked.

(* ... hence for ANY buffer text through ANY such chain nothing is passed through raw and every
   control character of the output stream was generated by the renderer. *)
Theorem C10_plain_buffer_chain : forall wc sty g lexstyle qs text crow ccol ls app width ri x y last vis,
  wc_ascii wc -> unmarked_style lexstyle -> Forall q_unmarked qs ->
  buffer_content lexstyle qs text crow ccol = Some ls ->
  forall o c, In (o, c) (tagged_stream (rendered_tokens wc sty g None ls app width ri x y last vis)) ->
  (o = FromZWE -> False) /\ (is_control c = true -> o = FromRenderer).
Proof. exact plain_buffer2_stream. Qed.
Print Assumptions C10_plain_buffer_chain.

(* Margins (NumberedMargin, ScrollbarMargin with any arrow symbols, PromptMargin with unmarked
   application fragments) through Window.render_margin and _copy_body. *)
Theorem C10_numbered_margin : forall wc sty g rel til w cur disp wh app width ri x y last vis,
  wc_ascii wc ->
  forall o c, In (o, c) (tagged_stream (rendered_tokens wc sty g None
        (margin_lines (numbered_margin rel til w cur disp wh)) app width ri x y last vis)) ->
  (o = FromZWE -> False) /\ (is_control c = true -> o = FromRenderer).
Proof. exact numbered_margin_stream. Qed.
Print Assumptions C10_numbered_margin.

Theorem C10_scrollbar_margin : forall wc sty g arrows up down wh top h app width ri x y last vis,
  wc_ascii wc ->
  forall o c, In (o, c) (tagged_stream (rendered_tokens wc sty g None
        (margin_lines (scrollbar_margin arrows up down wh top h)) app width ri x y last vis)) ->
  (o = FromZWE -> False) /\ (is_control c = true -> o = FromRenderer).
Proof. exact scrollbar_margin_stream. Qed.
Print Assumptions C10_scrollbar_margin.

Theorem C10_prompt_margin : forall wc sty g prompt conts app width ri x y last vis,
  wc_ascii wc -> all_unmarked prompt -> Forall all_unmarked conts ->
  forall o c, In (o, c) (tagged_stream (rendered_tokens wc sty g None
        (margin_lines (prompt_margin prompt conts)) app width ri x y last vis)) ->
  (o = FromZWE -> False) /\ (is_control c = true -> o = FromRenderer).
Proof. exact prompt_margin_stream. Qed.
Print Assumptions C10_prompt_margin.

(* The multi-column completion menu: all rows, any display fragments / styles without the mark. *)
Theorem C10_multicolumn_menu : forall wc sty g rows scroll vis cw l r mids app width ri x y last vis',
  wc_ascii wc -> Forall (Forall mc_item_unmarked) rows ->
  forall o c, In (o, c) (tagged_stream (rendered_tokens wc sty g None
        (map (fun rm : list mc_item * bool => mc_row wc (fst rm) scroll vis cw l r (snd rm)) (combine rows mids))
        app width ri x y last vis')) ->
  (o = FromZWE -> False) /\ (is_control c = true -> o = FromRenderer).
Proof. exact mc_rows_stream. Qed.
Print Assumptions C10_multicolumn_menu.

(* The literal search of HighlightSearchProcessor reports real occurrences, left to right. *)
Theorem C10_find_lit_sound : forall pat s i skip a b, In (a, b) (find_lit pat s i skip) ->
  b = a + len pat /\ i <= a /\ exists pre post, pre ++ post = s /\ len pre = a - i /\ startswith post pat = true.
Proof. exact find_lit_sound. Qed.
Print Assumptions C10_find_lit_sound.

(* The chain hypotheses are satisfiable and the interesting paths reachable: "a<TAB>b" through
   BeforeInput("> "), TabsProcessor(4) and a search for "b" with the cursor on it. *)
Example C10_chain_satisfiable :
  buffer_content [] [QBase (PBeforeInput [] [([], [62; 32])]); QTabs 4 [124] [46] [116]; QSearch false [98] None 0 2 false]
                 [97; 9; 98] 0 2
  = Some [[([], [62]); ([], [32]); ([], [97]); ([116], [124]);
           (search_suffix S_SEARCH_CUR, [98]); ([], [32])]].
Proof. exact chain_example. Qed.
Print Assumptions C10_chain_satisfiable.

(* ---------------------------------------------------------------- round 6: regenerated site tables *)

(* The text argument of every Char(..)/_CHAR_CACHE[..] that the source stores into a screen cell
   (table regenerated by the AST dataflow scan on every run): a control-free literal (checked here,
   in Coq), one element of an iterated fragment text (C10_cell_clean), the guarded zero-width merge
   (C10_merge_clean), the text of an existing cell (C10_rewrap_stable), or one of the five reviewed
   application / key-data expressions (listed in Proofs/C10_SiteFacts.v as well as in the generator). *)
Theorem C10_cell_text_sites : forall c t, In (c, t) cell_text_sites ->
  (c = 0 /\ control_free t = true) \/ c = 1 \/ c = 2 \/ c = 3 \/ (c = 4 /\ In t reviewed_exprs).
Proof. exact cell_text_sites_classified. Qed.
Print Assumptions C10_cell_text_sites.

(* Every self.write_raw(..) of output/vt100.py Vt100_Output (regenerated per run; write / write_raw
   bodies and direct uses of the buffer are checked by the scan): a literal or an integer format that
   is a run of well-formed CSI sequences / BS / BEL, the SGR cache, or set_title's format. *)
Theorem C10_vt100_raw_sites : forall m k t, In (m, k, t) vt100_raw_sites ->
  (k = 0 /\ seqs_ok (length t) t = true) \/ (k = 1 /\ seqs_ok (length t) (subst_i t [55]) = true) \/
  k = 2 \/ (k = 4 /\ t = TITLE_FMT).
Proof. exact vt100_raw_sites_classified. Qed.
Print Assumptions C10_vt100_raw_sites.

(* The constants of the model's Vt100_Output primitives are the source's on this run, and the
   primitives send exactly them. *)
Theorem C10_vt_model_tied :
  forallb (fun m => existsb (site_eqb m) vt100_raw_sites) model_vt_literals = true /\
  (forall s, vt_reset_attributes s = raw (lit 0) s) /\
  (forall n s, vt_cursor_up n s = if n =? 0 then s else if n =? 1 then raw (lit 5) s else raw (subst_i (lit 6) (dec n)) s) /\
  (forall n s, vt_cursor_backward n s = if n =? 0 then s else if n =? 1 then raw (lit 9) s else raw (subst_i (lit 10) (dec n)) s).
Proof. exact vt_model_tied_summary. Qed.
Print Assumptions C10_vt_model_tied.

(* _copy_body with ANY vertical_scroll / vertical_scroll_2 (lines skipped, first line starting above the
   window, zero-width escapes stored at negative rows): the statements of C10_tokens / C10_stream /
   C10_raw_only_marked hold unchanged. *)
Theorem C10_vscroll : forall wc sty g M pfx lines vs vs2 app width ri x y last vis,
  wc_ascii wc -> pfx_marked M pfx -> (forall l, In l lines -> frags_marked M l) ->
  (forall o c, In (o, c) (tagged_stream (rendered_tokens_v wc sty g pfx lines vs vs2 app width ri x y last vis)) ->
     is_control c = true -> o = FromRenderer \/ o = FromZWE) /\
  (forall t, In t (rendered_tokens_v wc sty g pfx lines vs vs2 app width ri x y last vis) ->
     (torigin t = FromZWE -> tkind t = KRaw /\ concat_of M (ttext t)) /\
     (torigin t = FromCell -> tkind t = KWrite /\ control_free (ttext t) = true)).
Proof. exact vscroll_stream. Qed.
Print Assumptions C10_vscroll.

(* ---------------------------------------------------------------- round 7: ordered, whole-text zero-width escapes *)

(* What _copy_body stores into zero_width_escapes (any wrapping, scroll offsets, alignment, line
   prefixes): the stores are, text for text and IN ORDER, a sub-list of T, where T is the texts of
   the fragments marked [ZeroWidthEscape] of the visible lines in traversal (screen) order - whole
   texts; single characters of them once horizontal scroll has exploded the line - with the marked
   texts of the line prefixes woven in as whole blocks; and every entry of the map is the
   concatenation, in that order, of the texts stored at its position. *)
Theorem C10_zwe_entries_ordered : forall wc g pfx lines vs vs2,
  let P := fun B => match pfx with Some p => exists l w, B = marked_texts (p l w) | None => False end in
  exists (evs : list zev) (T : list (list Z)),
    weave P (flat_map (fun l => marked_texts (prep wc g l)) (skipn (Z.to_nat vs) lines)) T /\
    subseq (map et evs) T /\
    forall y x, exists here : list (list Z),
      entry (szwe (copy_body_v wc g pfx lines vs vs2 blank_screen)) y x = concat here /\
      subseq here (map et evs).
Proof. exact zwe_entries_ordered_pfx. Qed.
Print Assumptions C10_zwe_entries_ordered.

(* ... down to the stream: every token that reaches the terminal raw on behalf of displayed content
   is such an in-order concatenation of whole marked texts (the stores of one screen position).
   This replaces "pieces, any order, any multiplicity" of C10_raw_only_marked. *)
Theorem C10_raw_tokens_ordered : forall wc sty g M pfx lines vs vs2 app width ri x y last vis,
  wc_ascii wc -> pfx_marked M pfx -> (forall l, In l lines -> frags_marked M l) ->
  let P := fun B => match pfx with Some p => exists l w, B = marked_texts (p l w) | None => False end in
  exists (evs : list zev) (T : list (list Z)),
    weave P (flat_map (fun l => marked_texts (prep wc g l)) (skipn (Z.to_nat vs) lines)) T /\
    subseq (map et evs) T /\
    forall t, In t (rendered_tokens_v wc sty g pfx lines vs vs2 app width ri x y last vis) ->
      torigin t = FromZWE ->
      tkind t = KRaw /\ exists here, ttext t = concat here /\ subseq here (map et evs).
Proof. exact raw_tokens_ordered. Qed.
Print Assumptions C10_raw_tokens_ordered.

(* one line that fits: all marked texts are stored, whole and in order *)
Example C10_zwe_order_example :
  let wc := fun _ : Z => 1 in
  let g := mkcfg 10 1 0 0 false 0 0 in
  szwe (copy_body wc g None [[(ZWE_MARK, [1]); ([], [97]); (ZWE_MARK, [2]); (ZWE_MARK, [3])]] blank_screen)
  = [(0, [(0, [1]); (1, [2; 3])])].
Proof. exact zwe_order_example. Qed.
Print Assumptions C10_zwe_order_example.
