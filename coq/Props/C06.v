(* C06 - Incremental screen updates leave the terminal identical to a full redraw.
   Statements only; proofs are in Proofs/C06_{TermFacts,RowFacts,DiffFacts,SyncFacts,ScrollFacts,DoneScroll,LastRow,SafeTokens,ModesFacts,NegCols}.v.

   Setting.  W x H is the terminal size, fs = full_screen.  [tbs cfg] are the
   style tables of configuration cfg (style sheet x style transformation x
   colour depth): style -> attrs -> (pen = SGR string, has_style); they are
   ARBITRARY functions here, subject to one hypothesis:
     Hpv  attrs that _StyleStringHasStyleCache calls "no style" produce a pen
          whose part visible on a blank ([pvis]) equals that of ESC[0m.
   (Until fix 076cd06 a second hypothesis was needed - the Screen default style
   "[transparent]" has no visible attribute - and the statement was refuted
   without it, finding C06-F1; the diff now draws such cells as blanks in the
   default attributes and the hypothesis is gone.)
   [wof] is the display-width function of cell texts (wcwidth; the harness
   checks width = get_cwidth(char) on every generated cell); only wof " " = 1 is
   assumed.  [wf_screen W wof H s]: in the VISIBLE columns 0..W-1 every cell is
   a narrow cell (width 1, non-empty text), a wide cell (width 2, not straddling
   the right edge, followed by its shadow cell "" of width 0 - whose own style
   is arbitrary) or such a shadow directly after a wide cell; width = wof text.
   Cells beyond the right border or at negative indices - floats sticking out -
   are unconstrained (get_max_column_index ignores negative ones).  Rows live
   below Screen.height (which MAY exceed H: a float reaching below the last
   terminal row; only rows < H are drawn), the cursor is inside the terminal.
   A half-covered wide character (orphan shadow / wide cell without shadow) is
   outside wf_screen: there the real code violates the property (finding
   C06-F2, known).  [Sync r t]:
   terminal t shows exactly Renderer r's _last_screen (modulo attributes
   invisible on a blank; the right half of a wide glyph carries the pen of the
   wide cell), cursor = _cursor_pos, pen = ESC[0m, autowrap as the
   mode dictates, Vt100_Output._cursor_visible agrees with the terminal.
   [okop]: render (done or not) of a wf screen at size W x H under any cfg, or
   erase().  The terminal is Model/C06_Terminal.v.

   Since round 6 the theorems cover wide cells (the column-loop invariant allows
   one "damaged" column - the orphaned half of a wide glyph the terminal blanked
   when its other half was overwritten - which the loop provably redraws), so the
   former _partial suffixes are gone; the final render's single scroll is
   described completely (C06_done_scroll_once: new last row blank, every row =
   the unbounded terminal's row below).  Proved since round 3: rows
   visited/written for EVERY intermediate token (the C06_rows theorems),
   never-scrolls on the bounded terminal, screens taller than the terminal.
   Still outside the theorems: reset() with the cursor away from column 0,
   terminal resize between renders, C06-F2 screens. *)
From Coq Require Import ZArith List Bool.
From PTK Require Import Lib.Sx Lib.Py Model.C06_Terminal Model.C06_Renderer Model.C06_Modes Model.C06_Run
  Proofs.C06_TermFacts Proofs.C06_RowFacts Proofs.C06_DiffFacts Proofs.C06_SyncFacts
  Proofs.C06_ScrollFacts Proofs.C06_DoneScroll Proofs.C06_LastRow Proofs.C06_SafeTokens Proofs.C06_ModesFacts Proofs.C06_NegCols.
Import ListNotations.
Open Scope Z_scope.

Section C06.
Variables (W H : Z) (fs : bool) (tbs : Z -> tabs) (pvis : Z -> Z) (wof : list Z -> Z).
Hypothesis HW : 1 <= W.
Hypothesis HH : 0 <= H.
Hypothesis Hpv : forall c a, ahs (tbs c) a = false -> pvis (apen (tbs c) a) = pvis 0.
Hypothesis Hw32 : wof [32] = 1.

(* One operation keeps renderer and terminal in sync. *)
Theorem C06_sync_step : forall r t o r' ks,
  Sync W H fs tbs pvis wof r t -> okop W H wof o -> r_step tbs fs r o = (r', ks) ->
  Sync W H fs tbs pvis wof r' (t_step W t o ks).
Proof. exact (step_sync W H fs tbs pvis wof HW HH Hpv Hw32). Qed.

(* ... hence every finite history does. *)
Theorem C06_sync_history : forall ops r t,
  Sync W H fs tbs pvis wof r t -> Forall (okop W H wof) ops ->
  Sync W H fs tbs pvis wof (fst (run_seq W fs tbs r t ops)) (snd (run_seq W fs tbs r t ops)).
Proof. exact (seq_sync W H fs tbs pvis wof HW HH Hpv Hw32). Qed.

(* Incremental == from scratch: after ANY history of renders/erases followed by
   a render of [scr], the terminal is visibly equal (cells modulo attributes
   invisible on a blank, cursor position, cursor visibility, pen, autowrap) to
   a terminal on which a renderer without previous screen drew [scr]. *)
Theorem C06_equiv : forall ops cfg scr r0 t0 r0' t0',
  Sync W H fs tbs pvis wof r0 t0 -> Sync W H fs tbs pvis wof r0' t0' -> rlast r0' = None ->
  Forall (okop W H wof) ops -> wf_screen W wof H scr ->
  visible_eq W pvis (snd (run_seq W fs tbs r0 t0 (ops ++ [ORender cfg false W H scr])))
                    (snd (run_seq W fs tbs r0' t0' [ORender cfg false W H scr])).
Proof. exact (equiv_scratch W H fs tbs pvis wof HW HH Hpv Hw32). Qed.

(* The terminal after a normal render is a function of the screen alone. *)
Theorem C06_render_shows : forall r t cfg scr r' ks,
  Sync W H fs tbs pvis wof r t -> wf_screen W wof H scr ->
  r_render tbs fs r cfg false W H scr = (r', ks) ->
  Final W H fs tbs pvis cfg scr (trun W t ks).
Proof. exact (render_notdone_final W H fs tbs pvis wof HW HH Hpv Hw32). Qed.

(* Done epilogue: after the is_done render the cursor is at column 0 of the
   line below the output, attributes are reset, autowrap is on, the cursor is
   shown, the output rows show the screen and everything below is blank. *)
Theorem C06_done_epilogue : forall r t cfg scr r' ks,
  Sync W H fs tbs pvis wof r t -> wf_screen W wof H scr ->
  r_render tbs fs r cfg true W H scr = (r', ks) ->
  DoneState W H tbs pvis cfg scr (trun W t ks).
Proof. exact (render_done_state W H fs tbs pvis wof HW HH Hpv Hw32). Qed.

(* Rows owned: an incremental render leaves every cell in the rows at and below
   max(previous height, new height) exactly as it was. *)
Theorem C06_rows_owned : forall r t cfg scr p r' ks,
  Sync W H fs tbs pvis wof r t -> wf_screen W wof H scr -> rlast r = Some p -> rcfg r = Some cfg ->
  r_render tbs fs r cfg false W H scr = (r', ks) ->
  forall y x, Z.max (sh scr) (sh p) <= y -> tgrid (trun W t ks) y x = tgrid t y x.
Proof. exact (render_frame W H fs tbs pvis wof HW HH Hpv Hw32). Qed.

(* Rows visited and written during a non-final render ([okrun b1 b2]: after every
   token the cursor row is <= b1; every text / erase-to-end-of-line token runs on
   a row in 0..b2): the cursor never leaves the H rows of the terminal, and cells
   are only written in the owned rows 0..max(previous height, new height)-1. *)
Theorem C06_rows_render : forall r t cfg scr r' ks,
  Sync W H fs tbs pvis wof r t -> wf_screen W wof H scr -> 1 <= H ->
  r_render tbs fs r cfg false W H scr = (r', ks) ->
  okrun (H - 1) (Z.min (Z.max (sh scr) (prevh r)) H - 1) W t ks.
Proof. exact (render_notdone_rows W H fs tbs pvis wof HW HH Hpv Hw32). Qed.

(* ... the final render goes at most to the line below the output ... *)
Theorem C06_rows_done : forall r t cfg scr r' ks,
  Sync W H fs tbs pvis wof r t -> wf_screen W wof H scr -> 1 <= H ->
  r_render tbs fs r cfg true W H scr = (r', ks) ->
  okrun (Z.max (H - 1) (Z.min (sh scr) H)) (Z.min (Z.max (sh scr) (prevh r)) H - 1) W t ks.
Proof. exact (render_done_rows W H fs tbs pvis wof HW HH Hpv Hw32). Qed.

(* ... and erase never moves below where it is. *)
Theorem C06_rows_erase : forall r t r' ks b2,
  Sync W H fs tbs pvis wof r t -> 1 <= H -> r_erase r = (r', ks) -> okrun (H - 1) b2 W t ks.
Proof. exact (erase_rows W H fs tbs pvis wof). Qed.

(* Never scrolls: on the BOUNDED terminal (H rows below the origin, a line feed on
   the last row scrolls and is counted) every history of non-final renders and
   erases leaves the scroll count unchanged and ends in exactly the state of the
   unbounded terminal - so all theorems above hold on the bounded terminal. *)
Theorem C06_no_scroll : forall ops r t n,
  Sync W H fs tbs pvis wof r t -> 1 <= H -> Forall (okop_nd W H wof) ops ->
  run_seqB W H fs tbs r (t, n) ops =
  (fst (run_seq W fs tbs r t ops), (snd (run_seq W fs tbs r t ops), n)).
Proof. exact (seq_noscroll W H fs tbs pvis wof HW HH Hpv Hw32). Qed.

(* The final render of an output that leaves a terminal row free does not scroll. *)
Theorem C06_done_no_scroll : forall r t cfg scr r' ks n,
  Sync W H fs tbs pvis wof r t -> wf_screen W wof H scr -> 1 <= H -> Z.min (sh scr) H <= H - 1 ->
  r_render tbs fs r cfg true W H scr = (r', ks) ->
  trunB H W (t, n) ks = (trun W t ks, n).
Proof. exact (render_done_bounded W H fs tbs pvis wof HW HH Hpv Hw32). Qed.

(* Any final render on the bounded terminal scrolls AT MOST ONCE (the newline
   below an output that fills all rows, H <= Screen.height); if it does, the
   terminal ends exactly as the unbounded terminal's state moved up one line:
   same cursor column, pen, autowrap, cursor visibility; cursor row one less
   ([shifted]); EVERY row y <= H-1 holds what the unbounded terminal holds one row
   further down - in particular the new last row is blank in the default
   attributes.  With C06_done_epilogue (the unbounded state) this is the whole
   grid after the scroll: the output's first line went to the scrollback. *)
Theorem C06_done_scroll_once : forall r t cfg scr r' ks n,
  Sync W H fs tbs pvis wof r t -> wf_screen W wof H scr -> 1 <= H ->
  r_render tbs fs r cfg true W H scr = (r', ks) ->
  trunB H W (t, n) ks = (trun W t ks, n) \/
  exists tb', trunB H W (t, n) ks = (tb', n + 1) /\ shifted H (trun W t ks) tb' /\
    H <= sh scr /\ (forall x, 0 <= x -> tgrid tb' (H - 1) x = blank 0) /\
    (forall y x, y <= H - 1 -> 0 <= x -> tgrid tb' y x = tgrid (trun W t ks) (y + 1) x).
Proof. exact (render_done_scroll_full W H fs tbs pvis wof HW HH Hpv Hw32). Qed.

(* erase(): cursor back at the origin, everything from the origin down blank,
   attributes reset, autowrap on, cursor shown, renderer back in sync. *)
Theorem C06_erase : forall r t r' ks,
  Sync W H fs tbs pvis wof r t -> r_erase r = (r', ks) ->
  Sync W H fs tbs pvis wof r' (trun W t ks) /\ pen (trun W t ks) = 0 /\ aw (trun W t ks) = true /\
  cvis (trun W t ks) = true /\
  (forall y x, 0 <= y -> 0 <= x -> tgrid (trun W t ks) y x = blank (pen t)) /\
  (forall y x, y < 0 -> tgrid (trun W t ks) y x = tgrid t y x).
Proof. exact (erase_sync W H fs tbs pvis wof HW). Qed.

(* Rows above the origin (the scrollback above an inline prompt) are never
   changed by a render, final or not. *)
Theorem C06_rows_above : forall r t cfg done scr r' ks,
  Sync W H fs tbs pvis wof r t -> wf_screen W wof H scr ->
  r_render tbs fs r cfg done W H scr = (r', ks) ->
  forall y x, y < 0 -> tgrid (trun W t ks) y x = tgrid t y x.
Proof. exact (render_rows_above W H fs tbs pvis wof HW HH Hpv Hw32). Qed.

(* Bare reset(): where the renderer is fresh (nothing remembered, cursor at the
   origin: after construction, a final render, an erase or a reset) it keeps
   Sync.  Elsewhere reset() redefines the origin as the current cursor row
   without moving the cursor; that use is outside the theorems (the caller's
   contract is "cursor at the start of a fresh line"). *)
Theorem C06_reset : forall r t r' ks,
  Sync W H fs tbs pvis wof r t -> Fresh r -> r_reset r = (r', ks) ->
  Sync W H fs tbs pvis wof r' (t_step W t OReset ks) /\ Fresh r'.
Proof. exact (reset_sync W H fs tbs pvis wof HW). Qed.

(* Histories with resets ([okseq]: a reset only directly after a final render,
   an erase or a reset, or first if the renderer is fresh). *)
Theorem C06_sync_history_reset : forall ops fresh r t,
  Sync W H fs tbs pvis wof r t -> (fresh = true -> Fresh r) -> okseq W H wof fresh ops ->
  Sync W H fs tbs pvis wof (fst (run_seq W fs tbs r t ops)) (snd (run_seq W fs tbs r t ops)).
Proof. exact (seq_sync_reset W H fs tbs pvis wof HW HH Hpv Hw32). Qed.

Theorem C06_equiv_reset : forall ops fresh cfg scr r0 t0 r0' t0',
  Sync W H fs tbs pvis wof r0 t0 -> (fresh = true -> Fresh r0) ->
  Sync W H fs tbs pvis wof r0' t0' -> rlast r0' = None ->
  okseq W H wof fresh ops -> wf_screen W wof H scr ->
  visible_eq W pvis (snd (run_seq W fs tbs r0 t0 (ops ++ [ORender cfg false W H scr])))
                    (snd (run_seq W fs tbs r0' t0' [ORender cfg false W H scr])).
Proof. exact (equiv_scratch_reset W H fs tbs pvis wof HW HH Hpv Hw32). Qed.

(* reset() in a NON-fresh state (after a normal render): it forgets the last
   screen and declares the cursor position to be the new origin without moving
   the cursor.  Whenever the cursor is in column 0 (any row) renderer and
   terminal stay in sync - the rows above the cursor become scrollback the
   renderer no longer owns and never touches (C06_rows_above) - and so does
   every history in which resets follow a final render, an erase, a reset or a
   render whose cursor column is 0; incremental == from scratch at the end.
   (With the cursor in another column the next render starts drawing at that
   column: outside the theorems, the oracle suspends judgement there.) *)
Theorem C06_reset_col0 : forall r t r' ks,
  Sync W H fs tbs pvis wof r t -> fst (rpos r) = 0 -> r_reset r = (r', ks) ->
  Sync W H fs tbs pvis wof r' (t_step W t OReset ks) /\ Fresh r'.
Proof. exact (reset_sync_col0 W H fs tbs pvis wof HW). Qed.

Theorem C06_sync_history_reset_col0 : forall ops col0 r t,
  Sync W H fs tbs pvis wof r t -> (col0 = true -> fst (rpos r) = 0) -> okseq0 W H wof col0 ops ->
  Sync W H fs tbs pvis wof (fst (run_seq W fs tbs r t ops)) (snd (run_seq W fs tbs r t ops)).
Proof. exact (seq_sync_reset0 W H fs tbs pvis wof HW HH Hpv Hw32). Qed.

Theorem C06_equiv_reset_col0 : forall ops col0 cfg scr r0 t0 r0' t0',
  Sync W H fs tbs pvis wof r0 t0 -> (col0 = true -> fst (rpos r0) = 0) ->
  Sync W H fs tbs pvis wof r0' t0' -> rlast r0' = None ->
  okseq0 W H wof col0 ops -> wf_screen W wof H scr ->
  visible_eq W pvis (snd (run_seq W fs tbs r0 t0 (ops ++ [ORender cfg false W H scr])))
                    (snd (run_seq W fs tbs r0' t0' [ORender cfg false W H scr])).
Proof. exact (equiv_scratch_reset0 W H fs tbs pvis wof HW HH Hpv Hw32). Qed.

(* The terminal model's two debatable choices are never exercised.  [saferun W t ks]:
   interpreting ks from t, every erase (EL, ED) and every line feed (the only token
   that can scroll and fill a new last row) is executed with the pen reset (ESC[0m)
   - so background-colour-erase and erase-with-default-attributes give the same
   cells - and every text token is executed with autowrap OFF - so the cursor is
   never parked with a pending wrap and deferred vs immediate wrap cannot matter.
   It holds for every render from a state in Sync, for erase()/reset() when the pen
   is reset, hence for every token of every history started with the pen reset;
   and ANY terminal step function that agrees with the model on safe tokens
   computes the same terminal (C06_choice_independent): the verdicts of all
   theorems above do not depend on those two choices. *)
Theorem C06_render_tokens_safe : forall r t cfg done scr r' ks,
  Sync W H fs tbs pvis wof r t -> r_render tbs fs r cfg done W H scr = (r', ks) ->
  saferun W t ks /\ pen (trun W t ks) = 0.
Proof. exact (render_safe W H fs tbs pvis wof). Qed.

Theorem C06_erase_tokens_safe : forall r t r' ks,
  pen t = 0 -> r_erase r = (r', ks) -> saferun W t ks /\ pen (trun W t ks) = 0.
Proof. exact (erase_safe W). Qed.

Theorem C06_history_tokens_safe : forall ops col0 r t,
  Sync W H fs tbs pvis wof r t -> pen t = 0 -> (col0 = true -> fst (rpos r) = 0) ->
  okseq0 W H wof col0 ops -> safe_seq W fs tbs r t ops.
Proof. exact (seq_safe W H fs tbs pvis wof HW HH Hpv Hw32). Qed.

Theorem C06_choice_independent : forall (step' : term -> tok -> term),
  (forall t k, safe_tok t k -> step' t k = tstep W t k) ->
  forall ks t, saferun W t ks -> fold_left step' ks t = trun W t ks.
Proof. exact (choice_independent W). Qed.

(* Terminal-mode toggles.  The function the harness runs against the real Renderer
   is Model/C06_Modes.v [m_step]: the core renderer plus mouse support
   (_mouse_support_enabled, the filter evaluated at every render) and cursor shapes
   (_last_cursor_shape, Vt100_Output._cursor_shape_changed).  It keeps the core
   state of [r_step] and emits the same tokens up to raw mode sequences, which
   change nothing of grid / cursor / pen: every theorem above holds for the
   terminal it produces (also on the bounded terminal).  reset() - hence every
   final render and erase - switches off everything the renderer switched on
   (alternate screen, bracketed paste, mouse, cursor shape). *)
Theorem C06_modes_refine_core : forall m o,
  mcore (fst (m_step tbs fs m o)) = fst (r_step tbs fs (mcore m) (core_op o)) /\
  noraw (snd (m_step tbs fs m o)) = noraw (snd (r_step tbs fs (mcore m) (core_op o))).
Proof. exact (m_step_core tbs fs). Qed.

Theorem C06_modes_same_terminal : forall m o t,
  trun W t (snd (m_step tbs fs m o)) = trun W t (snd (r_step tbs fs (mcore m) (core_op o))).
Proof. intros. apply m_step_terminal. Qed.

Theorem C06_modes_same_terminal_bounded : forall m o B s,
  trunB B W s (snd (m_step tbs fs m o)) = trunB B W s (snd (r_step tbs fs (mcore m) (core_op o))).
Proof. intros. apply m_step_terminalB. Qed.

Theorem C06_reset_clears_modes : forall m s,
  ModeOK m s ->
  let s' := mode_run s (snd (m_reset m)) in
  md_alt s' = false /\ md_bp s' = false /\ md_mouse s' = false /\ md_shape s' = 0 /\
  ModeOK (fst (m_reset m)) s'.
Proof. exact m_reset_modes. Qed.

(* Non-vacuity: a fresh Renderer on any terminal whose cursor sits on the origin
   satisfies Sync. *)
Theorem C06_sync_initial : forall t, cx t = 0 -> cy t = 0 -> pend t = false -> undef t = false ->
  Sync W H fs tbs pvis wof (fst r_new) (trun W t (snd r_new)).
Proof. exact (sync_new W H fs tbs pvis wof HW). Qed.

End C06.

Print Assumptions C06_sync_step.
Print Assumptions C06_sync_history.
Print Assumptions C06_equiv.
Print Assumptions C06_render_shows.
Print Assumptions C06_done_epilogue.
Print Assumptions C06_rows_owned.
Print Assumptions C06_rows_render.
Print Assumptions C06_rows_done.
Print Assumptions C06_rows_erase.
Print Assumptions C06_no_scroll.
Print Assumptions C06_done_no_scroll.
Print Assumptions C06_done_scroll_once.
Print Assumptions C06_erase.
Print Assumptions C06_rows_above.
Print Assumptions C06_reset.
Print Assumptions C06_sync_history_reset.
Print Assumptions C06_equiv_reset.
Print Assumptions C06_reset_col0.
Print Assumptions C06_sync_history_reset_col0.
Print Assumptions C06_equiv_reset_col0.
Print Assumptions C06_render_tokens_safe.
Print Assumptions C06_erase_tokens_safe.
Print Assumptions C06_history_tokens_safe.
Print Assumptions C06_choice_independent.
Print Assumptions C06_modes_refine_core.
Print Assumptions C06_modes_same_terminal.
Print Assumptions C06_modes_same_terminal_bounded.
Print Assumptions C06_reset_clears_modes.
Print Assumptions C06_sync_initial.

(* last_style tracking, explicit at every fragment of the diff loop.
   [Inv W tb t pos ls]: the terminal cursor is where the loop's current_pos says
   (column min(x, W-1): the last-column quirk), no pending wrap, autowrap off, and
   PenOK: whenever last_style = Some s, the terminal's pen IS the pen of style s.
   It holds before and after every move_cursor, every drawn cell and every row;
   each drawn cell is written with exactly its own style's pen. *)
Theorem C06_last_style_move_cursor : forall (W : Z) (tb : tabs) t x y ls nx ny ls' ks,
  Inv W tb t (x, y) ls -> 0 <= nx <= W - 1 -> 0 <= ny ->
  move_cursor W (x, y) ls (nx, ny) = (ls', ks) ->
  Inv W tb (trun W t ks) (nx, ny) ls' /\ sbcp t (trun W t ks) /\ cx (trun W t ks) = nx /\
  (y < ny -> pen (trun W t ks) = 0 /\ ls' = None) /\
  (ny <= y -> pen (trun W t ks) = pen t /\ ls' = ls).
Proof. exact move_cursor_ok. Qed.
Print Assumptions C06_last_style_move_cursor.

Theorem C06_last_style_draw_cell : forall (W : Z) (tb : tabs) (wof : list Z -> Z),
  wof [32] = 1 -> forall t c y ls nc ls' ks,
  Inv W tb t (c, y) ls -> 0 <= c -> (wd nc = 1 \/ wd nc = 2) -> c + wd nc <= W -> ch nc <> [] ->
  wd nc = wof (ch nc) -> tk (tgrid t y c) <> 2 ->
  (if is_transp nc then (None, [TSGR 0; TText [32] 1]) else output_char tb ls nc) = (ls', ks) ->
  Inv W tb (trun W t ks) (c + wd nc, y) ls' /\ cvis (trun W t ks) = cvis t /\ undef (trun W t ks) = undef t /\
  DrawnAt t (trun W t ks) y c (wd nc) (ch nc) (cpen tb nc).
Proof. exact draw_cell_ok. Qed.
Print Assumptions C06_last_style_draw_cell.

Theorem C06_last_style_row : forall (W : Z) (tb : tabs) (pvis : Z -> Z) (wof : list Z -> Z),
  1 <= W -> (forall a, ahs tb a = false -> pvis (apen tb a) = pvis 0) -> wof [32] = 1 ->
  forall y scr prev pos ls t pos' ls' ks,
  0 <= y -> wscreen W wof scr -> wscreen W wof prev -> Inv W tb t pos ls ->
  (forall x, 0 <= x < W -> showsx tb pvis (tgrid t y x) (scell prev y) x) ->
  do_row tb W y scr prev pos ls = (pos', ls', ks) ->
  Inv W tb (trun W t ks) pos' ls' /\ cvis (trun W t ks) = cvis t /\ undef (trun W t ks) = undef t /\
  (forall y' x, y' <> y -> tgrid (trun W t ks) y' x = tgrid t y' x) /\
  (forall x, 0 <= x < W -> showsx tb pvis (tgrid (trun W t ks) y x) (scell scr y) x) /\
  okrun (Z.max (snd pos) y) y W t ks.
Proof. exact do_row_ok. Qed.
Print Assumptions C06_last_style_row.

(* get_max_column_index as it stood before fix aa7dc6e counted cells at negative
   column indices (a float with left < 0) and could send the trailing trim to a
   negative column, after which _cursor_pos was off by one (finding C06-F3,
   repaired).  The pinned function is refuted on that point, the current one is
   never negative, and no theorem above restricts column indices. *)
Theorem C06_gmax_pinned_refuted :
  exists tb r W, 1 <= W /\ Z.min (W - 1) (gmax_pinned tb r) + 1 < 0.
Proof. exact gmax_pinned_negative. Qed.
Print Assumptions C06_gmax_pinned_refuted.

Theorem C06_trim_column_nonnegative : forall tb r W, 1 <= W -> 0 <= Z.min (W - 1) (gmax tb r) + 1.
Proof. exact gmax_never_negative. Qed.
Print Assumptions C06_trim_column_nonnegative.

(* Non-vacuity of the hypotheses: a screen with text, a styled blank and an
   unstyled trailing blank is well formed. *)
Example C06_wf_holds_somewhere :
  wf_screen 4 wof_ex 2 (mks 2 true 1 1 [(0, [(0, mkc [97] 2 1); (1, mkc [32] 3 1); (2, mkc [32] 0 1)]); (1, [])] []).
Proof. exact wf_example. Qed.
Print Assumptions C06_wf_holds_somewhere.

(* ... also with wide cells: U+754C at columns 1-2 (its shadow cell in another style) *)
Example C06_wf_wide_cells :
  wf_screen 4 wof_ex 2 (mks 1 true 3 0 [(0, [(0, mkc [97] 2 1); (1, mkc [30028] 3 2); (2, mkc [] 0 0); (3, mkc [98] 2 1)])] []).
Proof. exact wf_example_wide. Qed.
Print Assumptions C06_wf_wide_cells.

(* ... and so is a screen taller than the terminal. *)
Example C06_wf_tall_screen :
  wf_screen 4 wof_ex 2 (mks 5 true 0 1 [(0, [(0, mkc [97] 2 1)]); (3, [(1, mkc [98] 0 1)])] []).
Proof. exact wf_example_tall. Qed.
Print Assumptions C06_wf_tall_screen.

(* ... and a row with cells at column indices >= the terminal width (a float
   overhanging the right edge): wf_screen puts no condition on columns. *)
Example C06_wf_cells_beyond_width :
  wf_screen 2 wof_ex 2 (mks 1 true 1 0 [(0, [(0, mkc [97] 0 1); (1, mkc [98] 0 1); (2, mkc [99] 2 1); (5, mkc [100] 3 1)])] []).
Proof. exact wf_example_overhang. Qed.
Print Assumptions C06_wf_cells_beyond_width.

(* ... and a row whose cells all sit at negative column indices (a float lying left
   of the screen). *)
Example C06_wf_cells_at_negative_columns :
  wf_screen 3 wof_ex 2 (mks 1 true 1 0 [(0, neg_row)] []).
Proof. exact wf_example_negative. Qed.
Print Assumptions C06_wf_cells_at_negative_columns.
