(* C11 - After every render the cursor is visible and sits on the character it
   addresses.  Statements only; proofs are in Proofs/C11_*.v.

   Vocabulary.  [lines] = the content lines of the UIContent (display text,
   each ending with the blank that BufferControl appends); (cyr, cxc) = the
   content cursor; [sw c] = get_cwidth of the source character, [dw c] =
   Char(c).width of its displayed form, [disp c] its displayed text; [pfx l k] =
   get_line_prefix(l, k); [st] = the scroll state left by the previous render
   (vertical_scroll, vertical_scroll_2, horizontal_scroll).
   cr2 = rowcol_to_yx, cscr = the screen cells written by _copy_body.
   scroll_wrap / render / run_C11 are the code as it is in /repo (with commit
   f4b07a8, slice_stop = cursor column + 1); the *_pinned variants are the pinned
   snapshot and appear only in C11_wrap_narrow_pinned_refuted. *)
From Coq Require Import ZArith List Bool.
From PTK Require Import Lib.Sx Lib.Py Model.C11_Scroll Model.C11_CopyBody
     Proofs.C11_ScrollFacts Proofs.C11_CopyFacts Proofs.C11_LiveFacts Proofs.C11_WrapFacts
     Proofs.C11_ColMapFacts Proofs.C11_SeqFacts Proofs.C11_RowsFacts Proofs.C11_VarPrefixFacts
     Proofs.C11_Main Proofs.C11_RenderFacts Proofs.C11_DocFacts Proofs.C11_VlFacts Proofs.C11_ScreenFacts Proofs.C11_WideFacts Proofs.C11_NoWrapWide Proofs.C11_PackFacts Proofs.C11_RenderWide Model.C11_Patched Proofs.C11_PatchedFacts Proofs.C11_RenderWrapWide.
Import ListNotations.
Open Scope Z_scope.

(* do_scroll (vertical and horizontal instance): the returned scroll keeps the
   cursor inside the window, for every previous scroll and every setting of
   allow_scroll_beyond_bottom. *)
Theorem C11_do_scroll_visible : forall allow cur so_s so_e pos w content,
  1 <= w -> 0 <= pos < content -> 0 <= so_s -> 0 <= so_e ->
  let r := do_scroll allow cur so_s so_e pos w content in
  0 <= r /\ r <= pos < r + w.
Proof. exact do_scroll_visible. Qed.
Print Assumptions C11_do_scroll_visible.

(* Safety half, for every scroll state with vertical_scroll >= 0 (all that any
   sequence of renders produces: C11_sequence) and both wrapping modes, width-1
   characters: whatever (row, col) has an entry in rowcol_to_yx after
   _copy_body - in particular the cursor - lies inside the window body and the
   screen cell there shows exactly that character of the content. *)
Theorem C11_registered_is_right :
  forall sw dw disp wrap haspfx pfx width height xpos ypos lines st,
  (forall c, dw c = 1) ->
  (forall l, wrap = false \/ haspfx = false \/ len (pfx l 0) <= width) ->
  0 <= vs st ->
  let out := copy_body sw dw disp wrap haspfx pfx width height xpos ypos lines st in
  forall key pos, alist_get (cr2 out) key = Some pos ->
    (ypos <= fst pos < ypos + height /\ xpos <= snd pos < xpos + width) /\
    exists c, char_at lines key c /\
              cstr (scr_get (cscr out) (fst pos) (snd pos)) = disp c.
Proof. exact registered_is_right. Qed.
Print Assumptions C11_registered_is_right.

(* No wrapping, width-1 characters, any prefixes (only the cursor line's prefix
   must leave one cell), any previous scroll state: after
   _scroll_without_linewrapping + _copy_body the cursor has a screen position, at
   (row - vertical_scroll, prefix + col - horizontal_scroll), inside the window,
   and the cell there shows the character under the cursor. *)
Theorem C11_nowrap :
  forall sw dw disp (haspfx : bool) pfx width height xpos ypos top bottom lft rgt lines cyr cxc st allow,
  (forall c, sw c = 1) -> (forall c, dw c = 1) ->
  1 <= height -> 0 <= top /\ 0 <= bottom /\ 0 <= lft /\ 0 <= rgt ->
  0 <= cyr < len lines -> 0 <= cxc < len (nth (Z.to_nat cyr) lines []) ->
  let pw := if haspfx then strw sw (pfx cyr 0) else 0 in
  1 <= width - pw ->
  let s' := scroll_nowrap allow sw (nth (Z.to_nat cyr) lines []) pw width height top bottom lft rgt
              cyr cxc (len lines) st in
  let o := copy_body sw dw disp false haspfx pfx width height xpos ypos lines s' in
  let y := cyr - vs s' in
  let x := pw + cxc - hs s' in
  0 <= y < height /\ pw <= x < width /\
  alist_get (cr2 o) (cyr, cxc) = Some (y + ypos, x + xpos) /\
  exists c, nth_error (nth (Z.to_nat cyr) lines []) (Z.to_nat cxc) = Some c /\
            cstr (scr_get (cscr o) (y + ypos) (x + xpos)) = disp c.
Proof. exact nowrap_narrow_cursor. Qed.
Print Assumptions C11_nowrap.

(* Wrapping, width-1 characters, constant-width prefixes p < width, any
   previous scroll state with vertical_scroll >= 0: after
   _scroll_when_linewrapping + _copy_body the cursor has a screen position, at
   the arithmetic position (rows of the lines above - vertical_scroll_2 +
   col / w', p + col mod w') with w' = width - p, inside the window, and the
   cell there shows the character under the cursor.  Full strength: no proviso
   (the one needed before commit f4b07a8 is gone). *)
Theorem C11_wrap_narrow :
  forall sw dw disp haspfx pfx width height xpos ypos p top bottom lines cyr cxc st allow,
  (forall c, sw c = 1) -> (forall c, dw c = 1) ->
  (haspfx = true -> forall l k, len (pfx l k) = p) -> (haspfx = false -> p = 0) ->
  0 <= p -> 1 <= width - p -> 1 <= height -> 0 <= top -> 0 <= bottom -> 0 <= vs st ->
  (forall ln, In ln lines -> 1 <= len ln) ->
  0 <= cyr < len lines -> 0 <= cxc < len (nth (Z.to_nat cyr) lines []) ->
  let Hfn l := height_for_line sw haspfx pfx (nth (Z.to_nat l) lines []) l width None in
  let tbhn s := height_for_line sw haspfx pfx (nth (Z.to_nat cyr) lines []) cyr width (Some s) in
  let s' := scroll_wrap allow Hfn tbhn width height top bottom cyr cxc (len lines) st in
  let o := copy_body sw dw disp true haspfx pfx width height xpos ypos lines s' in
  let y := sumH Hfn (vs s') (Z.to_nat cyr) - vs2 s' + cxc / (width - p) in
  let x := p + cxc mod (width - p) in
  0 <= y < height /\ 0 <= x < width /\
  alist_get (cr2 o) (cyr, cxc) = Some (y + ypos, x + xpos) /\
  exists c, nth_error (nth (Z.to_nat cyr) lines []) (Z.to_nat cxc) = Some c /\
            cstr (scr_get (cscr o) (y + ypos) (x + xpos)) = disp c.
Proof. exact wrap_narrow_cursor_full. Qed.
Print Assumptions C11_wrap_narrow.

(* The same with VARIABLE-width prefixes: any get_line_prefix (per line, per
   wrap count; e.g. prompt + continuation of different widths, or an empty
   first-row prefix with a non-empty continuation marker) whose every prefix
   leaves at least one cell.  [epw l k] = width of the prefix of row k of line
   l, [capsum l k] = cells of line l that fit on its rows 0..k-1; the cursor
   (column cxc) lies on row kc of its line iff capsum kc <= cxc < capsum (kc+1)
   (such a kc always exists: C11_cursor_row_exists).  The cursor is registered
   at (rows of the lines above - vertical_scroll_2 + kc, prefix + offset in the
   row), inside the window, on the cell showing its character. *)
Theorem C11_wrap_varprefix :
  forall sw dw disp haspfx pfx width height xpos ypos top bottom lines cyr cxc st allow kc,
  (forall c, sw c = 1) -> (forall c, dw c = 1) ->
  (forall l k, epw haspfx pfx l k + 1 <= width) ->
  1 <= height -> 0 <= top -> 0 <= bottom -> 0 <= vs st ->
  (forall ln, In ln lines -> 1 <= len ln) ->
  0 <= cyr < len lines -> 0 <= cxc < len (nth (Z.to_nat cyr) lines []) ->
  capsum haspfx pfx width cyr kc <= cxc < capsum haspfx pfx width cyr (S kc) ->
  let Hfn l := height_for_line sw haspfx pfx (nth (Z.to_nat l) lines []) l width None in
  let tbhn s := height_for_line sw haspfx pfx (nth (Z.to_nat cyr) lines []) cyr width (Some s) in
  let s' := scroll_wrap allow Hfn tbhn width height top bottom cyr cxc (len lines) st in
  let o := copy_body sw dw disp true haspfx pfx width height xpos ypos lines s' in
  let y := sumH Hfn (vs s') (Z.to_nat cyr) - vs2 s' + Z.of_nat kc in
  let x := epw haspfx pfx cyr (Z.of_nat kc) + (cxc - capsum haspfx pfx width cyr kc) in
  0 <= y < height /\ 0 <= x < width /\
  alist_get (cr2 o) (cyr, cxc) = Some (y + ypos, x + xpos) /\
  exists c, nth_error (nth (Z.to_nat cyr) lines []) (Z.to_nat cxc) = Some c /\
            cstr (scr_get (cscr o) (y + ypos) (x + xpos)) = disp c.
Proof. exact wrap_varprefix_cursor. Qed.
Print Assumptions C11_wrap_varprefix.

Theorem C11_cursor_row_exists : forall haspfx pfx width,
  (forall l k, epw haspfx pfx l k + 1 <= width) ->
  forall l v, 0 <= v -> exists k, capsum haspfx pfx width l k <= v < capsum haspfx pfx width l (S k).
Proof. exact row_exists. Qed.
Print Assumptions C11_cursor_row_exists.

(* get_height_for_line is exact for width-1 characters and ANY such prefixes:
   it returns the r with capsum (r-1) < n <= capsum r, the rows copy_line uses. *)
Theorem C11_height_exact_varprefix : forall sw haspfx pfx width,
  (forall c, sw c = 1) -> (forall l k, epw haspfx pfx l k + 1 <= width) ->
  forall line l stop,
  let n := len (match stop with None => line | Some s => slice_to line s end) in
  1 <= n -> rows_rel haspfx pfx width l n (height_for_line sw haspfx pfx line l width stop).
Proof. exact height_for_line_var. Qed.
Print Assumptions C11_height_exact_varprefix.

(* The rows shown are consecutive document lines in order: in
   visible_line_to_row_col two successive screen rows show the same document
   line or the next one - for ALL character widths, prefixes, both modes and
   every scroll state. *)
Theorem C11_rows_consecutive :
  forall sw dw disp wrap haspfx pfx width height xpos ypos lines st,
  let out := copy_body sw dw disp wrap haspfx pfx width height xpos ypos lines st in
  forall y l c l' c',
    zlist_get (cvl out) y = Some (l, c) -> zlist_get (cvl out) (y + 1) = Some (l', c') ->
    l' = l \/ l' = l + 1.
Proof. exact rows_consecutive. Qed.
Print Assumptions C11_rows_consecutive.

(* ... and the registered rows start at -vertical_scroll_2, which shows
   (vertical_scroll, horizontal_scroll), and form a contiguous interval (every
   registered row above the first has a registered predecessor) - again for all
   character widths, prefixes, both modes, every scroll state (provided a line
   exists at vertical_scroll and the first row is above the window bottom).
   The column recorded for a wrapped row and the agreement between
   rowcol_to_yx and visible_line_to_row_col: C11_rows_columns_increase,
   C11_registered_row_line below. *)
Theorem C11_rows_interval :
  forall sw dw disp wrap haspfx pfx width height xpos ypos lines st,
  skipn (Z.to_nat (vs st)) lines <> [] -> - vs2 st < height ->
  let out := copy_body sw dw disp wrap haspfx pfx width height xpos ypos lines st in
  zlist_get (cvl out) (- vs2 st) = Some (vs st, hs st) /\
  (forall y e, zlist_get (cvl out) y = Some e ->
     - vs2 st <= y /\ (- vs2 st < y -> exists e', zlist_get (cvl out) (y - 1) = Some e')).
Proof. exact rows_interval. Qed.
Print Assumptions C11_rows_interval.

(* (round 6) Every character registered in rowcol_to_yx on a screen row belongs
   to the document line that visible_line_to_row_col records for that row -
   ALL character widths, prefixes, both modes, every scroll state, no
   hypothesis. *)
Theorem C11_registered_row_line :
  forall sw dw disp wrap haspfx pfx width height xpos ypos lines st,
  let out := copy_body sw dw disp wrap haspfx pfx width height xpos ypos lines st in
  forall l c y x, alist_get (cr2 out) (l, c) = Some (y, x) ->
    exists c0, zlist_get (cvl out) (y - ypos) = Some (l, c0).
Proof. exact registered_row_line. Qed.
Print Assumptions C11_registered_row_line.

(* (round 6) Successive rows show the next document line, or the SAME line
   further right: the column recorded for a wrapped row is strictly larger than
   the one recorded for the row above.  All widths (wide, zero-width, control),
   prefixes, modes, scroll states - provided every character fits the body
   (dw c <= width, "the window can hold the widest character").  The hypothesis
   is needed: C11_rows_columns_wide_in_narrow_window (a 2-cell character in a
   1-cell body wraps an empty row; the same column is recorded twice). *)
Theorem C11_rows_columns_increase :
  forall sw dw disp wrap haspfx pfx width height xpos ypos lines st,
  (forall c, dw c <= width) ->
  let out := copy_body sw dw disp wrap haspfx pfx width height xpos ypos lines st in
  forall y l c l' c',
    zlist_get (cvl out) y = Some (l, c) -> zlist_get (cvl out) (y + 1) = Some (l', c') ->
    (l' = l /\ c < c') \/ l' = l + 1.
Proof. exact rows_columns_increase. Qed.
Print Assumptions C11_rows_columns_increase.

Example C11_rows_columns_wide_in_narrow_window :
  let out := copy_body (fun _ => 2) (fun _ => 2) (fun c => [c]) true false (fun _ _ => []) 1 3 0 0
               [[30028; 32]] (mkss 0 0 0) in
  zlist_get (cvl out) 0 = Some (0, 0) /\ zlist_get (cvl out) 1 = Some (0, 0).
Proof. exact rows_columns_wide_in_narrow_window. Qed.
Print Assumptions C11_rows_columns_wide_in_narrow_window.

(* (round 6) The WHOLE rendered screen, stated on what [render] returns (r_look
   = rowcol_to_yx read out for every cell of every content line, r_grid = the
   body cells, r_vlook = visible_line_to_row_col), width-1 characters, any
   configuration (margins, prefixes, processors, both modes), any previous
   scroll state with vertical_scroll >= 0, any text and cursor for which the
   render succeeds: EVERY registered (line l, display column c) lies inside the
   window body, the r_grid cell there shows exactly character c of content line
   l, and that screen row is recorded for line l in visible_line_to_row_col. *)
Theorem C11_render_screen : forall g W Hh xpos ypos text cursor st r,
  (forall c, tab_sw g c = 1 /\ tab_dw g c = 1) -> 0 <= vs st ->
  render g W Hh xpos ypos text cursor st = Some r ->
  (forall l, g_wrap g = false \/ g_haspfx g = false \/ len (cfg_pfx g l 0) <= r_bw r) ->
  forall l c rowl Y X,
    nth_error (r_look r) l = Some rowl -> nth_error rowl c = Some (Some (Y, X)) ->
    ypos <= Y < ypos + Hh /\ xpos + r_mw r <= X < xpos + r_mw r + r_bw r /\
    exists line ch rowg c0,
      nth_error (r_lines g text) l = Some line /\ nth_error line c = Some ch /\
      nth_error (r_grid r) (Z.to_nat (Y - ypos)) = Some rowg /\
      nth_error rowg (Z.to_nat (X - xpos - r_mw r)) = Some (tab_disp g ch) /\
      nth_error (r_vlook r) (Z.to_nat (Y - ypos)) = Some (Some (Z.of_nat l, c0)).
Proof. exact render_screen. Qed.
Print Assumptions C11_render_screen.

(* ... in terms of the DOCUMENT: for every source position (line l, column i)
   of the text whose image column under BeforeInput/TabsProcessor has a screen
   position, the body cell there shows the document character (the first tab
   cell for a TAB under TabsProcessor). *)
Theorem C11_render_screen_doc : forall g W Hh xpos ypos text cursor st r,
  (forall c, tab_sw g c = 1 /\ tab_dw g c = 1) -> 0 <= g_tabstop g -> 0 <= vs st ->
  render g W Hh xpos ypos text cursor st = Some r ->
  (forall l, g_wrap g = false \/ g_haspfx g = false \/ len (cfg_pfx g l 0) <= r_bw r) ->
  forall l i srcline ch ucol rowl Y X,
    nth_error (split_on NL text) l = Some srcline -> nth_error srcline i = Some ch ->
    pl_s2d (process_line (g_bflag g) (g_before g) (g_tabstop g) TABCH1 TABCH2 (Z.of_nat l) srcline) (Z.of_nat i)
      = Some ucol ->
    nth_error (r_look r) l = Some rowl -> nth_error rowl (Z.to_nat ucol) = Some (Some (Y, X)) ->
    ypos <= Y < ypos + Hh /\ xpos + r_mw r <= X < xpos + r_mw r + r_bw r /\
    exists rowg,
      nth_error (r_grid r) (Z.to_nat (Y - ypos)) = Some rowg /\
      nth_error rowg (Z.to_nat (X - xpos - r_mw r)) = Some (tab_disp g (shown (g_tabstop g) TABCH1 ch)).
Proof. exact render_screen_doc. Qed.
Print Assumptions C11_render_screen_doc.

(* (round 6) Whole HISTORIES through one window.  Every state of the history
   brings its own configuration (wrap mode, margins, scroll offsets, line
   prefixes, processors, allow_scroll_beyond_bottom may ALL change between
   renders), window size and position, text and cursor; the scroll state a
   render leaves (vertical_scroll, vertical_scroll_2, horizontal_scroll) is the
   previous state of the next render.  If every state is inside the property's
   quantifier (state_in_scope: width-1 characters - or, for a state without
   wrapping, wide characters with source width = display width >= 1 -, offsets >= 0, cursor inside
   the text, window holds one character plus margins and prefix), then EVERY
   render of the history succeeds and satisfies the conclusion of
   C11_render_wrap / C11_render_nowrap (cursor registered inside the body on the
   cell showing the document character under the cursor; column maps
   consistent), starting from any scroll state with vertical_scroll >= 0. *)
Theorem C11_history : forall h st, Forall state_in_scope h -> 0 <= vs st -> hist_ok h st.
Proof. exact history_ok. Qed.
Print Assumptions C11_history.

(* the scroll state a render leaves keeps vertical_scroll >= 0 (what C11_history
   threads through the sequence) *)
Theorem C11_render_keeps_invariant : forall g W Hh xpos ypos text cursor st r,
  render g W Hh xpos ypos text cursor st = Some r -> 0 <= vs st -> 0 <= vs (r_st r).
Proof. exact render_vs_ge0. Qed.
Print Assumptions C11_render_keeps_invariant.

(* non-vacuity of C11_history: wrap -> no wrap -> wrap with margin, prefixes,
   TabsProcessor, offsets -> wrap in a 2x2 window *)
Example C11_history_example :
  let g1 := g_plain true [] in
  let g2 := g_plain false [] in
  let g3 := mkcfg true true false false 1 1 0 0 true [62; 32] [46; 32] false 4 false [] [] in
  let t := [97; 98; 99; 100; 101; 102; 103; 10; 104; 9; 105] in
  hist_ok [(g1, (3, 1, 0, 0), (t, 7)); (g2, (3, 1, 0, 0), (t, 6)); (g3, (8, 2, 1, 1), (t, 10)); (g1, (2, 2, 0, 0), (t, 11))]
          (mkss 0 0 0).
Proof. exact history_example. Qed.
Print Assumptions C11_history_example.

(* (round 6) The WIDE-character sub-domain, part 1: safety.  Every displayed
   character occupies at least one cell (dw c >= 1: double-width CJK characters,
   also 2-4 cell caret/hex forms of control characters; any SOURCE widths), any
   prefixes (measured in cells), both modes, every scroll state with
   vertical_scroll >= 0: whatever (row, col) is registered in rowcol_to_yx lies
   inside the window body and its cell shows exactly that character.  So in this
   sub-domain the only way the property can fail is that the cursor is NOT
   registered (not visible: C11_wrap_wide_refuted / C11_wrap_control_refuted);
   a wrong cell or a position outside the window is impossible.  Generalises
   C11_registered_is_right (dw = 1).  With zero-width characters the statement
   is false as stated (the merge loop appends the mark to the cell before the
   write head): C11_registered_zero_width_merges. *)
Theorem C11_registered_is_right_wide :
  forall sw dw disp wrap haspfx pfx width height xpos ypos lines st,
  (forall c, 1 <= dw c) ->
  (forall l, wrap = false \/ haspfx = false \/ strw dw (pfx l 0) <= width) ->
  0 <= vs st ->
  let out := copy_body sw dw disp wrap haspfx pfx width height xpos ypos lines st in
  forall key pos, alist_get (cr2 out) key = Some pos ->
    (ypos <= fst pos < ypos + height /\ xpos <= snd pos < xpos + width) /\
    exists c, char_at lines key c /\
              cstr (scr_get (cscr out) (fst pos) (snd pos)) = disp c.
Proof. exact registered_is_right_wide. Qed.
Print Assumptions C11_registered_is_right_wide.

Example C11_registered_zero_width_merges :
  let out := copy_body (fun c => if c =? 769 then 0 else 1) (fun c => if c =? 769 then 0 else 1) (fun c => [c])
               true false (fun _ _ => []) 3 1 0 0 [[97; 769; 32]] (mkss 0 0 0) in
  alist_get (cr2 out) (0, 0) = Some (0, 0) /\ cstr (scr_get (cscr out) 0 0) = [97; 769].
Proof. exact registered_zero_width_merges. Qed.
Print Assumptions C11_registered_zero_width_merges.

(* (round 6) The WIDE-character sub-domain, part 2: liveness WITHOUT wrapping.
   Source width = display width >= 1 for every character (double-width
   characters; horizontal scroll may land in the middle of a 2-cell character,
   which is then skipped as a whole and the rest shifted by one cell), any
   prefixes (the cursor line's prefix leaves one cell), any previous scroll
   state: the cursor is registered at (row - vertical_scroll, prefix cells +
   cells before the cursor - horizontal_scroll), inside the window, and the cell
   there shows the character under the cursor.  So without wrapping the wide
   sub-domain is PROVED; with wrapping it is refuted (C11_wrap_wide_refuted,
   finding C11-F14: the height estimate ignores the slack at row ends). *)
Theorem C11_nowrap_wide :
  forall sw dw disp (haspfx : bool) pfx width height xpos ypos top bottom lft rgt lines cyr cxc st allow,
  (forall c, sw c = dw c) -> (forall c, 1 <= dw c) ->
  1 <= height -> 0 <= top /\ 0 <= bottom /\ 0 <= lft /\ 0 <= rgt ->
  0 <= cyr < len lines -> 0 <= cxc < len (nth (Z.to_nat cyr) lines []) ->
  let line := nth (Z.to_nat cyr) lines [] in
  let pw := if haspfx then strw sw (pfx cyr 0) else 0 in
  1 <= width - pw ->
  let s' := scroll_nowrap allow sw line pw width height top bottom lft rgt cyr cxc (len lines) st in
  let o := copy_body sw dw disp false haspfx pfx width height xpos ypos lines s' in
  let y := cyr - vs s' in
  let x := pw + strw sw (slice_to line cxc) - hs s' in
  0 <= y < height /\ pw <= x < width /\
  alist_get (cr2 o) (cyr, cxc) = Some (y + ypos, x + xpos) /\
  exists c, nth_error line (Z.to_nat cxc) = Some c /\
            cstr (scr_get (cscr o) (y + ypos) (x + xpos)) = disp c.
Proof. exact nowrap_wide_cursor. Qed.
Print Assumptions C11_nowrap_wide.

Example C11_nowrap_wide_example :
  let sw := fun c => if c =? 30028 then 2 else 1 in
  let line := [30028; 30028; 30028; 97; 98; 32] in
  let s' := scroll_nowrap false sw line 0 5 1 0 0 0 0 0 4 1 (mkss 0 0 0) in
  let o := copy_body sw sw (fun c => [c]) false false (fun _ _ => []) 5 1 0 0 [line] s' in
  hs s' = 3 /\ alist_get (cr2 o) (0, 4) = Some (0, 4) /\ cstr (scr_get (cscr o) 0 4) = [98] /\
  alist_get (cr2 o) (0, 1) = None /\ alist_get (cr2 o) (0, 2) = Some (0, 1).
Proof. exact nowrap_wide_example. Qed.
Print Assumptions C11_nowrap_wide_example.

(* (round 6) ... and on the render step ITSELF: for the wide sub-domain without
   wrapping (source width = display width >= 1 for every character of the width
   table) [render] satisfies the same conclusion as C11_render_nowrap: succeeds,
   cursor registered inside the body (render_cursor_ok = true), the r_grid cell
   there shows the DOCUMENT character under the cursor, column maps consistent;
   any text, 0 <= cursor <= len text, any previous scroll state. *)
Theorem C11_render_nowrap_wide : forall g W Hh xpos ypos text cursor st,
  (forall c, tab_sw g c = tab_dw g c /\ 1 <= tab_dw g c) -> 0 <= g_tabstop g ->
  0 <= g_top g /\ 0 <= g_bottom g /\ 0 <= g_left g /\ 0 <= g_right g ->
  1 <= Hh -> 0 <= cursor <= len text ->
  g_wrap g = false ->
  1 <= r_bwid g W text - (if g_haspfx g then strw (tab_sw g) (cfg_pfx g (r_row text cursor) 0) else 0) ->
  render_conclusion g W Hh xpos ypos text cursor st.
Proof. exact render_nowrap_wide_cursor_doc. Qed.
Print Assumptions C11_render_nowrap_wide.

(* (round 6) The WIDE-character sub-domain, part 3: WITH wrapping - "visible if
   the estimate is exact", and the estimate is what decides.
   [pack_line] is the display-width-aware layout of a line (greedy packing of the
   DISPLAYED cell widths with the row's prefix - what _copy_body does, proved:
   Proofs/C11_PackFacts.v pci_reg / pcls_reg), [prows] the number of rows it
   uses.  For every displayed width >= 1 (any source widths >= 0: wide AND
   caret/hex control forms, no zero-width marks), prefixes that leave room for
   the widest character, any previous scroll state with vertical_scroll >= 0:
   IF get_height_for_line's estimate equals [prows] for every line, and for the
   slice up to and including the cursor cell equals the cursor's packed row + 1,
   THEN the cursor is registered at (rows above - vertical_scroll_2 + its
   packed row, its packed column), inside the window, on the cell showing its
   character.  The refuted inputs (C11_wrap_wide_refuted / F14,
   C11_wrap_control_refuted / F13) are inputs where the estimate is NOT exact:
   C11_wrap_wide_witness_not_exact.  What is NOT proved: the converse (an
   inexact estimate need not hide the cursor), and zero-width characters
   (C11-F2 is a defect of copy_line itself, not of the estimate). *)
Theorem C11_wrap_visible_if_exact :
  forall sw dw disp haspfx pfx width height xpos ypos top bottom lines cyr cxc st allow,
  (forall c, 0 <= sw c) -> (forall c, 1 <= dw c) ->
  (forall l k c, pfxw dw haspfx pfx l k + dw c <= width) ->
  1 <= height -> 0 <= top -> 0 <= bottom -> 0 <= vs st ->
  0 <= cyr < len lines -> 0 <= cxc < len (xline_of lines cyr) ->
  forall kc xc,
  nth_error (pack_line dw haspfx pfx width cyr (xline_of lines cyr)) (Z.to_nat cxc) = Some (kc, xc) ->
  (forall l, 0 <= l < len lines ->
     height_for_line sw haspfx pfx (xline_of lines l) l width None = prows dw haspfx pfx width l (xline_of lines l)) ->
  height_for_line sw haspfx pfx (xline_of lines cyr) cyr width (Some (cxc + 1)) = kc + 1 ->
  let Hfn l := height_for_line sw haspfx pfx (xline_of lines l) l width None in
  let tbhn s := height_for_line sw haspfx pfx (xline_of lines cyr) cyr width (Some s) in
  let s' := scroll_wrap allow Hfn tbhn width height top bottom cyr cxc (len lines) st in
  let o := copy_body sw dw disp true haspfx pfx width height xpos ypos lines s' in
  let y := sumH Hfn (vs s') (Z.to_nat cyr) - vs2 s' + kc in
  0 <= y < height /\ 0 <= xc < width /\
  alist_get (cr2 o) (cyr, cxc) = Some (y + ypos, xc + xpos) /\
  exists c, nth_error (xline_of lines cyr) (Z.to_nat cxc) = Some c /\
            cstr (scr_get (cscr o) (y + ypos) (xc + xpos)) = disp c.
Proof. exact wrap_visible_if_exact. Qed.
Print Assumptions C11_wrap_visible_if_exact.

(* copy_line draws a wrapped line exactly as the display-width-aware layout says
   (the fact behind the theorem above, every displayed width >= 1): character i
   of line (lineno + j), which [pack_line] puts on row k / column x of its line,
   is registered on screen row cy + (packed rows of the lines before it) + k. *)
Theorem C11_copy_is_pack :
  forall sw dw disp haspfx pfx width height xpos ypos,
  (forall c, 1 <= dw c) -> (forall l k c, pfxw dw haspfx pfx l k + dw c <= width) ->
  forall (R : Z -> Z), (forall l, 0 <= R l) ->
  forall rest lineno s j line i c k x,
  0 <= lineno ->
  (forall m ln, nth_error rest m = Some ln ->
     R (lineno + Z.of_nat m) = prows dw haspfx pfx width (lineno + Z.of_nat m) ln) ->
  nth_error rest j = Some line -> nth_error line i = Some c ->
  nth_error (pack_line dw haspfx pfx width (lineno + Z.of_nat j) line) i = Some (k, x) ->
  0 <= cy s + sumH R lineno (Z.to_nat (lineno + Z.of_nat j)) + k < height ->
  alist_get (cr2 (copy_lines sw dw disp true haspfx pfx width height xpos ypos 0 rest lineno s))
            (lineno + Z.of_nat j, Z.of_nat i)
  = Some (cy s + sumH R lineno (Z.to_nat (lineno + Z.of_nat j)) + k + ypos, x + xpos).
Proof. exact pcls_reg. Qed.
Print Assumptions C11_copy_is_pack.

Example C11_wrap_exact_example :
  let lines := [[30028; 30028; 97; 32]] in
  let o := xout ex_sw ex_sw (fun c => [c]) false (fun _ _ => []) 4 2 0 0 0 0 lines 0 2 (mkss 0 0 0) false in
  alist_get (cr2 o) (0, 2) = Some (1, 0) /\ cstr (scr_get (cscr o) 1 0) = [97].
Proof. exact wrap_exact_example. Qed.
Print Assumptions C11_wrap_exact_example.

Example C11_wrap_wide_witness_not_exact :
  let lines := [[97; 98; 32]; [99; 100; 32]; [30028; 30028; 30028; 30028; 122; 32]] in
  height_for_line ex_sw false (fun _ _ => []) (xline_of lines 2) 2 5 None = 2 /\
  prows ex_sw false (fun _ _ => []) 5 2 (xline_of lines 2) = 3.
Proof. exact wrap_wide_witness_not_exact. Qed.
Print Assumptions C11_wrap_wide_witness_not_exact.

(* (round 7) The display-width-aware estimate of
   fixes/C11-display-width-height-estimate.patch, modelled statement by statement
   (Model/C11_Patched.v height_for_line_patched; NOT applied to /repo): it IS
   [prows] for a whole line and the cursor's packed row + 1 for the slice up to
   and including the cursor cell - every displayed width >= 1, any prefixes that
   leave room for the widest character. *)
Theorem C11_patched_estimate_is_prows : forall dw haspfx pfx width,
  (forall c, 1 <= dw c) -> (forall l k c, pfxw dw haspfx pfx l k + dw c <= width) ->
  forall line l,
  height_for_line_patched dw haspfx pfx line l width None = prows dw haspfx pfx width l line.
Proof. exact patched_is_prows. Qed.
Print Assumptions C11_patched_estimate_is_prows.

Theorem C11_patched_estimate_slice : forall dw haspfx pfx width,
  (forall c, 1 <= dw c) -> (forall l k c, pfxw dw haspfx pfx l k + dw c <= width) ->
  forall line l cxc kc xc, 0 <= cxc < len line ->
  nth_error (pack_line dw haspfx pfx width l line) (Z.to_nat cxc) = Some (kc, xc) ->
  height_for_line_patched dw haspfx pfx line l width (Some (cxc + 1)) = kc + 1.
Proof. exact patched_slice. Qed.
Print Assumptions C11_patched_estimate_slice.

(* (round 7) ... hence WITH the patched estimate the wrapped cursor is visible,
   inside the window, on its character, for every displayed width >= 1 (wide
   characters and the 2-4 cell forms of control characters), any such prefixes,
   any previous scroll state with vertical_scroll >= 0 - NO exactness hypothesis:
   the patch is a proved repair of C11-F13 / C11-F14 at model level (the
   horizontal part F13b is the no-wrap scroller; zero-width marks, F2, stay
   outside).  C11_patched_on_f14_witness: the F14 input, estimate 3, cursor drawn. *)
Theorem C11_wrap_visible_patched :
  forall sw dw disp haspfx pfx width height xpos ypos top bottom lines cyr cxc st allow,
  (forall c, 1 <= dw c) -> (forall l k c, pfxw dw haspfx pfx l k + dw c <= width) ->
  1 <= height -> 0 <= top -> 0 <= bottom -> 0 <= vs st ->
  0 <= cyr < len lines -> 0 <= cxc < len (xline_of lines cyr) ->
  forall kc xc,
  nth_error (pack_line dw haspfx pfx width cyr (xline_of lines cyr)) (Z.to_nat cxc) = Some (kc, xc) ->
  let Hfp l := height_for_line_patched dw haspfx pfx (xline_of lines l) l width None in
  let tbhp s := height_for_line_patched dw haspfx pfx (xline_of lines cyr) cyr width (Some s) in
  let s' := scroll_wrap allow Hfp tbhp width height top bottom cyr cxc (len lines) st in
  let o := copy_body sw dw disp true haspfx pfx width height xpos ypos lines s' in
  let y := sumH Hfp (vs s') (Z.to_nat cyr) - vs2 s' + kc in
  0 <= y < height /\ 0 <= xc < width /\
  alist_get (cr2 o) (cyr, cxc) = Some (y + ypos, xc + xpos) /\
  exists c, nth_error (xline_of lines cyr) (Z.to_nat cxc) = Some c /\
            cstr (scr_get (cscr o) (y + ypos) (xc + xpos)) = disp c.
Proof. exact wrap_visible_patched. Qed.
Print Assumptions C11_wrap_visible_patched.

Example C11_patched_on_f14_witness :
  let lines := [[97; 98; 32]; [99; 100; 32]; [30028; 30028; 30028; 30028; 122; 32]] in
  let Hfp l := height_for_line_patched ex_sw false (fun _ _ => []) (xline_of lines l) l 5 None in
  let tbhp s := height_for_line_patched ex_sw false (fun _ _ => []) (xline_of lines 2) 2 5 (Some s) in
  let s' := scroll_wrap false Hfp tbhp 5 2 0 0 2 5 3 (mkss 0 0 0) in
  let o := copy_body ex_sw ex_sw (fun c => [c]) true false (fun _ _ => []) 5 2 0 0 lines s' in
  Hfp 2 = 3 /\ vs2 s' = 1 /\ alist_get (cr2 o) (2, 5) = Some (1, 0).
Proof. exact patched_on_f14_witness. Qed.
Print Assumptions C11_patched_on_f14_witness.

(* (round 7) When can an inexact estimate hide the cursor?  The code AS IT IS,
   every displayed width >= 1: the cursor is visible unless some content line is
   UNDER-estimated by get_height_for_line, or the cursor line is (by the
   estimate) taller than the window and the slice estimate differs from the
   cursor's packed row + 1.  Over-estimated lines are harmless.  (Both known
   failure families are under-estimates: source width 0 of control characters,
   F13; row-end slack of wide characters, F14.)  Subsumes
   C11_wrap_visible_if_exact.  The converse (every under-estimate hides the
   cursor for SOME cursor/scroll state) is not proved. *)
Theorem C11_wrap_visible_if_not_under :
  forall sw dw disp haspfx pfx width height xpos ypos top bottom lines cyr cxc st allow,
  (forall c, 0 <= sw c) -> (forall c, 1 <= dw c) -> (forall l k c, pfxw dw haspfx pfx l k + dw c <= width) ->
  1 <= height -> 0 <= top -> 0 <= bottom -> 0 <= vs st ->
  0 <= cyr < len lines -> 0 <= cxc < len (xline_of lines cyr) ->
  forall kc xc,
  nth_error (pack_line dw haspfx pfx width cyr (xline_of lines cyr)) (Z.to_nat cxc) = Some (kc, xc) ->
  let Hfn l := height_for_line sw haspfx pfx (xline_of lines l) l width None in
  let tbhn s := height_for_line sw haspfx pfx (xline_of lines cyr) cyr width (Some s) in
  (forall l, 0 <= l < len lines -> prows dw haspfx pfx width l (xline_of lines l) <= Hfn l) ->
  (height - top < Hfn cyr -> tbhn (cxc + 1) = kc + 1) ->
  let s' := scroll_wrap allow Hfn tbhn width height top bottom cyr cxc (len lines) st in
  let o := copy_body sw dw disp true haspfx pfx width height xpos ypos lines s' in
  let y := sumH (Rp dw haspfx pfx width lines) (vs s') (Z.to_nat cyr) - vs2 s' + kc in
  0 <= y < height /\ 0 <= xc < width /\
  alist_get (cr2 o) (cyr, cxc) = Some (y + ypos, xc + xpos) /\
  exists c, nth_error (xline_of lines cyr) (Z.to_nat cxc) = Some c /\
            cstr (scr_get (cscr o) (y + ypos) (xc + xpos)) = disp c.
Proof. exact wrap_visible_if_not_under. Qed.
Print Assumptions C11_wrap_visible_if_not_under.

(* (round 7) ... lifted to what [render] returns (like C11_render_screen): under
   the same hypotheses, read off the render's own content lines / cursor / body
   width, the verdict is rendered_cursor_ok = true, r_cursor is the registered
   position inside the body, and the r_grid cell there shows the content
   character at the content cursor. *)
Theorem C11_render_wrap_wide : forall g W Hh xpos ypos text cursor st r kc xc,
  render g W Hh xpos ypos text cursor st = Some r -> g_wrap g = true ->
  (forall c, 0 <= tab_sw g c) -> (forall c, 1 <= tab_dw g c) ->
  (forall l k c, pfxw (tab_dw g) (g_haspfx g) (cfg_pfx g) l k + tab_dw g c <= r_bw r) ->
  0 <= g_top g -> 0 <= g_bottom g -> 0 <= vs st ->
  let lines := r_lines g text in
  let row := fst (r_ui r) in let ucol := snd (r_ui r) in
  0 <= ucol < len (xline_of lines row) ->
  nth_error (pack_line (tab_dw g) (g_haspfx g) (cfg_pfx g) (r_bw r) row (xline_of lines row)) (Z.to_nat ucol) = Some (kc, xc) ->
  let Hfn l := height_for_line (tab_sw g) (g_haspfx g) (cfg_pfx g) (xline_of lines l) l (r_bw r) None in
  let tbhn s := height_for_line (tab_sw g) (g_haspfx g) (cfg_pfx g) (xline_of lines row) row (r_bw r) (Some s) in
  (forall l, 0 <= l < len lines -> prows (tab_dw g) (g_haspfx g) (cfg_pfx g) (r_bw r) l (xline_of lines l) <= Hfn l) ->
  (Hh - g_top g < Hfn row -> tbhn (ucol + 1) = kc + 1) ->
  rendered_cursor_ok W Hh xpos ypos r = true /\
  exists Y X rowg c,
    r_cursor r = (Y, X) /\ ypos <= Y < ypos + Hh /\ xpos + r_mw r <= X < xpos + r_mw r + r_bw r /\
    nth_error (xline_of lines row) (Z.to_nat ucol) = Some c /\
    nth_error (r_grid r) (Z.to_nat (Y - ypos)) = Some rowg /\
    nth_error rowg (Z.to_nat (X - xpos - r_mw r)) = Some (tab_disp g c).
Proof. exact render_wrap_wide. Qed.
Print Assumptions C11_render_wrap_wide.

(* The render step ITSELF (Document row/col -> BeforeInput/TabsProcessor ->
   trailing blank -> NumberedMargin / ScrollbarMargin widths -> scroll ->
   _copy_body), for every configuration of the model (any margins, any prefix
   shape incl. variable widths, any tabstop, BeforeInput, scroll offsets >= 0,
   allow_scroll_beyond_bottom either way), width-1 characters, any previous
   scroll state with vertical_scroll >= 0, ANY text and cursor with
   0 <= cursor <= len text:
   - render succeeds, the cursor row addresses a line of the document, the
     content cursor column is the processors' image of the document column and
     maps back to it;
   - the cursor IS registered in rowcol_to_yx at a position inside the window
     body: [render_cursor_ok ... = true], the same verdict the _refuted theorems
     below show to be false for wide/control characters (so r_cursor is not the
     (0,0) fallback);
   - the body cell at the screen cursor (r_grid) shows the DOCUMENT character
     under the cursor: [shown_char] = text[cursor], the first tab cell '|' when
     TabsProcessor expands a tab, the blank when the cursor is at a line end or
     at the end of the text.
   (Document facts from C02: Proofs/C11_DocFacts.v; the processed line shows the
   source character at the image column: process_line_char.) *)
Theorem C11_render_wrap :
  forall g W Hh xpos ypos text cursor st,
  (forall c, tab_sw g c = 1 /\ tab_dw g c = 1) -> 0 <= g_tabstop g ->
  0 <= g_top g /\ 0 <= g_bottom g /\ 0 <= g_left g /\ 0 <= g_right g ->
  1 <= Hh -> 0 <= vs st -> 0 <= cursor <= len text ->
  g_wrap g = true ->
  (forall l k, epw (g_haspfx g) (cfg_pfx g) l k + 1 <= r_bwid g W text) ->
  exists line r ucol Y X rowg,
    nth_error (r_src text) (Z.to_nat (r_row text cursor)) = Some line /\
    render g W Hh xpos ypos text cursor st = Some r /\ r_status r = 0 /\
    r_ui r = (r_row text cursor, ucol) /\
    pl_s2d (process_line (g_bflag g) (g_before g) (g_tabstop g) TABCH1 TABCH2 (r_row text cursor) line)
           (r_col text cursor) = Some ucol /\
    pl_d2s (process_line (g_bflag g) (g_before g) (g_tabstop g) TABCH1 TABCH2 (r_row text cursor) line) ucol
      = r_col text cursor /\
    r_cursor r = (Y, X) /\
    ypos <= Y < ypos + Hh /\
    xpos + r_mw r <= X < xpos + r_mw r + r_bw r /\ r_bw r = r_bwid g W text /\
    render_cursor_ok g W Hh xpos ypos text cursor st = true /\
    nth_error (r_grid r) (Z.to_nat (Y - ypos)) = Some rowg /\
    nth_error rowg (Z.to_nat (X - xpos - r_mw r)) = Some (tab_disp g (shown_char g text cursor)).
Proof. exact render_wrap_cursor_doc. Qed.
Print Assumptions C11_render_wrap.

Theorem C11_render_nowrap :
  forall g W Hh xpos ypos text cursor st,
  (forall c, tab_sw g c = 1 /\ tab_dw g c = 1) -> 0 <= g_tabstop g ->
  0 <= g_top g /\ 0 <= g_bottom g /\ 0 <= g_left g /\ 0 <= g_right g ->
  1 <= Hh -> 0 <= cursor <= len text ->
  g_wrap g = false ->
  1 <= r_bwid g W text - (if g_haspfx g then strw (tab_sw g) (cfg_pfx g (r_row text cursor) 0) else 0) ->
  exists line r ucol Y X rowg,
    nth_error (r_src text) (Z.to_nat (r_row text cursor)) = Some line /\
    render g W Hh xpos ypos text cursor st = Some r /\ r_status r = 0 /\
    r_ui r = (r_row text cursor, ucol) /\
    pl_s2d (process_line (g_bflag g) (g_before g) (g_tabstop g) TABCH1 TABCH2 (r_row text cursor) line)
           (r_col text cursor) = Some ucol /\
    pl_d2s (process_line (g_bflag g) (g_before g) (g_tabstop g) TABCH1 TABCH2 (r_row text cursor) line) ucol
      = r_col text cursor /\
    r_cursor r = (Y, X) /\
    ypos <= Y < ypos + Hh /\
    xpos + r_mw r <= X < xpos + r_mw r + r_bw r /\ r_bw r = r_bwid g W text /\
    render_cursor_ok g W Hh xpos ypos text cursor st = true /\
    nth_error (r_grid r) (Z.to_nat (Y - ypos)) = Some rowg /\
    nth_error rowg (Z.to_nat (X - xpos - r_mw r)) = Some (tab_disp g (shown_char g text cursor)).
Proof. exact render_nowrap_cursor_doc. Qed.
Print Assumptions C11_render_nowrap.

(* The processed line shows, at the image of source column col, the source
   character there (the first tab cell c1 under TabsProcessor); the image of the
   line-end column is the end of the processed text (where the blank is appended). *)
Theorem C11_process_line_char : forall bflag before tabstop c1 c2 lineno line col ucol,
  0 <= tabstop -> 0 <= col ->
  pl_s2d (process_line bflag before tabstop c1 c2 lineno line) col = Some ucol ->
  (forall ch, nth_error line (Z.to_nat col) = Some ch ->
     nth_error (pl_text (process_line bflag before tabstop c1 c2 lineno line)) (Z.to_nat ucol)
     = Some (shown tabstop c1 ch)) /\
  (col = len line -> ucol = len (pl_text (process_line bflag before tabstop c1 c2 lineno line))).
Proof. exact process_line_char. Qed.
Print Assumptions C11_process_line_char.

(* get_height_for_line (fast path and prefix path, with and without
   slice_stop) is exact for width-1 characters and constant-width prefixes: it
   is the number of rows copy_line uses, ceil(n / w') (1 for the empty text). *)
Theorem C11_height_exact_narrow : forall sw haspfx pfx line l width p stop,
  (forall c, sw c = 1) ->
  (haspfx = true -> forall l k, len (pfx l k) = p) -> (haspfx = false -> p = 0) ->
  0 <= p -> 1 <= width - p ->
  height_for_line sw haspfx pfx line l width stop =
  rowsZ (width - p) (len (match stop with None => line | Some s => slice_to line s end)).
Proof. exact height_for_line_narrow. Qed.
Print Assumptions C11_height_exact_narrow.

(* Column maps of BeforeInput + TabsProcessor merged as _MergedProcessor does,
   any tabstop >= 1 (0 = no TabsProcessor), any line:
   display_to_source (source_to_display i) = i, strictly monotone, and defined
   on every cursor column. *)
Theorem C11_colmap_inverse : forall bflag before tabstop c1 c2 lineno line,
  0 <= tabstop -> forall i d, 0 <= i ->
  pl_s2d (process_line bflag before tabstop c1 c2 lineno line) i = Some d ->
  pl_d2s (process_line bflag before tabstop c1 c2 lineno line) d = i.
Proof. exact colmap_inverse. Qed.
Print Assumptions C11_colmap_inverse.

(* display -> source on EVERY display column, not only on images of source
   columns: a display column d inside the image interval [s2d i, s2d (i+1)) of
   source column i (e.g. strictly inside a multi-cell expanded TAB) maps back
   to i - for TabsProcessor's position_mappings and for the merged map. *)
Theorem C11_colmap_interior_tabs : forall tabstop c1 c2 line i a b d, 1 <= tabstop ->
  let m := snd (tabs_go tabstop c1 c2 line 0) in
  nth_error m i = Some a -> nth_error m (S i) = Some b -> a <= d < b ->
  tabs_d2s m d = Z.of_nat i.
Proof. exact tabs_processor_interior. Qed.
Print Assumptions C11_colmap_interior_tabs.

Theorem C11_colmap_interior : forall bflag before tabstop c1 c2 lineno line,
  0 <= tabstop -> forall i a b d, 0 <= i ->
  pl_s2d (process_line bflag before tabstop c1 c2 lineno line) i = Some a ->
  pl_s2d (process_line bflag before tabstop c1 c2 lineno line) (i + 1) = Some b ->
  a <= d < b ->
  pl_d2s (process_line bflag before tabstop c1 c2 lineno line) d = i.
Proof. exact colmap_interior. Qed.
Print Assumptions C11_colmap_interior.

Theorem C11_colmap_monotone : forall bflag before tabstop c1 c2 lineno line,
  0 <= tabstop -> forall i j a b, 0 <= i -> i < j ->
  pl_s2d (process_line bflag before tabstop c1 c2 lineno line) i = Some a ->
  pl_s2d (process_line bflag before tabstop c1 c2 lineno line) j = Some b -> a < b.
Proof. exact colmap_monotone. Qed.
Print Assumptions C11_colmap_monotone.

Theorem C11_colmap_total : forall bflag before tabstop c1 c2 lineno line,
  0 <= tabstop -> forall i, 0 <= i <= len line + 1 ->
  exists d, pl_s2d (process_line bflag before tabstop c1 c2 lineno line) i = Some d.
Proof. exact colmap_total. Qed.
Print Assumptions C11_colmap_total.

(* Sequences: the only thing the theorems above ask of the previous scroll
   state is vertical_scroll >= 0; every scroll step (either mode, any
   parameters) re-establishes it, hence so does every finite sequence of
   renders through one window - the theorems hold after each of them. *)
Theorem C11_sequence : forall steps st, Forall step_ok steps -> 0 <= vs st ->
  0 <= vs (fold_left do_step steps st).
Proof. exact steps_inv. Qed.
Print Assumptions C11_sequence.

(* On the pinned snapshot (before commit f4b07a8) the statement was false already
   for plain ASCII (finding C11-F1, now fixed): 'abcde' in a 5x1 wrapping
   window with the cursor at the end; the same render is fine on the code as it
   is now. *)
Theorem C11_wrap_narrow_pinned_refuted :
  exists g W Hh text cursor,
    g_wrap g = true /\ all_narrow g text = true /\ 0 <= cursor <= len text /\ 1 <= W /\ 1 <= Hh /\
    render_cursor_ok_pinned g W Hh 0 0 text cursor (mkss 0 0 0) = false /\
    render_cursor_ok g W Hh 0 0 text cursor (mkss 0 0 0) = true.
Proof.
  exists (g_plain true []), 5, 1, w1_text, 5.
  destruct wrap_narrow_pinned_refuted_w as (A & B & C).
  repeat split; try assumption; try reflexivity; discriminate.
Qed.
Print Assumptions C11_wrap_narrow_pinned_refuted.

(* Control characters (source width 0, drawn as ^A: 2 cells), finding F13 (known):
   false with wrapping and without. *)
Theorem C11_wrap_control_refuted :
  exists g W Hh text cursor,
    g_wrap g = true /\ has_control g text = true /\ 0 <= cursor <= len text /\
    render_cursor_ok g W Hh 0 0 text cursor (mkss 0 0 0) = false.
Proof.
  exists (g_plain true w13_tab), 5, 2, w13_text, 9.
  destruct wrap_control_refuted_w as (A & B).
  repeat split; try assumption; try reflexivity; discriminate.
Qed.
Print Assumptions C11_wrap_control_refuted.

Theorem C11_nowrap_control_refuted :
  exists g W Hh text cursor,
    g_wrap g = false /\ has_control g text = true /\ 0 <= cursor <= len text /\
    render_cursor_ok g W Hh 0 0 text cursor (mkss 0 0 0) = false.
Proof.
  exists (g_plain false w13_tab), 5, 2, [1; 1; 1; 1], 4.
  pose proof nowrap_control_refuted_w as A.
  repeat split; try assumption; try reflexivity; discriminate.
Qed.
Print Assumptions C11_nowrap_control_refuted.

(* Wide characters, finding F14 (known; the sub-domain the property sets apart). *)
Theorem C11_wrap_wide_refuted :
  exists g W Hh text cursor,
    g_wrap g = true /\ has_wide g text = true /\ has_control g text = false /\ 0 <= cursor <= len text /\
    render_cursor_ok g W Hh 0 0 text cursor (mkss 0 0 0) = false.
Proof.
  exists (g_plain true w14_tab), 5, 2, w14_text, 11.
  destruct wrap_wide_refuted_w as (A & B & C).
  repeat split; try assumption; try reflexivity; discriminate.
Qed.
Print Assumptions C11_wrap_wide_refuted.

(* Non-vacuity: narrow renders on which the verdict is "cursor visible"
   (the first one is the former F1 witness). *)
Example C11_hypotheses_satisfiable :
  all_narrow (g_plain true []) w1_text = true /\
  render_cursor_ok (g_plain true []) 5 1 0 0 w1_text 5 (mkss 0 0 0) = true /\
  render_cursor_ok (g_plain true []) 5 2 0 0 w1_text 5 (mkss 0 0 0) = true /\
  render_cursor_ok (g_plain false []) 3 1 0 0 w1_text 5 (mkss 0 0 0) = true.
Proof. exact narrow_ok_example. Qed.
Print Assumptions C11_hypotheses_satisfiable.
