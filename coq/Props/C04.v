(* C04 - Key bindings dispatch by longest active match; each key is consumed
   exactly once.  Statements only; proofs are in Proofs/C04_*.v.

   Vocabulary.  [l] is KeyBindings.bindings in registration order; a binding has
   keys (with the wildcard ANY), a filter and an eager filter (boolean
   expressions over switchable conditions, [feval e]), and a handler whose
   effect is data (flip a condition, feed keys, raise).  [e] is the current
   value of the conditions.  [loop]/[send]/[process_keys] model
   KeyProcessor._process / generator.send / process_keys.
     ExactP l e ks i b : binding #i = b is active under e and matches ks exactly
     LongerP l e ks    : some active binding is strictly longer than ks and starts with it
     EagerP l e ks     : some active exact match of ks is eager
     BestOf P i b      : P i b, and every other (j, b') with P has more wildcards,
                         or as many and was registered no later than i
   [pass_spec] (Proofs/C04_RuleFacts.v) is the documented rule written as an
   inductive relation over these predicates. *)
From Coq Require Import ZArith List Bool.
From PTK Require Import Lib.Sx Model.C04_KeyProc Model.C04_Filters Model.C04_Registry Model.C04_Run
                        Proofs.C04_KeyProcFacts Proofs.C04_RuleFacts Proofs.C04_FilterFacts
                        Proofs.C04_RegistryFacts Proofs.C04_ComposeFacts
                        Model.C04_GlobalDyn Proofs.C04_GlobalDynFacts
                        Model.C04_KeyProcMut Proofs.C04_KeyProcMutFacts.
Import ListNotations.
Open Scope Z_scope.

(* ---- which handler: the last-registered most specific active exact match *)
Theorem C04_specificity : forall l e ks i b,
  last_opt (get_matches (index_from 0 l) e ks) = Some (i, b) -> BestOf (ExactP l e ks) i b.
Proof. exact specificity. Qed.
Print Assumptions C04_specificity.

Theorem C04_no_match_iff : forall l e ks,
  last_opt (get_matches (index_from 0 l) e ks) = None <-> NoExact l e ks.
Proof. exact matches_none. Qed.
Print Assumptions C04_no_match_iff.

(* ---- the rule: for every binding list, pending keys, condition values, input
   queue and item (key press or timeout), what one send to the processor does
   is what the documented rule prescribes: wait while a longer active binding
   is possible (unless timeout or eager); otherwise fire the best exact match
   (eager ones first); with no match, the longest dispatchable prefix fires and
   the rest is re-examined, else exactly one key is dropped; once a handler
   has finished the application (d = app.is_done) the rest is not re-examined
   but handed back to the front of the input queue, in order.
   NOTE an asymmetry the rule has because the code has it: eager bindings get
   priority only when the WHOLE pending sequence is dispatched (PS_fire uses
   BestFire: if some active exact match is eager, only eager ones compete).  In
   the retry pass the dispatched prefix goes to BestOf (ExactP ..), the
   last-registered most specific active match whether eager or not
   (`matches[-1]` of the scan).  So with #0 = a (eager), #1 = a, #2 = c-a-d:
   typing a fires #0, typing c a b fires #1 on [a] (design.d/C04.md observation 6). *)
Theorem C04_rule : forall l b e q d it,
  pass_spec l (push b it) (is_flush it) e q d (send (index_from 0 l) b e q d it).
Proof. exact send_refines_rule. Qed.
Print Assumptions C04_rule.

(* ... and the rule leaves no choice: it determines events, buffer, conditions and queue *)
Theorem C04_rule_deterministic : forall l b flush e q d r1,
  pass_spec l b flush e q d r1 -> forall r2, pass_spec l b flush e q d r2 -> r1 = r2.
Proof. exact pass_spec_deterministic. Qed.
Print Assumptions C04_rule_deterministic.

(* the generator's retry loop always comes back to `yield` (or raises) *)
Theorem C04_send_terminates : forall bs b e q d it, send bs b e q d it <> LFuel.
Proof. exact send_fuel. Qed.
Print Assumptions C04_send_terminates.

(* ---- conservation: over a whole process_keys() run (any bindings, any queue,
   handlers that feed keys included), the keys pending before plus the keys
   popped from the queue are, in order, exactly the keys delivered to handler
   invocations, dropped, discarded by the reset after an exception, handed back
   to the input queue (application finished), followed by the keys still pending.
   [typed] leaves out cursor position reports: they are answers of the terminal,
   taken out of the queue but never part of the key stream (C04_cpr_delivery). *)
Theorem C04_conservation : forall fuel bs s,
  let '(s', evs, pop, stt) := process_keys fuel bs s in
  typed (buf s ++ items_keys pop) = typed (evs_keys evs ++ buf s').
Proof. exact process_keys_conserved. Qed.
Print Assumptions C04_conservation.

(* ---- the input queue, handlers that feed keys (first=True or False) included:
   over the whole trace the queue only changes by a pop of its front item, a
   handler's feed_multiple (items in front or at the back, in order), the
   hand-back of the pending keys (in front, in order) when the application is
   finished, and the reset after an exception; and the popped items are the
   pops of the trace *)
Theorem C04_queue_replay : forall fuel bs s,
  let '(s', evs, pop, stt) := process_keys fuel bs s in replays (queue s) evs (queue s').
Proof. exact process_keys_replays. Qed.
Print Assumptions C04_queue_replay.

Theorem C04_popped_are_the_pops : forall fuel bs s,
  let '(s', evs, pop, stt) := process_keys fuel bs s in pops evs = pop.
Proof. exact process_keys_pops. Qed.
Print Assumptions C04_popped_are_the_pops.

(* ---- keys that were not delivered stay in input order: when no handler feeds
   keys and none raises, pending keys ++ queued keys before the run = keys
   delivered or dropped ++ pending keys ++ queued keys after it - also when a
   handler finished the application in the middle (the looked-ahead keys return
   to the queue in the order they were typed) *)
Theorem C04_undelivered_in_order : forall fuel bs, no_feed bs -> forall s,
  let '(s', evs, pop, stt) := process_keys fuel bs s in
  match stt with
  | SRaised => True
  | _ => typed (buf s ++ items_keys (queue s)) = typed (evs_gone evs ++ buf s' ++ items_keys (queue s'))
  end.
Proof. exact process_keys_in_order. Qed.
Print Assumptions C04_undelivered_in_order.

(* once the application is finished nothing but cursor position reports is taken from the queue *)
Theorem C04_done_stops : forall fuel bs s,
  sdone s = true -> remove_first_cpr (queue s) = None -> process_keys fuel bs s = (s, [], [], SDone).
Proof. exact process_keys_done. Qed.
Print Assumptions C04_done_stops.

(* ---- a handler that raises leaves the processor reset (empty key_buffer and
   input_queue: the state of a fresh processor with the same conditions), and
   the previous-key bookkeeping cleared), and the exception is the last thing
   that happened; the handler was called for keys or for a cursor position report *)
Theorem C04_exception_resets : forall fuel bs s s' evs pop,
  process_keys fuel bs s = (s', evs, pop, SRaised) ->
  s' = mkst [] [] (cenv s') (sdone s') None /\
  exists evs0 lb lq, evs = evs0 ++ [ERaised lb lq] /\ exists i, (exists ks, In (EInvoke i ks) evs0) \/ In (ECpr i) evs0.
Proof. exact process_keys_raised. Qed.
Print Assumptions C04_exception_resets.

(* round 6: a handler that calls process_keys() itself (action [AProcess]).  With nothing to take from
   the queue the inner call is a no-op; otherwise it raises out of the handler (the generator is already
   executing), nothing else the handler would have done happens, and by C04_exception_resets the
   processor is left fresh - the whole queue, the taken item included, is what the reset discards. *)
Theorem C04_reentry_noop : forall acts e q d, has_next q d = false ->
  run_actions (AProcess :: acts) e q d = run_actions acts e q d.
Proof. exact reentry_noop. Qed.
Print Assumptions C04_reentry_noop.

Theorem C04_reentry_raises : forall acts e q d, has_next q d = true ->
  run_actions (AProcess :: acts) e q d = mkhres e q d [] true.
Proof. exact reentry_raises. Qed.
Print Assumptions C04_reentry_raises.

(* process_keys may legitimately not terminate (a handler can feed its own
   key); whenever it finishes, the fuel is irrelevant, and with handlers
   that only flip conditions or raise one step per queued item suffices *)
Theorem C04_fuel_irrelevant : forall fuel bs s r fuel',
  process_keys fuel bs s = r -> snd r <> SFuel -> (fuel <= fuel')%nat -> process_keys fuel' bs s = r.
Proof. exact process_keys_fuel_mono. Qed.
Print Assumptions C04_fuel_irrelevant.

Theorem C04_fuel_plain : forall fuel bs, plain bs -> forall s,
  sdone s = false -> (length (queue s) <= fuel)%nat -> snd (process_keys fuel bs s) <> SFuel.
Proof. exact process_keys_fuel_plain. Qed.
Print Assumptions C04_fuel_plain.

(* ---- cursor position reports (_handle_cpr_response).  A report never enters
   the key buffer.  Delivering it (the handler not raising) leaves key_buffer
   and the previous-key bookkeeping as they were, consumes no typed key, and
   changes the input queue only by what the handler itself feeds; the binding
   that receives it has keys exactly (CPRResponse,) - never a wildcard - is
   active, and is the last registered such binding. *)
Theorem C04_cpr_delivery : forall bs s q s1 evs,
  cpr_step bs s q = (s1, evs, false) ->
  buf s1 = buf s /\ sprev s1 = sprev s /\ evs_keys evs = [] /\ replays q evs (queue s1).
Proof. exact cpr_step_frame. Qed.
Print Assumptions C04_cpr_delivery.

Theorem C04_cpr_binding : forall l e i b,
  cpr_binding (index_from 0 l) e = Some (i, b) -> Best l e [CPR] cpr_only i b.
Proof. exact cpr_binding_best. Qed.
Print Assumptions C04_cpr_binding.

(* ---- filters: the memoised & | ~ (caches, flattening, de-duplication,
   singleton collapse, Always/Never short cuts) return an object whose value is
   the conjunction / disjunction / negation, keep every existing object's value,
   and keep the heap well-formed - so this holds after any construction history *)
Theorem C04_filter_and : forall h f g, wf h -> (f < len h)%nat -> (g < len h)%nat ->
  sound h (mk_and h f g) (fun e => value h e f && value h e g).
Proof. exact mk_and_sound. Qed.
Print Assumptions C04_filter_and.

Theorem C04_filter_or : forall h f g, wf h -> (f < len h)%nat -> (g < len h)%nat ->
  sound h (mk_or h f g) (fun e => value h e f || value h e g).
Proof. exact mk_or_sound. Qed.
Print Assumptions C04_filter_or.

Theorem C04_filter_not : forall h f, wf h -> (f < len h)%nat ->
  sound h (mk_not h f) (fun e => negb (value h e f)).
Proof. exact mk_not_sound. Qed.
Print Assumptions C04_filter_not.

Theorem C04_filter_history : forall ops h, wf h -> wf (fold_left fstep' ops h).
Proof. exact history_wf. Qed.
Print Assumptions C04_filter_history.

Theorem C04_filter_initial : wf heap0.
Proof. exact wf_heap0. Qed.
Print Assumptions C04_filter_initial.

(* ---- registries: after any history of add / remove / dynamic switch /
   lookups, a lookup through any object (KeyBindings or any nesting of merged,
   conditional, dynamic, global-only wrappers) equals the uncached getter on
   the object's current binding list [denot], which [C04_denot] spells out *)
Theorem C04_cache_coherent : forall mx s0 ops w i ks,
  Inv s0 -> let s := fold_left (rstep mx) ops s0 in
  (i < length s)%nat ->
  snd (lookup mx (S (length s)) w s i ks) = getter w (denot s i) ks /\
  snd (upd (S (length s)) s i) = denot s i.
Proof. exact cache_coherent. Qed.
Print Assumptions C04_cache_coherent.

Theorem C04_denot : forall s i o, wfs s -> nth_error s i = Some o ->
  denot s i =
  match o with
  | OKB bs _ _ _ => bs
  | OCondW c f _ => map (cond_binding f) (denot s c)
  | OMerged cs _ => flat_map (denot s) cs
  | ODyn cands sel => match dyn_child cands sel with Some c => denot s c | None => [] end
  | OGlobal c _ => filter bglobal (denot s c)
  end.
Proof. exact denot_unfold. Qed.
Print Assumptions C04_denot.

(* the invariant is kept by every operation, so [C04_cache_coherent] and [C04_denot]
   (which needs [wfs] of the store after the history) compose from this file alone *)
Theorem C04_history_inv : forall mx ops s, Inv s -> Inv (fold_left (rstep mx) ops s).
Proof. exact history_inv. Qed.
Print Assumptions C04_history_inv.

(* round 6: SimpleCache eviction (the oldest entry goes when a cache exceeds its maxsize) is
   inside the model ([cache_put]); [mx] = the two maxsize values, ANY values.  Whatever they
   are - one entry or unbounded - the same history gives the same result for every lookup and
   every `.bindings`: evicting never changes what is dispatched.  (C04_cache_coherent above
   already holds for every [mx].) *)
Theorem C04_eviction_transparent : forall mx mx' s0 ops w i ks,
  Inv s0 ->
  let s := fold_left (rstep mx) ops s0 in
  let t := fold_left (rstep mx') ops s0 in
  (i < length s)%nat ->
  snd (lookup mx (S (length s)) w s i ks) = snd (lookup mx' (S (length t)) w t i ks) /\
  snd (upd (S (length s)) s i) = snd (upd (S (length t)) t i).
Proof. exact eviction_transparent. Qed.
Print Assumptions C04_eviction_transparent.

(* a cache within its maxsize stays within it, and eviction does occur (maxsize 1, two keys) *)
Theorem C04_cache_bounded : forall mx ks r c, (length c <= mx)%nat -> (length (cache_put mx ks r c) <= mx)%nat.
Proof. exact cache_put_length. Qed.
Print Assumptions C04_cache_bounded.

Theorem C04_eviction_happens :
  let s := fold_left (rstep (1%nat, 1%nat)) [RLookup true 0%nat [1]; RLookup true 0%nat [2]] [OKB [] 0 [] []] in
  s = [OKB [] 0 [([2], [])] []].
Proof. exact eviction_happens. Qed.
Print Assumptions C04_eviction_happens.

Theorem C04_inv_wfs : forall s, Inv s -> wfs s.
Proof. exact Inv_wfs. Qed.
Print Assumptions C04_inv_wfs.

(* freshly constructed objects satisfy the invariant *)
Theorem C04_initial_inv : forall s, wfs s -> (forall i o, nth_error s i = Some o -> fresh_obj o) -> Inv s.
Proof. exact Inv_init. Qed.
Print Assumptions C04_initial_inv.

Theorem C04_add_is_seen : forall s k b bs v c1 c2,
  wfs s -> nth_error s k = Some (OKB bs v c1 c2) -> cls (bfilter b) <> CNever ->
  denot (kb_add s k b) k = bs ++ [b].
Proof. exact denot_after_add. Qed.
Print Assumptions C04_add_is_seen.

(* the same when what is added is a pre-built Binding object (key_binding decorator):
   add() composes its own filter/eager/is_global with the object's and keeps the
   object's handler, save_before and record_in_macro *)
Theorem C04_add_binding_object_is_seen : forall s k pre arg bs v c1 c2,
  wfs s -> nth_error s k = Some (OKB bs v c1 c2) -> cls (bfilter arg) <> CNever ->
  denot (kb_addb s k pre arg) k = bs ++ [compose_binding pre arg].
Proof. exact denot_after_addb. Qed.
Print Assumptions C04_add_binding_object_is_seen.

(* the wrapper caches rest on this: an unchanged version means unchanged bindings *)
Theorem C04_same_version_same_bindings : forall s0 s, older s0 s -> wfs s ->
  forall i, (i < length s)%nat -> cver s0 i = cver s i -> denot s0 i = denot s i.
Proof. exact same_version_same_bindings. Qed.
Print Assumptions C04_same_version_same_bindings.

(* ---- the layers composed: bindings whose filter and eager are filter OBJECTS
   (heap ids of the memoised algebra, caches included).  [reify h i] is the
   expression object i denotes ([C04_object_value]).  After any further history
   of memoised & | ~ constructions the processor sees literally the same
   binding list, every send follows the rule, and active/eager are the objects'
   current values, unchanged by the history. *)
Theorem C04_object_value : forall h e i, feval e (reify h i) = value h e i.
Proof. exact reify_value. Qed.
Print Assumptions C04_object_value.

Theorem C04_dispatch_over_filter_objects : forall h obs ops b e q d it,
  wf h -> (forall ob, In ob obs -> (ofilter ob < len h)%nat /\ (oeager ob < len h)%nat) ->
  let h' := fold_left fstep' ops h in
  let l := map (reify_b h') obs in
  l = map (reify_b h) obs /\
  pass_spec l (push b it) (is_flush it) e q d (send (index_from 0 l) b e q d it) /\
  forall ob, In ob obs ->
    feval e (bfilter (reify_b h' ob)) = value h' e (ofilter ob) /\
    feval e (beager (reify_b h' ob)) = value h' e (oeager ob) /\
    value h' e (ofilter ob) = value h e (ofilter ob) /\
    value h' e (oeager ob) = value h e (oeager ob).
Proof. exact objects_dispatch. Qed.
Print Assumptions C04_dispatch_over_filter_objects.

(* the registry model writes ConditionalKeyBindings' filter as [FAnd f (bfilter b)] and
   add()'s eager for a Binding object as [FOr ..]: the objects the real operators
   build (whatever their caches return) denote exactly these *)
Theorem C04_conditional_filter_object : forall h cf bf e,
  wf h -> (cf < len h)%nat -> (bf < len h)%nat ->
  let '(h', r) := mk_and h cf bf in
  feval e (reify h' r) = feval e (FAnd (reify h cf) (reify h bf)) /\ wf h'.
Proof. exact cond_filter_object. Qed.
Print Assumptions C04_conditional_filter_object.

Theorem C04_eager_filter_object : forall h f g e,
  wf h -> (f < len h)%nat -> (g < len h)%nat ->
  let '(h', r) := mk_or h f g in
  feval e (reify h' r) = feval e (FOr (reify h f) (reify h g)) /\ wf h'.
Proof. exact or_filter_object. Qed.
Print Assumptions C04_eager_filter_object.

(* ---- is_global as a dynamic filter (Model/C04_GlobalDyn.v): after any history of
   adds, condition changes and lookups, GlobalOnlyKeyBindings shows the bindings
   whose is_global was true under the condition values of its last rebuild, and
   it rebuilds exactly when the KeyBindings' version changed since the last look *)
Theorem C04_global_only_shows : forall e ops,
  let s := fold_left gstep ops (gst0 e) in
  let s' := gstep s GLook in
  gshown s' = filter (is_glob (grebuilt s')) (gbs s') /\
  gbs s' = gbs s /\
  (glast s = Some (gver s) -> grebuilt s' = grebuilt s) /\
  (glast s <> Some (gver s) -> grebuilt s' = genv s).
Proof. exact global_only_shows. Qed.
Print Assumptions C04_global_only_shows.

(* ... so it does not follow is_global's current value: a binding that became
   global with no add/remove in between stays hidden (finding C04-F1) *)
Theorem C04_global_only_current_refuted : exists e ops,
  let s := gstep (fold_left gstep ops (gst0 e)) GLook in
  gshown s <> filter (is_glob (genv s)) (gbs s).
Proof. exact global_only_stale. Qed.
Print Assumptions C04_global_only_current_refuted.

(* observation (DESIGN F12), not demanded by the property: KeyBindings.remove
   deletes from the list it iterates over and so skips the element after each
   removed one *)
Theorem C04_remove_skips_observed : exists m l, fst (rm_loop m l) <> filter (fun b => negb (m b)) l.
Proof. exact rm_loop_skips. Qed.
Print Assumptions C04_remove_skips_observed.

(* ---- non-vacuity: 'a' then timeout, with bindings a and a-b: the key waits,
   the timeout fires binding #0 *)
Example C04_rule_example :
  let l := [mkbinding [1] FAlways FNever false 0 [] true 0; mkbinding [1; 2] FAlways FNever false 1 [] true 0] in
  send (index_from 0 l) [] [] [] false (IKey 1) = LDone [1] [] [] false [] /\
  send (index_from 0 l) [1] [] [] false IFlush = LDone [] [] [] false [EInvoke 0 [1]].
Proof. split; reflexivity. Qed.
Print Assumptions C04_rule_example.

(* ---- round 7: handlers that mutate the registry DURING a pass (Model/C04_KeyProcMut.v: the binding
   list is threaded through the handler calls; a table gives, per handler identity, the kb.add /
   kb.remove(handler) calls its body makes first).
   (a) with no mutating handler it is the processor of Model/C04_KeyProc.v - so C04_rule, C04_specificity,
       ... apply verbatim to every pass whose handlers leave the registry alone; *)
Theorem C04_mut_refines : forall fuel bs b flush e q d,
  loop_m fuel [] bs b flush e q d = lift bs (loop fuel (index_from 0 bs) b flush e q d).
Proof. exact loop_m_nomut. Qed.
Print Assumptions C04_mut_refines.

(* (b) the pass uses the registry current at each lookup: after a prefix dispatch by the retry scan, the
       keys left are re-examined against the registry as the handler left it; *)
Theorem C04_mut_retry_sees_mutation : forall fuel t (bs : list binding) (b : list Z) (flush : bool) (e : env) q d (i : nat) (m : ib),
  b <> [] ->
  (match filter (eager e) (get_matches (index_from 0 bs) e b) with
   | [] => if flush then false else is_prefix (index_from 0 bs) e b
   | _ :: _ => false end) = false ->
  last_opt (match filter (eager e) (get_matches (index_from 0 bs) e b) with
            | [] => get_matches (index_from 0 bs) e b
            | _ :: _ => filter (eager e) (get_matches (index_from 0 bs) e b) end) = None ->
  scan (index_from 0 bs) e b (length b) = Some (i, m) ->
  hraised (snd (call t bs m e q d)) = false ->
  hdone (snd (call t bs m e q d)) = false ->
  loop_m (S fuel) t bs b flush e q d =
  mapp (EInvoke (fst m) (firstn i b) :: hevs (snd (call t bs m e q d)))
       (loop_m fuel t (fst (call t bs m e q d)) (skipn i b) false
               (he (snd (call t bs m e q d))) (hq (snd (call t bs m e q d))) false).
Proof. exact loop_m_retry_sees_mutation. Qed.
Print Assumptions C04_mut_retry_sees_mutation.

Theorem C04_mut_add_visible : forall b bs, cls (bfilter b) <> CNever -> apply_muts [MAdd b] bs = (bs ++ [b], true).
Proof. exact apply_add. Qed.
Print Assumptions C04_mut_add_visible.

(* (c) conservation still holds, for every table of mutations and every fuel: over a whole process_keys run
       pending-before ++ popped keys = delivered / dropped / discarded / handed back ++ pending-after; the
       generator loop still terminates; an exception (raising handler, failing remove) resets the processor *)
Theorem C04_mut_conservation : forall fuel t bs s,
  let '(bs', s', evs, pop, stt) := process_keys_m fuel t bs s in
  buf s ++ items_keys pop = evs_keys evs ++ buf s'.
Proof. exact process_keys_m_conserved. Qed.
Print Assumptions C04_mut_conservation.

Theorem C04_mut_send_terminates : forall t bs b e q d it, send_m t bs b e q d it <> MFuel.
Proof. exact send_m_fuel. Qed.
Print Assumptions C04_mut_send_terminates.

Theorem C04_mut_exception_resets : forall fuel t bs s bs' s' evs pop,
  process_keys_m fuel t bs s = (bs', s', evs, pop, SRaised) -> s' = mkst [] [] (cenv s') (sdone s') None.
Proof. exact process_keys_m_raised. Qed.
Print Assumptions C04_mut_exception_resets.
