(* C04 - Key bindings dispatch by longest active match; each key is consumed
   exactly once.  Statements only; proofs are in Proofs/C04_*.v.

   Vocabulary.  [l] is KeyBindings.bindings in registration order; a binding has
   keys (with the wildcard ANY), a filter and an eager filter (boolean
   expressions over switchable conditions, [feval e]), and a handler whose
   effect is data (flip a condition, feed keys, raise).  [e] is the current
   value of the conditions.  [loop]/[send]/[process_keys] model
   KeyProcessor._process / generator.send / process_keys.
     ExactP l e ks i b : binding #i = b is active under e and matches ks exactly
     LongerP l e ks    : some active binding is strictly longer than ks and starts with it
     EagerP l e ks     : some active exact match of ks is eager
     BestOf P i b      : P i b, and every other (j, b') with P has more wildcards,
                         or as many and was registered no later than i
   [pass_spec] (Proofs/C04_RuleFacts.v) is the documented rule written as an
   inductive relation over these predicates. *)
From Coq Require Import ZArith List Bool.
From PTK Require Import Lib.Sx Model.C04_KeyProc Model.C04_Filters Model.C04_Registry Model.C04_Run
                        Proofs.C04_KeyProcFacts Proofs.C04_RuleFacts Proofs.C04_FilterFacts
                        Proofs.C04_RegistryFacts.
Import ListNotations.
Open Scope Z_scope.

(* ---- which handler: the last-registered most specific active exact match *)
Theorem C04_specificity : forall l e ks i b,
  last_opt (get_matches (index_from 0 l) e ks) = Some (i, b) -> BestOf (ExactP l e ks) i b.
Proof. exact specificity. Qed.
Print Assumptions C04_specificity.

Theorem C04_no_match_iff : forall l e ks,
  last_opt (get_matches (index_from 0 l) e ks) = None <-> NoExact l e ks.
Proof. exact matches_none. Qed.
Print Assumptions C04_no_match_iff.

(* ---- the rule: for every binding list, pending keys, condition values, input
   queue and item (key press or timeout), what one send to the processor does
   is what the documented rule prescribes: wait while a longer active binding
   is possible (unless timeout or eager); otherwise fire the best exact match
   (eager ones first); with no match, the longest dispatchable prefix fires and
   the rest is re-examined, else exactly one key is dropped. *)
Theorem C04_rule : forall l b e q it,
  pass_spec l (push b it) (is_flush it) e q (send (index_from 0 l) b e q it).
Proof. exact send_refines_rule. Qed.
Print Assumptions C04_rule.

(* ... and the rule leaves no choice: it determines events, buffer, conditions and queue *)
Theorem C04_rule_deterministic : forall l b flush e q r1,
  pass_spec l b flush e q r1 -> forall r2, pass_spec l b flush e q r2 -> r1 = r2.
Proof. exact pass_spec_deterministic. Qed.
Print Assumptions C04_rule_deterministic.

(* the generator's retry loop always comes back to `yield` (or raises) *)
Theorem C04_send_terminates : forall bs b e q it, send bs b e q it <> LFuel.
Proof. exact send_fuel. Qed.
Print Assumptions C04_send_terminates.

(* ---- conservation: over a whole process_keys() run (any bindings, any queue,
   handlers that feed keys included), the keys pending before plus the keys
   popped from the queue are, in order, exactly the keys delivered to handler
   invocations, dropped, discarded by the reset after an exception, followed by
   the keys still pending. *)
Theorem C04_conservation : forall fuel bs s,
  let '(s', evs, pop, stt) := process_keys fuel bs s in
  buf s ++ items_keys pop = evs_keys evs ++ buf s'.
Proof. exact process_keys_conserved. Qed.
Print Assumptions C04_conservation.

(* when no handler feeds keys the queue is consumed front to back: what was
   queued = what was popped ++ what is still queued (or was discarded by the reset) *)
Theorem C04_queue_order_nofeed : forall fuel bs, no_feed bs -> forall s,
  let '(s', evs, pop, stt) := process_keys fuel bs s in
  match stt with
  | SRaised => exists evs0 lb lq, evs = evs0 ++ [ERaised lb lq] /\ queue s = pop ++ lq
  | _ => queue s = pop ++ queue s'
  end.
Proof. exact process_keys_queue. Qed.
Print Assumptions C04_queue_order_nofeed.

(* ---- a handler that raises leaves the processor reset (empty key_buffer and
   input_queue: the state of a fresh processor with the same conditions), and
   the exception is the last thing that happened *)
Theorem C04_exception_resets : forall fuel bs s s' evs pop,
  process_keys fuel bs s = (s', evs, pop, SRaised) ->
  s' = mkst [] [] (cenv s') /\
  exists evs0 i ks lb lq, evs = evs0 ++ [EInvoke i ks; ERaised lb lq].
Proof. exact process_keys_raised. Qed.
Print Assumptions C04_exception_resets.

(* process_keys may legitimately not terminate (a handler can feed its own
   key); whenever it finishes, the fuel is irrelevant, and without feeding
   handlers one step per queued item suffices *)
Theorem C04_fuel_irrelevant : forall fuel bs s r fuel',
  process_keys fuel bs s = r -> snd r <> SFuel -> (fuel <= fuel')%nat -> process_keys fuel' bs s = r.
Proof. exact process_keys_fuel_mono. Qed.
Print Assumptions C04_fuel_irrelevant.

Theorem C04_fuel_nofeed : forall fuel bs, no_feed bs -> forall s,
  (length (queue s) <= fuel)%nat -> snd (process_keys fuel bs s) <> SFuel.
Proof. exact process_keys_fuel_nofeed. Qed.
Print Assumptions C04_fuel_nofeed.

(* ---- filters: the memoised & | ~ (caches, flattening, de-duplication,
   singleton collapse, Always/Never short cuts) return an object whose value is
   the conjunction / disjunction / negation, keep every existing object's value,
   and keep the heap well-formed - so this holds after any construction history *)
Theorem C04_filter_and : forall h f g, wf h -> (f < len h)%nat -> (g < len h)%nat ->
  sound h (mk_and h f g) (fun e => value h e f && value h e g).
Proof. exact mk_and_sound. Qed.
Print Assumptions C04_filter_and.

Theorem C04_filter_or : forall h f g, wf h -> (f < len h)%nat -> (g < len h)%nat ->
  sound h (mk_or h f g) (fun e => value h e f || value h e g).
Proof. exact mk_or_sound. Qed.
Print Assumptions C04_filter_or.

Theorem C04_filter_not : forall h f, wf h -> (f < len h)%nat ->
  sound h (mk_not h f) (fun e => negb (value h e f)).
Proof. exact mk_not_sound. Qed.
Print Assumptions C04_filter_not.

Theorem C04_filter_history : forall ops h, wf h -> wf (fold_left fstep' ops h).
Proof. exact history_wf. Qed.
Print Assumptions C04_filter_history.

Theorem C04_filter_initial : wf heap0.
Proof. exact wf_heap0. Qed.
Print Assumptions C04_filter_initial.

(* ---- registries: after any history of add / remove / dynamic switch /
   lookups, a lookup through any object (KeyBindings or any nesting of merged,
   conditional, dynamic, global-only wrappers) equals the uncached getter on
   the object's current binding list [denot], which [C04_denot] spells out *)
Theorem C04_cache_coherent : forall s0 ops w i ks,
  Inv s0 -> let s := fold_left rstep ops s0 in
  (i < length s)%nat ->
  snd (lookup (S (length s)) w s i ks) = getter w (denot s i) ks /\
  snd (upd (S (length s)) s i) = denot s i.
Proof. exact cache_coherent. Qed.
Print Assumptions C04_cache_coherent.

Theorem C04_denot : forall s i o, wfs s -> nth_error s i = Some o ->
  denot s i =
  match o with
  | OKB bs _ _ _ => bs
  | OCondW c f _ => map (cond_binding f) (denot s c)
  | OMerged cs _ => flat_map (denot s) cs
  | ODyn cands sel => match dyn_child cands sel with Some c => denot s c | None => [] end
  | OGlobal c _ => filter bglobal (denot s c)
  end.
Proof. exact denot_unfold. Qed.
Print Assumptions C04_denot.

(* freshly constructed objects satisfy the invariant *)
Theorem C04_initial_inv : forall s, wfs s -> (forall i o, nth_error s i = Some o -> fresh_obj o) -> Inv s.
Proof. exact Inv_init. Qed.
Print Assumptions C04_initial_inv.

Theorem C04_add_is_seen : forall s k b bs v c1 c2,
  wfs s -> nth_error s k = Some (OKB bs v c1 c2) -> cls (bfilter b) <> CNever ->
  denot (kb_add s k b) k = bs ++ [b].
Proof. exact denot_after_add. Qed.
Print Assumptions C04_add_is_seen.

(* the same when what is added is a pre-built Binding object (key_binding decorator):
   add() composes its own filter/eager/is_global with the object's and keeps the
   object's handler, save_before and record_in_macro *)
Theorem C04_add_binding_object_is_seen : forall s k pre arg bs v c1 c2,
  wfs s -> nth_error s k = Some (OKB bs v c1 c2) -> cls (bfilter arg) <> CNever ->
  denot (kb_addb s k pre arg) k = bs ++ [compose_binding pre arg].
Proof. exact denot_after_addb. Qed.
Print Assumptions C04_add_binding_object_is_seen.

(* the wrapper caches rest on this: an unchanged version means unchanged bindings *)
Theorem C04_same_version_same_bindings : forall s0 s, older s0 s -> wfs s ->
  forall i, (i < length s)%nat -> cver s0 i = cver s i -> denot s0 i = denot s i.
Proof. exact same_version_same_bindings. Qed.
Print Assumptions C04_same_version_same_bindings.

(* observation (DESIGN F12), not demanded by the property: KeyBindings.remove
   deletes from the list it iterates over and so skips the element after each
   removed one *)
Theorem C04_remove_skips_observed : exists m l, fst (rm_loop m l) <> filter (fun b => negb (m b)) l.
Proof. exact rm_loop_skips. Qed.
Print Assumptions C04_remove_skips_observed.

(* ---- non-vacuity: 'a' then timeout, with bindings a and a-b: the key waits,
   the timeout fires binding #0 *)
Example C04_rule_example :
  let l := [mkbinding [1] FAlways FNever false 0 [] true 0; mkbinding [1; 2] FAlways FNever false 1 [] true 0] in
  send (index_from 0 l) [] [] [] (IKey 1) = LDone [1] [] [] [] /\
  send (index_from 0 l) [1] [] [] IFlush = LDone [] [] [] [EInvoke 0 [1]].
Proof. split; reflexivity. Qed.
Print Assumptions C04_rule_example.
