(* C01 - Basic buffer edits change exactly the addressed text and nothing else.
   Statements only; proofs are in Proofs/BufferEditFacts.v.  [Inv b] is
   0 <= cursor <= len(text).  A buffer is (text, cursor); positions are code
   point indices; firstn/skipn are the mathematical prefix/suffix. *)
From Coq Require Import ZArith List Bool.
From PTK Require Import Lib.Sx Lib.Py Model.Document Model.BufferEdit Proofs.BufferEditFacts
  Proofs.BufferEditLines Proofs.BufferEditIndent Model.C02_DocQueries Model.C01_CaseWord
  Proofs.C01_CaseWordFacts Proofs.C01_LastLine Proofs.C01_Audit
  Lib.PyLines Gen.C01_CaseMap Model.C01_CaseMap Model.C01_Views
  Proofs.C01_Exact Proofs.C01_ViewsFacts Proofs.C01_CaseMapFacts
  Model.C08_ViOps Model.C01_Reshape Proofs.C01_Round7 Proofs.C01_ReshapeFacts.
Import ListNotations.
Open Scope Z_scope.

(* Inserting a string at the cursor yields before + string + after. *)
Theorem C01_insert : forall b data mv,
  Inv b ->
  insert_text b data false mv =
  Ok (mkbuf (firstn (Z.to_nat (bcur b)) (btext b) ++ data ++ skipn (Z.to_nat (bcur b)) (btext b))
            (if mv then bcur b + len data else bcur b)) [].
Proof. exact insert_text_spec. Qed.
Print Assumptions C01_insert.

(* Overwrite mode replaces k characters with k <= len(data), none of them a
   line ending. *)
Theorem C01_overwrite : forall b data,
  Inv b ->
  exists k,
    0 <= k <= len data /\ bcur b + k <= len (btext b) /\
    mem_Z NL (firstn (Z.to_nat k) (skipn (Z.to_nat (bcur b)) (btext b))) = false /\
    insert_text b data true true =
    Ok (mkbuf (firstn (Z.to_nat (bcur b)) (btext b) ++ data
               ++ skipn (Z.to_nat (bcur b + k)) (btext b))
              (bcur b + len data)) [].
Proof. exact insert_overwrite_spec. Qed.
Print Assumptions C01_overwrite.

(* ... the same with or without moving the cursor. *)
Theorem C01_overwrite_any_move : forall b data mv,
  Inv b ->
  exists k,
    0 <= k <= len data /\ bcur b + k <= len (btext b) /\
    mem_Z NL (firstn (Z.to_nat k) (skipn (Z.to_nat (bcur b)) (btext b))) = false /\
    insert_text b data true mv =
    Ok (mkbuf (firstn (Z.to_nat (bcur b)) (btext b) ++ data
               ++ skipn (Z.to_nat (bcur b + k)) (btext b))
              (if mv then bcur b + len data else bcur b)) [].
Proof. exact insert_overwrite_spec_mv. Qed.
Print Assumptions C01_overwrite_any_move.

(* Deleting n characters before the cursor removes exactly the min(n, cursor)
   characters adjacent to the cursor and returns exactly those. *)
Theorem C01_delete_before : forall b n,
  Inv b -> 0 <= n ->
  let k := Z.min n (bcur b) in
  delete_before_cursor b n =
  Ok (mkbuf (firstn (Z.to_nat (bcur b - k)) (btext b) ++ skipn (Z.to_nat (bcur b)) (btext b))
            (bcur b - k))
     (firstn (Z.to_nat k) (skipn (Z.to_nat (bcur b - k)) (btext b))).
Proof. exact delete_before_cursor_spec. Qed.
Print Assumptions C01_delete_before.

(* ... which the function as it stood at the pinned commit did not satisfy
   (finding F1, repaired in /repo by a fix: commit). *)
Theorem C01_delete_before_pinned_refuted :
  exists b n, Inv b /\ 0 <= n /\
    delete_before_cursor_pinned b n <>
    (let k := Z.min n (bcur b) in
     Ok (mkbuf (firstn (Z.to_nat (bcur b - k)) (btext b) ++ skipn (Z.to_nat (bcur b)) (btext b))
               (bcur b - k))
        (firstn (Z.to_nat k) (skipn (Z.to_nat (bcur b - k)) (btext b)))).
Proof. exact delete_before_cursor_pinned_refuted. Qed.
Print Assumptions C01_delete_before_pinned_refuted.

(* Deleting n characters after the cursor. *)
Theorem C01_delete : forall b n,
  Inv b -> 0 <= n ->
  let k := Z.min n (len (btext b) - bcur b) in
  delete b n =
  Ok (mkbuf (firstn (Z.to_nat (bcur b)) (btext b) ++ skipn (Z.to_nat (bcur b + k)) (btext b))
            (bcur b))
     (firstn (Z.to_nat k) (skipn (Z.to_nat (bcur b)) (btext b))).
Proof. exact delete_spec. Qed.
Print Assumptions C01_delete.

(* ... for EVERY count: a count below zero deletes nothing (the repaired
   Buffer.delete clamps it; delete_before_cursor rejects one by assertion). *)
Theorem C01_delete_any_count : forall b n,
  Inv b ->
  let k := Z.min (Z.max 0 n) (len (btext b) - bcur b) in
  delete b n =
  Ok (mkbuf (firstn (Z.to_nat (bcur b)) (btext b) ++ skipn (Z.to_nat (bcur b + k)) (btext b))
            (bcur b))
     (firstn (Z.to_nat k) (skipn (Z.to_nat (bcur b)) (btext b))).
Proof. exact delete_spec_any. Qed.
Print Assumptions C01_delete_any_count.

Theorem C01_delete_nonpositive : forall b n, Inv b -> n <= 0 -> delete b n = Ok b [].
Proof. exact delete_negative. Qed.
Print Assumptions C01_delete_nonpositive.

(* Before the repair a negative count was a slice relative to the END of the
   text: ('abcdef', cursor 1).delete(-1) removed 'bcde' (reachable from the
   keyboard as Esc - C-d). *)
Theorem C01_delete_pinned_refuted :
  exists b n, Inv b /\ delete_pinned b n = Ok (mkbuf [97;102] 1) [98;99;100;101] /\
              btext b = [97;98;99;100;101;102].
Proof. exact delete_pinned_refuted. Qed.
Print Assumptions C01_delete_pinned_refuted.

(* Character swap alters only the two characters before the cursor. *)
Theorem C01_swap : forall b x y,
  Inv b -> 2 <= bcur b ->
  nth_error (btext b) (Z.to_nat (bcur b - 2)) = Some x ->
  nth_error (btext b) (Z.to_nat (bcur b - 1)) = Some y ->
  swap_characters_before_cursor b =
  Ok (mkbuf (firstn (Z.to_nat (bcur b - 2)) (btext b) ++ [y; x] ++ skipn (Z.to_nat (bcur b)) (btext b))
            (bcur b)) [].
Proof. exact swap_spec. Qed.
Print Assumptions C01_swap.

(* A region transform alters only the region, whatever the callback F. *)
Theorem C01_transform_region : forall F b a e,
  Inv b -> 0 <= a -> a < e -> e <= len (btext b) ->
  exists c',
  transform_region F b a e =
  Ok (mkbuf (firstn (Z.to_nat a) (btext b)
             ++ F (firstn (Z.to_nat (e - a)) (skipn (Z.to_nat a) (btext b)))
             ++ skipn (Z.to_nat e) (btext b)) c') [] /\ 0 <= c'.
Proof. exact transform_region_spec. Qed.
Print Assumptions C01_transform_region.

(* [line_split b pre line post]: text = pre ++ line ++ post where line is the
   cursor's line (no line ending in it, pre empty or ending in one, post empty
   or starting with one).  Every Inv state has such a decomposition. *)
Theorem C01_current_line_split : forall b,
  Inv b -> exists pre line post, line_split b pre line post.
Proof. exact current_line_split. Qed.
Print Assumptions C01_current_line_split.

(* A current-line transform (the case transforms of the editor are instances)
   alters only the current line, whatever the callback F. *)
Theorem C01_transform_current_line : forall F b pre line post,
  Inv b -> line_split b pre line post ->
  exists c', transform_current_line F b = Ok (mkbuf (pre ++ F line ++ post) c') [] /\ 0 <= c'.
Proof. exact transform_current_line_spec. Qed.
Print Assumptions C01_transform_current_line.

(* newline inserts a line ending plus (optionally) a margin of blanks - which
   holds no line ending itself - at the cursor and nothing else. *)
Theorem C01_newline : forall b cm,
  Inv b ->
  exists m,
    newline b cm =
    Ok (mkbuf (firstn (Z.to_nat (bcur b)) (btext b) ++ NL :: m ++ skipn (Z.to_nat (bcur b)) (btext b))
              (bcur b + 1 + len m)) [] /\
    forallb is_space m = true /\ mem_Z NL m = false /\ (cm = false -> m = []).
Proof. exact newline_spec'. Qed.
Print Assumptions C01_newline.

(* line-join replaces only the line ending after the current line and the
   blanks following it by the separator. *)
Theorem C01_join_next_line : forall b sep pre line r,
  Inv b -> line_split b pre line (NL :: r) -> on_last_line (bdoc b) = false ->
  exists c',
    join_next_line b sep = Ok (mkbuf (pre ++ line ++ sep ++ lstrip_by (Z.eqb SP) r) c') [] /\
    0 <= c'.
Proof. exact join_next_line_spec. Qed.
Print Assumptions C01_join_next_line.

(* The same without the "not on the last line" hypothesis: it follows from the
   shape of the text (the bisect-table row of the cursor is the number of
   line endings before it - C02's coordinate theorem). *)
Theorem C01_join_next_line_full : forall b sep pre line r,
  Inv b -> line_split b pre line (NL :: r) ->
  exists c',
    join_next_line b sep = Ok (mkbuf (pre ++ line ++ sep ++ lstrip_by (Z.eqb SP) r) c') [] /\
    0 <= c'.
Proof. exact join_next_line_spec'. Qed.
Print Assumptions C01_join_next_line_full.

Theorem C01_join_on_last_line : forall b sep,
  on_last_line (bdoc b) = true -> join_next_line b sep = Ok b [].
Proof. exact join_next_line_last. Qed.
Print Assumptions C01_join_on_last_line.

(* insert_line_above / insert_line_below add exactly one line holding only the
   (optional) margin of blanks; every other character is kept, in place; the
   cursor ends on the new line behind the margin. *)
Theorem C01_insert_line_above : forall b cm pre line post,
  Inv b -> line_split b pre line post ->
  exists m,
    insert_line_above b cm = Ok (mkbuf (pre ++ m ++ NL :: line ++ post) (len pre + len m)) [] /\
    forallb is_space m = true /\ mem_Z NL m = false /\ (cm = false -> m = []).
Proof. exact insert_line_above_spec. Qed.
Print Assumptions C01_insert_line_above.

Theorem C01_insert_line_below : forall b cm pre line post,
  Inv b -> line_split b pre line post ->
  exists m,
    insert_line_below b cm =
    Ok (mkbuf (pre ++ line ++ NL :: m ++ post) (len pre + len line + 1 + len m)) [] /\
    forallb is_space m = true /\ mem_Z NL m = false /\ (cm = false -> m = []).
Proof. exact insert_line_below_spec. Qed.
Print Assumptions C01_insert_line_below.

(* indent / unindent (and every other row transform): rows a..b-1 (clipped to
   the line count) are transformed, every other line is kept in place. *)
Theorem C01_transform_lines : forall F text a b,
  0 <= a -> a <= b ->
  let ls := split_on NL text in
  let e := Z.min b (len ls) in
  a <= e ->
  transform_lines F text a b =
  join [NL] (firstn (Z.to_nat a) ls
             ++ map F (firstn (Z.to_nat (e - a)) (skipn (Z.to_nat a) ls))
             ++ skipn (Z.to_nat e) ls).
Proof. exact transform_lines_spec. Qed.
Print Assumptions C01_transform_lines.

Theorem C01_indent_text : forall b a e c b' r,
  indent b a e c = Ok b' r ->
  btext b' = transform_lines (fun l => str_mul INDENT c ++ l) (btext b) a e.
Proof. exact indent_text. Qed.
Print Assumptions C01_indent_text.

Theorem C01_unindent_text : forall b a e c b' r,
  unindent b a e c = Ok b' r ->
  btext b' = transform_lines (unindent_line (str_mul INDENT c)) (btext b) a e.
Proof. exact unindent_text. Qed.
Print Assumptions C01_unindent_text.

(* indent / unindent never fail, so the two statements above are about every
   call: unconditionally, the text after the call is the row transform. *)
Theorem C01_indent_total : forall b a e c,
  (exists b' r, indent b a e c = Ok b' r) /\
  btext (res_buf (indent b a e c)) = transform_lines (fun l => str_mul INDENT c ++ l) (btext b) a e.
Proof. intros; split; [apply indent_ok|apply indent_total]. Qed.
Print Assumptions C01_indent_total.

Theorem C01_unindent_total : forall b a e c,
  (exists b' r, unindent b a e c = Ok b' r) /\
  btext (res_buf (unindent b a e c)) =
  transform_lines (unindent_line (str_mul INDENT c)) (btext b) a e.
Proof. intros; split; [apply unindent_ok|apply unindent_total]. Qed.
Print Assumptions C01_unindent_total.

(* Case transforms (uppercase-word, downcase-word, capitalize-word): one
   application replaces a span of n characters directly after the cursor by its
   image under the case map F and puts the cursor behind it; nothing else
   changes - for every F (length-changing maps included), wherever line
   endings are.  (At the pinned commit the command used overwrite-mode insert
   and duplicated the next line's word at the end of a line: finding repaired
   in /repo, see C01_case_word_pinned_refuted.) *)
Theorem C01_case_word : forall F b,
  Inv b ->
  exists n,
    0 <= n <= len (btext b) - bcur b /\
    let before := firstn (Z.to_nat (bcur b)) (btext b) in
    let after := skipn (Z.to_nat (bcur b)) (btext b) in
    case_word1 F b =
    Ok (mkbuf (before ++ F (firstn (Z.to_nat n) after) ++ skipn (Z.to_nat n) after)
              (bcur b + len (F (firstn (Z.to_nat n) after)))) [].
Proof. exact case_word1_spec. Qed.
Print Assumptions C01_case_word.

Theorem C01_case_word_pinned_refuted :
  exists b, Inv b /\
    case_word1_pinned (case_F 0) b = Ok (mkbuf [97; 10; 66; 10; 98] 3) [] /\
    btext b = [97; 10; 98].
Proof. exact case_word1_pinned_refuted. Qed.
Print Assumptions C01_case_word_pinned_refuted.

(* The command with its repeat count: the text before the cursor and a suffix
   of the text after it are kept; the n characters in between are cut into
   consecutive pieces and each piece is replaced by its F-image; the cursor
   ends behind the replacement. *)
Theorem C01_case_word_count : forall F b arg,
  Inv b ->
  exists n pieces b',
    case_word F b arg = Ok b' [] /\
    0 <= n <= len (btext b) - bcur b /\
    concat pieces = firstn (Z.to_nat n) (skipn (Z.to_nat (bcur b)) (btext b)) /\
    btext b' = firstn (Z.to_nat (bcur b)) (btext b) ++ concat (map F pieces)
               ++ skipn (Z.to_nat (bcur b + n)) (btext b) /\
    bcur b' = bcur b + len (concat (map F pieces)).
Proof. exact case_word_spec. Qed.
Print Assumptions C01_case_word_count.

(* The readline commands that forward the numeric argument, reduced to the
   buffer operations above (the handlers return None: drop_ret). *)
Theorem C01_delete_char : forall b arg,
  delete_char b arg = drop_ret (delete b arg) /\ (Inv b -> arg <= 0 -> delete_char b arg = Ok b []).
Proof. intros; split; [apply delete_char_is_delete|apply delete_char_negative]. Qed.
Print Assumptions C01_delete_char.

Theorem C01_backward_delete_char : forall b arg,
  (0 <= arg -> backward_delete_char b arg = drop_ret (delete_before_cursor b arg)) /\
  (arg < 0 -> backward_delete_char b arg = drop_ret (delete b (- arg))).
Proof. intros; split; [apply backward_delete_char_nonneg|apply backward_delete_char_neg]. Qed.
Print Assumptions C01_backward_delete_char.

Theorem C01_self_insert : forall b data arg,
  Inv b ->
  self_insert b data arg =
  Ok (mkbuf (firstn (Z.to_nat (bcur b)) (btext b) ++ str_mul data arg ++ skipn (Z.to_nat (bcur b)) (btext b))
            (bcur b + len (str_mul data arg))) [].
Proof. exact self_insert_is_insert. Qed.
Print Assumptions C01_self_insert.

Theorem C01_transpose_chars_edges : forall b,
  (bcur b = 0 -> transpose_chars b = Ok b []) /\
  (bcur b <> 0 -> bcur b = len (btext b) -> transpose_chars b = swap_characters_before_cursor b).
Proof. intros; split; [apply transpose_at_start|apply transpose_at_end]. Qed.
Print Assumptions C01_transpose_chars_edges.

(* "The text seen through every view of the buffer is the same": the views the
   model has (text before/after the cursor, the lines) reassemble to the text,
   in every state with the invariant - so after every operation and after
   every finite sequence.  (The real Buffer's _working_lines entry and its
   cached Document are compared by the harness oracle only.) *)
Theorem C01_views : forall b,
  Inv b ->
  text_before_cursor (bdoc b) ++ text_after_cursor (bdoc b) = btext b /\
  join [NL] (lines (bdoc b)) = btext b /\
  len (text_before_cursor (bdoc b)) = bcur b.
Proof. exact views_agree. Qed.
Print Assumptions C01_views.

Theorem C01_views_after_history : forall ops b,
  Inv b -> let b' := steps b ops in
  text_before_cursor (bdoc b') ++ text_after_cursor (bdoc b') = btext b' /\
  join [NL] (lines (bdoc b')) = btext b'.
Proof. exact views_after_history. Qed.
Print Assumptions C01_views_after_history.

(* ---- Round 6 ---------------------------------------------------------- *)
(* transpose-chars at EVERY position.  Away from the edges (a character that
   is not a line ending under the cursor, one before it): the two characters
   around the cursor are exchanged and the cursor steps over them. *)
Theorem C01_transpose_chars : forall b x y,
  Inv b -> 0 < bcur b ->
  nth_error (btext b) (Z.to_nat (bcur b - 1)) = Some x ->
  nth_error (btext b) (Z.to_nat (bcur b)) = Some y -> y <> NL ->
  transpose_chars b =
  Ok (mkbuf (firstn (Z.to_nat (bcur b - 1)) (btext b) ++ [y; x]
             ++ skipn (Z.to_nat (bcur b + 1)) (btext b)) (bcur b + 1)) [].
Proof. exact transpose_interior. Qed.
Print Assumptions C01_transpose_chars.

(* At the end of the text or of a line: the two characters before the cursor
   are exchanged and the cursor stays ... *)
Theorem C01_transpose_chars_eol : forall b x y,
  Inv b -> 2 <= bcur b ->
  (bcur b = len (btext b) \/ nth_error (btext b) (Z.to_nat (bcur b)) = Some NL) ->
  nth_error (btext b) (Z.to_nat (bcur b - 2)) = Some x ->
  nth_error (btext b) (Z.to_nat (bcur b - 1)) = Some y ->
  transpose_chars b =
  Ok (mkbuf (firstn (Z.to_nat (bcur b - 2)) (btext b) ++ [y; x]
             ++ skipn (Z.to_nat (bcur b)) (btext b)) (bcur b)) [].
Proof. exact transpose_eol. Qed.
Print Assumptions C01_transpose_chars_eol.

(* ... and with a single character before the cursor nothing happens. *)
Theorem C01_transpose_chars_eol_one : forall b,
  bcur b = 1 ->
  (bcur b = len (btext b) \/ nth_error (btext b) (Z.to_nat (bcur b)) = Some NL) ->
  transpose_chars b = Ok b [].
Proof. exact transpose_eol_one. Qed.
Print Assumptions C01_transpose_chars_eol_one.

(* join_selected_lines, every selection inside the text: never fails; the
   text outside the selection is kept; the selection is replaced by its lines
   (str.splitlines), each without its leading blanks and followed by the
   separator; the cursor goes to the character before the last joined line
   (clamped at 0 - the only caller of the max(0, ..) of _set_cursor_position). *)
Theorem C01_join_selected_lines : forall b orig sep,
  Inv b -> 0 <= orig <= len (btext b) ->
  let a := Z.min (bcur b) orig in
  let e := Z.max (bcur b) orig in
  let ls := map (fun l => lstrip_by (Z.eqb SP) l ++ sep)
                (splitlines (firstn (Z.to_nat (e - a)) (skipn (Z.to_nat a) (btext b)))) in
  join_selected_lines b orig sep =
  Ok (mkbuf (firstn (Z.to_nat a) (btext b) ++ concat ls ++ skipn (Z.to_nat e) (btext b))
            (Z.max 0 (a + len (concat (removelast ls)) - 1))) [].
Proof. exact join_selected_lines_spec. Qed.
Print Assumptions C01_join_selected_lines.

(* What splitlines keeps of the selection: every character that is not a
   line boundary, in order; and no line holds a boundary. *)
Theorem C01_splitlines_chars : forall s,
  concat (splitlines s) = filter not_linebreak s /\
  forallb (forallb not_linebreak) (splitlines s) = true.
Proof. intros; split; [apply splitlines_chars|apply splitlines_lines]. Qed.
Print Assumptions C01_splitlines_chars.

(* The buffer as the object stores it (Model/C01_Views.v): working lines,
   working index, cursor, the FastDictCache behind Buffer.document and the
   per-text line cache of Document.  [WInv]: index and cursor in range, every
   cache entry is the Document / line list of the key it is filed under, at
   most size+1 cached Documents.  A fresh Buffer satisfies it; every
   operation (edits, case commands, go_to_history) keeps it; so does every
   finite sequence. *)
Theorem C01_stored_initial : forall ls i c,
  0 <= i < len ls -> 0 <= c <= len (w_text (mkw ls i c [] [] [])) -> WInv (mkw ls i c [] [] []).
Proof. exact winv_initial. Qed.
Print Assumptions C01_stored_initial.

Theorem C01_stored_inv : forall w o, WInv w -> WInv (snd (wstep w o)).
Proof. exact wstep_inv. Qed.
Print Assumptions C01_stored_inv.

Theorem C01_stored_history_inv : forall ops w, WInv w -> WInv (wsteps w ops).
Proof. exact wsteps_inv. Qed.
Print Assumptions C01_stored_history_inv.

(* Refinement: what the stored state shows after an edit is exactly the
   (text, cursor) the theorems above are about. *)
Theorem C01_stored_refines : forall w x,
  WInv w -> w_abs (snd (wstep w (WX x))) = res_buf (xstep (w_abs w) x).
Proof. exact wstep_refines. Qed.
Print Assumptions C01_stored_refines.

(* "... and nothing else": an edit writes the current working line only; the
   other entries, their number and the working index are untouched; moving
   to another entry edits none. *)
Theorem C01_stored_frame : forall w x,
  WInv w ->
  let w' := snd (wstep w (WX x)) in
  widx w' = widx w /\ len (wlines w') = len (wlines w) /\
  forall j, 0 <= j < len (wlines w) -> j <> widx w -> index (wlines w') j = index (wlines w) j.
Proof. exact wstep_frame. Qed.
Print Assumptions C01_stored_frame.

Theorem C01_goto_frame : forall w i,
  wlines (snd (wstep w (WGoto i))) = wlines w /\
  widx (snd (wstep w (WGoto i))) = if (0 <=? i) && (i <? len (wlines w)) then i else widx w.
Proof. intros; split; [apply w_goto_frame|apply w_goto_index]. Qed.
Print Assumptions C01_goto_frame.

(* "The text seen through every view of the buffer is the same", for the
   views of the real object: the Document handed out by the cache has the
   text of the current working line and the buffer's cursor, its cached lines
   joined give that text, before + after the cursor give that text - in every
   invariant state; looking does not change text, index or cursor. *)
Theorem C01_views_stored : forall w,
  WInv w ->
  let '((d, ls, ix), w') := w_observe w in
  d = mkdoc (w_text w) (wcur w) /\ ls = split_on NL (w_text w) /\
  ix = line_start_indexes (mkdoc (w_text w) (wcur w)) /\
  join [NL] ls = w_text w /\
  text_before_cursor d ++ text_after_cursor d = w_text w /\
  wlines w' = wlines w /\ widx w' = widx w /\ wcur w' = wcur w /\ WInv w'.
Proof. exact w_observe_views. Qed.
Print Assumptions C01_views_stored.

Theorem C01_views_stored_after_history : forall ops w,
  WInv w ->
  let w1 := wsteps w ops in
  let '((d, ls, ix), _) := w_observe w1 in
  dtext d = w_text w1 /\ dcur d = wcur w1 /\ join [NL] ls = w_text w1 /\
  ix = line_start_indexes (mkdoc (w_text w1) (wcur w1)) /\
  text_before_cursor d ++ text_after_cursor d = w_text w1 /\
  0 <= wcur w1 <= len (w_text w1).
Proof. exact w_views_after_history. Qed.
Print Assumptions C01_views_stored_after_history.

(* The case maps the correspondence runs (str.upper / lower / title) come from
   a table regenerated from the CPython under /repo on every run; finite facts
   re-proved over it: keys strictly increasing (the early-exit lookup is
   membership), every image 1..3 code points, the ASCII part is the usual one,
   the cased / case-ignorable ranges are sorted and disjoint. *)
Theorem C01_casemap_table : 
  strictly_increasing (map fst c01_case_table) = true /\
  (forall c v, case_lookup c = Some v <-> In (c, v) c01_case_table) /\
  (forall c u l t, In (c, (u, (l, t))) c01_case_table ->
     1 <= len u <= 3 /\ 1 <= len l <= 3 /\ 1 <= len t <= 3) /\
  (forall c, 0 <= c < 128 -> ascii_case_ok c = true) /\
  ranges_ok (-1) c01_cased_ranges = true /\ ranges_ok (-1) c01_case_ignorable_ranges = true.
Proof.
  exact (conj case_table_sorted (conj case_lookup_iff (conj case_table_image_lengths
         (conj ascii_case (conj cased_ranges_sorted case_ignorable_ranges_sorted))))).
Qed.
Print Assumptions C01_casemap_table.

Theorem C01_casemap_examples :
  py_upper [223] = [83; 83] /\ py_lower [913; 931] = [945; 962] /\
  py_lower [913; 931; 913] = [945; 963; 945].
Proof. exact (conj upper_sharp_s (conj lower_final_sigma lower_medial_sigma)). Qed.
Print Assumptions C01_casemap_examples.

(* ---- Round 7 ---------------------------------------------------------- *)
(* The copied margin is EXACTLY the leading blanks of the cursor's line: the
   maximal prefix of blanks (the whole line when it is all blanks). *)
Theorem C01_margin_exact : forall b pre line post,
  line_split b pre line post ->
  let m := leading_whitespace_in_current_line (bdoc b) in
  line = m ++ lstrip_by is_space line /\ forallb is_space m = true /\
  (lstrip_by is_space line = [] \/
   exists x r, lstrip_by is_space line = x :: r /\ is_space x = false).
Proof. exact margin_exact. Qed.
Print Assumptions C01_margin_exact.

(* [margin b cm]: that margin with copy_margin, nothing without. *)
Theorem C01_newline_exact : forall b cm,
  Inv b ->
  newline b cm =
  Ok (mkbuf (firstn (Z.to_nat (bcur b)) (btext b) ++ NL :: margin b cm
             ++ skipn (Z.to_nat (bcur b)) (btext b))
            (bcur b + 1 + len (margin b cm))) [].
Proof. exact newline_exact. Qed.
Print Assumptions C01_newline_exact.

Theorem C01_insert_line_above_exact : forall b cm pre line post,
  Inv b -> line_split b pre line post ->
  insert_line_above b cm =
  Ok (mkbuf (pre ++ margin b cm ++ NL :: line ++ post) (len pre + len (margin b cm))) [].
Proof. exact insert_line_above_exact. Qed.
Print Assumptions C01_insert_line_above_exact.

Theorem C01_insert_line_below_exact : forall b cm pre line post,
  Inv b -> line_split b pre line post ->
  insert_line_below b cm =
  Ok (mkbuf (pre ++ line ++ NL :: margin b cm ++ post)
            (len pre + len line + 1 + len (margin b cm))) [].
Proof. exact insert_line_below_exact. Qed.
Print Assumptions C01_insert_line_below_exact.

(* reshape_text (Vi gq): the lines with their boundaries (str.splitlines(True),
   every boundary) reassemble to the text; the rows before from_row and after
   to_row are untouched; the call never fails; the addressed rows are replaced
   by a text ending in one line ending and the cursor ends behind it; an empty
   row range changes nothing. *)
Theorem C01_reshape_lossless : forall s, concat (splitlines_keepends s) = s.
Proof. exact splitlines_keepends_concat. Qed.
Print Assumptions C01_reshape_lossless.

Theorem C01_reshape_frame : forall b a e tw,
  0 <= a -> a <= e ->
  let ls := splitlines_keepends (btext b) in
  let before := firstn (Z.to_nat a) ls in
  let mid := firstn (Z.to_nat (e + 1 - a)) (skipn (Z.to_nat a) ls) in
  let after := skipn (Z.to_nat (e + 1)) ls in
  btext b = concat before ++ concat mid ++ concat after /\
  (mid = [] -> reshape_text_w b a e tw = Ok b []) /\
  (mid <> [] -> exists R,
     reshape_text_w b a e tw =
       Ok (mkbuf (concat before ++ R ++ concat after) (len (concat before ++ R))) [] /\
     exists R0, R = R0 ++ [NL]).
Proof. exact reshape_frame. Qed.
Print Assumptions C01_reshape_frame.

(* The invariant for the extended operation set (BufferEdit's operations plus
   the case commands with any repeat count) and every finite sequence. *)
Theorem C01_xstep_inv : forall b x, Inv b -> Inv (res_buf (xstep b x)).
Proof. exact xstep_inv. Qed.
Print Assumptions C01_xstep_inv.

Theorem C01_xhistory_inv : forall ops b, Inv b -> Inv (xsteps b ops).
Proof. exact xsteps_inv. Qed.
Print Assumptions C01_xhistory_inv.

(* After every edit - any operation of the model, any arguments (negative and
   oversized counts included), exceptions included - the cursor is within
   0..len(text); and so after every finite sequence of them. *)
Theorem C01_step_inv : forall b o, Inv b -> Inv (res_buf (step b o)).
Proof. exact step_inv. Qed.
Print Assumptions C01_step_inv.

Theorem C01_history_inv : forall ops b, Inv b -> Inv (steps b ops).
Proof. exact steps_inv. Qed.
Print Assumptions C01_history_inv.

(* Non-vacuity: a concrete non-trivial state meets the hypotheses. *)
Example C01_inv_holds_somewhere : Inv (mkbuf [97; 10; 30028; 98] 2).
Proof. unfold Inv; cbn; split; discriminate. Qed.
Print Assumptions C01_inv_holds_somewhere.
