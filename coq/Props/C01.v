(* C01 - Basic buffer edits change exactly the addressed text and nothing else.
   Statements only; proofs are in Proofs/BufferEditFacts.v.  [Inv b] is
   0 <= cursor <= len(text).  A buffer is (text, cursor); positions are code
   point indices; firstn/skipn are the mathematical prefix/suffix. *)
From Coq Require Import ZArith List Bool.
From PTK Require Import Lib.Sx Lib.Py Model.Document Model.BufferEdit Proofs.BufferEditFacts
  Proofs.BufferEditLines Proofs.BufferEditIndent Model.C02_DocQueries Model.C01_CaseWord
  Proofs.C01_CaseWordFacts Proofs.C01_LastLine Proofs.C01_Audit.
Import ListNotations.
Open Scope Z_scope.

(* Inserting a string at the cursor yields before + string + after. *)
Theorem C01_insert : forall b data mv,
  Inv b ->
  insert_text b data false mv =
  Ok (mkbuf (firstn (Z.to_nat (bcur b)) (btext b) ++ data ++ skipn (Z.to_nat (bcur b)) (btext b))
            (if mv then bcur b + len data else bcur b)) [].
Proof. exact insert_text_spec. Qed.
Print Assumptions C01_insert.

(* Overwrite mode replaces k characters with k <= len(data), none of them a
   line ending. *)
Theorem C01_overwrite : forall b data,
  Inv b ->
  exists k,
    0 <= k <= len data /\ bcur b + k <= len (btext b) /\
    mem_Z NL (firstn (Z.to_nat k) (skipn (Z.to_nat (bcur b)) (btext b))) = false /\
    insert_text b data true true =
    Ok (mkbuf (firstn (Z.to_nat (bcur b)) (btext b) ++ data
               ++ skipn (Z.to_nat (bcur b + k)) (btext b))
              (bcur b + len data)) [].
Proof. exact insert_overwrite_spec. Qed.
Print Assumptions C01_overwrite.

(* ... the same with or without moving the cursor. *)
Theorem C01_overwrite_any_move : forall b data mv,
  Inv b ->
  exists k,
    0 <= k <= len data /\ bcur b + k <= len (btext b) /\
    mem_Z NL (firstn (Z.to_nat k) (skipn (Z.to_nat (bcur b)) (btext b))) = false /\
    insert_text b data true mv =
    Ok (mkbuf (firstn (Z.to_nat (bcur b)) (btext b) ++ data
               ++ skipn (Z.to_nat (bcur b + k)) (btext b))
              (if mv then bcur b + len data else bcur b)) [].
Proof. exact insert_overwrite_spec_mv. Qed.
Print Assumptions C01_overwrite_any_move.

(* Deleting n characters before the cursor removes exactly the min(n, cursor)
   characters adjacent to the cursor and returns exactly those. *)
Theorem C01_delete_before : forall b n,
  Inv b -> 0 <= n ->
  let k := Z.min n (bcur b) in
  delete_before_cursor b n =
  Ok (mkbuf (firstn (Z.to_nat (bcur b - k)) (btext b) ++ skipn (Z.to_nat (bcur b)) (btext b))
            (bcur b - k))
     (firstn (Z.to_nat k) (skipn (Z.to_nat (bcur b - k)) (btext b))).
Proof. exact delete_before_cursor_spec. Qed.
Print Assumptions C01_delete_before.

(* ... which the function as it stood at the pinned commit did not satisfy
   (finding F1, repaired in /repo by a fix: commit). *)
Theorem C01_delete_before_pinned_refuted :
  exists b n, Inv b /\ 0 <= n /\
    delete_before_cursor_pinned b n <>
    (let k := Z.min n (bcur b) in
     Ok (mkbuf (firstn (Z.to_nat (bcur b - k)) (btext b) ++ skipn (Z.to_nat (bcur b)) (btext b))
               (bcur b - k))
        (firstn (Z.to_nat k) (skipn (Z.to_nat (bcur b - k)) (btext b)))).
Proof. exact delete_before_cursor_pinned_refuted. Qed.
Print Assumptions C01_delete_before_pinned_refuted.

(* Deleting n characters after the cursor. *)
Theorem C01_delete : forall b n,
  Inv b -> 0 <= n ->
  let k := Z.min n (len (btext b) - bcur b) in
  delete b n =
  Ok (mkbuf (firstn (Z.to_nat (bcur b)) (btext b) ++ skipn (Z.to_nat (bcur b + k)) (btext b))
            (bcur b))
     (firstn (Z.to_nat k) (skipn (Z.to_nat (bcur b)) (btext b))).
Proof. exact delete_spec. Qed.
Print Assumptions C01_delete.

(* ... for EVERY count: a count below zero deletes nothing (the repaired
   Buffer.delete clamps it; delete_before_cursor rejects one by assertion). *)
Theorem C01_delete_any_count : forall b n,
  Inv b ->
  let k := Z.min (Z.max 0 n) (len (btext b) - bcur b) in
  delete b n =
  Ok (mkbuf (firstn (Z.to_nat (bcur b)) (btext b) ++ skipn (Z.to_nat (bcur b + k)) (btext b))
            (bcur b))
     (firstn (Z.to_nat k) (skipn (Z.to_nat (bcur b)) (btext b))).
Proof. exact delete_spec_any. Qed.
Print Assumptions C01_delete_any_count.

Theorem C01_delete_nonpositive : forall b n, Inv b -> n <= 0 -> delete b n = Ok b [].
Proof. exact delete_negative. Qed.
Print Assumptions C01_delete_nonpositive.

(* Before the repair a negative count was a slice relative to the END of the
   text: ('abcdef', cursor 1).delete(-1) removed 'bcde' (reachable from the
   keyboard as Esc - C-d). *)
Theorem C01_delete_pinned_refuted :
  exists b n, Inv b /\ delete_pinned b n = Ok (mkbuf [97;102] 1) [98;99;100;101] /\
              btext b = [97;98;99;100;101;102].
Proof. exact delete_pinned_refuted. Qed.
Print Assumptions C01_delete_pinned_refuted.

(* Character swap alters only the two characters before the cursor. *)
Theorem C01_swap : forall b x y,
  Inv b -> 2 <= bcur b ->
  nth_error (btext b) (Z.to_nat (bcur b - 2)) = Some x ->
  nth_error (btext b) (Z.to_nat (bcur b - 1)) = Some y ->
  swap_characters_before_cursor b =
  Ok (mkbuf (firstn (Z.to_nat (bcur b - 2)) (btext b) ++ [y; x] ++ skipn (Z.to_nat (bcur b)) (btext b))
            (bcur b)) [].
Proof. exact swap_spec. Qed.
Print Assumptions C01_swap.

(* A region transform alters only the region, whatever the callback F. *)
Theorem C01_transform_region : forall F b a e,
  Inv b -> 0 <= a -> a < e -> e <= len (btext b) ->
  exists c',
  transform_region F b a e =
  Ok (mkbuf (firstn (Z.to_nat a) (btext b)
             ++ F (firstn (Z.to_nat (e - a)) (skipn (Z.to_nat a) (btext b)))
             ++ skipn (Z.to_nat e) (btext b)) c') [] /\ 0 <= c'.
Proof. exact transform_region_spec. Qed.
Print Assumptions C01_transform_region.

(* [line_split b pre line post]: text = pre ++ line ++ post where line is the
   cursor's line (no line ending in it, pre empty or ending in one, post empty
   or starting with one).  Every Inv state has such a decomposition. *)
Theorem C01_current_line_split : forall b,
  Inv b -> exists pre line post, line_split b pre line post.
Proof. exact current_line_split. Qed.
Print Assumptions C01_current_line_split.

(* A current-line transform (the case transforms of the editor are instances)
   alters only the current line, whatever the callback F. *)
Theorem C01_transform_current_line : forall F b pre line post,
  Inv b -> line_split b pre line post ->
  exists c', transform_current_line F b = Ok (mkbuf (pre ++ F line ++ post) c') [] /\ 0 <= c'.
Proof. exact transform_current_line_spec. Qed.
Print Assumptions C01_transform_current_line.

(* newline inserts a line ending plus (optionally) a margin of blanks - which
   holds no line ending itself - at the cursor and nothing else. *)
Theorem C01_newline : forall b cm,
  Inv b ->
  exists m,
    newline b cm =
    Ok (mkbuf (firstn (Z.to_nat (bcur b)) (btext b) ++ NL :: m ++ skipn (Z.to_nat (bcur b)) (btext b))
              (bcur b + 1 + len m)) [] /\
    forallb is_space m = true /\ mem_Z NL m = false /\ (cm = false -> m = []).
Proof. exact newline_spec'. Qed.
Print Assumptions C01_newline.

(* line-join replaces only the line ending after the current line and the
   blanks following it by the separator. *)
Theorem C01_join_next_line : forall b sep pre line r,
  Inv b -> line_split b pre line (NL :: r) -> on_last_line (bdoc b) = false ->
  exists c',
    join_next_line b sep = Ok (mkbuf (pre ++ line ++ sep ++ lstrip_by (Z.eqb SP) r) c') [] /\
    0 <= c'.
Proof. exact join_next_line_spec. Qed.
Print Assumptions C01_join_next_line.

(* The same without the "not on the last line" hypothesis: it follows from the
   shape of the text (the bisect-table row of the cursor is the number of
   line endings before it - C02's coordinate theorem). *)
Theorem C01_join_next_line_full : forall b sep pre line r,
  Inv b -> line_split b pre line (NL :: r) ->
  exists c',
    join_next_line b sep = Ok (mkbuf (pre ++ line ++ sep ++ lstrip_by (Z.eqb SP) r) c') [] /\
    0 <= c'.
Proof. exact join_next_line_spec'. Qed.
Print Assumptions C01_join_next_line_full.

Theorem C01_join_on_last_line : forall b sep,
  on_last_line (bdoc b) = true -> join_next_line b sep = Ok b [].
Proof. exact join_next_line_last. Qed.
Print Assumptions C01_join_on_last_line.

(* insert_line_above / insert_line_below add exactly one line holding only the
   (optional) margin of blanks; every other character is kept, in place; the
   cursor ends on the new line behind the margin. *)
Theorem C01_insert_line_above : forall b cm pre line post,
  Inv b -> line_split b pre line post ->
  exists m,
    insert_line_above b cm = Ok (mkbuf (pre ++ m ++ NL :: line ++ post) (len pre + len m)) [] /\
    forallb is_space m = true /\ mem_Z NL m = false /\ (cm = false -> m = []).
Proof. exact insert_line_above_spec. Qed.
Print Assumptions C01_insert_line_above.

Theorem C01_insert_line_below : forall b cm pre line post,
  Inv b -> line_split b pre line post ->
  exists m,
    insert_line_below b cm =
    Ok (mkbuf (pre ++ line ++ NL :: m ++ post) (len pre + len line + 1 + len m)) [] /\
    forallb is_space m = true /\ mem_Z NL m = false /\ (cm = false -> m = []).
Proof. exact insert_line_below_spec. Qed.
Print Assumptions C01_insert_line_below.

(* indent / unindent (and every other row transform): rows a..b-1 (clipped to
   the line count) are transformed, every other line is kept in place. *)
Theorem C01_transform_lines : forall F text a b,
  0 <= a -> a <= b ->
  let ls := split_on NL text in
  let e := Z.min b (len ls) in
  a <= e ->
  transform_lines F text a b =
  join [NL] (firstn (Z.to_nat a) ls
             ++ map F (firstn (Z.to_nat (e - a)) (skipn (Z.to_nat a) ls))
             ++ skipn (Z.to_nat e) ls).
Proof. exact transform_lines_spec. Qed.
Print Assumptions C01_transform_lines.

Theorem C01_indent_text : forall b a e c b' r,
  indent b a e c = Ok b' r ->
  btext b' = transform_lines (fun l => str_mul INDENT c ++ l) (btext b) a e.
Proof. exact indent_text. Qed.
Print Assumptions C01_indent_text.

Theorem C01_unindent_text : forall b a e c b' r,
  unindent b a e c = Ok b' r ->
  btext b' = transform_lines (unindent_line (str_mul INDENT c)) (btext b) a e.
Proof. exact unindent_text. Qed.
Print Assumptions C01_unindent_text.

(* indent / unindent never fail, so the two statements above are about every
   call: unconditionally, the text after the call is the row transform. *)
Theorem C01_indent_total : forall b a e c,
  (exists b' r, indent b a e c = Ok b' r) /\
  btext (res_buf (indent b a e c)) = transform_lines (fun l => str_mul INDENT c ++ l) (btext b) a e.
Proof. intros; split; [apply indent_ok|apply indent_total]. Qed.
Print Assumptions C01_indent_total.

Theorem C01_unindent_total : forall b a e c,
  (exists b' r, unindent b a e c = Ok b' r) /\
  btext (res_buf (unindent b a e c)) =
  transform_lines (unindent_line (str_mul INDENT c)) (btext b) a e.
Proof. intros; split; [apply unindent_ok|apply unindent_total]. Qed.
Print Assumptions C01_unindent_total.

(* Case transforms (uppercase-word, downcase-word, capitalize-word): one
   application replaces a span of n characters directly after the cursor by its
   image under the case map F and puts the cursor behind it; nothing else
   changes - for every F (length-changing maps included), wherever line
   endings are.  (At the pinned commit the command used overwrite-mode insert
   and duplicated the next line's word at the end of a line: finding repaired
   in /repo, see C01_case_word_pinned_refuted.) *)
Theorem C01_case_word : forall F b,
  Inv b ->
  exists n,
    0 <= n <= len (btext b) - bcur b /\
    let before := firstn (Z.to_nat (bcur b)) (btext b) in
    let after := skipn (Z.to_nat (bcur b)) (btext b) in
    case_word1 F b =
    Ok (mkbuf (before ++ F (firstn (Z.to_nat n) after) ++ skipn (Z.to_nat n) after)
              (bcur b + len (F (firstn (Z.to_nat n) after)))) [].
Proof. exact case_word1_spec. Qed.
Print Assumptions C01_case_word.

Theorem C01_case_word_pinned_refuted :
  exists b, Inv b /\
    case_word1_pinned (case_F 0) b = Ok (mkbuf [97; 10; 66; 10; 98] 3) [] /\
    btext b = [97; 10; 98].
Proof. exact case_word1_pinned_refuted. Qed.
Print Assumptions C01_case_word_pinned_refuted.

(* The command with its repeat count: the text before the cursor and a suffix
   of the text after it are kept; the n characters in between are cut into
   consecutive pieces and each piece is replaced by its F-image; the cursor
   ends behind the replacement. *)
Theorem C01_case_word_count : forall F b arg,
  Inv b ->
  exists n pieces b',
    case_word F b arg = Ok b' [] /\
    0 <= n <= len (btext b) - bcur b /\
    concat pieces = firstn (Z.to_nat n) (skipn (Z.to_nat (bcur b)) (btext b)) /\
    btext b' = firstn (Z.to_nat (bcur b)) (btext b) ++ concat (map F pieces)
               ++ skipn (Z.to_nat (bcur b + n)) (btext b) /\
    bcur b' = bcur b + len (concat (map F pieces)).
Proof. exact case_word_spec. Qed.
Print Assumptions C01_case_word_count.

(* The readline commands that forward the numeric argument, reduced to the
   buffer operations above (the handlers return None: drop_ret). *)
Theorem C01_delete_char : forall b arg,
  delete_char b arg = drop_ret (delete b arg) /\ (Inv b -> arg <= 0 -> delete_char b arg = Ok b []).
Proof. intros; split; [apply delete_char_is_delete|apply delete_char_negative]. Qed.
Print Assumptions C01_delete_char.

Theorem C01_backward_delete_char : forall b arg,
  (0 <= arg -> backward_delete_char b arg = drop_ret (delete_before_cursor b arg)) /\
  (arg < 0 -> backward_delete_char b arg = drop_ret (delete b (- arg))).
Proof. intros; split; [apply backward_delete_char_nonneg|apply backward_delete_char_neg]. Qed.
Print Assumptions C01_backward_delete_char.

Theorem C01_self_insert : forall b data arg,
  Inv b ->
  self_insert b data arg =
  Ok (mkbuf (firstn (Z.to_nat (bcur b)) (btext b) ++ str_mul data arg ++ skipn (Z.to_nat (bcur b)) (btext b))
            (bcur b + len (str_mul data arg))) [].
Proof. exact self_insert_is_insert. Qed.
Print Assumptions C01_self_insert.

Theorem C01_transpose_chars_edges : forall b,
  (bcur b = 0 -> transpose_chars b = Ok b []) /\
  (bcur b <> 0 -> bcur b = len (btext b) -> transpose_chars b = swap_characters_before_cursor b).
Proof. intros; split; [apply transpose_at_start|apply transpose_at_end]. Qed.
Print Assumptions C01_transpose_chars_edges.

(* "The text seen through every view of the buffer is the same": the views the
   model has (text before/after the cursor, the lines) reassemble to the text,
   in every state with the invariant - so after every operation and after
   every finite sequence.  (The real Buffer's _working_lines entry and its
   cached Document are compared by the harness oracle only.) *)
Theorem C01_views : forall b,
  Inv b ->
  text_before_cursor (bdoc b) ++ text_after_cursor (bdoc b) = btext b /\
  join [NL] (lines (bdoc b)) = btext b /\
  len (text_before_cursor (bdoc b)) = bcur b.
Proof. exact views_agree. Qed.
Print Assumptions C01_views.

Theorem C01_views_after_history : forall ops b,
  Inv b -> let b' := steps b ops in
  text_before_cursor (bdoc b') ++ text_after_cursor (bdoc b') = btext b' /\
  join [NL] (lines (bdoc b')) = btext b'.
Proof. exact views_after_history. Qed.
Print Assumptions C01_views_after_history.

(* The invariant for the extended operation set (BufferEdit's operations plus
   the case commands with any repeat count) and every finite sequence. *)
Theorem C01_xstep_inv : forall b x, Inv b -> Inv (res_buf (xstep b x)).
Proof. exact xstep_inv. Qed.
Print Assumptions C01_xstep_inv.

Theorem C01_xhistory_inv : forall ops b, Inv b -> Inv (xsteps b ops).
Proof. exact xsteps_inv. Qed.
Print Assumptions C01_xhistory_inv.

(* After every edit - any operation of the model, any arguments (negative and
   oversized counts included), exceptions included - the cursor is within
   0..len(text); and so after every finite sequence of them. *)
Theorem C01_step_inv : forall b o, Inv b -> Inv (res_buf (step b o)).
Proof. exact step_inv. Qed.
Print Assumptions C01_step_inv.

Theorem C01_history_inv : forall ops b, Inv b -> Inv (steps b ops).
Proof. exact steps_inv. Qed.
Print Assumptions C01_history_inv.

(* Non-vacuity: a concrete non-trivial state meets the hypotheses. *)
Example C01_inv_holds_somewhere : Inv (mkbuf [97; 10; 30028; 98] 2).
Proof. unfold Inv; cbn; split; discriminate. Qed.
Print Assumptions C01_inv_holds_somewhere.
