(* C14 - Browsing history never alters it; accepting appends exactly the
   accepted line.  Statements only; proofs are in Proofs/C14_*.v.

   State [hs] (Model/C14_HistoryNav.v): working lines [wl], working index [wi],
   cursor [cur], history search text [hst], validation state [vst], the History
   object [store] = (_loaded_strings newest first [ls], backend storage oldest
   first [sto], _loaded), the loader task.  [text s] is the displayed entry,
   [get_strings] is what History.get_strings() returns (it loads first).  [step_state c s o] is one
   operation of a session under configuration [c] (validate_while_typing,
   accept handler's keep_text, validator = ANY function text -> cursor ->
   option position), [steps] a finite sequence of them.
   [Inv s] is 0 <= wi < len wl.  [thr (th s) = false]: the History object is an
   InMemoryHistory/FileHistory (everything is loaded by the first population
   step); [= true]: a ThreadedHistory, whose entries arrive from a loader
   thread while the session runs: at the end of ANY operation the Buffer's
   consumer may prepend the entries that arrived ([new], strings of the
   History's loaded list) and shift the index by as many.  The kind never
   changes (C14_history_kind).  Since round 6 the browsing laws below hold for
   EITHER kind (no hypothesis on [thr]); for the base kind they specialise to
   [new = []].  Operation classes:
   is_nav  = history_backward/forward n, go_to_history, auto_up/auto_down n,
             end-of-history, cursor moves, validate, the landing of an
             incremental search (apply_search: index and cursor);
   is_edit = insert_text, delete_before_cursor, delete, text setter;
   is_pop  = one / all remaining asynchronous population steps. *)
From Coq Require Import ZArith List Bool.
From PTK Require Import Lib.Sx Lib.Py Model.Document Model.BufferEdit Lib.C14_Handlers Gen.C14_Handlers Model.C14_HistoryNav
  Proofs.C14_Facts Proofs.C14_Nav Proofs.C14_Accept Proofs.C14_Mixed Proofs.C14_Sessions
  Proofs.C14_Threaded Proofs.C14_Verdict Proofs.C14_AnyKind Proofs.C14_PrefixBF Proofs.C14_Whole Model.C14_Layer Proofs.C14_Yank.
Import ListNotations.
Open Scope Z_scope.

(* Navigation (any counts, any index, with or without prefix search) changes
   neither the History object nor any working line nor the loader: only index,
   cursor, search text and validation state move.  Lifted to every finite
   sequence: edits made to recalled entries are kept while browsing. *)
Theorem C14_browse_pure : forall c ops s,
  Forall is_nav ops ->
  let s' := steps c s ops in
  store s' = store s /\ ehs s' = ehs s /\ th s' = th s /\
  exists new, wl s' = new ++ wl s /\ from_loaded s new /\
    (thr (th s) = false -> new = [] /\ task s' = task s /\ tfin s' = tfin s).
Proof. exact nav_steps_any. Qed.
Print Assumptions C14_browse_pure.

(* An edit changes the working lines only at the working index, and nothing
   of the History object. *)
Theorem C14_edits_kept : forall c s o,
  Inv s -> is_edit o ->
  let s' := step_state c s o in
  store s' = store s /\ th s' = th s /\
  exists new, from_loaded s new /\
    wi s' = wi s + len new /\ length (wl s') = (length new + length (wl s))%nat /\
    (forall j, j <> Z.to_nat (wi s) -> nth_error (wl s') (length new + j) = nth_error (wl s) j) /\
    (thr (th s) = false -> new = [] /\ task s' = task s /\ tfin s' = tfin s).
Proof. exact edit_step_any. Qed.
Print Assumptions C14_edits_kept.

(* ONE statement over arbitrary interleavings of navigation, edits and
   asynchronous population steps.  Entries are addressed from the end of the
   working lines (0 = the new line, 1 = newest history entry, ...; population
   prepends, so these positions are stable).  [touched c s ops] lists the
   positions that were displayed while an edit ran.  Every other entry is the
   same before and after, no entry disappears, the stored history is
   unchanged: edits to recalled entries are kept while browsing and while the
   history is still loading, and nothing else ever changes an entry.
   [browse_opT] = navigation, edits, population steps, load(), steps of the
   ThreadedHistory loader thread; either kind of History object. *)
Theorem C14_edits_kept_mixed : forall c ops s,
  Inv s -> Forall browse_opT ops ->
  (length (wl s) <= length (wl (steps c s ops)))%nat /\
  sto (store (steps c s ops)) = sto (store s) /\
  forall r, (r < length (wl s))%nat -> ~ In r (touched c s ops) ->
            rnth (wl (steps c s ops)) r = rnth (wl s) r.
Proof. exact browse_steps_any. Qed.
Print Assumptions C14_edits_kept_mixed.

(* 0 <= working_index < len(working_lines) in every reachable state. *)
Theorem C14_index_inv : forall c ops s,
  Inv s -> Inv (steps c s ops).
Proof. exact steps_inv. Qed.
Print Assumptions C14_index_inv.

(* Without prefix search, k entries back and k forward again (0 <= k not
   exceeding the entries available): same entry, same text, same lines. *)
Theorem C14_back_forth : forall c s k,
  Inv s -> ehs s = false -> 0 <= k <= wi s ->
  let s1 := step_state c s (OBack k) in
  let s2 := step_state c s1 (OFwd k) in
  exists new1 new2,
    wl s1 = new1 ++ wl s /\ wi s1 = wi s - k + len new1 /\
    wl s2 = new2 ++ new1 ++ wl s /\ wi s2 = wi s + len new1 + len new2 /\
    text s2 = text s /\ sto (store s2) = sto (store s) /\
    (thr (th s) = false -> new1 = [] /\ new2 = []).
Proof. exact back_forth_any. Qed.
Print Assumptions C14_back_forth.

(* WITH prefix search (round 6): [p] is the captured search text or, at the
   first step, the text before the cursor; the displayed entry starts with it
   (always true at the first step: C14_prefix_self); [nmatch p l] counts the
   entries of l that start with p.  k steps back, k not exceeding the number
   of EARLIER entries that start with p, land on an entry starting with p, and
   k steps forward return to the same entry, text and lines. *)
Theorem C14_back_forth_prefix : forall c s k,
  Inv s -> ehs s = true ->
  let p := search_prefix s in
  startswith (text s) p = true ->
  1 <= k <= nmatch p (firstn (Z.to_nat (wi s)) (wl s)) ->
  let s1 := step_state c s (OBack k) in
  let s2 := step_state c s1 (OFwd k) in
  exists new1 new2,
    wl s1 = new1 ++ wl s /\ wi s1 < wi s + len new1 /\ startswith (text s1) p = true /\
    hst s1 = Some p /\
    wl s2 = new2 ++ new1 ++ wl s /\ wi s2 = wi s + len new1 + len new2 /\
    text s2 = text s /\ hst s2 = Some p /\ sto (store s2) = sto (store s) /\
    (thr (th s) = false -> new1 = [] /\ new2 = []).
Proof. exact back_forth_prefix. Qed.
Print Assumptions C14_back_forth_prefix.

Theorem C14_prefix_self : forall s,
  hst s = None -> startswith (text s) (search_prefix s) = true.
Proof. exact prefix_self. Qed.
Print Assumptions C14_prefix_self.

(* ... which the functions as they stood before the count fix did not satisfy
   for k = 0 (finding C14-F2, repaired in /repo: a count of 0 walked to the
   oldest entry, and forward 0 to the newest). *)
Theorem C14_back_forth_zero_pinned_refuted :
  exists c s, Inv s /\ ehs s = false /\ hst s = None /\ 0 <= 0 <= wi s /\
    wi (history_forward_pinned c (history_backward_pinned c s 0) 0) <> wi s.
Proof. exact back_forth_zero_pinned_refuted. Qed.
Print Assumptions C14_back_forth_zero_pinned_refuted.

(* With something selected, Up/Down (auto_up/auto_down) never browse. *)
Theorem C14_selection_no_browse : forall c s n g,
  sel s = true -> wi (auto_up c s n g) = wi s /\ wi (auto_down c s n g) = wi s.
Proof. exact selection_no_browse. Qed.
Print Assumptions C14_selection_no_browse.

(* With prefix search every entry reached by an up/down step (any count)
   starts with the prefix, which is the captured search text or, at the first
   step, the text before the cursor.  "Not moved" = the index moved exactly by
   the number of entries that arrived (0 for the base kind: C14_browse_pure). *)
Theorem C14_prefix : forall c s o,
  thr (th s) = false \/ Inv s -> ehs s = true -> is_hist_step o ->
  let s' := step_state c s o in
  wi s' - wi s = len (wl s') - len (wl s) \/
  startswith (text s')
             (match hst s with Some q => q | None => text_before_cursor (sdoc s) end) = true.
Proof. exact hist_step_prefix_all. Qed.
Print Assumptions C14_prefix.

(* The captured prefix survives every navigation operation (it is only reset
   by an edit, by reset, or by switching the search off). *)
Theorem C14_prefix_persists : forall c s o p,
  is_nav o -> ehs s = true -> hst s = Some p -> hst (step_state c s o) = Some p.
Proof. exact nav_hst_stable_any. Qed.
Print Assumptions C14_prefix_persists.

(* ... and every navigation sequence *)
Theorem C14_prefix_persists_seq : forall c ops s p,
  Forall is_nav ops -> ehs s = true -> hst s = Some p -> hst (steps c s ops) = Some p.
Proof. exact nav_steps_hst_any. Qed.
Print Assumptions C14_prefix_persists_seq.

(* Accept with a freshly computed rejecting verdict: nothing returned, lines,
   index and History untouched, cursor at the reported position clamped. *)
Theorem C14_accept_invalid_fresh : forall c s V p,
  vst s = V_UNKNOWN -> val c = Some V -> V (text s) (cur s) = Some p ->
  exists s', validate_and_handle c s = (s', None) /\
    (wl s' = wl s /\ store s' = store s /\ task s' = task s /\ tfin s' = tfin s /\ ehs s' = ehs s /\
     th s' = th s) /\
    wi s' = wi s /\ hst s' = hst s /\
    cur s' = Z.min (Z.max 0 p) (len (text s)) /\ vst s' = V_INVALID.
Proof. exact accept_invalid_fresh. Qed.
Print Assumptions C14_accept_invalid_fresh.

(* ... with a stale rejecting verdict nothing at all changes. *)
Theorem C14_accept_invalid_stale : forall c s,
  vst s = V_INVALID -> validate_and_handle c s = (s, None).
Proof. exact accept_invalid_stale. Qed.
Print Assumptions C14_accept_invalid_stale.

(* Accept with a passing verdict returns the buffer text; the History object
   becomes that of append_to_history; the buffer is kept or reset to a clean
   one-entry list according to the accept handler. *)
Theorem C14_accept_valid : forall c s,
  verdict_ok c s ->
  exists s', validate_and_handle c s = (s', Some (text s)) /\
    store s' = store (append_to_history s) /\
    (keep c = true -> wl s' = wl s /\ wi s' = wi s /\ cur s' = cur s /\ hst s' = hst s) /\
    (keep c = false -> wl s' = [[]] /\ wi s' = 0 /\ cur s' = 0 /\ hst s' = None /\
                       vst s' = V_UNKNOWN /\ task s' = None).
Proof. exact accept_valid. Qed.
Print Assumptions C14_accept_valid.

(* [Coh]: the History object is coherent (get_strings() = the stored history
   once loaded; before that _loaded_strings holds what this session appended).
   It holds in every reachable state. *)
Theorem C14_coherent : forall c ops storage e,
  Coh (store (steps c (init storage e) ops)).
Proof. intros. apply steps_coh; [reflexivity | apply coh_init]. Qed.
Print Assumptions C14_coherent.

(* append_to_history appends the text exactly once to the stored history (and
   get_strings() shows exactly the stored history afterwards) unless
   [stored_skip] ... *)
Theorem C14_append_once : forall s,
  thr (th s) = false -> Coh (store s) ->
  let S := sto (store s) in
  let h' := store (append_to_history s) in
  sto h' = (if stored_skip S (text s) then S else S ++ [text s]) /\ get_strings h' = sto h'.
Proof. exact append_spec. Qed.
Print Assumptions C14_append_once.

(* ... which holds exactly when the text is empty or equals the newest stored
   entry - whether or not the history had been loaded. *)
Theorem C14_append_skip : forall S t,
  stored_skip S t = true <-> t = [] \/ exists r, S = r ++ [t].
Proof. exact stored_skip_spec. Qed.
Print Assumptions C14_append_skip.

(* Accepting input that passes: the text is returned and the stored history
   gains it exactly once unless it is empty or equal to the newest entry. *)
Theorem C14_accept_history : forall c s,
  thr (th s) = false -> Coh (store s) -> verdict_ok c s ->
  let r := validate_and_handle c s in
  snd r = Some (text s) /\
  sto (store (fst r)) =
    (if stored_skip (sto (store s)) (text s) then sto (store s) else sto (store s) ++ [text s]) /\
  get_strings (store (fst r)) = sto (store (fst r)).
Proof. exact accept_history. Qed.
Print Assumptions C14_accept_history.

(* The WHOLE stored history over a WHOLE session, any operations, either kind
   of History object: it is the initial stored history followed by the log of
   the session, where [added c s o] - what one operation adds - is empty unless
   the operation is accept / append_to_history / reset(append_to_history=True);
   then it is at most the one displayed, non-empty text, for accept only the
   text that accept returns; browsing sequences have an empty log; for the
   InMemoryHistory/FileHistory kind the line is added unless it equals the
   newest stored entry. *)
Theorem C14_history_is_initial_plus_accepted : forall c ops s,
  sto (store (steps c s ops)) = sto (store s) ++ log c s ops.
Proof. exact steps_sto. Qed.
Print Assumptions C14_history_is_initial_plus_accepted.

Theorem C14_log_entry : forall c s o,
  added c s o = [] \/
  (added c s o = [text s] /\ text s <> [] /\
   match o with
   | OAccept => snd (validate_and_handle c s) = Some (text s)
   | OAppend | OReset _ _ true => True
   | _ => False
   end).
Proof. exact added_shape. Qed.
Print Assumptions C14_log_entry.

Theorem C14_log_dedupe : forall s,
  thr (th s) = false -> Coh (store s) ->
  app_list s = if stored_skip (sto (store s)) (text s) then [] else [text s].
Proof. exact app_list_base. Qed.
Print Assumptions C14_log_dedupe.

Theorem C14_browse_log_empty : forall c ops s, Forall browse_opT ops -> log c s ops = [].
Proof. exact browse_log_nil. Qed.
Print Assumptions C14_browse_log_empty.

(* Before the fix (finding C14-F1, repaired in /repo) the newest stored entry
   was not seen while the history was not loaded. *)
Theorem C14_append_dedupe_unloaded_pinned_refuted :
  exists s, Inv s /\ Coh (store s) /\ loaded (store s) = false /\
    sto (store s) = [text s] /\ text s <> [] /\
    sto (store (append_to_history_pinned s)) = [text s; text s].
Proof. exact append_dedupe_unloaded_pinned_refuted. Qed.
Print Assumptions C14_append_dedupe_unloaded_pinned_refuted.

(* The next prompt starts from a clean entry list: after reset and population
   the entries are the stored history followed by the new line, the new line
   is displayed with the requested cursor. *)
Theorem C14_reset_clean : forall s t cp,
  thr (th s) = false -> Coh (store s) ->
  let s' := pop_all (load_start (reset s t cp false)) in
  wl s' = sto (store s) ++ [t] /\ wi s' = len (sto (store s)) /\ text s' = t /\ cur s' = cp /\
  sto (store s') = sto (store s) /\ hst s' = None /\ vst s' = V_UNKNOWN.
Proof. exact reset_clean. Qed.
Print Assumptions C14_reset_clean.

(* The same when the population steps are interleaved in any way with any
   navigation operations - for either kind of History object ([CohK] = [Coh]
   of the store for the base kind, [CohT] for a ThreadedHistory, both hold in
   every reachable state: C14_coherent, C14_threaded_coherent; [is_popT] =
   navigation, population steps, steps of the loader thread). *)
Theorem C14_reset_clean_interleaved : forall c s t cp ops,
  CohK s -> Forall is_popT ops ->
  let s' := steps c (load_start (reset s t cp false)) ops in
  sto (store s') = sto (store s) /\ (tfin s' = true -> wl s' = sto (store s) ++ [t]).
Proof. exact reset_clean_interleaved_any. Qed.
Print Assumptions C14_reset_clean_interleaved.

(* ThreadedHistory: reset, load(), then the loader thread runs to its end
   (more thread steps than stored entries): the same clean entry list. *)
Theorem C14_reset_clean_threaded : forall c s t cp n,
  CohT s -> (length (sto (store s)) < n)%nat ->
  let s' := steps c (load_start (reset s t cp false)) (repeat OThread n) in
  wl s' = sto (store s) ++ [t] /\ wi s' = len (sto (store s)) /\ text s' = t /\ cur s' = cp /\
  sto (store s') = sto (store s) /\ hst s' = None /\ tfin s' = true.
Proof. exact reset_clean_threaded. Qed.
Print Assumptions C14_reset_clean_threaded.

(* A new session on the same storage (new History object: nothing loaded yet)
   starts from the stored history followed by an empty line. *)
Theorem C14_new_session_clean : forall s,
  thr (th s) = false -> Coh (store s) ->
  let s' := pop_all (load_start (reopen s)) in
  wl s' = sto (store s) ++ [[]] /\ wi s' = len (sto (store s)) /\ text s' = [] /\
  sto (store s') = sto (store s) /\ hst s' = None.
Proof. exact new_session_clean. Qed.
Print Assumptions C14_new_session_clean.

(* ... the same for a ThreadedHistory once its loader thread has run to the end *)
Theorem C14_new_session_clean_threaded : forall c s n,
  thr (th s) = true -> (length (sto (store s)) < n)%nat ->
  let s' := steps c (load_start (reopen s)) (repeat OThread n) in
  wl s' = sto (store s) ++ [[]] /\ wi s' = len (sto (store s)) /\ text s' = [] /\
  sto (store s') = sto (store s) /\ hst s' = None /\ tfin s' = true.
Proof. exact new_session_clean_threaded. Qed.
Print Assumptions C14_new_session_clean_threaded.

(* Accept in one session, recall in the next: the entries of the next session
   are the old stored history, the accepted text, the new line; one step back
   displays exactly the accepted text. *)
Theorem C14_recall_next_session : forall c s,
  thr (th s) = false -> Coh (store s) -> verdict_ok c s -> stored_skip (sto (store s)) (text s) = false ->
  let s1 := fst (validate_and_handle c s) in
  let s2 := pop_all (load_start (reopen s1)) in
  ehs s = false ->
  wl s2 = sto (store s) ++ [text s] ++ [[]] /\
  text (history_backward c s2 1) = text s /\
  wl (history_backward c s2 1) = wl s2.
Proof. exact recall_next_session. Qed.
Print Assumptions C14_recall_next_session.

(* A population step never changes which entry is displayed, nor the cursor,
   search text, validation state; it only prepends entries and shifts the
   index by as many.  ([Inv] holds in every reachable state: C14_index_inv.) *)
Theorem C14_population_safe : forall s,
  Inv s ->
  text (pop_step s) = text s /\ cur (pop_step s) = cur s /\ hst (pop_step s) = hst s /\
  vst (pop_step s) = vst s /\ pref (pop_step s) = pref s.
Proof. exact pop_step_displayed. Qed.
Print Assumptions C14_population_safe.

Theorem C14_population_prepends : forall s,
  wi (pop_step s) - wi s = len (wl (pop_step s)) - len (wl s) /\
  exists new, wl (pop_step s) = new ++ wl s.
Proof. exact pop_step_shift. Qed.
Print Assumptions C14_population_prepends.

(* ---------------------------------------------------------------------- *)
(* Key handlers with a numeric argument (named commands previous-history,
   next-history, beginning-of-history, end-of-history; vi k, j, <n>G, up, down;
   emacs c-p, c-n; basic up, down): [handler_op h a] is the operation the
   handler performs for KeyPressEvent._arg = a.  The handler bodies
   (Gen/C14_Handlers.v) are regenerated from /repo's source on every run;
   WHATEVER that table contains, a handler the model accepts is a navigation
   operation, so C14_browse_pure, C14_edits_kept_mixed, C14_prefix_persists,
   C14_history_is_initial_plus_accepted ... cover it for every argument. *)
Theorem C14_key_handlers_are_navigation : forall h a o,
  handler_op h a = Some o -> is_nav o.
Proof. exact handler_op_nav. Qed.
Print Assumptions C14_key_handlers_are_navigation.

(* ... and every row of the regenerated table is inside the model, for every
   numeric argument (a handler edited into a shape the model does not know makes
   this proof - or the generator - fail) *)
Theorem C14_key_handlers_all_modelled : forall r a,
  In r handlers -> calls_op (h_calls r) a <> None.
Proof. exact handlers_all_modelled. Qed.
Print Assumptions C14_key_handlers_all_modelled.

(* ---------------------------------------------------------------------- *)
(* yank-nth-arg / yank-last-arg (Model/C14_Layer.v: the layered state [xs] adds
   Buffer.yank_nth_arg_state to [hs]; [yank_nth_arg c x n last] is
   Buffer.yank_nth_arg(n, _yank_last_arg=last) with the word splitter
   _QUOTED_WORDS_RE).  They READ the history: for ANY argument (none, negative,
   out of range) and ANY yank state the command is total, the stored history,
   the kind of History object, the working index, the number of entries and every
   entry but the displayed one are unchanged. *)
Theorem C14_yank_reads_only : forall c x n last,
  Inv (xb x) ->
  let x' := yank_nth_arg c x n last in
  (sto (store (xb x')) = sto (store (xb x)) /\ th (xb x') = th (xb x) /\ wi (xb x') = wi (xb x) /\
   length (wl (xb x')) = length (wl (xb x)) /\
   (forall j, j <> Z.to_nat (wi (xb x)) -> nth_error (wl (xb x')) j = nth_error (wl (xb x)) j)) /\
  Inv (xb x').
Proof. exact yank_reads_only. Qed.
Print Assumptions C14_yank_reads_only.

(* Simulation: on the operations of the base model the layer's base state IS the
   base model, so every theorem of this file transfers to the layered sessions. *)
Theorem C14_layer_simulation : forall c ops x,
  xb (xsteps c x (base_ops ops)) = steps c (xb x) ops.
Proof. exact layer_simulation_steps. Qed.
Print Assumptions C14_layer_simulation.

(* The whole stored history over sessions that also use the yank commands: the
   initial one followed by the log, to which a yank contributes nothing. *)
Theorem C14_history_with_yank : forall c ops x,
  Inv (xb x) -> sto (store (xb (xsteps c x ops))) = sto (store (xb x)) ++ xlog c x ops.
Proof. exact xsteps_sto. Qed.
Print Assumptions C14_history_with_yank.

(* ---------------------------------------------------------------------- *)
(* "Accepting succeeds only if the validator passes" *)

(* For EVERY validator (it may look at the cursor) a cached VALID validation
   state is the validator's verdict on the current document - text and cursor -
   in every reachable state, for both kinds of History object, whatever the
   operations (edits, cursor movements, browsing, population, validate-while-
   typing runs, resets, ...). *)
Theorem C14_verdict_valid : forall c ops storage e k,
  let s := steps c (init_k storage e k) ops in
  vst s = V_VALID -> verdict c s = None.
Proof. exact verdict_valid. Qed.
Print Assumptions C14_verdict_valid.

(* ... hence input is accepted only if the validator passes on it. *)
Theorem C14_accept_only_if_valid : forall c ops storage e k,
  let s := steps c (init_k storage e k) ops in
  snd (validate_and_handle c s) <> None -> verdict c s = None.
Proof. exact accept_only_if_reachable. Qed.
Print Assumptions C14_accept_only_if_valid.

(* A cached INVALID state stays across cursor movements (the error is shown
   until the text changes); for a validator that does not look at the cursor
   ([cursor_free]) it, too, is the validator's verdict on the current document. *)
Theorem C14_verdict_cached : forall c ops storage e k,
  cursor_free c ->
  let s := steps c (init_k storage e k) ops in
  (vst s = V_VALID -> verdict c s = None) /\ (vst s = V_INVALID -> verdict c s <> None).
Proof. exact verdict_cached. Qed.
Print Assumptions C14_verdict_cached.

(* Before 826cb7e (finding C14-F4, repaired in /repo) the cursor setter kept a
   VALID verdict computed at another cursor position.  Witness: validator
   rejecting cursor position 0; type 'a' (validated while typing: VALID), the
   old setter moves the cursor to 0, Enter -> accepted. *)
Theorem C14_accept_only_if_valid_cursor_pinned_refuted :
  exists c s, (exists ops, s = steps c (init [] false) ops) /\
    let s' := set_cursor_pinned s 0 in
    verdict c s' <> None /\ snd (validate_and_handle c s') = Some (text s') /\ text s' <> [].
Proof. exact accept_only_if_cursor_pinned_refuted. Qed.
Print Assumptions C14_accept_only_if_valid_cursor_pinned_refuted.

(* ---------------------------------------------------------------------- *)
(* ThreadedHistory *)

(* the kind of the History object never changes *)
Theorem C14_history_kind : forall c ops s, thr (th (steps c s ops)) = thr (th s).
Proof. exact steps_thr. Qed.
Print Assumptions C14_history_kind.

(* [CohT]: the loaded strings followed by what the loader thread still has to
   read are the stored history, newest first (before the thread runs: the
   loaded strings are what this session appended).  It holds in every
   reachable state, whatever the interleaving of thread steps, appends,
   accepts, resets and new load() calls. *)
Theorem C14_threaded_coherent : forall c ops storage e,
  CohT (steps c (init_k storage e true) ops).
Proof. intros. apply steps_cohT, cohT_init. Qed.
Print Assumptions C14_threaded_coherent.

(* append over a ThreadedHistory: as soon as anything is loaded, the text is
   appended to the stored history exactly once unless it is empty or equals
   the newest STORED entry (the thread delivers the newest entry first; an
   append puts the newest in front). *)
Theorem C14_append_once_threaded : forall s,
  CohT s -> tstarted (th s) = true -> ls (store s) <> [] ->
  let S := sto (store s) in
  sto (store (append_to_history s)) = if stored_skip S (text s) then S else S ++ [text s].
Proof. exact thr_append_once. Qed.
Print Assumptions C14_append_once_threaded.

(* ... in general it is compared with the newest LOADED string ... *)
Theorem C14_append_skip_threaded : forall s,
  thr (th s) = true -> text s <> [] ->
  let t := text s in let h := store s in
  store (append_to_history s) = if skip_append h t then h else append_string h t.
Proof. exact thr_append_store. Qed.
Print Assumptions C14_append_skip_threaded.

(* ... so while nothing is loaded yet the newest stored entry is stored again
   (finding C14-F3: the C14-F1 fix is a no-op for ThreadedHistory). *)
Theorem C14_append_threaded_nothing_loaded_refuted :
  exists s, CohT s /\ Inv s /\ ls (store s) = [] /\ sto (store s) = [text s] /\ text s <> [] /\
    sto (store (append_to_history s)) = [text s; text s].
Proof. exact thr_nothing_loaded_refuted. Qed.
Print Assumptions C14_append_threaded_nothing_loaded_refuted.

(* Entries delivered by the thread (at the end of any operation) never change
   what is displayed; they are prepended and the index shifts by as many. *)
Theorem C14_threaded_population_safe : forall s,
  Inv s -> text (consume s) = text s /\ cur (consume s) = cur s /\ hst (consume s) = hst s /\
           exists new, wl (consume s) = new ++ wl s /\ wi (consume s) = wi s + len new.
Proof. exact consume_displayed. Qed.
Print Assumptions C14_threaded_population_safe.

(* Non-vacuity: the hypotheses are met by reachable, non-trivial states. *)
Example C14_hypotheses_satisfiable :
  let c := mkcfg true true (Some (run_validator [(VContains 120, PEnd 3)])) in
  let s := steps c (init [[97]; [97; 98]; [98]] true) [OLoadStart; OPop; OInsert [97]; OPop; OAutoUp 1 false] in
  Inv s /\ ehs s = true /\ hst s = Some [97] /\ wi s = 0 /\ text s = [97; 98] /\ verdict_ok c s /\
  tfin s = false /\ loaded (store s) = true.
Proof. vm_compute. repeat split; try discriminate. left; reflexivity. Qed.
Print Assumptions C14_hypotheses_satisfiable.

(* ... of C14_back_forth_prefix: typed "a" below [a; ab; b]: two earlier
   entries start with the prefix; and a ThreadedHistory state in which entries
   are still arriving *)
Example C14_hypotheses_satisfiable_prefix :
  let c := mkcfg false false None in
  let s := steps c (init [[97]; [97; 98]; [98]] true) [OLoadStart; OPopAll; OInsert [97]] in
  let sT := steps c (init_k [[97]; [97; 98]; [98]] true true) [OLoadStart; OThread; OInsert [97]] in
  (Inv s /\ ehs s = true /\ hst s = None /\ wi s = 3 /\
   nmatch (search_prefix s) (firstn (Z.to_nat (wi s)) (wl s)) = 2) /\
  (thr (th sT) = true /\ Inv sT /\ wi sT = 1 /\ tfin sT = false /\
   nmatch (search_prefix sT) (firstn (Z.to_nat (wi sT)) (wl sT)) = 0 /\
   wl (step_state c sT OThread) = [[97; 98]; [98]; [97]]).
Proof. vm_compute. repeat split; try discriminate. Qed.
Print Assumptions C14_hypotheses_satisfiable_prefix.
